import Octave.Lemmas.FlatLexBase
/-!
NUMBER lexemes as the emitter writes them (`intStr i`, Python's `repr(float)`): the decimal rendering and the model's
digit-by-digit evaluation are inverse, `Scan.number` stops exactly at the end of the lexeme, the three VERSION patterns
tried first do not match, and one `step` of the lexer yields exactly one NUMBER token (`step_int`, `step_float`, in the
format of `FlatLex.step_bool` / `step_null`).  Core Lean only (`Init/Data/Nat/ToString.lean` has the `Nat.toDigits` facts).
-/
namespace Octave
open Lexer Scan Emitter

/-! ### decimal digits -/

theorem isDigitA_of_isDigit (c : Char) (h : c.isDigit = true) : isDigitA c = true := by
  simp only [Char.isDigit, Bool.and_eq_true, decide_eq_true_eq] at h
  have h1 : (48 : Nat) ≤ c.val.toNat := by
    have := UInt32.le_iff_toNat_le.mp h.1; simpa using this
  have h2 : c.val.toNat ≤ 57 := by
    have := UInt32.le_iff_toNat_le.mp h.2; simpa using this
  simp only [isDigitA, Char.toNat, Bool.and_eq_true, decide_eq_true_eq]
  exact ⟨h1, h2⟩

theorem isDigitA_ascii (c : Char) (h : isDigitA c = true) : isAscii c = true := by
  simp only [isDigitA, isAscii, Bool.and_eq_true, decide_eq_true_eq] at *
  omega

/-- the model's `\d` accepts every ASCII digit, with its value. -/
theorem digit?_of_isDigitA (env : Env) (c : Char) (h : isDigitA c = true) : env.digit? c = some (c.toNat - 48) := by
  simp [Env.digit?, isDigitA_ascii c h, h]

theorem isDigit_of_isDigitA (env : Env) (c : Char) (h : isDigitA c = true) : env.isDigit c = true := by
  simp [Env.isDigit, digit?_of_isDigitA env c h]

/-- `natStr n` consists of ASCII digits only. -/
theorem natStr_digits (n : Nat) : ∀ c ∈ natStr n, isDigitA c = true := fun _ hc =>
  isDigitA_of_isDigit _ (Nat.isDigit_of_mem_toDigits (by decide) (by decide) hc)

theorem natStr_ne_nil (n : Nat) : natStr n ≠ [] := Nat.toDigits_ne_nil

theorem natStr_lt_ten (n : Nat) (h : n < 10) : natStr n = [Nat.digitChar n] := Nat.toDigits_of_lt_base h

theorem natStr_ge_ten (n : Nat) (h : 10 ≤ n) : natStr n = natStr (n / 10) ++ [Nat.digitChar (n % 10)] :=
  Nat.toDigits_of_base_le (by decide) h

/-- no leading zero, except for `0` itself. -/
theorem natStr_head_ne_zero (n : Nat) (hn : n ≠ 0) : (natStr n).head? ≠ some '0' := by
  induction n using Nat.strongRecOn with
  | _ n ih =>
    by_cases h : n < 10
    · rw [natStr_lt_ten n h]
      simp only [List.head?_cons, ne_eq, Option.some.injEq, Nat.digitChar_eq_zero]
      exact hn
    · have h10 : 10 ≤ n := by omega
      obtain ⟨d, t, hdt⟩ := List.exists_cons_of_ne_nil (natStr_ne_nil (n / 10))
      have := ih (n / 10) (by omega) (by omega)
      rw [natStr_ge_ten n h10]
      rw [hdt] at this ⊢
      simpa using this

theorem natStr_zero : natStr 0 = ['0'] := Nat.toDigits_zero 10

/-- the last digit. -/
theorem natStr_getLast (n : Nat) : (natStr n).getLast? = some (Nat.digitChar (n % 10)) := by
  by_cases h : n < 10
  · rw [natStr_lt_ten n h, Nat.mod_eq_of_lt h]; rfl
  · rw [natStr_ge_ten n (by omega), List.getLast?_append]; rfl

/-- the number of digits, arithmetically. -/
theorem natStr_length_le_iff (n k : Nat) (hk : 0 < k) : (natStr n).length ≤ k ↔ n < 10 ^ k :=
  Nat.length_toDigits_le_iff (by decide) hk

/-- the model's `int()` accumulator on ASCII digits is core's `Nat.ofDigitChars 10`. -/
theorem digitsVal_eq_ofDigitChars (env : Env) (ds : Str) (h : ∀ c ∈ ds, isDigitA c = true) (acc : Nat) :
    digitsVal env ds acc = Nat.ofDigitChars 10 ds acc := by
  induction ds generalizing acc with
  | nil => simp [digitsVal]
  | cons c cs ih =>
    have hc := h c (by simp)
    rw [digitsVal, Nat.ofDigitChars_cons, digit?_of_isDigitA env c hc, ih (fun x hx => h x (by simp [hx]))]
    simp [Nat.mul_comm]

/-- **digit-by-digit evaluation inverts the decimal rendering**, every natural number. -/
theorem digitsVal_natStr (env : Env) (n : Nat) : digitsVal env (natStr n) 0 = n := by
  rw [digitsVal_eq_ofDigitChars env _ (natStr_digits n)]
  exact Nat.ofDigitChars_ten_toDigits

theorem isDigitA_ne (c x : Char) (h : isDigitA c = true) (hx : isDigitA x = false) : c ≠ x := by
  intro e; subst e; rw [h] at hx; cases hx

/-- first character of `natStr n`. -/
theorem natStr_cons (n : Nat) : ∃ d t, natStr n = d :: t ∧ isDigitA d = true ∧ ∀ x ∈ t, isDigitA x = true := by
  obtain ⟨d, t, h⟩ := List.exists_cons_of_ne_nil (natStr_ne_nil n)
  have := natStr_digits n
  rw [h] at this
  exact ⟨d, t, h, this d (by simp), fun x hx => this x (by simp [hx])⟩

/-! ### `int(lexeme)` -/

theorem intOfLexeme_digits (env : Env) (ds : Str) (hd : ∀ c ∈ ds, isDigitA c = true) :
    intOfLexeme env ds = if ds.length > 4300 then .error (.py "ValueError".toList) else .ok (digitsVal env ds 0 : Nat) := by
  unfold intOfLexeme
  split
  next neg r heq =>
  split at heq
  · next r' =>
    -- a digit string does not start with `-`
    exfalso
    have := hd '-' (by simp)
    revert this; decide
  · cases heq
    rfl

theorem intOfLexeme_neg_digits (env : Env) (ds : Str) :
    intOfLexeme env ('-' :: ds) =
      if ds.length > 4300 then .error (.py "ValueError".toList) else .ok (-((digitsVal env ds 0 : Nat) : Int)) := by
  rfl

/-- **`int(str(i)) = i`** in the model, for every integer whose decimal text has at most 4300 digits. -/
theorem intOfLexeme_intStr (env : Env) (i : Int) (hlen : (natStr i.natAbs).length ≤ 4300) :
    intOfLexeme env (intStr i) = .ok i := by
  have hnl : ¬ (natStr i.natAbs).length > 4300 := by omega
  unfold intStr
  split
  · next hneg =>
    rw [intOfLexeme_neg_digits env _, if_neg hnl, digitsVal_natStr]
    congr 1; omega
  · next hpos =>
    rw [intOfLexeme_digits env _ (natStr_digits _), if_neg hnl, digitsVal_natStr]
    congr 1; omega

/-- beyond the limit `int()` refuses (CPython's `sys.int_max_str_digits`): a `ValueError`, not a wrong value. -/
theorem intOfLexeme_intStr_over (env : Env) (i : Int) (hlen : 4300 < (natStr i.natAbs).length) :
    intOfLexeme env (intStr i) = .error (.py "ValueError".toList) := by
  unfold intStr
  split
  · rw [intOfLexeme_neg_digits env _, if_pos hlen]
  · rw [intOfLexeme_digits env _ (natStr_digits _), if_pos hlen]


/-! ### the scanner `-?\d+\.?\d*(?:[eE][+-]?\d+)?` -/

/-- what may follow an integer lexeme so that NUMBER stops exactly there: end of input, or a character that is not a
digit (`\d`, Unicode digits included), not `.`, not `e`/`E` (newline, comma, `]`, space all qualify). -/
def NumTerm (env : Env) (rest : Str) : Prop :=
  ∀ c, rest.head? = some c → env.isDigit c = false ∧ c ≠ '.' ∧ c ≠ 'e' ∧ c ≠ 'E'

/-- what may follow a float lexeme: as `NumTerm`, and not `-` / `+` either (`1.5-x`, `1.5+x` are VERSION tokens). -/
def FloatTerm (env : Env) (rest : Str) : Prop :=
  ∀ c, rest.head? = some c → env.isDigit c = false ∧ c ≠ '.' ∧ c ≠ 'e' ∧ c ≠ 'E' ∧ c ≠ '-' ∧ c ≠ '+'

theorem FloatTerm.num {env : Env} {rest : Str} (h : FloatTerm env rest) : NumTerm env rest :=
  fun c hc => ⟨(h c hc).1, (h c hc).2.1, (h c hc).2.2.1, (h c hc).2.2.2.1⟩

theorem isDigit_dash (env : Env) : env.isDigit '-' = false := isDigit_ascii_false env '-' (by decide) (by decide)
theorem isDigit_plus (env : Env) : env.isDigit '+' = false := isDigit_ascii_false env '+' (by decide) (by decide)
theorem isDigit_dot (env : Env) : env.isDigit '.' = false := isDigit_ascii_false env '.' (by decide) (by decide)
theorem isDigit_e (env : Env) : env.isDigit 'e' = false := isDigit_ascii_false env 'e' (by decide) (by decide)

theorem many1_digits (env : Env) (ds rest : Str) (hne : ds ≠ []) (hd : ∀ x ∈ ds, env.isDigit x = true)
    (hr : ∀ c, rest.head? = some c → env.isDigit c = false) :
    many1 env.isDigit (ds ++ rest) = some (ds, rest) := by
  unfold many1
  rw [takeWhile_append_stop env.isDigit ds rest hd hr]
  cases ds with
  | nil => exact absurd rfl hne
  | cons _ _ => rfl

theorem many1_none (p : Char → Bool) (s : Str) (h : ∀ c, s.head? = some c → p c = false) : many1 p s = none := by
  cases s with
  | nil => rfl
  | cons c r => simp [many1, takeWhile, h c rfl]

theorem optChar_miss (p : Char → Bool) (s : Str) (h : ∀ c, s.head? = some c → p c = false) : optChar p s = ([], s) := by
  cases s with
  | nil => rfl
  | cons c r => simp [optChar, h c rfl]

theorem optChar_hit (p : Char → Bool) (c : Char) (r : Str) (h : p c = true) : optChar p (c :: r) = ([c], r) := by
  simp [optChar, h]

/-- the exponent part of `Scan.number` as a function of the mantissa read so far and what follows it. -/
def expPart (env : Env) (mant tail : Str) : Option (Str × Str) :=
  match tail with
  | e :: r4 =>
    if e == 'e' || e == 'E' then
      match many1 env.isDigit (optChar (fun c => c == '+' || c == '-') r4).2 with
      | some (ed, r6) => some (mant ++ e :: (optChar (fun c => c == '+' || c == '-') r4).1 ++ ed, r6)
      | none => some (mant, tail)
    else some (mant, tail)
  | [] => some (mant, tail)

/-- `Scan.number` in terms of its four mantissa scans. -/
theorem number_eq (env : Env) (s sg1 sg2 d r1 dt1 dt2 fr1 fr2 : Str)
    (h1 : optChar (· == '-') s = (sg1, sg2)) (h2 : many1 env.isDigit sg2 = some (d, r1))
    (h3 : optChar (· == '.') r1 = (dt1, dt2)) (h4 : takeWhile env.isDigit dt2 = (fr1, fr2)) :
    number env s = expPart env (sg1 ++ d ++ dt1 ++ fr1) fr2 := by
  unfold number expPart
  simp only [h1, h2, h3, h4]
  cases fr2 <;> rfl

theorem expPart_stop (env : Env) (mant tail : Str) (h : ∀ c, tail.head? = some c → c ≠ 'e' ∧ c ≠ 'E') :
    expPart env mant tail = some (mant, tail) := by
  cases tail with
  | nil => rfl
  | cons c r =>
    have := h c rfl
    simp [expPart, this.1, this.2]

/-- exponent `e[+-]digits`. -/
theorem expPart_exp (env : Env) (mant : Str) (sg : Char) (ed rest : Str) (hsg : sg = '+' ∨ sg = '-')
    (hne : ed ≠ []) (hd : ∀ x ∈ ed, env.isDigit x = true) (hr : ∀ c, rest.head? = some c → env.isDigit c = false) :
    expPart env mant ('e' :: sg :: (ed ++ rest)) = some (mant ++ 'e' :: sg :: ed, rest) := by
  have ho : optChar (fun c => c == '+' || c == '-') (sg :: (ed ++ rest)) = ([sg], ed ++ rest) :=
    optChar_hit _ sg _ (by rcases hsg with h | h <;> subst h <;> rfl)
  unfold expPart
  simp only [ho, many1_digits env ed rest hne hd hr]
  rw [if_pos (by decide)]
  simp

/-- sign handling: a lexeme starting with a digit has no sign; `-` is taken. -/
theorem optChar_dash_digits (env : Env) (ds tail : Str) (hne : ds ≠ []) (hd : ∀ x ∈ ds, env.isDigit x = true) :
    optChar (· == '-') (ds ++ tail) = ([], ds ++ tail) := by
  apply optChar_miss
  intro c hc
  cases ds with
  | nil => exact absurd rfl hne
  | cons d t =>
    have : d = c := by simpa using hc
    subst this
    have hdd := hd d (by simp)
    cases hcd : (d == '-') with
    | false => rfl
    | true =>
      have : d = '-' := by simpa using hcd
      subst this; rw [isDigit_dash] at hdd; cases hdd

/-- the sign of a lexeme: nothing or `-`. -/
def signStr (neg : Bool) : Str := if neg then ['-'] else []

theorem optChar_sign (env : Env) (neg : Bool) (ds tail : Str) (hne : ds ≠ []) (hd : ∀ x ∈ ds, env.isDigit x = true) :
    optChar (· == '-') (signStr neg ++ (ds ++ tail)) = (signStr neg, ds ++ tail) := by
  cases neg with
  | false => exact optChar_dash_digits env ds tail hne hd
  | true => rfl

/-- **integer lexeme**: `[-]digits` followed by a terminator is matched exactly. -/
theorem number_int (env : Env) (neg : Bool) (ds rest : Str) (hne : ds ≠ []) (hd : ∀ x ∈ ds, env.isDigit x = true)
    (hterm : NumTerm env rest) :
    number env (signStr neg ++ (ds ++ rest)) = some (signStr neg ++ ds, rest) := by
  have h2 := many1_digits env ds rest hne hd (fun c hc => (hterm c hc).1)
  have h3 : optChar (· == '.') rest = ([], rest) :=
    optChar_miss _ _ (fun c hc => by simpa using (hterm c hc).2.1)
  have h4 : takeWhile env.isDigit rest = ([], rest) := by
    have := takeWhile_append_stop env.isDigit [] rest (by simp) (fun c hc => (hterm c hc).1)
    simpa using this
  rw [number_eq env _ _ _ _ _ _ _ _ _ (optChar_sign env neg ds rest hne hd) h2 h3 h4,
    expPart_stop env _ rest (fun c hc => ⟨(hterm c hc).2.2.1, (hterm c hc).2.2.2⟩)]
  simp

/-- mantissa `[-]digits.digits` followed by `tail` (an exponent or the terminator). -/
theorem number_dot (env : Env) (neg : Bool) (d1 d2 tail : Str) (hne : d1 ≠ []) (hd1 : ∀ x ∈ d1, env.isDigit x = true)
    (hd2 : ∀ x ∈ d2, env.isDigit x = true) (ht : ∀ c, tail.head? = some c → env.isDigit c = false) :
    number env (signStr neg ++ (d1 ++ '.' :: (d2 ++ tail))) = expPart env (signStr neg ++ d1 ++ '.' :: d2) tail := by
  have h2 := many1_digits env d1 ('.' :: (d2 ++ tail)) hne hd1 (fun c hc => by
    have : c = '.' := by simpa using hc.symm
    subst this; exact isDigit_dot env)
  have h3 : optChar (· == '.') ('.' :: (d2 ++ tail)) = (['.'], d2 ++ tail) := rfl
  have h4 := takeWhile_append_stop env.isDigit d2 tail hd2 ht
  rw [number_eq env _ _ _ _ _ _ _ _ _ (optChar_sign env neg d1 _ hne hd1) h2 h3 h4]
  simp

/-- mantissa `[-]digits` followed by `tail` that does not start with a digit or `.`. -/
theorem number_nodot (env : Env) (neg : Bool) (d1 tail : Str) (hne : d1 ≠ []) (hd1 : ∀ x ∈ d1, env.isDigit x = true)
    (ht : ∀ c, tail.head? = some c → env.isDigit c = false ∧ c ≠ '.') :
    number env (signStr neg ++ (d1 ++ tail)) = expPart env (signStr neg ++ d1) tail := by
  have h2 := many1_digits env d1 tail hne hd1 (fun c hc => (ht c hc).1)
  have h3 : optChar (· == '.') tail = ([], tail) :=
    optChar_miss _ _ (fun c hc => by simpa using (ht c hc).2)
  have h4 : takeWhile env.isDigit tail = ([], tail) := by
    have := takeWhile_append_stop env.isDigit [] tail (by simp) (fun c hc => (ht c hc).1)
    simpa using this
  rw [number_eq env _ _ _ _ _ _ _ _ _ (optChar_sign env neg d1 tail hne hd1) h2 h3 h4]
  simp

/-! ### the VERSION patterns tried before NUMBER do not match -/

theorem twoParts_nodot (env : Env) (d1 tail : Str) (hne : d1 ≠ []) (hd1 : ∀ x ∈ d1, env.isDigit x = true)
    (ht : ∀ c, tail.head? = some c → env.isDigit c = false ∧ c ≠ '.') :
    twoParts env (d1 ++ tail) = none := by
  unfold twoParts
  rw [many1_digits env d1 tail hne hd1 (fun c hc => (ht c hc).1)]
  split
  · next d r heq =>
    exfalso
    have h1 : tail = '.' :: r := by
      have := Option.some.inj heq
      exact (Prod.mk.inj this).2
    exact (ht '.' (by rw [h1]; rfl)).2 rfl
  · rfl

theorem twoParts_dot (env : Env) (d1 d2 tail : Str) (hne1 : d1 ≠ []) (hd1 : ∀ x ∈ d1, env.isDigit x = true)
    (hne2 : d2 ≠ []) (hd2 : ∀ x ∈ d2, env.isDigit x = true) (ht : ∀ c, tail.head? = some c → env.isDigit c = false) :
    twoParts env (d1 ++ '.' :: (d2 ++ tail)) = some (d1 ++ '.' :: d2, tail) := by
  unfold twoParts
  rw [many1_digits env d1 ('.' :: (d2 ++ tail)) hne1 hd1 (fun c hc => by
    have : c = '.' := by simpa using hc.symm
    subst this; exact isDigit_dot env)]
  simp only [many1_digits env d2 tail hne2 hd2 ht]

/-- no `.` after the first digit run (an integer, or `1e+16`): none of the three VERSION patterns matches. -/
theorem versions_none_nodot (env : Env) (d1 tail : Str) (hne : d1 ≠ []) (hd1 : ∀ x ∈ d1, env.isDigit x = true)
    (ht : ∀ c, tail.head? = some c → env.isDigit c = false ∧ c ≠ '.') :
    version3 env (d1 ++ tail) = none ∧ version2pre env (d1 ++ tail) = none ∧ version2build env (d1 ++ tail) = none := by
  have h := twoParts_nodot env d1 tail hne hd1 ht
  refine ⟨?_, ?_, ?_⟩
  · unfold version3; rw [h]
  · unfold version2pre; rw [h]
  · unfold version2build; rw [h]

theorem prerelease_none (s : Str) (h : s.head? ≠ some '-') : prerelease s = none := by
  unfold prerelease
  split
  · next r => exact absurd rfl h
  · rfl

theorem build_none (s : Str) (h : s.head? ≠ some '+') : build s = none := by
  unfold build
  split
  · next r => exact absurd rfl h
  · rfl

/-- `digits.digits` followed by something that is not a digit, `.`, `-`, `+` (an exponent `e…`, or a float terminator):
none of the three VERSION patterns matches. -/
theorem versions_none_dot (env : Env) (d1 d2 tail : Str) (hne1 : d1 ≠ []) (hd1 : ∀ x ∈ d1, env.isDigit x = true)
    (hne2 : d2 ≠ []) (hd2 : ∀ x ∈ d2, env.isDigit x = true)
    (ht : ∀ c, tail.head? = some c → env.isDigit c = false ∧ c ≠ '.' ∧ c ≠ '-' ∧ c ≠ '+') :
    version3 env (d1 ++ '.' :: (d2 ++ tail)) = none ∧ version2pre env (d1 ++ '.' :: (d2 ++ tail)) = none ∧
      version2build env (d1 ++ '.' :: (d2 ++ tail)) = none := by
  have h := twoParts_dot env d1 d2 tail hne1 hd1 hne2 hd2 (fun c hc => (ht c hc).1)
  refine ⟨?_, ?_, ?_⟩
  · unfold version3; rw [h]
    split
    · next ab r heq =>
      exfalso
      have h1 : tail = '.' :: r := (Prod.mk.inj (Option.some.inj heq)).2
      exact (ht '.' (by rw [h1]; rfl)).2.1 rfl
    · rfl
  · unfold version2pre; rw [h]
    simp only [prerelease_none tail (fun hc => (ht '-' hc).2.2.1 rfl)]
  · unfold version2build; rw [h]
    simp only [build_none tail (fun hc => (ht '+' hc).2.2.2 rfl), Option.map_none]

/-! ### `matchPattern` on a NUMBER lexeme -/

/-- a lexeme that starts with a digit, not matched by a VERSION pattern. -/
theorem matchPattern_digit (env : Env) (prev : Option Char) (s lex rest : Str)
    (hd : ∀ c, s.head? = some c → env.isDigit c = true) (hs : s ≠ [])
    (h3 : version3 env s = none) (h2p : version2pre env s = none) (h2b : version2build env s = none)
    (hn : number env s = some (lex, rest)) :
    matchPattern env false prev s = numberMatch env lex rest := by
  cases s with
  | nil => exact absurd rfl hs
  | cons c r =>
    unfold matchPattern
    simp only [Bool.false_eq_true, if_false, hd c rfl, if_true]
    unfold matchDigit
    simp only [h3, h2p, h2b, hn]

/-- a lexeme that starts with `-` and a digit. -/
theorem matchPattern_dash (env : Env) (prev : Option Char) (d : Char) (t lex rest : Str) (hd : env.isDigit d = true)
    (hn : number env ('-' :: d :: t) = some (lex, rest)) :
    matchPattern env false prev ('-' :: d :: t) = numberMatch env lex rest := by
  have hd1 : (('-' : Char) == d) = false := by
    cases h : (('-' : Char) == d) with
    | false => rfl
    | true =>
      have : '-' = d := by simpa using h
      subst this; rw [isDigit_dash] at hd; cases hd
  have hd2 : (('>' : Char) == d) = false := by
    cases h : (('>' : Char) == d) with
    | false => rfl
    | true =>
      have : '>' = d := by simpa using h
      subst this
      rw [isDigit_ascii_false env '>' (by decide) (by decide)] at hd; cases hd
  have l1 : lit "---".toList ('-' :: d :: t) = none := by
    show lit ('-' :: '-' :: '-' :: []) ('-' :: d :: t) = none
    simp [lit, hd1]
  have l2 : lit "->".toList ('-' :: d :: t) = none := by
    show lit ('-' :: '>' :: []) ('-' :: d :: t) = none
    simp [lit, hd2]
  unfold matchPattern
  simp only [Bool.false_eq_true, if_false, isDigit_dash]
  rw [if_neg (by decide), if_pos (by decide)]
  unfold matchDash
  simp only [l1, l2, hn]

theorem contains_false (t : Str) (c : Char) (h : ∀ x ∈ t, x ≠ c) : t.contains c = false := by
  rw [List.contains_eq_mem]
  simp only [decide_eq_false_iff_not]
  intro hm; exact h c hm rfl

theorem contains_true (t : Str) (c : Char) (h : c ∈ t) : t.contains c = true := List.contains_iff_mem.mpr h

/-! ### one step on a NUMBER lexeme -/

def tInt (i : Int) (l c : Nat) : Token := { type := .number, value := .int i, line := l, col := c, raw := some (intStr i) }
def tFloat (r : Str) (l c : Nat) : Token := { type := .number, value := .float r, line := l, col := c, raw := some r }

def mNumber (v : TVal) (lex rest : Str) : Match := { type := .number, value := v, text := lex, rest := rest, raw := some lex }

/-- from `matchPattern` to `step` for a NUMBER match. -/
theorem step_number (env : Env) (lenient : Bool) (st : LState) (v : TVal) (lex rest : Str) (hr : Ready st)
    (hne : lex ≠ []) (hnl : ∀ d ∈ lex, d ≠ '\n') (hsp : lex.head? ≠ some ' ')
    (hm : matchPattern env false st.prev (lex ++ rest) = .ok (some (mNumber v lex rest))) :
    ∃ st', step env lenient st (lex ++ rest) = .ok (st', rest) ∧
      Adv st st' [{ type := .number, value := v, line := st.line, col := st.col, raw := some lex }] [] 0
        (st.col + lex.length) lex.getLast? := by
  obtain ⟨c, t, hlex⟩ := List.exists_cons_of_ne_nil hne
  subst hlex
  have hc : c ≠ ' ' := by
    intro e; apply hsp; rw [e]; rfl
  have hm' : matchPattern env st.blank st.prev (c :: (t ++ rest)) = .ok (some (mNumber v (c :: t) rest)) := by
    rw [hr.blank]; exact hm
  have hstep := pattern_step_eq env lenient st c (t ++ rest) (mNumber v (c :: t) rest) hr.noSpan hc hm'
    (by simp [mNumber]) (by simp [mNumber])
  refine ⟨_, hstep, ?_⟩
  have hadv := advancePos_noNl st.line st.col (c :: t) hnl
  obtain ⟨lc, hlc⟩ : ∃ lc, (c :: t).getLast? = some lc := by
    cases h : (c :: t).getLast? with
    | none => exact absurd (List.getLast?_eq_none_iff.mp h) hne
    | some lc => exact ⟨lc, rfl⟩
  refine ⟨⟨hr.spans, by simp [patNext, hr.blank]⟩, rfl, rfl, rfl, ?_, ?_, ?_⟩
  · simp [patNext, mNumber, hadv]
  · simp [patNext, mNumber, hadv]
  · simp only [patNext, mNumber, hlc]; rfl

/-- a `ValueError` / overflow inside the pattern loop is re-raised as a positioned `LexerError` E005. -/
theorem pattern_step_error (env : Env) (lenient : Bool) (st : LState) (c : Char) (r : Str) (e : Exc)
    (hspan : atSpanStart st = false) (hc : c ≠ ' ')
    (hm : matchPattern env st.blank st.prev (c :: r) = .error e) :
    step env lenient st (c :: r) = .error (.lexer "E005".toList st.line st.col) := by
  have hc' : (c == ' ') = false := by simpa using hc
  unfold step
  simp only [hspan, hc', hm, Bool.false_eq_true, if_false, bind, Except.bind]

/-! ### integers -/

theorem intStr_eq (i : Int) : intStr i = signStr (decide (i < 0)) ++ natStr i.natAbs := by
  unfold intStr signStr
  split <;> simp [*]

theorem intStr_mem (i : Int) (x : Char) (hx : x ∈ intStr i) : x = '-' ∨ isDigitA x = true := by
  rw [intStr_eq] at hx
  rcases List.mem_append.mp hx with h | h
  · left
    unfold signStr at h
    split at h <;> simp at h
    exact h
  · exact Or.inr (natStr_digits _ x h)

theorem intStr_ne_nil (i : Int) : intStr i ≠ [] := by
  rw [intStr_eq]; simp [natStr_ne_nil]

theorem intStr_getLast (i : Int) : (intStr i).getLast? = some (Nat.digitChar (i.natAbs % 10)) := by
  rw [intStr_eq, List.getLast?_append, natStr_getLast]; rfl

theorem intStr_not (i : Int) (c : Char) (h1 : c ≠ '-') (h2 : isDigitA c = false) : ∀ x ∈ intStr i, x ≠ c := by
  intro x hx e
  subst e
  rcases intStr_mem i x hx with h | h
  · exact h1 h
  · rw [h] at h2; cases h2

theorem numberMatch_int (env : Env) (i : Int) (rest : Str) (hlen : (natStr i.natAbs).length ≤ 4300) :
    numberMatch env (intStr i) rest = .ok (some (mNumber (.int i) (intStr i) rest)) := by
  unfold numberMatch
  rw [contains_false _ '.' (intStr_not i '.' (by decide) (by decide)),
    contains_false _ 'e' (intStr_not i 'e' (by decide) (by decide)),
    contains_false _ 'E' (intStr_not i 'E' (by decide) (by decide))]
  simp only [Bool.or_self, Bool.false_eq_true, if_false, intOfLexeme_intStr env i hlen]
  rfl

theorem numberMatch_int_over (env : Env) (i : Int) (rest : Str) (hlen : 4300 < (natStr i.natAbs).length) :
    numberMatch env (intStr i) rest = .error (.py "ValueError".toList) := by
  unfold numberMatch
  rw [contains_false _ '.' (intStr_not i '.' (by decide) (by decide)),
    contains_false _ 'e' (intStr_not i 'e' (by decide) (by decide)),
    contains_false _ 'E' (intStr_not i 'E' (by decide) (by decide))]
  simp only [Bool.or_self, Bool.false_eq_true, if_false, intOfLexeme_intStr_over env i hlen]

theorem natStr_isDigit (env : Env) (n : Nat) : ∀ x ∈ natStr n, env.isDigit x = true :=
  fun x hx => isDigit_of_isDigitA env x (natStr_digits n x hx)

/-- `Scan.number` on the emitted text of an integer followed by a terminator. -/
theorem number_intStr (env : Env) (i : Int) (rest : Str) (hterm : NumTerm env rest) :
    number env (intStr i ++ rest) = some (intStr i, rest) := by
  rw [intStr_eq, List.append_assoc]
  exact number_int env _ _ rest (natStr_ne_nil _) (natStr_isDigit env _) hterm

/-- the pattern loop on the emitted text of an integer: the NUMBER pattern is the one that matches, on exactly `intStr i`. -/
theorem matchPattern_int (env : Env) (prev : Option Char) (i : Int) (rest : Str) (hterm : NumTerm env rest) :
    matchPattern env false prev (intStr i ++ rest) = numberMatch env (intStr i) rest := by
  have hn := number_intStr env i rest hterm
  obtain ⟨d, t, hdt, hd, _⟩ := natStr_cons i.natAbs
  by_cases hneg : i < 0
  · have e : intStr i ++ rest = '-' :: d :: (t ++ rest) := by
      rw [intStr_eq, hdt]; simp [signStr, hneg]
    rw [e] at hn ⊢
    exact matchPattern_dash env prev d (t ++ rest) _ _ (isDigit_of_isDigitA env d hd) hn
  · have e : intStr i = natStr i.natAbs := by
      rw [intStr_eq]; simp [signStr, hneg]
    rw [e] at hn ⊢
    obtain ⟨h3, h2p, h2b⟩ := versions_none_nodot env (natStr i.natAbs) rest (natStr_ne_nil _) (natStr_isDigit env _)
      (fun c hc => ⟨(hterm c hc).1, (hterm c hc).2.1⟩)
    refine matchPattern_digit env prev _ _ _ ?_ (by simp [natStr_ne_nil]) h3 h2p h2b hn
    intro c hc
    rw [hdt] at hc
    have : d = c := by simpa using hc
    subst this
    exact isDigit_of_isDigitA env d hd

theorem intStr_noNl (i : Int) : ∀ d ∈ intStr i, d ≠ '\n' := intStr_not i '\n' (by decide) (by decide)

theorem intStr_head_ne_space (i : Int) : (intStr i).head? ≠ some ' ' := by
  intro h
  have := intStr_not i ' ' (by decide) (by decide) ' ' (List.mem_of_mem_head? h)
  exact this rfl

/-- **an integer as the emitter writes it: one NUMBER token carrying exactly that integer.**  Any state between tokens,
both lexer modes, any terminator (`NumTerm`), at most 4300 digits. -/
theorem step_int (env : Env) (lenient : Bool) (st : LState) (i : Int) (rest : Str) (hr : Ready st)
    (hterm : NumTerm env rest) (hlen : (natStr i.natAbs).length ≤ 4300) :
    ∃ st', step env lenient st (intStr i ++ rest) = .ok (st', rest) ∧
      Adv st st' [tInt i st.line st.col] [] 0 (st.col + (intStr i).length) (some (Nat.digitChar (i.natAbs % 10))) := by
  have hm : matchPattern env false st.prev (intStr i ++ rest) = .ok (some (mNumber (.int i) (intStr i) rest)) := by
    rw [matchPattern_int env st.prev i rest hterm, numberMatch_int env i rest hlen]
  have h := step_number env lenient st (.int i) (intStr i) rest hr (intStr_ne_nil i) (intStr_noNl i) (intStr_head_ne_space i) hm
  rw [intStr_getLast] at h
  exact h

/-- **beyond the digit limit** the lexer refuses with a positioned error at the start of the lexeme. -/
theorem step_int_over (env : Env) (lenient : Bool) (st : LState) (i : Int) (rest : Str) (hr : Ready st)
    (hterm : NumTerm env rest) (hlen : 4300 < (natStr i.natAbs).length) :
    step env lenient st (intStr i ++ rest) = .error (.lexer "E005".toList st.line st.col) := by
  have hm : matchPattern env false st.prev (intStr i ++ rest) = .error (.py "ValueError".toList) := by
    rw [matchPattern_int env st.prev i rest hterm, numberMatch_int_over env i rest hlen]
  obtain ⟨c, t, hlex⟩ := List.exists_cons_of_ne_nil (intStr_ne_nil i)
  have hc : c ≠ ' ' := by
    intro e; apply intStr_head_ne_space i; rw [hlex, e]; rfl
  rw [hlex] at hm ⊢
  rw [← hr.blank] at hm
  exact pattern_step_error env lenient st c (t ++ rest) _ hr.noSpan hc hm

/-! ### floats: the texts Python's `repr(float)` produces for finite values -/

/-- `e[+-]\d+` up to the end of the text. -/
def isExpTail : Str → Bool
  | 'e' :: sg :: ds => (sg == '+' || sg == '-') && !ds.isEmpty && ds.all isDigitA
  | _ => false

/-- `\d+\.\d+(e[+-]\d+)?` or `\d+e[+-]\d+` (whole text). -/
def isFloatBody (s : Str) : Bool :=
  !(takeWhile isDigitA s).1.isEmpty &&
  match (takeWhile isDigitA s).2 with
  | '.' :: r2 =>
    !(takeWhile isDigitA r2).1.isEmpty && ((takeWhile isDigitA r2).2.isEmpty || isExpTail (takeWhile isDigitA r2).2)
  | r1 => isExpTail r1

/-- the shape of `repr(x)` for a finite float `x`: `-?\d+\.\d+(e[+-]\d+)?` or `-?\d+e[+-]\d+`
(`100.0`, `-0.5`, `1e+16`, `2.5e-07`, `5e-324`, `1.7976931348623157e+308`; not `inf`, `-inf`, `nan`). -/
def isFloatRepr (r : Str) : Bool :=
  match r with
  | '-' :: s => isFloatBody s
  | _ => isFloatBody r

/-- the parts of such a text. -/
structure FloatParts where
  neg : Bool
  d1 : Str
  frac : Option Str
  exp : Option (Char × Str)

def fracStr : Option Str → Str
  | none => []
  | some d2 => '.' :: d2
def expStr : Option (Char × Str) → Str
  | none => []
  | some (sg, ed) => 'e' :: sg :: ed
def FloatParts.text (p : FloatParts) : Str := signStr p.neg ++ (p.d1 ++ (fracStr p.frac ++ expStr p.exp))

/-- a non-empty run of ASCII digits. -/
def Digits (s : Str) : Prop := s ≠ [] ∧ ∀ x ∈ s, isDigitA x = true

structure FloatParts.OK (p : FloatParts) : Prop where
  d1 : Digits p.d1
  frac : ∀ d2, p.frac = some d2 → Digits d2
  exp : ∀ sg ed, p.exp = some (sg, ed) → (sg = '+' ∨ sg = '-') ∧ Digits ed
  some : p.frac ≠ none ∨ p.exp ≠ none

theorem Digits.env {s : Str} (h : Digits s) (env : Env) : ∀ x ∈ s, env.isDigit x = true :=
  fun x hx => isDigit_of_isDigitA env x (h.2 x hx)

theorem takeWhile_all (p : Char → Bool) (s : Str) : ∀ x ∈ (takeWhile p s).1, p x = true := by
  induction s with
  | nil => simp [takeWhile]
  | cons c cs ih =>
    unfold takeWhile
    by_cases hc : p c = true
    · simp only [hc, if_true]
      intro x hx
      rcases List.mem_cons.mp hx with h | h
      · rw [h]; exact hc
      · exact ih x h
    · simp [hc]

theorem isExpTail_shape (t : Str) (h : isExpTail t = true) :
    ∃ sg ed, t = 'e' :: sg :: ed ∧ (sg = '+' ∨ sg = '-') ∧ Digits ed := by
  unfold isExpTail at h
  split at h
  · next sg ds =>
    simp only [Bool.and_eq_true, Bool.or_eq_true, beq_iff_eq, Bool.not_eq_true', List.isEmpty_eq_false_iff,
      List.all_eq_true] at h
    exact ⟨sg, ds, rfl, h.1.1, h.1.2, h.2⟩
  · cases h

theorem isFloatBody_shape (s : Str) (h : isFloatBody s = true) :
    ∃ d1 frac exp, s = d1 ++ (fracStr frac ++ expStr exp) ∧ (FloatParts.OK ⟨false, d1, frac, exp⟩) := by
  unfold isFloatBody at h
  have hs := takeWhile_append isDigitA s
  have ha := takeWhile_all isDigitA s
  generalize (takeWhile isDigitA s).1 = d1 at *
  generalize (takeWhile isDigitA s).2 = r1 at *
  simp only [Bool.and_eq_true, Bool.not_eq_true', List.isEmpty_eq_false_iff] at h
  obtain ⟨hd1, h⟩ := h
  split at h
  · next r2 =>
    have hs2 := takeWhile_append isDigitA r2
    have ha2 := takeWhile_all isDigitA r2
    generalize (takeWhile isDigitA r2).1 = d2 at *
    generalize (takeWhile isDigitA r2).2 = r3 at *
    simp only [Bool.and_eq_true, Bool.not_eq_true', List.isEmpty_eq_false_iff, Bool.or_eq_true, List.isEmpty_iff] at h
    obtain ⟨hd2, h⟩ := h
    rcases h with h | h
    · refine ⟨d1, some d2, none, ?_, ⟨⟨hd1, ha⟩, ?_, ?_, Or.inl (by simp)⟩⟩
      · rw [← hs, ← hs2, h]; simp [fracStr, expStr]
      · intro d hd; cases hd; exact ⟨hd2, ha2⟩
      · intro sg ed he; cases he
    · obtain ⟨sg, ed, he, hsg, hed⟩ := isExpTail_shape r3 h
      refine ⟨d1, some d2, some (sg, ed), ?_, ⟨⟨hd1, ha⟩, ?_, ?_, Or.inl (by simp)⟩⟩
      · rw [← hs, ← hs2, he]; simp [fracStr, expStr]
      · intro d hd; cases hd; exact ⟨hd2, ha2⟩
      · intro sg' ed' he'; cases he'; exact ⟨hsg, hed⟩
  · obtain ⟨sg, ed, he, hsg, hed⟩ := isExpTail_shape r1 h
    refine ⟨d1, none, some (sg, ed), ?_, ⟨⟨hd1, ha⟩, ?_, ?_, Or.inr (by simp)⟩⟩
    · rw [← hs, he]; simp [fracStr, expStr]
    · intro d hd; cases hd
    · intro sg' ed' he'; cases he'; exact ⟨hsg, hed⟩

/-- every text of the `repr(float)` shape splits into sign, integer digits, fraction, exponent. -/
theorem isFloatRepr_shape (r : Str) (h : isFloatRepr r = true) : ∃ p : FloatParts, p.OK ∧ p.text = r := by
  unfold isFloatRepr at h
  split at h
  · next s =>
    obtain ⟨d1, frac, exp, hs, hok⟩ := isFloatBody_shape s h
    exact ⟨⟨true, d1, frac, exp⟩, ⟨hok.d1, hok.frac, hok.exp, hok.some⟩, by simp [FloatParts.text, signStr, hs]⟩
  · obtain ⟨d1, frac, exp, hs, hok⟩ := isFloatBody_shape r h
    exact ⟨⟨false, d1, frac, exp⟩, hok, by simp [FloatParts.text, signStr, hs]⟩

/-- what follows the integer digits of a float text, with the continuation appended. -/
theorem FloatParts.text_append (p : FloatParts) (rest : Str) :
    p.text ++ rest = signStr p.neg ++ (p.d1 ++ (fracStr p.frac ++ expStr p.exp ++ rest)) := by
  simp [FloatParts.text, List.append_assoc]

theorem exp_head (sg : Char) (ed rest : Str) (env : Env) :
    ∀ c, ('e' :: sg :: (ed ++ rest)).head? = some c → env.isDigit c = false ∧ c ≠ '.' ∧ c ≠ '-' ∧ c ≠ '+' := by
  intro c hc
  have : c = 'e' := by simpa using hc.symm
  subst this
  exact ⟨isDigit_e env, by decide, by decide, by decide⟩

/-- `Scan.number` on a float text followed by a terminator matches exactly the text. -/
theorem number_floatParts (env : Env) (p : FloatParts) (hp : p.OK) (rest : Str) (hterm : NumTerm env rest) :
    number env (p.text ++ rest) = some (p.text, rest) := by
  obtain ⟨neg, d1, frac, exp⟩ := p
  obtain ⟨h1, hf, he, hsome⟩ := hp
  have hrd : ∀ c, rest.head? = some c → env.isDigit c = false := fun c hc => (hterm c hc).1
  rw [FloatParts.text_append]
  cases frac with
  | some d2 =>
    have h2 := hf d2 rfl
    cases exp with
    | none =>
      have e : fracStr (some d2) ++ expStr none ++ rest = '.' :: (d2 ++ rest) := by simp [fracStr, expStr]
      simp only [e]
      rw [number_dot env neg d1 d2 rest h1.1 (h1.env env) (h2.env env) hrd,
        expPart_stop env _ rest (fun c hc => ⟨(hterm c hc).2.2.1, (hterm c hc).2.2.2⟩)]
      simp [FloatParts.text, fracStr, expStr]
    | some se =>
      obtain ⟨sg, ed⟩ := se
      obtain ⟨hsg, h3⟩ := he sg ed rfl
      have e : fracStr (some d2) ++ expStr (some (sg, ed)) ++ rest = '.' :: (d2 ++ 'e' :: sg :: (ed ++ rest)) := by
        simp [fracStr, expStr]
      simp only [e]
      rw [number_dot env neg d1 d2 _ h1.1 (h1.env env) (h2.env env) (fun c hc => (exp_head sg ed rest env c hc).1),
        expPart_exp env _ sg ed rest hsg h3.1 (h3.env env) hrd]
      simp [FloatParts.text, fracStr, expStr]
  | none =>
    cases exp with
    | none => simp at hsome
    | some se =>
      obtain ⟨sg, ed⟩ := se
      obtain ⟨hsg, h3⟩ := he sg ed rfl
      have e : fracStr none ++ expStr (some (sg, ed)) ++ rest = 'e' :: sg :: (ed ++ rest) := by
        simp [fracStr, expStr]
      simp only [e]
      rw [number_nodot env neg d1 _ h1.1 (h1.env env)
          (fun c hc => ⟨(exp_head sg ed rest env c hc).1, (exp_head sg ed rest env c hc).2.1⟩),
        expPart_exp env _ sg ed rest hsg h3.1 (h3.env env) hrd]
      simp [FloatParts.text, fracStr, expStr]

/-- an unsigned float text followed by a float terminator is not a VERSION. -/
theorem versions_none_floatParts (env : Env) (p : FloatParts) (hp : p.OK) (hneg : p.neg = false) (rest : Str)
    (hterm : FloatTerm env rest) :
    version3 env (p.text ++ rest) = none ∧ version2pre env (p.text ++ rest) = none ∧
      version2build env (p.text ++ rest) = none := by
  obtain ⟨neg, d1, frac, exp⟩ := p
  obtain ⟨h1, hf, he, hsome⟩ := hp
  simp only at hneg
  subst hneg
  rw [FloatParts.text_append]
  simp only [signStr, Bool.false_eq_true, if_false, List.nil_append]
  cases frac with
  | some d2 =>
    have h2 := hf d2 rfl
    cases exp with
    | none =>
      have e : fracStr (some d2) ++ expStr none ++ rest = '.' :: (d2 ++ rest) := by simp [fracStr, expStr]
      simp only [e]
      exact versions_none_dot env d1 d2 rest h1.1 (h1.env env) h2.1 (h2.env env)
        (fun c hc => ⟨(hterm c hc).1, (hterm c hc).2.1, (hterm c hc).2.2.2.2.1, (hterm c hc).2.2.2.2.2⟩)
    | some se =>
      obtain ⟨sg, ed⟩ := se
      have e : fracStr (some d2) ++ expStr (some (sg, ed)) ++ rest = '.' :: (d2 ++ 'e' :: sg :: (ed ++ rest)) := by
        simp [fracStr, expStr]
      simp only [e]
      exact versions_none_dot env d1 d2 _ h1.1 (h1.env env) h2.1 (h2.env env) (exp_head sg ed rest env)
  | none =>
    cases exp with
    | none => simp at hsome
    | some se =>
      obtain ⟨sg, ed⟩ := se
      have e : fracStr none ++ expStr (some (sg, ed)) ++ rest = 'e' :: sg :: (ed ++ rest) := by
        simp [fracStr, expStr]
      simp only [e]
      exact versions_none_nodot env d1 _ h1.1 (h1.env env)
        (fun c hc => ⟨(exp_head sg ed rest env c hc).1, (exp_head sg ed rest env c hc).2.1⟩)

/-- the pattern loop on a float text: NUMBER matches, on exactly the text. -/
theorem matchPattern_floatParts (env : Env) (prev : Option Char) (p : FloatParts) (hp : p.OK) (rest : Str)
    (hterm : FloatTerm env rest) :
    matchPattern env false prev (p.text ++ rest) = numberMatch env p.text rest := by
  have hn := number_floatParts env p hp rest hterm.num
  obtain ⟨d, t, hdt⟩ := List.exists_cons_of_ne_nil hp.d1.1
  have hd : env.isDigit d = true := hp.d1.env env d (by rw [hdt]; simp)
  cases hneg : p.neg with
  | true =>
    have e : p.text ++ rest = '-' :: d :: (t ++ (fracStr p.frac ++ expStr p.exp ++ rest)) := by
      rw [FloatParts.text_append, hneg, hdt]; simp [signStr]
    rw [e] at hn ⊢
    exact matchPattern_dash env prev d _ _ _ hd hn
  | false =>
    obtain ⟨h3, h2p, h2b⟩ := versions_none_floatParts env p hp hneg rest hterm
    refine matchPattern_digit env prev _ _ _ ?_ ?_ h3 h2p h2b hn
    · intro c hc
      rw [FloatParts.text_append, hneg, hdt] at hc
      have : d = c := by simpa [signStr] using hc
      subst this; exact hd
    · rw [FloatParts.text_append, hneg, hdt]; simp [signStr]

theorem FloatParts.mem (p : FloatParts) (hp : p.OK) (x : Char) (hx : x ∈ p.text) :
    x = '-' ∨ x = '.' ∨ x = 'e' ∨ x = '+' ∨ isDigitA x = true := by
  obtain ⟨neg, d1, frac, exp⟩ := p
  obtain ⟨h1, hf, he, _⟩ := hp
  simp only [FloatParts.text, List.mem_append] at hx
  rcases hx with h | h | h | h
  · left
    unfold signStr at h
    split at h <;> simp at h
    exact h
  · exact Or.inr (Or.inr (Or.inr (Or.inr (h1.2 x h))))
  · cases frac with
    | none => simp [fracStr] at h
    | some d2 =>
      simp only [fracStr, List.mem_cons] at h
      rcases h with h | h
      · exact Or.inr (Or.inl h)
      · exact Or.inr (Or.inr (Or.inr (Or.inr ((hf d2 rfl).2 x h))))
  · cases exp with
    | none => simp [expStr] at h
    | some se =>
      obtain ⟨sg, ed⟩ := se
      obtain ⟨hsg, h3⟩ := he sg ed rfl
      simp only [expStr, List.mem_cons] at h
      rcases h with h | h | h
      · exact Or.inr (Or.inr (Or.inl h))
      · rcases hsg with hs | hs
        · exact Or.inr (Or.inr (Or.inr (Or.inl (h.trans hs))))
        · exact Or.inl (h.trans hs)
      · exact Or.inr (Or.inr (Or.inr (Or.inr (h3.2 x h))))

theorem FloatParts.not_mem (p : FloatParts) (hp : p.OK) (c : Char) (h1 : c ≠ '-') (h2 : c ≠ '.') (h3 : c ≠ 'e')
    (h4 : c ≠ '+') (h5 : isDigitA c = false) : ∀ x ∈ p.text, x ≠ c := by
  intro x hx e
  subst e
  rcases p.mem hp x hx with h | h | h | h | h
  · exact h1 h
  · exact h2 h
  · exact h3 h
  · exact h4 h
  · rw [h] at h5; cases h5

/-- a float text has a `.` or an `e`: `float()` is the conversion the lexer applies. -/
theorem FloatParts.hasMark (p : FloatParts) (hp : p.OK) : p.text.contains '.' = true ∨ p.text.contains 'e' = true := by
  obtain ⟨neg, d1, frac, exp⟩ := p
  rcases hp.some with h | h
  · left
    cases frac with
    | none => exact absurd rfl h
    | some d2 => exact contains_true _ _ (by simp [FloatParts.text, fracStr])
  · right
    cases exp with
    | none => exact absurd rfl h
    | some se =>
      obtain ⟨sg, ed⟩ := se
      exact contains_true _ _ (by simp [FloatParts.text, expStr])

theorem FloatParts.ne_nil (p : FloatParts) (hp : p.OK) : p.text ≠ [] := by
  have := hp.d1.1
  simp [FloatParts.text, this]

theorem isFloatRepr_not_inf (r : Str) (h : isFloatRepr r = true) : r ≠ "inf".toList ∧ r ≠ "-inf".toList := by
  constructor <;> (intro e; rw [e] at h; revert h; decide)

/-- `float(r)` then `repr`: under the repr round-trip law the NUMBER token carries `r` itself. -/
theorem numberMatch_float (env : Env) (r rest : Str) (h : isFloatRepr r = true) (hfr : env.floatRepr r = r) :
    numberMatch env r rest = .ok (some (mNumber (.float r) r rest)) := by
  obtain ⟨p, hp, ht⟩ := isFloatRepr_shape r h
  have hmark := p.hasMark hp
  rw [ht] at hmark
  have hc : (r.contains '.' || r.contains 'e' || r.contains 'E') = true := by
    rcases hmark with h | h <;> rw [h] <;> simp
  obtain ⟨hi1, hi2⟩ := isFloatRepr_not_inf r h
  have b1 : (r == "inf".toList) = false := beq_eq_false_iff_ne.mpr hi1
  have b2 : (r == "-inf".toList) = false := beq_eq_false_iff_ne.mpr hi2
  unfold numberMatch
  rw [if_pos hc, hfr, b1, b2]
  rfl

/-- **a float as the emitter writes it (its `repr` text): one NUMBER token carrying exactly that text.**
Hypotheses: the text has the `repr(float)` shape; `repr(float(r)) = r` (CPython's shortest-repr round trip, taken from
`Env`); the continuation is a float terminator. -/
theorem step_float (env : Env) (lenient : Bool) (st : LState) (r rest : Str) (hr : Ready st)
    (hshape : isFloatRepr r = true) (hfr : env.floatRepr r = r) (hterm : FloatTerm env rest) :
    ∃ st', step env lenient st (r ++ rest) = .ok (st', rest) ∧
      Adv st st' [tFloat r st.line st.col] [] 0 (st.col + r.length) r.getLast? := by
  obtain ⟨p, hp, ht⟩ := isFloatRepr_shape r hshape
  have hm : matchPattern env false st.prev (r ++ rest) = .ok (some (mNumber (.float r) r rest)) := by
    rw [← ht, matchPattern_floatParts env st.prev p hp rest hterm, ht, numberMatch_float env r rest hshape hfr]
  have hne : r ≠ [] := by rw [← ht]; exact p.ne_nil hp
  have hnl : ∀ d ∈ r, d ≠ '\n' := by
    rw [← ht]; exact p.not_mem hp '\n' (by decide) (by decide) (by decide) (by decide) (by decide)
  have hsp : r.head? ≠ some ' ' := by
    intro hh
    have := p.not_mem hp ' ' (by decide) (by decide) (by decide) (by decide) (by decide) ' '
      (by rw [ht]; exact List.mem_of_mem_head? hh)
    exact this rfl
  exact step_number env lenient st (.float r) r rest hr hne hnl hsp hm

/-- the last character of a float text is an ASCII digit (so `prev'` of `step_float` is `some` digit). -/
theorem isFloatRepr_getLast (r : Str) (h : isFloatRepr r = true) : ∃ c, r.getLast? = some c ∧ isDigitA c = true := by
  obtain ⟨p, hp, ht⟩ := isFloatRepr_shape r h
  obtain ⟨neg, d1, frac, exp⟩ := p
  obtain ⟨h1, hf, he, hsome⟩ := hp
  have last_digits : ∀ (a s : Str), Digits s → ∃ c, (a ++ s).getLast? = some c ∧ isDigitA c = true := by
    intro a s hs
    cases hl : s.getLast? with
    | none => exact absurd (List.getLast?_eq_none_iff.mp hl) hs.1
    | some c =>
      refine ⟨c, ?_, hs.2 c (List.mem_of_getLast? hl)⟩
      rw [List.getLast?_append, hl]; rfl
  subst ht
  cases exp with
  | some se =>
    obtain ⟨sg, ed⟩ := se
    have := last_digits (signStr neg ++ (d1 ++ (fracStr frac ++ ['e', sg]))) ed (he sg ed rfl).2
    simpa [FloatParts.text, expStr, List.append_assoc] using this
  | none =>
    cases frac with
    | none => simp at hsome
    | some d2 =>
      have := last_digits (signStr neg ++ (d1 ++ ['.'])) d2 (hf d2 rfl)
      simpa [FloatParts.text, expStr, fracStr, List.append_assoc] using this

/-! ### terminators the emitter prints, and the `step_scalar` shape -/

/-- an ASCII char that is not a digit, `.`, `e`, `E`, `-`, `+` terminates every NUMBER lexeme, in every environment. -/
theorem floatTerm_ascii (env : Env) (c : Char) (rest : Str) (ha : isAscii c = true) (hd : isDigitA c = false)
    (h : c ≠ '.' ∧ c ≠ 'e' ∧ c ≠ 'E' ∧ c ≠ '-' ∧ c ≠ '+') : FloatTerm env (c :: rest) := by
  intro d hd'
  have : c = d := by simpa using hd'
  subst this
  exact ⟨isDigit_ascii_false env c ha hd, h⟩

theorem floatTerm_nl (env : Env) (rest : Str) : FloatTerm env ('\n' :: rest) :=
  floatTerm_ascii env '\n' rest (by decide) (by decide) (by decide)
theorem floatTerm_comma (env : Env) (rest : Str) : FloatTerm env (',' :: rest) :=
  floatTerm_ascii env ',' rest (by decide) (by decide) (by decide)
theorem floatTerm_listEnd (env : Env) (rest : Str) : FloatTerm env (']' :: rest) :=
  floatTerm_ascii env ']' rest (by decide) (by decide) (by decide)
theorem floatTerm_space (env : Env) (rest : Str) : FloatTerm env (' ' :: rest) :=
  floatTerm_ascii env ' ' rest (by decide) (by decide) (by decide)
theorem floatTerm_nil (env : Env) : FloatTerm env [] := fun _ h => by simp at h

/-- number texts contain neither a line break nor a tab (this is `Clean (intStr i)` of `FlatLex`, unfolded). -/
theorem intStr_clean (i : Int) : ∀ d ∈ intStr i, d ≠ '\n' ∧ d ≠ '\t' := fun d hd =>
  ⟨intStr_not i '\n' (by decide) (by decide) d hd, intStr_not i '\t' (by decide) (by decide) d hd⟩

theorem isFloatRepr_clean (r : Str) (h : isFloatRepr r = true) : ∀ d ∈ r, d ≠ '\n' ∧ d ≠ '\t' := by
  obtain ⟨p, hp, ht⟩ := isFloatRepr_shape r h
  subst ht
  exact fun d hd =>
    ⟨p.not_mem hp '\n' (by decide) (by decide) (by decide) (by decide) (by decide) d hd,
     p.not_mem hp '\t' (by decide) (by decide) (by decide) (by decide) (by decide) d hd⟩

/-- number texts start with a digit or `-` (so a line `KEY::number` is no fence line; any text is). -/
theorem isFloatRepr_ne_nil (r : Str) (h : isFloatRepr r = true) : r ≠ [] := by
  obtain ⟨p, hp, ht⟩ := isFloatRepr_shape r h
  subst ht; exact p.ne_nil hp

/-- `step_int` in the shape of the `step_scalar` cases of `FlatLex` (value of a line, before the line end). -/
theorem step_int_line (env : Env) (lenient : Bool) (st : LState) (i : Int) (rest : Str) (hr : Ready st)
    (hlen : (natStr i.natAbs).length ≤ 4300) :
    ∃ st' p, step env lenient st (intStr i ++ '\n' :: rest) = .ok (st', '\n' :: rest) ∧
      Adv st st' [tInt i st.line st.col] ([] : List Repair).reverse 0 (st.col + (intStr i).length) p := by
  obtain ⟨st', h1, h2⟩ := step_int env lenient st i ('\n' :: rest) hr (floatTerm_nl env rest).num hlen
  exact ⟨st', _, h1, h2⟩

/-- `step_float` in the shape of the `step_scalar` cases of `FlatLex`. -/
theorem step_float_line (env : Env) (lenient : Bool) (st : LState) (r rest : Str) (hr : Ready st)
    (hshape : isFloatRepr r = true) (hfr : env.floatRepr r = r) :
    ∃ st' p, step env lenient st (r ++ '\n' :: rest) = .ok (st', '\n' :: rest) ∧
      Adv st st' [tFloat r st.line st.col] ([] : List Repair).reverse 0 (st.col + r.length) p := by
  obtain ⟨st', h1, h2⟩ := step_float env lenient st r ('\n' :: rest) hr hshape hfr (floatTerm_nl env rest)
  exact ⟨st', _, h1, h2⟩

end Octave
