import Octave.Lemmas.StepProgress
/-!
Brace-for-angle receipts (C07) on the lexer model, for EVERY input.

The IDENTIFIER token produced by the repair `NAME{q}` → `NAME<q>` carries no marker, so the correspondence between
`curlyBrace` records and tokens is stated as a matching: `BraceAllMatch rs ts` — the records `rs` are, in order, the
receipts (`BraceAllRec`) of the members of an order-preserving sub-list of the tokens `ts` (tokens in between are skipped).

`braceAll_step_shape` goes through every branch of `Lexer.step`:
  * every branch but the identifier branch pushes tokens and no `curlyBrace` record;
  * the identifier branch pushes ONE IDENTIFIER token and at most one `curlyBrace` record, which is then the receipt of
    that token (`braceAll_matchIdentifier`), and only in lenient mode;
  * the `%` merge REPLACES the last NUMBER / IDENTIFIER token by an IDENTIFIER with a longer value; this needs the last
    character of the old value to be alphanumeric.  A repaired token's value ends with `>`, which is not alphanumeric in
    any `Env` (`braceAll_gt_not_alnum`), so a token that owns a receipt is never merged away (`braceAll_merge_keeps`).
`braceAll_loop_inv` lifts the invariant `BraceAllInv` over `Lexer.loop` by induction on fuel.

Second half (the converse): `braceAllSite env lenient st s` says, from the lexer's own branch conditions, whether the
iteration at (`st`, `s`) is a brace step and with which pair; `braceAll_step_exact` — a successful iteration adds exactly
`braceAllSiteRecs` (one record iff brace site); `braceAllTrace` collects these along the loop and `braceAll_loop_trace`
proves the `curlyBrace` records of the final log are exactly that trace.
-/
namespace Octave
open Lexer Scan

/-! ### Definitions -/

/-- true exactly on `Repair.curlyBrace ..`. -/
def braceAllIsCurly : Repair → Bool
  | .curlyBrace .. => true
  | _ => false

/-- `NAME{q}` as written (the model's own expression in `matchIdentifier`). -/
def braceAllOrig (name q : Str) : Str := name ++ '{' :: q ++ ['}']
/-- `NAME<q>`: the value of the repaired token. -/
def braceAllRep (name q : Str) : Str := name ++ '<' :: q ++ ['>']

theorem braceAllOrig_eq (name q : Str) : braceAllOrig name q = name ++ '{' :: (q ++ ['}']) := by
  simp [braceAllOrig]
theorem braceAllRep_eq (name q : Str) : braceAllRep name q = name ++ '<' :: (q ++ ['>']) := by
  simp [braceAllRep]

/-- `r` is the brace receipt of the token `t`: `t` is an IDENTIFIER (no `normFrom`, no `raw`) whose value is `NAME<q>`,
and `r` is the `curlyBrace` record (original `NAME{q}`, repaired `NAME<q>`, the token's own line and column). -/
def BraceAllRec (r : Repair) (t : Token) : Prop :=
  t.type = .identifier ∧ t.raw = none ∧ t.normFrom = none ∧
    ∃ name q : Str, r = .curlyBrace (braceAllOrig name q) (braceAllRep name q) t.line t.col
      ∧ t.value = .str (braceAllRep name q)

/-- the records `rs` are, in order, the receipts of an order-preserving selection of the tokens `ts`
(every record is taken by exactly one token, different records by different tokens, the order is the same). -/
inductive BraceAllMatch : List Repair → List Token → Prop
  | nil : BraceAllMatch [] []
  | skip {rs : List Repair} {ts : List Token} (t : Token) : BraceAllMatch rs ts → BraceAllMatch rs (t :: ts)
  | take {rs : List Repair} {ts : List Token} {r : Repair} {t : Token} :
      BraceAllRec r t → BraceAllMatch rs ts → BraceAllMatch (r :: rs) (t :: ts)

/-- the loop invariant (both lists newest-first). -/
def BraceAllInv (st : LState) : Prop :=
  BraceAllMatch (st.repairs.filter braceAllIsCurly) st.toks

/-! ### `BraceAllMatch` algebra -/

theorem BraceAllMatch.skips (ts : List Token) : BraceAllMatch [] ts := by
  induction ts with
  | nil => exact .nil
  | cons t ts ih => exact .skip t ih

theorem BraceAllMatch.append {rs1 rs2 : List Repair} {ts1 ts2 : List Token}
    (h1 : BraceAllMatch rs1 ts1) (h2 : BraceAllMatch rs2 ts2) : BraceAllMatch (rs1 ++ rs2) (ts1 ++ ts2) := by
  induction h1 with
  | nil => exact h2
  | skip t _ ih => exact .skip t ih
  | take hr _ ih => exact .take hr ih

theorem BraceAllMatch.reverse {rs : List Repair} {ts : List Token}
    (h : BraceAllMatch rs ts) : BraceAllMatch rs.reverse ts.reverse := by
  induction h with
  | nil => exact .nil
  | skip t _ ih =>
    rw [List.reverse_cons]
    have := ih.append (BraceAllMatch.skip t .nil)
    simpa using this
  | take hr _ ih =>
    rw [List.reverse_cons, List.reverse_cons]
    exact ih.append (.take hr .nil)

/-- the selection as an explicit sub-list. -/
theorem BraceAllMatch.sublist {rs : List Repair} {ts : List Token} (h : BraceAllMatch rs ts) :
    ∃ sub : List Token, sub.Sublist ts ∧ sub.length = rs.length ∧ ∀ p ∈ rs.zip sub, BraceAllRec p.1 p.2 := by
  induction h with
  | nil => exact ⟨[], .slnil, rfl, by simp⟩
  | skip t _ ih =>
    obtain ⟨sub, hs, hl, hp⟩ := ih
    exact ⟨sub, hs.cons t, hl, hp⟩
  | @take rs ts r t hr _ ih =>
    obtain ⟨sub, hs, hl, hp⟩ := ih
    refine ⟨t :: sub, hs.cons_cons t, by simp [hl], ?_⟩
    intro p hp'
    rw [List.zip_cons_cons, List.mem_cons] at hp'
    rcases hp' with rfl | hp'
    · exact hr
    · exact hp p hp'

/-- every record of a matching is the receipt of some token. -/
theorem BraceAllMatch.mem {rs : List Repair} {ts : List Token} (h : BraceAllMatch rs ts) :
    ∀ r ∈ rs, ∃ t ∈ ts, BraceAllRec r t := by
  induction h with
  | nil => intro r hr; cases hr
  | skip t _ ih =>
    intro r hr
    obtain ⟨t', ht', h'⟩ := ih r hr
    exact ⟨t', List.mem_cons_of_mem _ ht', h'⟩
  | @take rs ts r0 t0 hr0 _ ih =>
    intro r hr
    rw [List.mem_cons] at hr
    rcases hr with rfl | hr
    · exact ⟨t0, List.mem_cons_self, hr0⟩
    · obtain ⟨t', ht', h'⟩ := ih r hr
      exact ⟨t', List.mem_cons_of_mem _ ht', h'⟩

/-- no more records than IDENTIFIER tokens. -/
theorem BraceAllMatch.length_le {rs : List Repair} {ts : List Token} (h : BraceAllMatch rs ts) :
    rs.length ≤ (ts.filter (fun t => t.type == .identifier)).length := by
  induction h with
  | nil => exact Nat.le_refl _
  | skip t _ ih =>
    rw [List.filter_cons]
    split
    · simp only [List.length_cons]; omega
    · exact ih
  | @take rs ts r t hr _ ih =>
    have : (t.type == TT.identifier) = true := by rw [hr.1]; rfl
    rw [List.filter_cons, if_pos this]
    simp only [List.length_cons]; omega

/-! ### `>` is never alphanumeric; what `matchIdentifier` returns with a repair pair -/

theorem braceAll_gt_not_alnum (env : Env) : env.isAlnum '>' = false := by
  simp [Env.isAlnum, isAscii, isAlnumA, isAlphaA, isDigitA, isUpper, isLower]

theorem braceAllRep_getLast (name q : Str) : (braceAllRep name q).getLast? = some '>' := by
  unfold braceAllRep
  rw [List.getLast?_append]; rfl

/-- **`_match_unicode_identifier` returns a repair pair only in lenient mode**, and then the token value is the
repaired text `NAME<q>` and the pair is (`NAME{q}`, `NAME<q>`). -/
theorem braceAll_matchIdentifier {env : Env} {lenient : Bool} {s ident rest o p : Str}
    (h : matchIdentifier env lenient s = some (ident, rest, some (o, p))) :
    lenient = true ∧ ∃ name q : Str, o = braceAllOrig name q ∧ p = braceAllRep name q ∧ ident = braceAllRep name q := by
  unfold matchIdentifier at h
  split at h
  · cases h
  · rename_i name r _
    simp only at h
    split at h
    · rename_i q r2 _
      cases lenient with
      | false => simp at h
      | true =>
        simp only [if_true, Option.some.injEq, Prod.mk.injEq] at h
        obtain ⟨h1, _, h3, h4⟩ := h
        exact ⟨rfl, _, q, h3.symm, h4.symm, h1.symm⟩
    · simp at h

/-- non-lenient mode: no repair pair. -/
theorem braceAll_matchIdentifier_strict {env : Env} {s ident rest : Str} {rep : Option (Str × Str)}
    (h : matchIdentifier env false s = some (ident, rest, rep)) : rep = none := by
  cases rep with
  | none => rfl
  | some op =>
    obtain ⟨o, p⟩ := op
    have := (braceAll_matchIdentifier h).1
    cases this

theorem braceAll_identifierRepairs_not_curly (ident : Str) (line col : Nat) :
    ∀ x ∈ identifierRepairs ident line col, braceAllIsCurly x = false := by
  intro x hx
  unfold identifierRepairs at hx
  rw [List.mem_append] at hx
  rcases hx with hx | hx
  · split at hx
    · simp only [List.mem_singleton] at hx; subst hx; rfl
    · simp at hx
  · split at hx
    · split at hx
      · simp only [List.mem_singleton] at hx; subst hx; rfl
      · simp at hx
    · simp at hx

theorem braceAll_filter_eq_nil {l : List Repair} (h : ∀ x ∈ l, braceAllIsCurly x = false) :
    l.filter braceAllIsCurly = [] := by
  rw [List.filter_eq_nil_iff]
  intro x hx; rw [h x hx]; simp

theorem braceAll_idreps_filter (ident : Str) (line col : Nat) :
    (identifierRepairs ident line col).reverse.filter braceAllIsCurly = [] :=
  braceAll_filter_eq_nil (fun x hx => braceAll_identifierRepairs_not_curly ident line col x (List.mem_reverse.mp hx))

/-! ### The shape of one successful step -/

/-- the text the `%` merge extends: `raw` when present, else the string value. -/
def braceAllPrevVal (t : Token) : Str :=
  match t.raw with | some raw => raw | none => tvalStr t.value

/-- **brace site**: the repair pair (original, repaired) of the iteration at state `st` on remaining input `s`, when
that iteration is a brace step — it reaches the identifier matcher (no fence span, not a space, no pattern, no envelope
error, not `+`) and the matcher repairs.  `none` for every other iteration. -/
def braceAllSite (env : Env) (lenient : Bool) (st : LState) (s : Str) : Option (Str × Str) :=
  match s with
  | [] => none
  | c :: r =>
    if atSpanStart st then none
    else if c == ' ' then none
    else
      match matchPattern env st.blank st.prev (c :: r) with
      | .ok none =>
        if startsWith "===".toList (c :: r) && invalidEnvelopeError env (c :: r) then none
        else if c == '+' then none
        else
          match matchIdentifier env lenient (c :: r) with
          | some (_, _, some op) => some op
          | _ => none
      | _ => none

/-- What one successful iteration of the main loop does to the token list and the `curlyBrace` records of the log:
`push` — tokens `newToks` and records `d` are pushed (newest first); either `d` has no `curlyBrace` record, or the mode is
lenient, exactly ONE token was pushed and the only `curlyBrace` record of `d` is its receipt;
`merge` — the `%` merge: the last token is replaced, the log is unchanged, and the last character of the replaced
token's text is alphanumeric. -/
inductive BraceAllShape (env : Env) (lenient : Bool) (st st' : LState) (s : Str) : Prop
  | push (newToks : List Token) (d : List Repair)
      (htoks : st'.toks = newToks ++ st.toks) (hreps : st'.repairs = d ++ st.repairs)
      (hcur : d.filter braceAllIsCurly = [] ∨
        (lenient = true ∧ ∃ tok r, newToks = [tok] ∧ d.filter braceAllIsCurly = [r] ∧ BraceAllRec r tok ∧
          ∃ o p, braceAllSite env lenient st s = some (o, p) ∧ r = .curlyBrace o p st.line st.col))
  | merge (last tok : Token) (before : List Token)
      (h1 : st.toks = last :: before) (h2 : st'.toks = tok :: before) (hreps : st'.repairs = st.repairs)
      (hlc : ∃ lc, (braceAllPrevVal last).getLast? = some lc ∧ env.isAlnum lc = true)

theorem braceAll_shape_nil (env : Env) (lenient : Bool) (st st' : LState) (s : Str)
    (h1 : st'.toks = st.toks) (h2 : st'.repairs = st.repairs) : BraceAllShape env lenient st st' s :=
  .push [] [] (by simpa using h1) (by simpa using h2) (.inl rfl)

/-- **Every branch of `step`** has one of the two shapes. -/
theorem braceAll_step_shape (env : Env) (lenient : Bool) (st st' : LState) (s s' : Str)
    (h : step env lenient st s = .ok (st', s')) : BraceAllShape env lenient st st' s := by
  cases s with
  | nil =>
    simp only [step, Except.ok.injEq, Prod.mk.injEq] at h
    obtain ⟨rfl, _⟩ := h
    exact braceAll_shape_nil _ _ _ _ _ rfl rfl
  | cons c r =>
    unfold step at h
    simp only at h
    split at h
    · -- fence span: no record
      split at h
      · simp only [Except.ok.injEq, Prod.mk.injEq] at h
        obtain ⟨rfl, _⟩ := h
        exact braceAll_shape_nil _ _ _ _ _ rfl rfl
      · split at h
        · simp only [Except.ok.injEq, Prod.mk.injEq] at h
          obtain ⟨rfl, _⟩ := h
          exact .push [_, _, _, _] [] rfl rfl (.inl rfl)
        · simp only [Except.ok.injEq, Prod.mk.injEq] at h
          obtain ⟨rfl, _⟩ := h
          exact .push [_, _, _] [] rfl rfl (.inl rfl)
    · rename_i hspan
      split at h
      · -- space: at most an INDENT token, no record
        split at h
        · split at h
          · split at h
            · simp only [Except.ok.injEq, Prod.mk.injEq] at h
              obtain ⟨rfl, _⟩ := h
              exact .push [_] [] rfl rfl (.inl rfl)
            · simp only [Except.ok.injEq, Prod.mk.injEq] at h
              obtain ⟨rfl, _⟩ := h
              exact braceAll_shape_nil _ _ _ _ _ rfl rfl
          · simp only [Except.ok.injEq, Prod.mk.injEq] at h
            obtain ⟨rfl, _⟩ := h
            exact braceAll_shape_nil _ _ _ _ _ rfl rfl
        · simp only [Except.ok.injEq, Prod.mk.injEq] at h
          obtain ⟨rfl, _⟩ := h
          exact braceAll_shape_nil _ _ _ _ _ rfl rfl
      · rename_i hsp
        simp only [bind, Except.bind] at h
        cases hmp : matchPattern env st.blank st.prev (c :: r) with
        | error e => simp [hmp] at h
        | ok v =>
          simp only [hmp] at h
          cases v with
          | some m =>
            -- pattern branch: one token, at most a normalization record
            simp only at h
            split at h
            · simp at h
            · simp only [Except.ok.injEq, Prod.mk.injEq] at h
              obtain ⟨rfl, _⟩ := h
              cases hnf : m.normFrom with
              | none => exact .push [_] [] rfl rfl (.inl rfl)
              | some o =>
                exact .push [_] [Repair.normalization o m.value st.line st.col] rfl rfl (.inl rfl)
          | none =>
            simp only at h
            split at h
            · simp at h
            · rename_i henv
              split at h
              · -- `+` fallback: a normalization record
                simp only [Except.ok.injEq, Prod.mk.injEq] at h
                obtain ⟨rfl, _⟩ := h
                exact .push [_] [Repair.normalization ['+'] (.str ['⊕']) st.line st.col] rfl rfl (.inl rfl)
              · rename_i hplus
                split at h
                · -- identifier: the only source of `curlyBrace` records
                  rename_i ident rest rep hmi
                  simp only [Except.ok.injEq, Prod.mk.injEq] at h
                  obtain ⟨rfl, _⟩ := h
                  refine .push [_] _ rfl rfl ?_
                  cases rep with
                  | none =>
                    left
                    simp only [List.nil_append]
                    exact braceAll_idreps_filter _ _ _
                  | some op =>
                    obtain ⟨o, p⟩ := op
                    obtain ⟨hl, name, q, rfl, rfl, rfl⟩ := braceAll_matchIdentifier hmi
                    right
                    refine ⟨hl, _, Repair.curlyBrace (braceAllOrig name q) (braceAllRep name q) st.line st.col, rfl, ?_, ?_⟩
                    · simp only [List.reverse_append, List.filter_append, braceAll_idreps_filter, List.nil_append]
                      rfl
                    · refine ⟨⟨rfl, rfl, rfl, name, q, rfl, rfl⟩, _, _, ?_, rfl⟩
                      simp only [braceAllSite, hspan, hsp, hmp, henv, hplus, hmi, Bool.false_eq_true, if_false]
                · split at h
                  · rename_i res heq
                    simp only [Except.ok.injEq] at h
                    subst h
                    -- the `%` merge
                    split at heq
                    · split at heq
                      · rename_i last before htoks
                        split at heq
                        · split at heq
                          · rename_i lc hlc
                            split at heq
                            · rename_i halnum
                              simp only [Option.some.injEq, Prod.mk.injEq] at heq
                              obtain ⟨rfl, _⟩ := heq
                              exact .merge last _ before htoks rfl rfl ⟨lc, hlc, halnum⟩
                            · simp at heq
                          · simp at heq
                        · simp at heq
                      · simp at heq
                    · simp at heq
                  · simp at h

/-! ### Invariant preservation -/

/-- a token that owns a receipt is never merged away: its text ends with `>`. -/
theorem braceAll_merge_keeps {env : Env} {r : Repair} {last : Token} (hr : BraceAllRec r last)
    (hlc : ∃ lc, (braceAllPrevVal last).getLast? = some lc ∧ env.isAlnum lc = true) : False := by
  obtain ⟨_, hraw, _, name, q, _, hval⟩ := hr
  obtain ⟨lc, h1, h2⟩ := hlc
  unfold braceAllPrevVal at h1
  rw [hraw, hval] at h1
  simp only [tvalStr] at h1
  rw [braceAllRep_getLast] at h1
  cases h1
  rw [braceAll_gt_not_alnum] at h2
  cases h2

theorem BraceAllShape.preserves {env : Env} {lenient : Bool} {st st' : LState}
{s : Str}
    (hs : BraceAllShape env lenient st st' s) (hinv : BraceAllInv st) : BraceAllInv st' := by
  cases hs with
  | push newToks d htoks hreps hcur =>
    unfold BraceAllInv at *
    rw [htoks, hreps, List.filter_append]
    rcases hcur with hnil | ⟨_, tok, r, rfl, hd, hrec, _⟩
    · rw [hnil]
      exact (BraceAllMatch.skips newToks).append hinv
    · rw [hd]
      exact .take hrec hinv
  | merge last tok before h1 h2 hreps hlc =>
    unfold BraceAllInv at *
    rw [h2, hreps]
    rw [h1] at hinv
    generalize st.repairs.filter braceAllIsCurly = rs at hinv ⊢
    cases hinv with
    | skip _ hb => exact .skip tok hb
    | take hr _ => exact (braceAll_merge_keeps hr hlc).elim

/-- **Every branch of `step` preserves the brace-receipt invariant.** -/
theorem braceAll_step_inv (env : Env) (lenient : Bool) (st st' : LState) (s s' : Str)
    (h : step env lenient st s = .ok (st', s')) (hinv : BraceAllInv st) : BraceAllInv st' :=
  (braceAll_step_shape env lenient st st' s s' h).preserves hinv

/-- non-lenient mode: a step adds no `curlyBrace` record. -/
theorem braceAll_step_strict (env : Env) (st st' : LState) (s s' : Str)
    (h : step env false st s = .ok (st', s')) (hnone : st.repairs.filter braceAllIsCurly = []) :
    st'.repairs.filter braceAllIsCurly = [] := by
  cases braceAll_step_shape env false st st' s s' h with
  | push newToks d _ hreps hcur =>
    rw [hreps, List.filter_append, hnone]
    rcases hcur with hnil | ⟨hl, _⟩
    · rw [hnil]; rfl
    · cases hl
  | merge last tok before _ _ hreps _ => rw [hreps]; exact hnone

/-- the main loop preserves the invariant (induction on fuel). -/
theorem braceAll_loop_inv (env : Env) (lenient : Bool) :
    ∀ (fuel : Nat) (st st' : LState) (s : Str), loop env lenient fuel st s = .ok st' →
      BraceAllInv st → BraceAllInv st' := by
  intro fuel
  induction fuel with
  | zero =>
    intro st st' s h hinv
    cases s with
    | nil => simp only [loop, Except.ok.injEq] at h; subst h; exact hinv
    | cons c r => simp [loop] at h
  | succ n ih =>
    intro st st' s h hinv
    cases s with
    | nil => simp only [loop, Except.ok.injEq] at h; subst h; exact hinv
    | cons c r =>
      unfold loop at h
      simp only [bind, Except.bind] at h
      cases hst : step env lenient st (c :: r) with
      | error e => simp [hst] at h
      | ok p =>
        obtain ⟨st1, s1⟩ := p
        simp only [hst] at h
        exact ih st1 st' s1 h (braceAll_step_inv env lenient st st1 (c :: r) s1 hst hinv)

/-- non-lenient main loop: no `curlyBrace` record is ever added. -/
theorem braceAll_loop_strict (env : Env) :
    ∀ (fuel : Nat) (st st' : LState) (s : Str), loop env false fuel st s = .ok st' →
      st.repairs.filter braceAllIsCurly = [] → st'.repairs.filter braceAllIsCurly = [] := by
  intro fuel
  induction fuel with
  | zero =>
    intro st st' s h hinv
    cases s with
    | nil => simp only [loop, Except.ok.injEq] at h; subst h; exact hinv
    | cons c r => simp [loop] at h
  | succ n ih =>
    intro st st' s h hinv
    cases s with
    | nil => simp only [loop, Except.ok.injEq] at h; subst h; exact hinv
    | cons c r =>
      unfold loop at h
      simp only [bind, Except.bind] at h
      cases hst : step env false st (c :: r) with
      | error e => simp [hst] at h
      | ok p =>
        obtain ⟨st1, s1⟩ := p
        simp only [hst] at h
        exact ih st1 st' s1 h (braceAll_step_strict env st st1 (c :: r) s1 hst hinv)

/-! ### Brace sites: the exact trace of the `curlyBrace` records -/

/-- what `braceAllSite = some` means. -/
theorem braceAllSite_some {env : Env} {lenient : Bool} {st : LState} {s : Str} {o p : Str}
    (h : braceAllSite env lenient st s = some (o, p)) :
    ∃ c r ident rest, s = c :: r ∧ atSpanStart st = false ∧ (c == ' ') = false
      ∧ matchPattern env st.blank st.prev (c :: r) = .ok none
      ∧ (startsWith "===".toList (c :: r) && invalidEnvelopeError env (c :: r)) = false
      ∧ (c == '+') = false
      ∧ matchIdentifier env lenient (c :: r) = some (ident, rest, some (o, p)) := by
  unfold braceAllSite at h
  split at h
  · cases h
  · rename_i c r
    split at h
    · cases h
    · rename_i hspan
      split at h
      · cases h
      · rename_i hsp
        split at h
        · rename_i hmp
          split at h
          · cases h
          · rename_i henv
            split at h
            · cases h
            · rename_i hplus
              split at h
              · rename_i ident rest op hmi
                simp only [Option.some.injEq] at h
                subst h
                exact ⟨c, r, ident, rest, rfl, by simpa using hspan, by simpa using hsp, hmp, by simpa using henv,
                  by simpa using hplus, hmi⟩
              · cases h
        · cases h

/-- **no repair without a receipt, at the step**: when an iteration reaches the identifier matcher and the matcher
repairs, the step succeeds, pushes the IDENTIFIER token with the repaired text at the current position and logs
`curlyBrace original repaired line col`. -/
theorem braceAll_step_logged (env : Env) (lenient : Bool) (st : LState) (c : Char) (r ident rest o p : Str)
    (hspan : atSpanStart st = false) (hsp : (c == ' ') = false)
    (hmp : matchPattern env st.blank st.prev (c :: r) = .ok none)
    (henv : (startsWith "===".toList (c :: r) && invalidEnvelopeError env (c :: r)) = false)
    (hplus : (c == '+') = false)
    (hmi : matchIdentifier env lenient (c :: r) = some (ident, rest, some (o, p))) :
    ∃ st', step env lenient st (c :: r) = .ok (st', rest) ∧
      st'.toks = { type := .identifier, value := .str p, line := st.line, col := st.col } :: st.toks ∧
      st'.repairs.filter braceAllIsCurly = Repair.curlyBrace o p st.line st.col :: st.repairs.filter braceAllIsCurly := by
  obtain ⟨_, name, q, rfl, rfl, rfl⟩ := braceAll_matchIdentifier hmi
  refine ⟨{ st with
      pos := st.pos + (braceAllRep name q).length,
      prev := ((c :: r).take (braceAllRep name q).length).getLast?.orElse (fun _ => st.prev),
      col := st.col + (braceAllRep name q).length,
      toks := { type := .identifier, value := .str (braceAllRep name q), line := st.line, col := st.col } :: st.toks,
      repairs := ([Repair.curlyBrace (braceAllOrig name q) (braceAllRep name q) st.line st.col]
          ++ identifierRepairs (braceAllRep name q) st.line st.col).reverse ++ st.repairs,
      blank := false }, ?_, ?_, ?_⟩
  · unfold step
    simp only [hspan, hsp, hmp, henv, hplus, hmi, Bool.false_eq_true, if_false, bind, Except.bind]
  · rfl
  · simp only [List.reverse_append, List.filter_append, braceAll_idreps_filter, List.nil_append]
    rfl

/-- the record owed by the iteration at (`st`, `s`): one `curlyBrace` record at the current position for a brace site,
nothing otherwise. -/
def braceAllSiteRecs (env : Env) (lenient : Bool) (st : LState) (s : Str) : List Repair :=
  match braceAllSite env lenient st s with
  | some (o, p) => [Repair.curlyBrace o p st.line st.col]
  | none => []

/-- the token pushed by the iteration at (`st`, `s`) when it is a brace site. -/
def braceAllSiteToks (env : Env) (lenient : Bool) (st : LState) (s : Str) : List Token :=
  match braceAllSite env lenient st s with
  | some (_, p) => [{ type := .identifier, value := .str p, line := st.line, col := st.col }]
  | none => []

/-- **exact step**: the `curlyBrace` records added by a successful iteration are exactly `braceAllSiteRecs` — one record
iff the iteration is a brace site. -/
theorem braceAll_step_exact (env : Env) (lenient : Bool) (st st' : LState) (s s' : Str)
    (h : step env lenient st s = .ok (st', s')) :
    st'.repairs.filter braceAllIsCurly = braceAllSiteRecs env lenient st s ++ st.repairs.filter braceAllIsCurly := by
  unfold braceAllSiteRecs
  cases hsite : braceAllSite env lenient st s with
  | some op =>
    obtain ⟨o, p⟩ := op
    obtain ⟨c, r, ident, rest, rfl, hspan, hsp, hmp, henv, hplus, hmi⟩ := braceAllSite_some hsite
    obtain ⟨st'', hst, _, hreps⟩ := braceAll_step_logged env lenient st c r ident rest o p hspan hsp hmp henv hplus hmi
    rw [h] at hst
    simp only [Except.ok.injEq, Prod.mk.injEq] at hst
    obtain ⟨rfl, _⟩ := hst
    exact hreps
  | none =>
    cases braceAll_step_shape env lenient st st' s s' h with
    | push newToks d _ hreps hcur =>
      rcases hcur with hnil | ⟨_, _, _, _, _, _, o, p, hs, _⟩
      · rw [hreps, List.filter_append, hnil]
      · rw [hsite] at hs; cases hs
    | merge last tok before _ _ hreps _ => rw [hreps]; rfl

/-- a brace-site iteration pushes exactly its repaired IDENTIFIER token. -/
theorem braceAll_step_site_token (env : Env) (lenient : Bool) (st st' : LState) (s s' : Str) (o p : Str)
    (h : step env lenient st s = .ok (st', s')) (hsite : braceAllSite env lenient st s = some (o, p)) :
    st'.toks = { type := .identifier, value := .str p, line := st.line, col := st.col } :: st.toks := by
  obtain ⟨c, r, ident, rest, rfl, hspan, hsp, hmp, henv, hplus, hmi⟩ := braceAllSite_some hsite
  obtain ⟨st'', hst, htoks, _⟩ := braceAll_step_logged env lenient st c r ident rest o p hspan hsp hmp henv hplus hmi
  rw [h] at hst
  simp only [Except.ok.injEq, Prod.mk.injEq] at hst
  obtain ⟨rfl, _⟩ := hst
  exact htoks

/-- non-lenient mode has no brace site. -/
theorem braceAllSite_strict (env : Env) (st : LState) (s : Str) : braceAllSite env false st s = none := by
  cases hsite : braceAllSite env false st s with
  | none => rfl
  | some op =>
    obtain ⟨o, p⟩ := op
    obtain ⟨c, r, ident, rest, _, _, _, _, _, _, hmi⟩ := braceAllSite_some hsite
    have := (braceAll_matchIdentifier hmi).1
    cases this

/-- **the trace**: the records owed by the brace sites met by the main loop, in reading order (oldest first). -/
def braceAllTrace (env : Env) (lenient : Bool) : Nat → LState → Str → List Repair
  | _, _, [] => []
  | 0, _, _ :: _ => []
  | fuel + 1, st, s@(_ :: _) =>
    match step env lenient st s with
    | .ok (st', s') => braceAllSiteRecs env lenient st s ++ braceAllTrace env lenient fuel st' s'
    | .error _ => []

/-- **the `curlyBrace` records added by the main loop are exactly its trace of brace sites** — one record per brace
site, in order, nothing else (log newest-first, trace oldest-first). -/
theorem braceAll_loop_trace (env : Env) (lenient : Bool) :
    ∀ (fuel : Nat) (st st' : LState) (s : Str), loop env lenient fuel st s = .ok st' →
      st'.repairs.filter braceAllIsCurly
        = (braceAllTrace env lenient fuel st s).reverse ++ st.repairs.filter braceAllIsCurly := by
  intro fuel
  induction fuel with
  | zero =>
    intro st st' s h
    cases s with
    | nil => simp only [loop, Except.ok.injEq] at h; subst h; simp [braceAllTrace]
    | cons c r => simp [loop] at h
  | succ n ih =>
    intro st st' s h
    cases s with
    | nil => simp only [loop, Except.ok.injEq] at h; subst h; simp [braceAllTrace]
    | cons c r =>
      unfold loop at h
      simp only [bind, Except.bind] at h
      cases hst : step env lenient st (c :: r) with
      | error e => simp [hst] at h
      | ok pr =>
        obtain ⟨st1, s1⟩ := pr
        simp only [hst] at h
        rw [ih st1 st' s1 h, braceAll_step_exact env lenient st st1 (c :: r) s1 hst]
        simp only [braceAllTrace, hst, List.reverse_append, List.append_assoc]
        cases hs : braceAllSiteRecs env lenient st (c :: r) with
        | nil => simp
        | cons x xs =>
          unfold braceAllSiteRecs at hs
          split at hs
          · simp only [List.cons.injEq] at hs
            obtain ⟨rfl, rfl⟩ := hs
            simp
          · cases hs

end Octave
