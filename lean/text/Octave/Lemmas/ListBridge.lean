/-
Emitter half and glue for flat documents whose values are scalars or lists of scalars.

* `emitValue_list`, `emit_ldoc`     the emitter writes exactly `ldocText` with the layouts `FValue.canonLayout` chooses
                                    (`needsMulti`: multi-line iff ≥ 3 items or an annotation-shaped string item);
* `listToks_ok`, `LLine.toV`, `ldocToks_bridge`, `toV_ok`   the lexer's token list (`Lemmas/ListLex`, concrete positions,
                                    either layout) is a token list the parser half (`Lemmas/ListDocParse`) reads;
* `ldocAt`                          the document read back (nodes positioned at their keys).
-/
import Octave.Lemmas.ListLex
import Octave.Lemmas.ListDocParse
import Octave.Lemmas.FlatBridge
namespace Octave.ListDoc
open Lexer Emitter

/-! ### the emitter -/

/-- when the emitter spells a list item the way `FScalar.text` does: quoted exactly when `needs_quotes` says so. -/
def ItemEmitOK : FScalar → Prop
  | .qstr s => needsQuotes s = true
  | .bare s => needsQuotes s = false
  | _ => True

theorem emitValue_scalar (x : FScalar) (h : ItemEmitOK x) (ind : Nat) : emitValue x.value ind = some x.text := by
  cases x <;> simp_all [ItemEmitOK, FScalar.value, FScalar.text, emitValue, emitStr]

theorem emitFlatParts_cons (x : FScalar) (vs : List Value) (ind : Nat) :
    emitFlatParts (x.value :: vs) ind
      = (match emitValue x.value ind, emitFlatParts vs ind with
         | some p, some rest => some (p :: rest)
         | _, _ => none) := by
  cases x <;> rfl

theorem emitMultiParts_cons (x : FScalar) (vs : List Value) (ind : Nat) :
    emitMultiParts (x.value :: vs) ind
      = (match emitValue x.value (ind + 1), emitMultiParts vs ind with
         | some p, some rest => some (p :: rest)
         | _, _ => none) := by
  cases x <;> rfl

def valAnnot : Value → Bool
  | .str s => isAnnotationText s
  | _ => false

/-- the item is a string of annotation shape `NAME<qualifier>` (quoted or not): it forces the multi-line layout. -/
def itemAnnot (x : FScalar) : Bool := valAnnot x.value

theorem needsMultilineAux_cons (x : FScalar) (vs : List Value) (n : Nat) :
    needsMultilineAux (x.value :: vs) n = (itemAnnot x || needsMultilineAux vs (n + 1)) := by
  cases x <;> simp [FScalar.value, itemAnnot, valAnnot, needsMultilineAux]

theorem needsMultilineAux_items (items : List FScalar) : ∀ n,
    needsMultilineAux (items.map FScalar.value) n = (items.any itemAnnot || decide (n + items.length ≥ 3)) := by
  induction items with
  | nil => intro n; simp [needsMultilineAux]
  | cons x r ih =>
    intro n
    rw [List.map_cons, needsMultilineAux_cons, ih (n + 1)]
    simp only [List.any_cons, List.length_cons, Bool.or_assoc]
    congr 2
    simp only [decide_eq_decide]; omega

/-- `_needs_multiline` on a list of scalars: three or more items, or an annotation-shaped string among them. -/
def needsMulti (items : List FScalar) : Bool := items.any itemAnnot || decide (items.length ≥ 3)

theorem needsMultiline_items (items : List FScalar) : needsMultiline (items.map FScalar.value) = needsMulti items := by
  rw [needsMultiline, needsMultilineAux_items]; simp [needsMulti]

theorem emitFlatParts_items (items : List FScalar) (h : ∀ x ∈ items, ItemEmitOK x) (ind : Nat) :
    emitFlatParts (items.map FScalar.value) ind = some (items.map FScalar.text) := by
  induction items with
  | nil => rfl
  | cons x r ih =>
    rw [List.map_cons, emitFlatParts_cons, emitValue_scalar x (h x (by simp)), ih (fun y hy => h y (by simp [hy]))]
    rfl

theorem emitMultiParts_items (items : List FScalar) (h : ∀ x ∈ items, ItemEmitOK x) (ind : Nat) :
    emitMultiParts (items.map FScalar.value) ind = some (items.map FScalar.text) := by
  induction items with
  | nil => rfl
  | cons x r ih =>
    rw [List.map_cons, emitMultiParts_cons, emitValue_scalar x (h x (by simp)), ih (fun y hy => h y (by simp [hy]))]
    rfl

theorem joinWith_inlineTail (x : FScalar) (r : List FScalar) :
    joinWith [','] ((x :: r).map FScalar.text) ++ [']'] = x.text ++ inlineTail r := by
  induction r generalizing x with
  | nil => simp [joinWith, inlineTail]
  | cons y r ih =>
    simp only [List.map_cons, joinWith, inlineTail, List.append_assoc] at ih ⊢
    rw [ih y]; simp

theorem joinWith_cons_ne (sep a : Str) (l : List Str) (h : l ≠ []) : joinWith sep (a :: l) = a ++ sep ++ joinWith sep l := by
  obtain ⟨b, r, rfl⟩ := List.exists_cons_of_ne_nil h
  rfl

theorem joinWith_multiTail (ind : Nat) (x : FScalar) (r : List FScalar) :
    joinWith ['\n'] (multilineLines (spacesL ind) ((x :: r).map FScalar.text) ++ [[']']])
      = spacesL ind ++ (x.text ++ multiTail ind r) := by
  induction r generalizing x with
  | nil => simp [multilineLines, joinWith, multiTail]
  | cons y r ih =>
    have h := ih y
    simp only [List.map_cons] at h ⊢
    rw [multilineLines, List.cons_append, joinWith_cons_ne _ _ _ (by simp), h]
    simp [multiTail]

/-- `emit_value` on a list of scalars: `[]`, the one-line layout, or the multi-line layout with two spaces — chosen by
`needsMulti` (content only). -/
theorem emitValue_list (items : List FScalar) (h : ∀ x ∈ items, ItemEmitOK x) :
    emitValue (.list (items.map FScalar.value)) 0
      = some (if needsMulti items then multiText 2 items else inlineText items) := by
  cases items with
  | nil => rfl
  | cons x r =>
    have hne : ((x :: r).map FScalar.value).isEmpty = false := by simp
    rw [emitValue]
    simp only [hne, Bool.false_eq_true, if_false, needsMultiline_items]
    cases hm : needsMulti (x :: r) with
    | true =>
      simp only [if_true, emitMultiParts_items (x :: r) h 0, Option.map_some]
      have hp : ((x :: r).map FScalar.text).isEmpty = false := by simp
      simp only [hp, Bool.false_eq_true, if_false]
      have e : indentStr 0 ++ [']'] = [']'] := rfl
      have e2 : indentStr (0 + 1) = spacesL 2 := rfl
      rw [e, e2, List.cons_append, joinWith_cons_ne _ _ _ (by simp), joinWith_multiTail]
      simp [multiText]
    | false =>
      simp only [Bool.false_eq_true, if_false, emitFlatParts_items (x :: r) h 0, Option.map_some]
      have := joinWith_inlineTail x r
      simp only [List.cons_append, inlineText]
      rw [this]

/-! ### lines and documents -/

def FValue.value : FValue → Value
  | .scalar s => s.value
  | .list items => .list (items.map FScalar.value)

/-- the layout the emitter chooses for the value: a function of the content only. -/
def FValue.canonLayout : FValue → Layout
  | .scalar _ => .inline
  | .list items => if needsMulti items then .multi 2 else .inline

/-- when the emitter spells the line the way `LLine.text` does: a scalar value as for flat documents (`FLine.EmitOK`: quoting
as `needs_quotes` decides, no bare word under `PATTERN` / `REGEX`); list items only by `needs_quotes` (no key condition). -/
def LLine.EmitOK (ln : LLine) : Prop :=
  match ln.v with
  | .scalar s => (FLine.mk ln.key s).EmitOK
  | .list items => ∀ x ∈ items, ItemEmitOK x

def LLine.node (ln : LLine) (l c : Nat) : Node := .assign ln.key ln.v.value l c [] none

theorem emitNode_lline (env : Env) (ln : LLine) (l c : Nat) (h : ln.EmitOK) :
    emitNode env (ln.node l c) 0 false = some [ln.text ln.v.canonLayout] := by
  obtain ⟨key, v⟩ := ln
  cases v with
  | scalar s => exact emitNode_flat env ⟨key, s⟩ l c h
  | list items =>
    have hv := emitValue_list items h
    simp only [LLine.node, FValue.value, emitNode, emitAssignment, hv, Option.map_some, forceQuote, leadingLines, List.map_nil,
      List.nil_append, indentStr, LLine.text, FValue.text, FValue.canonLayout]
    cases needsMulti items <;> simp [listText]

/-- the nodes of the lines, each at any position. -/
inductive NodesOf : List LLine → List Node → Prop
  | nil : NodesOf [] []
  | cons (ln : LLine) (l c : Nat) {r : List LLine} {ns : List Node} : NodesOf r ns → NodesOf (ln :: r) (ln.node l c :: ns)

/-- the lines with the layouts the emitter chooses. -/
def canonLL (lines : List LLine) : List LL := lines.map fun ln => (ln, ln.v.canonLayout)

theorem emitTop_llines (env : Env) {lines : List LLine} {nodes : List Node} (hn : NodesOf lines nodes)
    (h : ∀ ln ∈ lines, ln.EmitOK) :
    emitTop env nodes = some ((canonLL lines).map fun x => x.1.text x.2) := by
  induction hn with
  | nil => rfl
  | cons ln l c _ ih =>
    have h1 := emitNode_lline env ln l c (h ln (by simp))
    have h2 := ih (fun x hx => h x (by simp [hx]))
    simp only [LLine.node] at h1
    simp only [emitTop, LLine.node, h1, h2, canonLL, List.map_cons]
    rfl

theorem joinWith_llines (ls : List LL) (tail : Str) :
    joinWith ['\n'] (ls.map (fun x => x.1.text x.2) ++ [tail]) = llinesText ls ++ tail := by
  induction ls with
  | nil => rfl
  | cons x r ih =>
    rw [List.map_cons, List.cons_append, joinWith_cons_ne _ _ _ (by simp), ih]
    simp [llinesText]

/-- **The emitter on a flat document with list values** writes exactly `ldocText` with the canonical layouts. -/
theorem emit_ldoc (env : Env) (name : Str) {lines : List LLine} {nodes : List Node} (hn : NodesOf lines nodes)
    (h : ∀ ln ∈ lines, ln.EmitOK) :
    emit env { name := name, sections := nodes } = some (ldocText name (canonLL lines)) := by
  have ht := emitTop_llines env hn h
  have hj := joinWith_llines (canonLL lines) "===END===".toList
  unfold emit emitBody
  simp only [emitMetaLines, ht, leadingLines, List.map_nil, List.isEmpty_nil, Bool.true_or, if_true,
    Bool.false_eq_true, if_false, List.nil_append, List.append_nil, bind, Option.bind, pure, Option.map]
  show some (finishText (joinWith ['\n'] (("===".toList ++ name ++ "===".toList) ::
    ((canonLL lines).map (fun x => x.1.text x.2) ++ ["===END===".toList])))) = _
  rw [joinWith_cons_ne _ _ _ (by simp), hj]
  have hlast : (("===".toList ++ name ++ "===".toList) ++ ['\n'] ++ (llinesText (canonLL lines) ++ "===END===".toList)).getLast? = some '=' := by
    rw [List.getLast?_append, List.getLast?_append]; rfl
  simp only [finishText, hlast]
  simp [ldocText]
open Octave.ListDocParse (AllWs HeadToks ListToks VLine isWsT vdocToks vdoc vmetaFirst vline_scalar_ok vline_list_ok)

/-! ### glue: the lexer's tokens are tokens the parser half reads -/

theorem scalar_tok_toP (v : FScalar) (l c : Nat) : v.tok l c = v.toP.tok l c := by cases v <;> rfl
theorem scalar_val_toP (v : FScalar) : v.toP.val = v.value := by cases v <;> rfl

theorem allWs_nil : AllWs [] := fun _ h => by cases h
theorem allWs_nl (l c : Nat) : AllWs [tNewline l c] := fun t h => by
  have : t = tNewline l c := by simpa using h
  subst this; rfl
theorem allWs_nl_ind (ind l c l' : Nat) : AllWs (tNewline l c :: indToks ind l') := fun t h => by
  unfold indToks at h
  split at h
  · have : t = tNewline l c := by simpa using h
    subst this; rfl
  · simp only [List.mem_cons, List.mem_nil_iff, or_false] at h
    rcases h with rfl | rfl <;> rfl

theorem headToks_inline (r : List FScalar) : ∀ (x : FScalar) (l c c' : Nat),
    HeadToks ((x :: r).map FScalar.toP) (x.tok l c :: inlineTailToks l c' r) := by
  induction r with
  | nil =>
    intro x l c c'
    have := HeadToks.last [] x.toP l c [] (tRb l c') allWs_nil allWs_nil rfl
    simpa [inlineTailToks, scalar_tok_toP] using this
  | cons y r ih =>
    intro x l c c'
    have := HeadToks.more [] x.toP l c (tComma l c') _ _ allWs_nil rfl (ih y l (c' + 1) (c' + 1 + y.text.length))
    simpa [inlineTailToks, scalar_tok_toP] using this

theorem headToks_multi (ind : Nat) (r : List FScalar) : ∀ (x : FScalar) (ws : List Token) (l c l' c' : Nat), AllWs ws →
    HeadToks ((x :: r).map FScalar.toP) (ws ++ x.tok l c :: multiTailToks ind l' c' r) := by
  induction r with
  | nil =>
    intro x ws l c l' c' hws
    have := HeadToks.last ws x.toP l c [tNewline l' c'] (tRb (l' + 1) 1) hws (allWs_nl _ _) rfl
    simpa [multiTailToks, scalar_tok_toP] using this
  | cons y r ih =>
    intro x ws l c l' c' hws
    have := HeadToks.more ws x.toP l c (tComma l' c') _ _ hws rfl
      (ih y (tNewline l' (c' + 1) :: indToks ind (l' + 1)) (l' + 1) (1 + ind) (l' + 1) (1 + ind + y.text.length) (allWs_nl_ind _ _ _ _))
    simpa [multiTailToks, scalar_tok_toP] using this

/-- the lexer's tokens of a list value, in either layout, are a `ListToks`. -/
theorem listToks_ok (lay : Layout) (l c : Nat) (items : List FScalar) :
    ListToks (items.map FScalar.toP) (listToks lay l c items) := by
  cases lay with
  | inline =>
    cases items with
    | nil => exact ListToks.empty (tLb l c) [] (tRb l (c + 1)) rfl allWs_nil rfl
    | cons x r => exact ListToks.items (tLb l c) _ _ rfl (headToks_inline r x l (c + 1) (c + 1 + x.text.length))
  | multi ind =>
    cases items with
    | nil => exact ListToks.empty (tLb l c) [tNewline l (c + 1)] (tRb (l + 1) 1) rfl (allWs_nl _ _) rfl
    | cons x r =>
      exact ListToks.items (tLb l c) _ _ rfl
        (headToks_multi ind r x (tNewline l (c + 1) :: indToks ind (l + 1)) (l + 1) (1 + ind) (l + 1) (1 + ind + x.text.length)
          (allWs_nl_ind _ _ _ _))

/-! ### lines -/

theorem FValue.toks_ne_nil (v : FValue) (lay : Layout) (l c : Nat) : v.toks lay l c ≠ [] := by
  cases v with
  | scalar s => simp [FValue.toks]
  | list items => cases lay <;> cases items <;> simp [FValue.toks, listToks, inlineToks, multiToks]

/-- the line as the parser half describes it. -/
def LLine.toV (ln : LLine) (lay : Layout) (l : Nat) : VLine :=
  { kt := tIdent ln.key l 1, key := ln.key, a := tAssign l (1 + ln.key.length),
    vt := (ln.v.toks lay l (1 + ln.key.length + 2)).headD default,
    vr := (ln.v.toks lay l (1 + ln.key.length + 2)).tail,
    v := ln.v.value,
    nl := tNewline (l + ln.v.height lay) (ln.v.endCol lay (1 + ln.key.length + 2)) }

theorem LLine.toV_vtoks (ln : LLine) (lay : Layout) (l : Nat) :
    (ln.toV lay l).vt :: (ln.toV lay l).vr = ln.v.toks lay l (1 + ln.key.length + 2) := by
  obtain ⟨t, r, h⟩ := List.exists_cons_of_ne_nil (FValue.toks_ne_nil ln.v lay l (1 + ln.key.length + 2))
  simp only [LLine.toV, h, List.headD_cons, List.tail_cons]

theorem LLine.toV_toks (ln : LLine) (lay : Layout) (l : Nat) : (ln.toV lay l).toks = ln.toks lay l := by
  have h := LLine.toV_vtoks ln lay l
  simp only [VLine.toks, LLine.toks]
  rw [← List.cons_append, h]
  rfl

/-- fuel `parse_value` needs for the value. -/
def FValue.need : FValue → Nat
  | .scalar _ => 2
  | .list items => items.length + 6

theorem LLine.toV_ok (ln : LLine) (lay : Layout) (l : Nat) : (ln.toV lay l).OK ln.v.need := by
  obtain ⟨key, v⟩ := ln
  cases v with
  | scalar s =>
    have := vline_scalar_ok (tIdent key l 1) (tAssign l (1 + key.length)) (tNewline (l + 0) (1 + key.length + 2 + s.text.length)) key
      s.toP l (1 + key.length + 2) rfl rfl rfl rfl
    rw [← scalar_tok_toP, scalar_val_toP] at this
    exact this
  | list items =>
    have hv := LLine.toV_vtoks ⟨key, .list items⟩ lay l
    have hl : ListToks (items.map FScalar.toP) ((LLine.toV ⟨key, .list items⟩ lay l).vt :: (LLine.toV ⟨key, .list items⟩ lay l).vr) := by
      rw [hv]; exact listToks_ok lay l _ items
    have := vline_list_ok (tIdent key l 1) (tAssign l (1 + key.length))
      (tNewline (l + (FValue.list items).height lay) ((FValue.list items).endCol lay (1 + key.length + 2))) key
      (items.map FScalar.toP) _ _ hl rfl rfl rfl rfl
    have e : (items.map FScalar.toP).map FlatParse.Scalar.val = items.map FScalar.value := by
      rw [List.map_map]; congr 1; funext x; exact scalar_val_toP x
    rw [e, List.length_map] at this
    exact this

def toVLines (l : Nat) : List LL → List VLine
  | [] => []
  | x :: r => x.1.toV x.2 l :: toVLines (l + x.1.height x.2) r

theorem llinesToks_bridge (ls : List LL) : ∀ l, llinesToks l ls = (toVLines l ls).flatMap VLine.toks := by
  induction ls with
  | nil => intro l; rfl
  | cons x r ih => intro l; simp only [llinesToks, toVLines, List.flatMap_cons, LLine.toV_toks, ih]

theorem ldocToks_bridge (name : Str) (ls : List LL) :
    ldocToks name ls = vdocToks (flatFrame name (llinesHeight ls)) name (toVLines 2 ls) := by
  simp only [ldocToks, vdocToks, llinesToks_bridge]
  simp [flatFrame, FlatParse.Frame.envTok, FlatParse.Frame.nl0Tok, FlatParse.Frame.endTok, FlatParse.Frame.nl1Tok, FlatParse.Frame.eofTok,
    tEof, tNewline, tEnvEnd, tEnvStart]

/-- the nodes read back: each line's Assignment at its key (line counted through the multi-line lists, column 1). -/
def lnodesAt (l : Nat) : List LL → List Node
  | [] => []
  | x :: r => x.1.node l 1 :: lnodesAt (l + x.1.height x.2) r

def ldocAt (name : Str) (ls : List LL) : Document := { name := name, sections := lnodesAt 2 ls }

theorem vdoc_bridge (name : Str) (ls : List LL) : vdoc name (toVLines 2 ls) = ldocAt name ls := by
  have h : ∀ (ls : List LL) (l : Nat), (toVLines l ls).map VLine.node = lnodesAt l ls := by
    intro ls
    induction ls with
    | nil => intro l; rfl
    | cons x r ih => intro l; simp only [toVLines, List.map_cons, lnodesAt, ih]; rfl
  simp only [vdoc, ldocAt, h]

theorem nodesOf_lnodesAt (ls : List LL) : ∀ l, NodesOf (ls.map Prod.fst) (lnodesAt l ls) := by
  induction ls with
  | nil => intro l; exact NodesOf.nil
  | cons x r ih => intro l; exact NodesOf.cons x.1 l 1 (ih _)

theorem vmetaFirst_bridge (ls : List LL) (l : Nat) :
    vmetaFirst (toVLines l ls) = (match ls with | x :: _ => x.1.key == "META".toList | [] => false) := by
  cases ls <;> rfl

/-! ### fuel: linear in the number of tokens -/

theorem inlineTailToks_length (r : List FScalar) : ∀ l c, r.length ≤ (inlineTailToks l c r).length := by
  induction r with
  | nil => intro l c; simp
  | cons x r ih => intro l c; have := ih l (c + 1 + x.text.length); simp only [inlineTailToks, List.length_cons]; omega

theorem multiTailToks_length (ind : Nat) (r : List FScalar) : ∀ l c, r.length ≤ (multiTailToks ind l c r).length := by
  induction r with
  | nil => intro l c; simp
  | cons x r ih => intro l c; have := ih (l + 1) (1 + ind + x.text.length); simp only [multiTailToks, List.length_cons, List.length_append]; omega

theorem need_le_toks (ln : LLine) (lay : Layout) (l : Nat) : ln.v.need ≤ (ln.toks lay l).length + 6 := by
  obtain ⟨key, v⟩ := ln
  cases v with
  | scalar s => simp [FValue.need]
  | list items =>
    simp only [FValue.need, LLine.toks, FValue.toks, List.length_cons, List.length_append, List.length_nil]
    cases lay with
    | inline =>
      cases items with
      | nil => simp
      | cons x r => have := inlineTailToks_length r l (1 + key.length + 2 + 1 + x.text.length); simp only [listToks, inlineToks, List.length_cons]; omega
    | multi ind =>
      cases items with
      | nil => simp
      | cons x r => have := multiTailToks_length ind r (l + 1) (1 + ind + x.text.length); simp only [listToks, multiToks, List.length_cons, List.length_append]; omega

theorem toVLines_ok (ls : List LL) : ∀ l, ∀ v ∈ toVLines l ls, v.OK ((llinesToks l ls).length + 6) := by
  induction ls with
  | nil => intro l v hv; cases hv
  | cons x r ih =>
    intro l v hv
    simp only [toVLines, List.mem_cons] at hv
    rcases hv with rfl | hv
    · refine (LLine.toV_ok x.1 x.2 l).mono ?_
      have := need_le_toks x.1 x.2 l
      simp only [llinesToks, List.length_append]; omega
    · refine (ih _ v hv).mono ?_
      simp only [llinesToks, List.length_append]; omega


end Octave.ListDoc
