import Octave.Lemmas.MetaNumLex
import Octave.Lemmas.MetaBridge
/-!
Glue between the lexer half (`MetaNumLex`, concrete positions) and the parser half (`MetaParse`, arbitrary positions — its
`FlatParse.Scalar` already has the `float` case, so NO new parser proof is needed) for documents whose META block carries
scalars and floats.

* `fieldsToP`                the fields as the parser half describes them (`num s` ↦ `.float s s`);
* `metaNumPos`, `metaNumToks_bridge`   positions of the source lines; the two descriptions of the token list agree;
* `metaNumRead`, `metaNumDoc_bridge`   the document the parser half returns, in the vocabulary of the lexer half;
* `metaNumRead_of_nodup`     with distinct keys it is `metaNumDoc name canonPos fields nodes`;
* `metaNumWarns`             the parser warnings on the canonical text.
-/
namespace Octave.MetaNum
open Octave Lexer Emitter
open Octave.Nest (NLeaf)

/-- the fields as the parser half describes them. -/
def fieldsToP (fields : List MField) : List (Str × FlatParse.Scalar) := fields.map fun f => (f.key, f.v.toP)

theorem fieldsToP_length (fields : List MField) : (fieldsToP fields).length = fields.length := by simp [fieldsToP]

/-- positions of the tokens of a field line at text line `l`. -/
def fieldPos (f : MField) (l : Nat) : BlockParse.LPos :=
  { li := l, ci := 1, l := l, c1 := 3, c2 := 3 + f.key.length, c3 := 3 + f.key.length + 2,
    c4 := 3 + f.key.length + 2 + f.v.text.length }

def fieldsLpos (l : Nat) : List MField → List BlockParse.LPos
  | [] => []
  | f :: fs => fieldPos f l :: fieldsLpos (l + 1) fs

theorem fieldsLpos_length (fields : List MField) : ∀ l, (fieldsLpos l fields).length = fields.length := by
  induction fields with
  | nil => intro l; rfl
  | cons f fs ih => intro l; simp [fieldsLpos, ih]

/-- positions of all source lines between the envelope line and `===END===`: `META:` (text line 2), the fields, the body. -/
def metaNumLpos (fields : List MField) (nodes : List TNode) : List BlockParse.LPos :=
  headerPos "META".toList 0 2 :: (fieldsLpos 3 fields ++ lposList 0 (3 + fields.length) nodes)

def metaNumPos (fields : List MField) (nodes : List TNode) : Nat → BlockParse.LPos :=
  fun i => (metaNumLpos fields nodes).getD i default

theorem agree_metaNumPos (fields : List MField) (nodes : List TNode) :
    Agree (metaNumPos fields nodes) (metaNumLpos fields nodes) 0 := by
  intro j p hp
  simp only [metaNumPos, Nat.zero_add, List.getD_eq_getElem?_getD, hp, Option.getD_some]

theorem agree_metaNum_fields (fields : List MField) (nodes : List TNode) :
    Agree (metaNumPos fields nodes) (fieldsLpos 3 fields) 1 := by
  have h := (agree_metaNumPos fields nodes).tail
  exact h.left

theorem agree_metaNum_body (fields : List MField) (nodes : List TNode) :
    Agree (metaNumPos fields nodes) (lposList 0 (1 + fields.length + 2) nodes) (1 + fields.length) := by
  have h := (agree_metaNumPos fields nodes).tail.right
  rw [fieldsLpos_length] at h
  rw [show 1 + fields.length + 2 = 3 + fields.length by omega, show 1 + fields.length = 0 + 1 + fields.length by omega]
  exact h

/-- the frame (envelope and end tokens) of the canonical text. -/
def metaNumFrame (name : Str) (fields : List MField) (nodes : List TNode) : FlatParse.Frame :=
  treeFrame name (metaNumBodyLines fields nodes)

/-- the tokens of the fields in reading order, in the vocabulary of the parser half. -/
theorem fieldsToks_agree (fields : List MField) : ∀ (l : Nat) (pos : Nat → BlockParse.LPos) (i : Nat),
    Agree pos (fieldsLpos l fields) i →
      (fieldsToksRev l fields).reverse = BlockParse.toksList pos (MetaParse.fieldNodes (fieldsToP fields)) 1 i := by
  induction fields with
  | nil => intro l pos i _; rfl
  | cons f fs ih =>
    intro l pos i h
    simp only [fieldsLpos] at h
    have hp : pos i = fieldPos f l := h.head
    have ih' := ih (l + 1) pos (i + 1) h.tail
    simp only [fieldsToksRev, List.reverse_append, ih', fieldsToP, List.map_cons, MetaParse.fieldNodes, BlockParse.toksList,
      BlockParse.TNode.body, BlockParse.TNode.lines, hp]
    simp only [MField.toksRev, List.reverse_cons, List.reverse_nil, List.nil_append, List.cons_append, BlockParse.indentToks,
      BlockParse.indentTok, FlatParse.Line.toks, FlatParse.Line.keyTok, FlatParse.Line.assignTok, FlatParse.Line.valTok,
      FlatParse.Line.nlTok, BlockParse.mkLine, fieldPos, NLeaf.tok]
    rfl

/-- the token list in reading order. -/
theorem metaNumToks_eq (name : Str) (fields : List MField) (nodes : List TNode) :
    metaNumToks name fields nodes =
      tEnvStart name 1 1 :: tNewline 1 (1 + (name.length + 6)) ::
        tIdent "META".toList 2 1 :: tBlock 2 5 :: tNewline 2 6 ::
          ((fieldsToksRev 3 fields).reverse ++ (treeToks 0 (3 + fields.length) nodes ++
            [tEnvEnd (metaNumBodyLines fields nodes + 2) 1, tNewline (metaNumBodyLines fields nodes + 2) 10,
             tEof (metaNumBodyLines fields nodes + 3) 1])) := by
  simp [metaNumToks, metaNumToksRev, treeToksRev_reverse]

/-- **the two descriptions of the token list agree.** -/
theorem metaNumToks_bridge (name : Str) (fields : List MField) (nodes : List TNode) :
    metaNumToks name fields nodes
      = MetaParse.metaToks (metaNumFrame name fields nodes) name (metaNumPos fields nodes) (fieldsToP fields) (treeToP nodes) := by
  rw [metaNumToks_eq, fieldsToks_agree fields 3 (metaNumPos fields nodes) 1 (agree_metaNum_fields fields nodes),
    treeToks_agree nodes 0 (3 + fields.length) (metaNumPos fields nodes) (1 + fields.length)
      (by have := agree_metaNum_body fields nodes
          rwa [show 1 + fields.length + 2 = 3 + fields.length by omega] at this)]
  have h0 : metaNumPos fields nodes 0 = headerPos "META".toList 0 2 := (agree_metaNumPos fields nodes).head
  simp only [MetaParse.metaToks, fieldsToP_length, h0]
  rfl

/-- every block key of the body sits at column `2·d + 1`. -/
theorem colsOk_metaNumPos (fields : List MField) (nodes : List TNode) :
    BlockParse.colsOkList (metaNumPos fields nodes) (treeToP nodes) 0 (1 + (fieldsToP fields).length) = true := by
  rw [fieldsToP_length]
  exact BlockParse.colsOkList_of_canon _ _ 0 _
    (canonColsList_agree nodes 0 _ (metaNumPos fields nodes) (1 + fields.length) (agree_metaNum_body fields nodes))

/-! ### the document -/

theorem leaf_val_toP (a : NLeaf) : a.toP.val = a.value := rfl

theorem fieldKv_bridge (fields : List MField) : MetaParse.fieldKv (fieldsToP fields) = metaNumKv fields := by
  simp [MetaParse.fieldKv, fieldsToP, metaNumKv, NLeaf.value]

theorem fieldsToP_keys (fields : List MField) : (fieldsToP fields).map Prod.fst = fields.map MField.key := by
  simp [fieldsToP]

/-- the document the reader returns for the canonical text, in general: `meta` is the Python dict built field by field
(`MetaParse.metaDict`: a repeated key overwrites in place); the body nodes at their text lines, column `1 + 2·depth`. -/
def metaNumRead (name : Str) (fields : List MField) (nodes : List TNode) : Document :=
  { name := name, metaKv := MetaParse.metaDict [] (fieldsToP fields),
    sections := treeNodes canonPos (1 + fields.length) 0 nodes }

/-- **the document of the parser half is the document of the lexer half.** -/
theorem metaNumDoc_bridge (name : Str) (fields : List MField) (nodes : List TNode) :
    MetaParse.metaDoc name (metaNumPos fields nodes) (fieldsToP fields) (treeToP nodes) = metaNumRead name fields nodes := by
  simp only [MetaParse.metaDoc, metaNumRead, fieldsToP_length,
    nodeList_agree nodes 0 (metaNumPos fields nodes) (1 + fields.length) (agree_metaNum_body fields nodes)]

/-- with distinct keys (what a Python dict has) `meta` is exactly the fields, in order. -/
theorem metaNumRead_of_nodup (name : Str) (fields : List MField) (nodes : List TNode) (hnd : (fields.map MField.key).Nodup) :
    metaNumRead name fields nodes = metaNumDoc name canonPos fields nodes := by
  simp only [metaNumRead, metaNumDoc]
  rw [MetaParse.metaDict_of_nodup _ (by rw [fieldsToP_keys]; exact hnd), fieldKv_bridge]

theorem stripFrontmatter_metaNum (env : Env) (name : Str) (fields : List MField) (nodes : List TNode) :
    Parser.stripFrontmatter env (metaNumText name fields nodes) = (metaNumText name fields nodes, none) := by
  unfold Parser.stripFrontmatter
  have e1 : metaNumText name fields nodes = '=' :: '=' :: '=' :: (name ++ "===".toList ++ '\n' ::
      ("META:".toList ++ '\n' :: (fieldsText fields ++ (treeText 0 nodes ++ ("===END===".toList ++ ['\n']))))) := by
    simp [metaNumText]
  rw [e1]
  rfl

/-- the parser's warnings on the canonical text: the duplicate-key warnings of META, then the warnings of the body. -/
def metaNumWarns (fields : List MField) (nodes : List TNode) : List Parser.Warning :=
  MetaParse.metaWarns (metaNumPos fields nodes) [] (fieldsToP fields) 1 ++
    BlockParse.warnsList (metaNumPos fields nodes) (treeToP nodes) [] (1 + fields.length)

end Octave.MetaNum
