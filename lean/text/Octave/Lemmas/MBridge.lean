import Octave.Lemmas.MLex
import Octave.Lemmas.MParse
import Octave.Lemmas.UBridge
import Octave.Lemmas.DBridge
/-!
Glue between the lexer half (`MLex`, concrete positions) and the parser half (`MParse`, arbitrary positions) of the round trip of
MASTER documents (META + lines with scalar / list / expression values + blocks + sections + comments).

* `mlineToQ`, `mlineTrail`, `mlineToQ_ok`   a line of the class in the vocabulary of the parser half; it satisfies `MParse.LineOK`
                                            (the scalar, NUMBER lexeme, list — either layout — and expression instances, each with or without a
                                            trailing COMMENT token behind the value);
* `MNode.ann` / `mforestAnn`                content and positions in the vocabulary of the parser half (comment lines and headers
                                            annotated as in `DBridge`);
* `MNode.toks_ann` / `mforestToks_ann`, `mDocToks_bridge`   the two descriptions of the token list agree;
* `mforest_wf_ann`, `metaFirstP_bridge`     the side conditions of the parser half hold for / translate to the lexer half;
* `mforestNodes_ann`, `mDoc_bridge`         the document of the parser half is `mDoc … canonPos …` (distinct META keys);
* `MNode.content` (`D.DContent`)            position-free content, computed from any AST that `mforestMatches`.
-/
set_option linter.unusedSimpArgs false
set_option linter.unusedVariables false
namespace Octave.M
open Octave Lexer Emitter
open Octave.MParse (PNode LineOK trailT termTok toksF nodesF wfF mToks mDocP metaFirstP lineOK_scalar lineOK_list lineOK_expr)
open Octave.DParse (leadT indT indTs texts)
open Octave.CommentParse (CPos cmtTok keyTok assignTok blockTok nlTok)
open Octave.U (UValue VSp lineToQ lineToQ_vtoks cmultiToks_ok)
open Octave.UParse (QLine)
open Octave.D (cmtPos annLead hdrPos texts_annLead annLead_isEmpty indentToks_ind leadToks_ann headerToks_ann sheaderToks_ann)
open Octave.ListDocParse (ListToks)

/-! ### one line -/

/-- the trailing comment at token level: its text and the position of its COMMENT token — the value's last line, one column
after the end of the value. -/
def mlineTrail (key : Str) (v : MValue) (trail : Option Str) (d l : Nat) : Option (Str × Nat × Nat) :=
  trail.map fun s => (s, l + v.height (v.canonSp d), v.endCol (v.canonSp d) (1 + 2 * d + key.length + 2) + 1)

/-- the warnings `parse_value` raises on the value (newest first): only an expression draws any. -/
def MValue.pwarns (sp : VSp) (l c : Nat) : MValue → List Parser.Warning
  | .u v => v.pwarns sp l c
  | .num _ _ => []

theorem MValue.toks_ne_nil (v : MValue) (sp : VSp) (l c : Nat) : v.toks sp l c ≠ [] := by
  cases v with
  | u v => exact U.UValue.toks_ne_nil v sp l c
  | num s sc => simp [MValue.toks]

/-- the line `KEY::value[ // trail]` at depth `d`, text line `l`, as the parser half describes it (as `U.lineToQ`, in the
canonical layout, the NEWLINE behind the trailing comment). -/
def mlineToQ (key : Str) (v : MValue) (trail : Option Str) (d l : Nat) : QLine :=
  { il := l, ic := 1, kt := tIdent key l (1 + 2 * d), key := key, a := tAssign l (1 + 2 * d + key.length),
    vt := (v.toks (v.canonSp d) l (1 + 2 * d + key.length + 2)).headD default,
    vr := (v.toks (v.canonSp d) l (1 + 2 * d + key.length + 2)).tail,
    v := v.value, vw := v.pwarns (v.canonSp d) l (1 + 2 * d + key.length + 2),
    nl := tNewline (l + v.height (v.canonSp d))
      (v.endCol (v.canonSp d) (1 + 2 * d + key.length + 2) + (trailText trail).length) }

theorem mlineToQ_vtoks (key : Str) (v : MValue) (trail : Option Str) (d l : Nat) :
    (mlineToQ key v trail d l).vt :: (mlineToQ key v trail d l).vr = v.toks (v.canonSp d) l (1 + 2 * d + key.length + 2) := by
  obtain ⟨t, r, h⟩ := List.exists_cons_of_ne_nil (MValue.toks_ne_nil v (v.canonSp d) l (1 + 2 * d + key.length + 2))
  simp only [mlineToQ, h, List.headD_cons, List.tail_cons]

theorem trailT_mlineTrail (key : Str) (v : MValue) (trail : Option Str) (d l : Nat) :
    trailT (mlineTrail key v trail d l)
      = trailToksRev (l + v.height (v.canonSp d)) (v.endCol (v.canonSp d) (1 + 2 * d + key.length + 2)) trail := by
  cases trail <;> rfl

theorem mlineTrail_text (key : Str) (v : MValue) (trail : Option Str) (d l : Nat) :
    (mlineTrail key v trail d l).map Prod.fst = trail := by
  cases trail <;> rfl

/-- the tokens of a line, in the vocabulary of the parser half. -/
theorem mlineToks_ann (key : Str) (v : MValue) (trail : Option Str) (d l : Nat) (lead : List (Str × CPos)) :
    mlineToks key v trail d l
      = indTs d (l, 1) ++ (PNode.line (mlineToQ key v trail d l) lead (mlineTrail key v trail d l)).core d := by
  have h := mlineToQ_vtoks key v trail d l
  simp only [PNode.core]
  rw [← List.cons_append, h, trailT_mlineTrail]
  simp only [mlineToks, indentToks_ind, mlineToQ, List.append_assoc]

/-- **every line of the class satisfies the parser half's `LineOK`**, with or without a trailing comment. -/
theorem mlineToQ_ok (env : Env) (key : Str) (v : MValue) (trail : Option Str) (d l : Nat) (hv : v.OK env) :
    LineOK (mlineToQ key v trail d l) (mlineTrail key v trail d l) := by
  cases v with
  | num s sc =>
    exact lineOK_scalar l 1 (tIdent key l (1 + 2 * d)) (tAssign l (1 + 2 * d + key.length))
      (tNewline (l + 0) ((1 + 2 * d + key.length + 2) + s.length + (trailText trail).length)) key sc l
      (1 + 2 * d + key.length + 2) (mlineTrail key (.num s sc) trail d l) rfl rfl rfl rfl
  | u v =>
  cases v with
  | scalar s =>
    have := lineOK_scalar l 1 (tIdent key l (1 + 2 * d)) (tAssign l (1 + 2 * d + key.length))
      (tNewline (l + 0) ((1 + 2 * d + key.length + 2) + s.text.length + (trailText trail).length)) key s.toP l
      (1 + 2 * d + key.length + 2) (mlineTrail key (.u (.scalar s)) trail d l) rfl rfl rfl rfl
    rw [← FScalar.tok_toP, FScalar.val_toP] at this
    exact this
  | list items =>
    have hl : ListToks (items.map FScalar.toP)
        ((mlineToQ key (.u (.list items)) trail d l).vt :: (mlineToQ key (.u (.list items)) trail d l).vr) := by
      rw [mlineToQ_vtoks]
      show ListToks _ ((UValue.list items).toks ((UValue.list items).canonSp d) l _)
      generalize hsp : (UValue.list items).canonSp d = sp
      obtain ⟨lay, ops⟩ := sp
      cases lay with
      | inline => exact ListDoc.listToks_ok .inline l _ items
      | multi ind cind => exact cmultiToks_ok ind cind l _ items
    have := lineOK_list l 1 (tIdent key l (1 + 2 * d)) (tAssign l (1 + 2 * d + key.length))
      (mlineToQ key (.u (.list items)) trail d l).nl key
      (items.map FScalar.toP) _ _ hl (mlineTrail key (.u (.list items)) trail d l) rfl rfl rfl rfl
    have e : (items.map FScalar.toP).map FlatParse.Scalar.val = items.map FScalar.value := by
      rw [List.map_map]; congr 1; funext x; exact FScalar.val_toP x
    rw [e] at this
    exact this
  | expr e =>
    exact lineOK_expr l 1 (tIdent key l (1 + 2 * d)) (tAssign l (1 + 2 * d + key.length))
      (tNewline (l + 0) ((1 + 2 * d + key.length + 2) + (e.spell []).length + (trailText trail).length)) key e hv.2.2 l
      (1 + 2 * d + key.length + 2) _
      (Expr.tailToks_bridge l e.tail _ []) (mlineTrail key (.u (.expr e)) trail d l) rfl rfl rfl rfl

/-! ### forests -/

mutual
/-- the node at depth `d` whose first line (its first leading comment, if any) is text line `l`, as the parser half describes
it, annotated with the positions the lexer gives to its tokens. -/
def MNode.ann (d l : Nat) : MNode → PNode
  | .line key v lead trail =>
    .line (mlineToQ key v trail d (l + lead.length)) (annLead d l lead) (mlineTrail key v trail d (l + lead.length))
  | .block key cs lead =>
    .block key (mforestAnn (d + 1) (l + lead.length + 1) cs) (annLead d l lead) (hdrPos key d (l + lead.length))
  | .sect id key cs lead =>
    .sect id.toP key (mforestAnn (d + 1) (l + lead.length + 1) cs) (annLead d l lead) (sheaderPosS false id key d (l + lead.length))
def mforestAnn (d l : Nat) : List MNode → List PNode
  | [] => []
  | n :: ns => n.ann d l :: mforestAnn d (l + n.nlines d) ns
end

mutual
/-- **a node**: its tokens are its comment lines, its INDENT and its `core`. -/
theorem MNode.toks_ann : ∀ (n : MNode) (d l : Nat),
    n.toks d l = leadT d (n.ann d l).lead ++ (indTs d (n.ann d l).ipos ++ (n.ann d l).core d)
  | .line key v lead trail, d, l => by
    simp only [MNode.toks, MNode.ann, PNode.lead, PNode.ipos, leadToks_ann, mlineToks_ann key v trail d (l + lead.length) (annLead d l lead)]
    rfl
  | .block key cs lead, d, l => by
    simp only [MNode.toks, MNode.ann, PNode.lead, PNode.ipos, PNode.core, leadToks_ann, headerToks_ann,
      mforestToks_ann cs (d + 1) (l + lead.length + 1)]
    rfl
  | .sect id key cs lead, d, l => by
    simp only [MNode.toks, MNode.ann, PNode.lead, PNode.ipos, PNode.core, leadToks_ann, sheaderToks_ann,
      mforestToks_ann cs (d + 1) (l + lead.length + 1)]
    rfl
/-- **a forest**. -/
theorem mforestToks_ann : ∀ (ns : List MNode) (d l : Nat), mforestToks d l ns = toksF (mforestAnn d l ns) d
  | [], _, _ => rfl
  | n :: ns, d, l => by
    simp only [mforestToks, mforestAnn, toksF, MNode.toks_ann n d l, mforestToks_ann ns d (l + n.nlines d), List.append_assoc]
end

/-! ### the META block -/

theorem mforestNLines_fields (fields : List FLine) :
    mforestNLines 1 (fields.map fun ln => MNode.line ln.key (.u (.scalar ln.v)) [] none) = fields.length := by
  induction fields with
  | nil => rfl
  | cons ln ls ih =>
    simp only [List.map_cons, mforestNLines, MNode.nlines, ih, List.length_cons, List.length_nil, MValue.canonSp, MValue.height,
      UValue.canonSp, UValue.height]
    omega

theorem metaMNode_nlines (fields : List FLine) : (metaMNode fields).nlines 0 = 1 + fields.length := by
  have h := mforestNLines_fields fields
  have e : (metaMNode fields).nlines 0 = 0 + 1 + mforestNLines 1 (fields.map fun ln => MNode.line ln.key (.u (.scalar ln.v)) [] none) := rfl
  omega

theorem mforestToks_fields (fields : List FLine) : ∀ (l : Nat),
    mforestToks 1 l (fields.map fun ln => MNode.line ln.key (.u (.scalar ln.v)) [] none)
      = D.forestToks 1 l (fields.map fun ln => D.DNode.line ln [] none) := by
  induction fields with
  | nil => intro l; rfl
  | cons ln ls ih =>
    intro l
    simp only [List.map_cons, mforestToks, D.forestToks, MNode.toks, D.DNode.toks, MNode.nlines, D.DNode.nlines, leadToks,
      List.nil_append, List.length_nil, Nat.add_zero, Nat.zero_add, MValue.canonSp, MValue.height, UValue.canonSp, UValue.height, ih]
    simp [mlineToks, cLineToks, MValue.toks, MValue.endCol, MValue.height, MValue.canonSp, UValue.toks, UValue.endCol,
      UValue.height, UValue.canonSp, trailToksRev, trailText]

/-- the tokens of the META block are those the parser half describes at the positions `metaPos fields []`. -/
theorem metaToks_ann (f : FLine) (fs : List FLine) :
    (metaMNode (f :: fs)).toks 0 2 = DParse.metaPart (metaPos (f :: fs) []) (fieldsToP (f :: fs)) := by
  rw [← D.metaToks_ann]
  simp only [metaMNode, D.metaDNode, MNode.toks, D.DNode.toks, Nat.zero_add, mforestToks_fields]

/-! ### the whole document -/

/-- the frame (envelope and end tokens) of the canonical text. -/
def mFrame (name : Str) (fields : List FLine) (nodes : List MNode) (trailing : List Str) : FlatParse.Frame :=
  flatFrame name (docNLines (withMeta fields nodes) trailing)

/-- the body forest as the parser half sees it: annotated from its first text line on. -/
def bodyAnn (fields : List FLine) (nodes : List MNode) : List PNode := mforestAnn 0 (2 + metaLines fields) nodes

/-- the document's trailing comment lines, annotated. -/
def trailAnn (fields : List FLine) (nodes : List MNode) (trailing : List Str) : List (Str × CPos) :=
  annLead 0 (mforestNLines 0 (withMeta fields nodes) + 2) trailing

/-- **the two descriptions of the token list of the whole document agree.** -/
theorem mDocToks_bridge (name : Str) (fields : List FLine) (nodes : List MNode) (trailing : List Str) :
    mDocToks name fields nodes trailing
      = mToks (mFrame name fields nodes trailing) name (metaPos fields []) (fieldsToP fields) (bodyAnn fields nodes)
          (trailAnn fields nodes trailing) := by
  cases fields with
  | nil =>
    simp only [mDocToks, docToks, docToksBody, mToks, fieldsToP, List.map_nil, DParse.metaPart, List.nil_append, bodyAnn,
      trailAnn, metaLines, List.isEmpty_nil, if_true, Nat.add_zero, mforestToks_ann, leadToks_ann, List.cons_append,
      List.append_assoc]
    rfl
  | cons f fs =>
    have hw : withMeta (f :: fs) nodes = metaMNode (f :: fs) :: nodes := rfl
    have hl : metaLines (f :: fs) = 1 + (f :: fs).length := rfl
    have hb : mforestToks 0 2 (metaMNode (f :: fs) :: nodes)
        = DParse.metaPart (metaPos (f :: fs) []) (fieldsToP (f :: fs)) ++ toksF (mforestAnn 0 (2 + (1 + (f :: fs).length)) nodes) 0 := by
      rw [mforestToks, metaToks_ann, metaMNode_nlines, mforestToks_ann]
    simp only [mDocToks, docToks, docToksBody, mToks, bodyAnn, trailAnn, hw, hl, hb, leadToks_ann, List.cons_append,
      List.append_assoc]
    rfl

/-! ### the side conditions of the parser half -/

theorem mforestAnn_isEmpty (d l : Nat) (cs : List MNode) : (mforestAnn d l cs).isEmpty = cs.isEmpty := by
  cases cs <;> rfl

mutual
/-- every line is `LineOK`; every block key and every section marker of the text sits at column `2·d + 1`; every `§2b` letter is
a letter. -/
theorem MNode.wf_ann (env : Env) (al : Char → Bool) (hal : AlphaOK al) : ∀ (n : MNode) (d l : Nat), n.OK env →
    (n.ann d l).wf al d
  | .line key v lead trail, d, l, hok => by
    simp only [MNode.OK] at hok
    simp only [MNode.ann, PNode.wf]
    exact mlineToQ_ok env key v trail d (l + lead.length) hok.2.2.1
  | .block key cs lead, d, l, hok => by
    simp only [MNode.OK] at hok
    simp only [MNode.ann, PNode.wf, mforestAnn_isEmpty, hdrPos]
    refine ⟨?_, mforest_wf_ann env al hal cs (d + 1) (l + lead.length + 1) hok.2.2.2⟩
    split <;> omega
  | .sect id key cs lead, d, l, hok => by
    simp only [MNode.OK] at hok
    simp only [MNode.ann, PNode.wf, mforestAnn_isEmpty, sheaderPosS]
    refine ⟨SecId.letterOk_toP al hal id hok.1, ?_, mforest_wf_ann env al hal cs (d + 1) (l + lead.length + 1) hok.2.2.2.2⟩
    split <;> omega
theorem mforest_wf_ann (env : Env) (al : Char → Bool) (hal : AlphaOK al) : ∀ (ns : List MNode) (d l : Nat), mforestOK env ns →
    wfF al (mforestAnn d l ns) d
  | [], _, _, _ => trivial
  | n :: ns, d, l, hok => by
    simp only [mforestOK] at hok
    simp only [mforestAnn, wfF]
    exact ⟨MNode.wf_ann env al hal n d l hok.1, mforest_wf_ann env al hal ns d (l + n.nlines d) hok.2⟩
end

/-- the first body node is a line or a block keyed `META` with NO comment line above it (a section never counts). -/
def firstIsMeta : List MNode → Bool
  | .line key _ lead _ :: _ => lead.isEmpty && key == "META".toList
  | .block key _ lead :: _ => lead.isEmpty && key == "META".toList
  | _ => false

theorem metaFirstP_bridge (d l : Nat) (nodes : List MNode) : metaFirstP (mforestAnn d l nodes) = firstIsMeta nodes := by
  cases nodes with
  | nil => rfl
  | cons n ns =>
    cases n with
    | line key v lead trail => simp only [mforestAnn, MNode.ann, metaFirstP, firstIsMeta, annLead_isEmpty]; rfl
    | block key cs lead => simp only [mforestAnn, MNode.ann, metaFirstP, firstIsMeta, annLead_isEmpty]
    | sect id key cs lead => rfl

/-! ### the document -/

mutual
theorem MNode.node_ann : ∀ (n : MNode) (d i : Nat), (n.ann d (i + 2)).node = n.node canonPos i d
  | .line key v lead trail, d, i => by
    have e : i + 2 + lead.length = i + lead.length + 2 := by omega
    simp only [MNode.ann, PNode.node, MNode.node, texts_annLead, mlineTrail_text, canonPos, e]
    rfl
  | .block key cs lead, d, i => by
    have e : i + 2 + lead.length = i + lead.length + 2 := by omega
    simp only [MNode.ann, PNode.node, MNode.node, texts_annLead, hdrPos, canonPos, e,
      mforestNodes_ann cs (d + 1) (i + lead.length + 1)]
  | .sect id key cs lead, d, i => by
    have e : i + 2 + lead.length = i + lead.length + 2 := by omega
    simp only [MNode.ann, PNode.node, MNode.node, texts_annLead, sheaderPosS, canonPos, e, SecId.str_toP,
      mforestNodes_ann cs (d + 1) (i + lead.length + 1)]
theorem mforestNodes_ann : ∀ (ns : List MNode) (d i : Nat), nodesF (mforestAnn d (i + 2) ns) = mforestNodes canonPos i d ns
  | [], _, _ => rfl
  | n :: ns, d, i => by
    have e : i + 2 + n.nlines d = (i + n.nlines d) + 2 := by omega
    simp only [mforestAnn, nodesF, mforestNodes, MNode.node_ann n d i, e, mforestNodes_ann ns d (i + n.nlines d)]
end

/-- the document the reader returns for the canonical text, in general: `meta` is the Python dict built field by field. -/
def mDocRead (name : Str) (fields : List FLine) (nodes : List MNode) (trailing : List Str) : Document :=
  { name := name, metaKv := MetaParse.metaDict [] (fieldsToP fields),
    sections := mforestNodes canonPos (metaLines fields) 0 nodes, trailingComments := trailing }

/-- **the document of the parser half is the document of the lexer half.** -/
theorem mDoc_bridge (name : Str) (fields : List FLine) (nodes : List MNode) (trailing : List Str) :
    mDocP name (fieldsToP fields) (bodyAnn fields nodes) (trailAnn fields nodes trailing) = mDocRead name fields nodes trailing := by
  have e : 2 + metaLines fields = metaLines fields + 2 := by omega
  simp only [mDocP, mDocRead, bodyAnn, trailAnn, texts_annLead, e, mforestNodes_ann]

/-- with distinct keys (what a Python dict has) `meta` is exactly the fields, in order. -/
theorem mDocRead_of_nodup (name : Str) (fields : List FLine) (nodes : List MNode) (trailing : List Str)
    (hnd : (fields.map FLine.key).Nodup) : mDocRead name fields nodes trailing = mDoc name canonPos fields nodes trailing := by
  simp only [mDocRead, mDoc]
  rw [MetaParse.metaDict_of_nodup _ (by rw [fieldsToP_keys]; exact hnd), fieldKv_bridge]

theorem stripFrontmatter_mDoc (env : Env) (name : Str) (fields : List FLine) (nodes : List MNode) (trailing : List Str) :
    Parser.stripFrontmatter env (mDocText name fields nodes trailing) = (mDocText name fields nodes trailing, none) := by
  unfold Parser.stripFrontmatter
  have : startsWith "---".toList (mDocText name fields nodes trailing) = false := by
    simp [mDocText, docText, startsWith, List.isPrefixOf]
  rw [this]; rfl

/-! ### position-free content -/

mutual
/-- the content of a forest with every position forgotten (`D.DContent`): ids, names, keys, nesting, order, values with their
types — a list as the list of its items' values, an expression as the string of its canonical text —, every comment at its node. -/
def MNode.content : MNode → D.DContent
  | .line key v lead trail => .line key v.value lead trail
  | .block key cs lead => .block key (mforestContent cs) lead
  | .sect id key cs lead => .sect id.text key (mforestContent cs) lead
def mforestContent : List MNode → List D.DContent
  | [] => []
  | n :: ns => n.content :: mforestContent ns
end

mutual
/-- an AST node determines the content of every `MNode` that `Matches` it. -/
theorem MNode.content_of_matches : ∀ (t : MNode) (n : Node), t.Matches n → D.nodeContent n = t.content
  | .line key v lead trail, n, h => by
    simp only [MNode.Matches] at h
    obtain ⟨l, c, rfl⟩ := h
    rfl
  | .block key cs lead, n, h => by
    simp only [MNode.Matches] at h
    obtain ⟨ch, l, c, rfl, hm⟩ := h
    simp only [D.nodeContent, MNode.content, mforestContent_of_matches cs ch hm]
  | .sect id key cs lead, n, h => by
    simp only [MNode.Matches] at h
    obtain ⟨ch, l, c, rfl, hm⟩ := h
    simp only [D.nodeContent, MNode.content, mforestContent_of_matches cs ch hm]
theorem mforestContent_of_matches : ∀ (ts : List MNode) (ns : List Node), mforestMatches ts ns → D.nodesContent ns = mforestContent ts
  | [], ns, h => by
    simp only [mforestMatches] at h
    subst h; rfl
  | t :: ts, ns, h => by
    simp only [mforestMatches] at h
    obtain ⟨n, ns', rfl, hm, hr⟩ := h
    simp only [D.nodesContent, mforestContent, MNode.content_of_matches t n hm, mforestContent_of_matches ts ns' hr]
end

end Octave.M
