import Octave.Lemmas.ExprParse
import Octave.Lemmas.MultiWordLex
/-!
MULTI-WORD BARE VALUES as values of a flat document — parser half (token lists with ARBITRARY positions).

The token list of a multi-word value is `IDENTIFIER IDENTIFIER+` (`MWToks`), followed by a token that ends the value.

* `plainWords_run`      the coalescing loop of `parse_value`'s IDENTIFIER branch over the further words;
* `parseValue_mw`       `parse_value` returns `.str (words joined by one space)` and pushes exactly ONE warning:
                        `multi_word_coalesce` with the words, the result, the position of the FIRST word;
* `parseSection_mwline` one line `KEY::w0 w1 … wn`;
* `docLoop_mw`          the body loop on lines whose values are scalars (`FlatParse.Line`) or multi-word values, any number,
                        any order;
* `parseDocument_mw`    the whole `parse_document` (strict and lenient alike: the parser has no strict check here), with the
                        exact warnings `mwWarns`.
-/
namespace Octave.MW
open Octave Parser FlatParse Expr

local macro "step_simp" "[" ts:Lean.Parser.Tactic.simpLemma,* "]" : tactic =>
  `(tactic| simp only [bind, StateT.bind, Except.bind, pure, StateT.pure, Except.pure, current_mk, peek_mk, advance_mk,
      curType_mk, isAdjacentBracket_mk, budget_mk, warn_mk, get, getThe, MonadStateOf.get, StateT.get,
      Bool.false_eq_true, if_false, if_true, Bool.false_and, Bool.and_false, Bool.or_false, Bool.false_or,
      List.length_cons, List.length_nil, beq_iff_eq, bne_iff_ne, ne_eq, reduceCtorEq, not_true_eq_false, not_false_eq_true,
      Bool.and_eq_true, Bool.or_eq_true, Bool.not_eq_true', beq_eq_false_iff_ne, false_and, and_false, true_and, and_true,
      false_or, or_false, true_or, or_true, decide_eq_true_eq,
      beq_self_eq_true, Bool.true_or, Bool.or_true, Bool.true_and, Bool.and_true, Bool.not_true, Bool.not_false, $ts,*])

/-! ### the tokens of the further words -/

/-- one IDENTIFIER token per word, at arbitrary positions. -/
inductive MWToks : List Str → List Token → Prop
  | nil : MWToks [] []
  | cons (w : Str) (l c : Nat) {ws : List Str} {ts : List Token} : MWToks ws ts → MWToks (w :: ws) (tIdent w l c :: ts)

theorem MWToks.length_eq {ws : List Str} {ts : List Token} (h : MWToks ws ts) : ts.length = ws.length := by
  induction h with
  | nil => rfl
  | cons w l c _ ih => simp [ih]

theorem mw_head {ws : List Str} {ts : List Token} (h : MWToks ws ts) (next : Token) (k : List Token)
    (h1 : isExprOp next.type = false) (h2 : next.type ≠ .listStart) :
    ∃ u K, ts ++ next :: k = u :: K ∧ isExprOp u.type = false ∧ u.type ≠ .listStart := by
  cases h with
  | nil => exact ⟨next, k, rfl, h1, h2⟩
  | cons w l c h' => exact ⟨_, _, rfl, rfl, by simp [tIdent]⟩

theorem tokStr_tIdent (x : Str) (l c : Nat) : tokStr (tIdent x l c) = x := rfl

/-- one further word in the coalescing loop (not followed by an operator or a bracket). -/
theorem plainWords_ident (fuel : Nat) (start : Token) (words : List Str) (x : Str) (l c : Nat)
    (u : Token) (K : List Token) (hu1 : isExprOp u.type = false) (hu2 : u.type ≠ .listStart)
    (p : Option Token) (n : Nat) (la : Token) (w : List Warning) (d : Nat) (wd : List Nat) (s : Bool) (th : Nat) (al : Char → Bool) :
    plainWords (fuel + 1) start words
        { rest := tIdent x l c :: u :: K, prev := p, pos := n, last := la, warnings := w, depth := d, warned := wd, strict := s, threshold := th, alpha := al }
      = plainWords fuel start (words ++ [x])
        { rest := u :: K, prev := some (tIdent x l c), pos := n + 1, last := la, warnings := w, depth := d, warned := wd, strict := s, threshold := th, alpha := al } := by
  have ht : (tIdent x l c).type = TT.identifier := rfl
  have hv : isValueTok TT.identifier = true := rfl
  rw [plainWords]
  step_simp [ht, hv, hu1, hu2, tokStr_tIdent]

/-- **the coalescing loop over the further words**: each is appended to the word list. -/
theorem plainWords_run {ws : List Str} {ts : List Token} (h : MWToks ws ts) :
    ∀ (fuel : Nat) (start : Token) (words : List Str) (next : Token) (k : List Token),
    isExprOp next.type = false → next.type ≠ .listStart →
    ∀ (p : Option Token) (n : Nat) (la : Token) (w : List Warning) (d : Nat) (wd : List Nat) (s : Bool) (th : Nat) (al : Char → Bool),
    ∃ p', plainWords (fuel + ts.length) start words
        { rest := ts ++ next :: k, prev := p, pos := n, last := la, warnings := w, depth := d, warned := wd, strict := s, threshold := th, alpha := al }
      = plainWords fuel start (words ++ ws)
        { rest := next :: k, prev := p', pos := n + ts.length, last := la, warnings := w, depth := d, warned := wd, strict := s, threshold := th, alpha := al } := by
  induction h with
  | nil =>
    intro fuel start words next k _ _ p n la w d wd s th al
    exact ⟨p, by simp only [List.length_nil, Nat.add_zero, List.nil_append, List.append_nil]⟩
  | cons x l c h' ih =>
    rename_i ws' ts'
    intro fuel start words next k h1 h2 p n la w d wd s th al
    obtain ⟨u, K, hK, hu1, hu2⟩ := mw_head h' next k h1 h2
    obtain ⟨p', hih⟩ := ih fuel start (words ++ [x]) next k h1 h2 (some (tIdent x l c)) (n + 1) la w d wd s th al
    refine ⟨p', ?_⟩
    have hf : fuel + (tIdent x l c :: ts').length = (fuel + ts'.length) + 1 := by simp only [List.length_cons]; omega
    rw [hf, List.cons_append, hK, plainWords_ident (hu1 := hu1) (hu2 := hu2), ← hK, hih]
    have hp : n + 1 + ts'.length = n + (tIdent x l c :: ts').length := by simp only [List.length_cons]; omega
    rw [hp, List.append_assoc]; rfl

/-- the end of the coalescing loop with at least two words: the words are joined by ONE space and exactly one
`multi_word_coalesce` warning is pushed, positioned at the first word (`start`). -/
theorem plainWords_end (fuel : Nat) (start : Token) (words : List Str) (t : Token) (r : List Token)
    (hv : isValueTok t.type = false) (hl : t.type ≠ TT.listStart) (hlen : 1 < words.length)
    (p : Option Token) (n : Nat) (la : Token) (w : List Warning) (d : Nat) (wd : List Nat) (s : Bool) (th : Nat) (al : Char → Bool) :
    plainWords (fuel + 1) start words
        { rest := t :: r, prev := p, pos := n, last := la, warnings := w, depth := d, warned := wd, strict := s, threshold := th, alpha := al }
      = .ok (.str (spaceJoin words),
        { rest := t :: r, prev := p, pos := n, last := la,
          warnings := .multiWord words (spaceJoin words) [] start.line start.col :: w, depth := d, warned := wd, strict := s, threshold := th, alpha := al }) := by
  rw [plainWords]
  step_simp [hv, gt_iff_lt, hlen, trailingBracket_stop, hl]

/-! ### `parseValue` on a multi-word value -/

theorem mw_scan {ws : List Str} {ts : List Token} (h : MWToks ws ts) (next : Token) (k : List Token)
    (hv : isValueTok next.type = false) (hws : ∀ w ∈ ws, hasAnnotation w = false) :
    ((ts ++ next :: k).takeWhile (fun t => isValueTok t.type)).any (fun t => hasAnnotation (tokStr t)) = false := by
  induction h with
  | nil =>
    rw [List.nil_append, List.takeWhile_cons]
    simp only [hv, Bool.false_eq_true, if_false, List.any_nil]
  | cons x l c h' ih =>
    have hx : isValueTok (tIdent x l c).type = true := rfl
    rw [List.cons_append, List.takeWhile_cons]
    simp only [hx, if_true, List.any_cons, tokStr_tIdent, hws x (by simp), Bool.false_or]
    exact ih (fun w hw => hws w (by simp [hw]))

/-- **`parse_value` on the tokens of a multi-word value** `IDENTIFIER IDENTIFIER+` (arbitrary positions, no word carries an
annotation) followed by a token that ends the value: the value is the STRING of the words joined by one space each, and
exactly one warning is pushed — `multi_word_coalesce` with the words, that string, and the line / column of the FIRST
word.  The cursor is left on the terminating token; nothing else changes. -/
theorem parseValue_mw (hd : Str) (l c : Nat) {ws : List Str} {ts : List Token} (h : MWToks ws ts) (hne : ws ≠ [])
    (hah : hasAnnotation hd = false) (haw : ∀ w ∈ ws, hasAnnotation w = false)
    (next : Token) (k : List Token) (hn : endsValue next.type = true) (fuel : Nat)
    (p : Option Token) (n : Nat) (la : Token) (w : List Warning) (d : Nat) (wd : List Nat) (s : Bool) (th : Nat) (al : Char → Bool) :
    ∃ p', parseValue (fuel + ts.length + 2)
        { rest := tIdent hd l c :: (ts ++ next :: k), prev := p, pos := n, last := la, warnings := w, depth := d, warned := wd, strict := s, threshold := th, alpha := al }
      = .ok (.str (spaceJoin (hd :: ws)),
             { rest := next :: k, prev := p', pos := n + 1 + ts.length, last := la,
               warnings := .multiWord (hd :: ws) (spaceJoin (hd :: ws)) [] l c :: w, depth := d,
               warned := wd, strict := s, threshold := th, alpha := al }) := by
  obtain ⟨hv, he, hl', hb'⟩ := (endsValue_iff _).1 hn
  cases h with
  | nil => exact absurd rfl hne
  | cons x l1 c1 h' =>
    rename_i ws' ts'
    have hcons : MWToks (x :: ws') (tIdent x l1 c1 :: ts') := MWToks.cons x l1 c1 h'
    obtain ⟨p', hrun⟩ := plainWords_run hcons (fuel + 1) (tIdent hd l c) [hd] next k he hl' (some (tIdent hd l c)) (n + 1) la w d wd s th al
    refine ⟨p', ?_⟩
    have ht1 : (tIdent hd l c).type = TT.identifier := rfl
    have ht2 : (tIdent x l1 c1).type = TT.identifier := rfl
    have hv1 : (tIdent hd l c).value = TVal.str hd := rfl
    have he2 : isExprOp TT.identifier = false := rfl
    have hscan := mw_scan hcons next k hv haw
    have hb2 : (tIdent x l1 c1).type ≠ TT.block := by simp [tIdent]
    have hf : fuel + (tIdent x l1 c1 :: ts').length + 2 = (fuel + 1 + (tIdent x l1 c1 :: ts').length) + 1 := by omega
    rw [hf, parseValue]
    step_simp [List.cons_append, ht1, ht2, he2, hv1, pyStrVal_str]
    rw [colonPath_stop (h := hb2)]
    simp only [List.cons_append, List.nil_append, List.length_cons] at hscan hrun
    step_simp [gt_iff_lt, Nat.zero_add, Nat.lt_irrefl, hscan, hah, pyStrVal_str]
    rw [hrun, plainWords_end (hv := hv) (hl := hl') (hlen := by simp)]
    rfl

/-! ### `parseSection` on one line `KEY::w0 w1 … wn` -/

/-- one line `KEY::w0 w1 … wn NEWLINE` at token level: every position arbitrary. -/
structure WLine where
  key : Str
  /-- line and column of the key token -/
  l : Nat
  c1 : Nat
  /-- column of `::` -/
  c2 : Nat
  /-- the first word and its position -/
  hd : Str
  hl : Nat
  hc : Nat
  /-- the further words and their tokens -/
  ws : List Str
  ts : List Token
  /-- position of the NEWLINE -/
  nlL : Nat
  nlC : Nat

/-- the tokens are tokens of the words; at least two words; no word carries an annotation. -/
def WLine.WF (x : WLine) : Prop :=
  MWToks x.ws x.ts ∧ x.ws ≠ [] ∧ hasAnnotation x.hd = false ∧ ∀ w ∈ x.ws, hasAnnotation w = false

def WLine.nlTok (x : WLine) : Token := tNewline x.nlL x.nlC
def WLine.toks (x : WLine) : List Token :=
  tIdent x.key x.l x.c1 :: tAssign x.l x.c2 :: tIdent x.hd x.hl x.hc :: (x.ts ++ [x.nlTok])
/-- the string the reader makes of the words. -/
def WLine.result (x : WLine) : Str := spaceJoin (x.hd :: x.ws)
/-- the Assignment node: the value is the words joined by one space, as a string. -/
def WLine.node (x : WLine) : Node := .assign x.key (.str x.result) x.l x.c1 [] none
/-- **the receipt**: `multi_word_coalesce` with the words, the result, line and column of the first word. -/
def WLine.receipt (x : WLine) : Warning := .multiWord (x.hd :: x.ws) x.result [] x.hl x.hc
/-- the parser warnings of the line, newest first (W_PATTERN_AUTOQUOTE only under the keys `PATTERN` / `REGEX`). -/
def WLine.warnsRev (x : WLine) : List Warning := autoquote x.key x.result x.l x.c1 ++ [x.receipt]

theorem parseSection_mwline (x : WLine) (hx : x.WF) (k : List Token) (fuel : Nat)
    (p : Option Token) (n : Nat) (la : Token) (w : List Warning) (wd : List Nat) (s : Bool) (th : Nat) (al : Char → Bool) :
    ∃ p', parseSection (fuel + x.ts.length + 3) []
        { rest := x.toks ++ k, prev := p, pos := n, last := la, warnings := w, depth := 0, warned := wd, strict := s, threshold := th, alpha := al }
      = .ok (some x.node,
             { rest := x.nlTok :: k, prev := p', pos := n + 3 + x.ts.length, last := la, warnings := x.warnsRev ++ w, depth := 0,
               warned := wd, strict := s, threshold := th, alpha := al }) := by
  obtain ⟨key, l, c1, c2, hd, hl, hc, ws, ts, nlL, nlC⟩ := x
  obtain ⟨hts, hne, hah, haw⟩ := hx
  simp only at hts hne hah haw
  obtain ⟨p', hpv⟩ := parseValue_mw hd hl hc hts hne hah haw (tNewline nlL nlC) k rfl fuel (some (tAssign l c2)) (n + 1 + 1) la w 0 wd s th al
  refine ⟨p', ?_⟩
  have hshape : WLine.toks ⟨key, l, c1, c2, hd, hl, hc, ws, ts, nlL, nlC⟩ ++ k
      = tIdent key l c1 :: tAssign l c2 :: (tIdent hd hl hc :: (ts ++ tNewline nlL nlC :: k)) := by
    simp [WLine.toks, WLine.nlTok, List.append_assoc]
  have ht1 : (tIdent key l c1).type = TT.identifier := rfl
  have ht2 : (tAssign l c2).type = TT.assign := rfl
  have ht3 : (tIdent hd hl hc).type = TT.identifier := rfl
  have ht4 : (tNewline nlL nlC).type = TT.newline := rfl
  have hv1 : (tIdent key l c1).value = TVal.str key := rfl
  have hf : fuel + ts.length + 3 = (fuel + ts.length + 2) + 1 := by omega
  dsimp only
  rw [hshape, hf, parseSection]
  step_simp [ht1, ht2, ht3, hv1, pyStrVal_str]
  rw [hpv]
  by_cases hk : key = "PATTERN".toList ∨ key = "REGEX".toList
  · step_simp [hk, ht4, WLine.node, WLine.warnsRev, WLine.receipt, WLine.result, WLine.nlTok, autoquote, List.cons_append, List.nil_append]
    have hp : n + 1 + 1 + 1 + ts.length = n + 3 + ts.length := by omega
    rw [hp]; rfl
  · step_simp [hk, ht4, WLine.node, WLine.warnsRev, WLine.receipt, WLine.result, WLine.nlTok, autoquote, List.cons_append, List.nil_append]
    have hp : n + 1 + 1 + 1 + ts.length = n + 3 + ts.length := by omega
    rw [hp]; rfl

/-! ### the body loop of `parseDocument` on lines with scalar or multi-word values -/

/-- a line of the body at token level: a scalar line (`FlatParse.Line`) or a multi-word line. -/
inductive QLine where
  | sc (ln : Line)
  | mw (x : WLine)

def QLine.toks : QLine → List Token
  | .sc ln => ln.toks
  | .mw x => x.toks
def QLine.node : QLine → Node
  | .sc ln => ln.node
  | .mw x => x.node
def QLine.key : QLine → Str
  | .sc ln => ln.key
  | .mw x => x.key
def QLine.l : QLine → Nat
  | .sc ln => ln.l
  | .mw x => x.l
/-- the warnings of the line's value, in emission order. -/
def QLine.warns : QLine → List Warning
  | .sc ln => ln.warns
  | .mw x => x.warnsRev.reverse
def QLine.WF : QLine → Prop
  | .sc _ => True
  | .mw x => x.WF
/-- fuel `parse_section` needs on the line. -/
def QLine.need : QLine → Nat
  | .sc _ => 3
  | .mw x => x.ts.length + 3

/-- all parser warnings of the body loop, in emission order (cf. `FlatParse.docWarns`): per line the warnings of its value,
then the duplicate-key warning if the key was seen before. -/
def mwWarns : KeyPos → List QLine → List Warning
  | _, [] => []
  | kp, ln :: r => ln.warns ++ (trackPure kp ln.key ln.l).2 ++ mwWarns (trackPure kp ln.key ln.l).1 r

theorem qline_toks_length_pos (ln : QLine) : 2 ≤ ln.toks.length := by
  cases ln with
  | sc ln => simp [QLine.toks, Line.toks]
  | mw x => simp [QLine.toks, WLine.toks]

theorem qline_need_le (ln : QLine) : ln.need ≤ ln.toks.length := by
  cases ln with
  | sc ln => simp [QLine.toks, Line.toks, QLine.need]
  | mw x => simp [QLine.toks, WLine.toks, QLine.need]

/-- **the body loop on any number of lines whose values are scalars or multi-word values**, in any order: one Assignment
per line, in order; `vf` (the fuel handed to `parse_section`) must cover the longest line. -/
theorem docLoop_mw (vf : Nat) (lines : List QLine) (e : Token) (tail : List Token)
    (he : e.type = .envelopeEnd ∨ e.type = .eof) (hwf : ∀ ln ∈ lines, ln.WF) (hvf : ∀ ln ∈ lines, ln.need ≤ vf) :
    ∀ (acc : List Node) (kp : KeyPos) (extra : Nat)
      (p : Option Token) (n : Nat) (la : Token) (w : List Warning) (wd : List Nat) (s : Bool) (th : Nat) (al : Char → Bool),
    ∃ p' n', docLoop vf (2 * lines.length + 1 + extra) [] acc kp
        { rest := lines.flatMap QLine.toks ++ e :: tail, prev := p, pos := n, last := la, warnings := w, depth := 0, warned := wd, strict := s, threshold := th, alpha := al }
      = .ok ((acc ++ lines.map QLine.node, []),
             { rest := e :: tail, prev := p', pos := n', last := la, warnings := (mwWarns kp lines).reverse ++ w, depth := 0,
               warned := wd, strict := s, threshold := th, alpha := al }) := by
  induction lines with
  | nil =>
    intro acc kp extra p n la w wd s th al
    refine ⟨p, n, ?_⟩
    have hf : 2 * ([] : List QLine).length + 1 + extra = extra + 1 := by simp only [List.length_nil]; omega
    rw [hf, List.flatMap_nil, List.nil_append, docLoop]
    step_simp [he]
    simp only [List.map_nil, List.append_nil, mwWarns, List.reverse_nil, List.nil_append]
  | cons ln r ih =>
    intro acc kp extra p n la w wd s th al
    have hf : 2 * (ln :: r).length + 1 + extra = (2 * r.length + 1 + extra) + 2 := by
      simp only [List.length_cons]; omega
    have hR' : r.flatMap QLine.toks ++ e :: tail ≠ [] := by simp
    have hwf' : ∀ x ∈ r, x.WF := fun x hx => hwf x (List.mem_cons_of_mem _ hx)
    have hvf' : ∀ x ∈ r, x.need ≤ vf := fun x hx => hvf x (List.mem_cons_of_mem _ hx)
    have hneed := hvf ln (List.mem_cons_self ..)
    cases ln with
    | sc ln =>
      obtain ⟨vf0, rfl⟩ : ∃ vf0, vf = vf0 + 3 := ⟨vf - 3, by simp only [QLine.need] at hneed; omega⟩
      have hps := parseSection_flat_line
        { rest := ln.toks ++ (r.flatMap QLine.toks ++ e :: tail), prev := p, pos := n, last := la, warnings := w, depth := 0, warned := wd, strict := s, threshold := th, alpha := al }
        ln (r.flatMap QLine.toks ++ e :: tail) vf0 rfl
      obtain ⟨p', n', hih⟩ := ih hwf' hvf' (acc ++ [Node.assign ln.key ln.v.val ln.l ln.c1 [] none]) (trackPure kp ln.key ln.l).1 extra (some ln.nlTok) (n + 3 + 1) la
        ((trackPure kp ln.key ln.l).2 ++ (ln.warns ++ w)) wd s th al
      refine ⟨p', n', ?_⟩
      have hshape : (QLine.sc ln :: r).flatMap QLine.toks ++ e :: tail
          = ln.keyTok :: ([ln.assignTok, ln.valTok, ln.nlTok] ++ (r.flatMap QLine.toks ++ e :: tail)) := by
        simp only [List.flatMap_cons, QLine.toks, Line.toks, List.cons_append, List.nil_append]
      have hps' : parseSection (vf0 + 3) []
          { rest := ln.keyTok :: ([ln.assignTok, ln.valTok, ln.nlTok] ++ (r.flatMap QLine.toks ++ e :: tail)), prev := p, pos := n, last := la, warnings := w, depth := 0, warned := wd, strict := s, threshold := th, alpha := al }
          = .ok (some (.assign ln.key ln.v.val ln.l ln.c1 [] none),
             { rest := ln.nlTok :: (r.flatMap QLine.toks ++ e :: tail), prev := some ln.valTok, pos := n + 3, last := la, warnings := ln.warns ++ w, depth := 0,
               warned := wd, strict := s, threshold := th, alpha := al }) := hps
      rw [hf, hshape, docLoop_assign_step (ht := rfl) (hnl := rfl) (hR' := hR') (hps := hps'), hih]
      simp only [List.map_cons, QLine.node, Line.node, List.append_assoc, List.cons_append, List.nil_append, mwWarns, QLine.warns,
        QLine.key, QLine.l, List.reverse_append, trackPure_warns_reverse, Line.warns_reverse]
    | mw x =>
      obtain ⟨vf0, rfl⟩ : ∃ vf0, vf = vf0 + x.ts.length + 3 := ⟨vf - (x.ts.length + 3), by simp only [QLine.need] at hneed; omega⟩
      obtain ⟨p1, hps⟩ := parseSection_mwline x (hwf _ (List.mem_cons_self ..)) (r.flatMap QLine.toks ++ e :: tail) vf0 p n la w wd s th al
      obtain ⟨p', n', hih⟩ := ih hwf' hvf' (acc ++ [Node.assign x.key (.str x.result) x.l x.c1 [] none]) (trackPure kp x.key x.l).1 extra (some x.nlTok) (n + 3 + x.ts.length + 1) la
        ((trackPure kp x.key x.l).2 ++ (x.warnsRev ++ w)) wd s th al
      refine ⟨p', n', ?_⟩
      have hshape : (QLine.mw x :: r).flatMap QLine.toks ++ e :: tail
          = tIdent x.key x.l x.c1 :: (tAssign x.l x.c2 :: tIdent x.hd x.hl x.hc :: (x.ts ++ [x.nlTok]) ++ (r.flatMap QLine.toks ++ e :: tail)) := by
        simp only [List.flatMap_cons, QLine.toks, WLine.toks, List.append_assoc, List.cons_append, List.nil_append]
      have hps' : parseSection (vf0 + x.ts.length + 3) []
          { rest := tIdent x.key x.l x.c1 :: (tAssign x.l x.c2 :: tIdent x.hd x.hl x.hc :: (x.ts ++ [x.nlTok]) ++ (r.flatMap QLine.toks ++ e :: tail)), prev := p, pos := n, last := la, warnings := w, depth := 0, warned := wd, strict := s, threshold := th, alpha := al }
          = .ok (some (.assign x.key (.str x.result) x.l x.c1 [] none),
             { rest := x.nlTok :: (r.flatMap QLine.toks ++ e :: tail), prev := p1, pos := n + 3 + x.ts.length, last := la, warnings := x.warnsRev ++ w, depth := 0,
               warned := wd, strict := s, threshold := th, alpha := al }) := hps
      rw [hf, hshape, docLoop_assign_step (ht := rfl) (hnl := rfl) (hR' := hR') (hps := hps'), hih]
      simp only [List.map_cons, QLine.node, WLine.node, List.append_assoc, List.cons_append, List.nil_append, mwWarns, QLine.warns,
        QLine.key, QLine.l, List.reverse_append, trackPure_warns_reverse, List.reverse_reverse]

/-! ### `parseDocument` on the whole document -/

/-- the token list of the document:
`ENVELOPE_START(name) NEWLINE [IDENTIFIER ASSIGN (scalar | IDENTIFIER IDENTIFIER+) NEWLINE]* ENVELOPE_END NEWLINE EOF`. -/
def mwToks (f : Frame) (name : Str) (lines : List QLine) : List Token :=
  f.envTok name :: f.nl0Tok :: (lines.flatMap QLine.toks ++ [f.endTok, f.nl1Tok, f.eofTok])

/-- the first line's key is `META`. -/
def mwMetaFirst : List QLine → Bool
  | ln :: _ => ln.key == "META".toList
  | [] => false

theorem mw_toks_length (lines : List QLine) : 2 * lines.length ≤ (lines.flatMap QLine.toks).length := by
  induction lines with
  | nil => simp
  | cons ln r ih =>
    have := qline_toks_length_pos ln
    simp only [List.flatMap_cons, List.length_append, List.length_cons]; omega

theorem mw_need_le (lines : List QLine) : ∀ ln ∈ lines, ln.need ≤ (lines.flatMap QLine.toks).length := by
  induction lines with
  | nil => intro ln h; simp at h
  | cons x r ih =>
    intro ln h
    simp only [List.flatMap_cons, List.length_append]
    rcases List.mem_cons.mp h with rfl | h
    · have := qline_need_le ln; omega
    · have := ih ln h; omega

theorem mw_body_head (f : Frame) (lines : List QLine) (hm : mwMetaFirst lines = false) :
    ∃ u K, lines.flatMap QLine.toks ++ [f.endTok, f.nl1Tok, f.eofTok] = u :: K ∧ SpellParse.BodyHead u := by
  cases lines with
  | nil => exact ⟨f.endTok, _, rfl, SpellParse.bodyHead_end _ (Or.inl rfl)⟩
  | cons ln r =>
    cases ln with
    | sc ln =>
      refine ⟨ln.keyTok, _, rfl, SpellParse.bodyHead_key ln ?_⟩
      simpa [mwMetaFirst, QLine.key] using hm
    | mw x =>
      have hk : x.key ≠ "META".toList := by simpa [mwMetaFirst, QLine.key] using hm
      refine ⟨tIdent x.key x.l x.c1, _, rfl, ?_⟩
      refine ⟨by simp [tIdent], by simp [tIdent], by simp [tIdent], by simp [tIdent], by simp [tIdent], fun hh => hk ?_⟩
      have := hh.2; simp only [tIdent, TVal.str.injEq] at this; exact this

/-- **`parse_document` on a flat document whose values are scalars or multi-word bare values** (token level, every
position arbitrary, strict or lenient): the document with that name and one Assignment per line — a multi-word value is
the string of its words joined by one space — and exactly the warnings `mwWarns`. -/
theorem parseDocument_mw (f : Frame) (name : Str) (lines : List QLine) (hwf : ∀ ln ∈ lines, ln.WF)
    (hm : mwMetaFirst lines = false) (st : PState) (hd : st.depth = 0) (hr : st.rest = mwToks f name lines) :
    ∃ st', parseDocument st = .ok ({ name := name, sections := lines.map QLine.node }, st') ∧
      st'.warnings = (mwWarns [] lines).reverse ++ st.warnings := by
  obtain ⟨u, K, hK, h1, h2, h3, h4, h5, h6⟩ := mw_body_head f lines hm
  obtain ⟨rest, prev, pos, last, warnings, depth, warned, strict, threshold, alpha⟩ := st
  simp only at hd hr
  subst hd
  have hrest : rest = f.envTok name :: f.nl0Tok :: u :: K := by rw [hr, mwToks, hK]
  subst hrest
  have hlenK : (u :: K).length = (lines.flatMap QLine.toks).length + 3 := by
    have := congrArg List.length hK
    simp only [List.length_append, List.length_cons, List.length_nil] at this ⊢
    omega
  have hlen : 2 * lines.length + 3 ≤ (u :: K).length := by
    have h2 := mw_toks_length lines
    omega
  unfold parseDocument
  simp (config := {zeta := false}) only [bind, StateT.bind, Except.bind, budget_mk]
  extract_lets n doc0 jp5 jp4 jp3 jp2 jp1
  step_simp [Frame.envTok, Frame.nl0Tok, skipWhitespace_stop]
  simp only [jp1]
  step_simp []
  simp only [jp2]
  step_simp [skipWhitespace_newline, pyStrVal_str, h1, h2]
  simp only [jp3]
  step_simp [h6]
  simp only [jp4]
  step_simp [h3]
  simp only [jp5]
  step_simp []
  obtain ⟨extra, hextra⟩ : ∃ extra, 2 * n = 2 * lines.length + 1 + extra :=
    ⟨2 * n - (2 * lines.length + 1), by simp only [n, List.length_cons] at hlen ⊢; omega⟩
  have hvf : ∀ ln ∈ lines, ln.need ≤ n := by
    intro ln hln
    have := mw_need_le lines ln hln
    simp only [n, List.length_cons] at hlenK ⊢; omega
  obtain ⟨p', n', hdl⟩ := docLoop_mw n lines f.endTok [f.nl1Tok, f.eofTok] (Or.inl rfl) hwf hvf [] [] extra
    (some { type := TT.newline, value := TVal.str "\n".toList, line := f.nl0L, col := f.nl0C }) (pos + 1 + 1) last warnings warned strict threshold alpha
  rw [hK, ← hextra] at hdl
  rw [hdl]
  step_simp [List.nil_append]
  exact SpellParse.finish_doc _ _ f.endTok

/-! ### non-vacuity: symbolic positions -/

/-- `two words` at arbitrary positions: the value is the string `two words`, one `multi_word_coalesce` warning at the
first word. -/
example (l c l1 c1 l3 c3 : Nat) (k : List Token)
    (p : Option Token) (n : Nat) (la : Token) (w : List Warning) (d : Nat) (wd : List Nat) (s : Bool) (th : Nat) (al : Char → Bool) :
    ∃ p', parseValue (0 + 1 + 2)
        { rest := tIdent "two".toList l c :: ([tIdent "words".toList l1 c1] ++ tNewline l3 c3 :: k), prev := p, pos := n, last := la,
          warnings := w, depth := d, warned := wd, strict := s, threshold := th, alpha := al }
      = .ok (.str "two words".toList,
             { rest := tNewline l3 c3 :: k, prev := p', pos := n + 1 + 1, last := la,
               warnings := .multiWord ["two".toList, "words".toList] "two words".toList [] l c :: w, depth := d,
               warned := wd, strict := s, threshold := th, alpha := al }) :=
  parseValue_mw "two".toList l c (MWToks.cons "words".toList l1 c1 MWToks.nil) (by simp) (by decide) (by decide)
    (tNewline l3 c3) k rfl 0 p n la w d wd s th al

end Octave.MW
