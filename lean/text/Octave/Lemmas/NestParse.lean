import Octave.Lemmas.NestBridge
/-!
Parser half for flat documents whose values are NESTED lists (any depth below the reader's hard limit of 100 open brackets) of
scalars and floats, with NEWLINE / INDENT tokens inside the brackets at every level.

* `Bal` (a token list leaves `bracket_depth` as it found it), `Reads D ts v` (`parse_value` reads the tokens `ts` as `v` from any
  state with `depth + D < 100`, followed by `,` `]` or list whitespace; exact end state `ListParse.adv`, deep-nesting warnings
  included), `NHead` (tokens from a loop head to the closing bracket: whitespace, item, comma … with items that are `Reads`),
  `nhead_loop` (the item loop, generic in the items), `reads_list`;
* `reads_nitem`: the lexer's tokens `NItem.toks` of every item are `Reads` its value (nested induction);
* `NVOK`, `docLoop_nv`, `parseDocument_nv`: the body loop and `parse_document` on lines whose value parse may file warnings
  (only `bracket_depth = 0` is carried between the lines — `ListDocParse.VLine.OK` asks that nothing but the cursor moves, which is
  false for lists nested beyond the warning threshold); glue `ndocToks_bridge`, `parseDocument_ndoc`.
-/
set_option linter.unusedSimpArgs false
namespace Octave.Nest
open Octave Parser
open Octave.ListParse hiding Scalar
open Octave.ListDocParse
open Octave.ListDoc (tLb tRb tComma tIndent indToks allWs_nil allWs_nl_ind)
open Octave.FlatParse (endsValue)

/-! ### nesting depth -/

mutual
def NItem.nest : NItem → Nat
  | .leaf _ => 0
  | .list xs => nlNests xs + 1
def nlNests : List NItem → Nat
  | [] => 0
  | x :: r => max x.nest (nlNests r)
end

theorem nest_le_nlNests (r : List NItem) : ∀ y ∈ r, y.nest ≤ nlNests r := by
  induction r with
  | nil => intro y hy; cases hy
  | cons x r ih =>
    intro y hy
    rcases List.mem_cons.mp hy with h | h
    · subst h; simp only [nlNests]; omega
    · have := ih y h; simp only [nlNests]; omega

/-! ### balanced token lists -/

def Bal (ts : List Token) : Prop := ∀ s : PState, (walkSt ts s).depth = s.depth

theorem bal_plain (ts : List Token) (h : ∀ t ∈ ts, PlainTok t) : Bal ts := fun s => by rw [walkSt_plain ts h]

theorem Bal.append {a b : List Token} (ha : Bal a) (hb : Bal b) : Bal (a ++ b) := fun s => by
  rw [walkSt_append, hb, ha]

theorem bal_bracket (lb rb : Token) (body : List Token) (hlb : lb.type = .listStart) (hrb : rb.type = .listEnd) (h : Bal body) :
    Bal (lb :: (body ++ [rb])) := by
  intro s
  rw [walkSt_cons, walkSt_append, walkSt_cons, walkSt_nil]
  have e0 : (tokStep s lb).depth = s.depth + 1 := by
    simp only [tokStep, hlb, beq_self_eq_true, if_true]
    rw [mark_depth]
  have e1 : ∀ s' : PState, (tokStep s' rb).depth = s'.depth - 1 := by
    intro s'; simp [tokStep, hrb]
  rw [e1, h, e0]; omega

theorem adv_depth (s : PState) (ts r : List Token) : (adv s ts r).depth = (walkSt ts s).depth := rfl

/-! ### token lists `parse_value` reads -/

/-- what follows an item inside a list: `,`, `]`, or list whitespace. -/
def After (n : Token) : Prop := n.type = .comma ∨ n.type = .listEnd ∨ isWsT n.type = true

def HeadOK (ts : List Token) : Prop :=
  ∃ t tr, ts = t :: tr ∧ isWsT t.type = false ∧ t.type ≠ .listEnd ∧ t.type ≠ .eof ∧ t.type ≠ .envelopeEnd ∧
    ((t.type = .identifier ∨ t.type = .number) → tr = [])

def NoCons (ts : List Token) : Prop := ∀ t ∈ ts, t.type ≠ .constraint

structure Reads (D : Nat) (ts : List Token) (v : Value) : Prop where
  head : HeadOK ts
  bal : Bal ts
  nocons : NoCons ts
  parse : ∀ (st : PState) (n : Token) (k : List Token) (fuel : Nat), st.rest = ts ++ n :: k → After n →
    2 * ts.length ≤ fuel → st.depth + D < 100 → parseValue fuel st = .ok (v, adv st ts (n :: k))

theorem Reads.mono {D D' : Nat} {ts : List Token} {v : Value} (h : Reads D ts v) (hle : D ≤ D') : Reads D' ts v :=
  ⟨h.head, h.bal, h.nocons, fun st n k fuel hr ha hf hd => h.parse st n k fuel hr ha hf (by omega)⟩

theorem reads_scalar (v : FlatParse.Scalar) (l c : Nat) : Reads 0 [v.tok l c] v.val := by
  have hp := scalar_tok_plain v l c
  refine ⟨⟨v.tok l c, [], rfl, hp.2.2.2.1, hp.2.1, hp.2.2.2.2.1, hp.2.2.2.2.2, fun _ => rfl⟩,
    bal_plain _ (by intro t ht; simp only [List.mem_singleton] at ht; subst ht; exact ⟨hp.1, hp.2.1, hp.2.2.1⟩),
    (by intro t ht; simp only [List.mem_singleton] at ht; subst ht; exact hp.2.2.1), ?_⟩
  intro st n k fuel hr ha hf _
  obtain ⟨f, rfl⟩ : ∃ f, fuel = f + 2 := ⟨fuel - 2, by simp at hf; omega⟩
  rw [FlatParse.parseValue_scalar st v l c n k f (endsValue_after_item n.type ha).1 hr, adv_plain _ _ _ hp.1 hp.2.1]

theorem parseListItem_reads {D : Nat} {ts : List Token} {v : Value} (h : Reads D ts v) (st : PState) (n : Token) (k : List Token)
    (fuel : Nat) (hr : st.rest = ts ++ n :: k) (ha : After n) (hf : 2 * ts.length + 1 ≤ fuel) (hd : st.depth + D < 100) :
    parseListItem fuel st = .ok (v, adv st ts (n :: k)) := by
  obtain ⟨t, tr, rfl, _, _, _, _, hid⟩ := h.head
  obtain ⟨f, rfl⟩ : ∃ f, fuel = f + 1 := ⟨fuel - 1, by omega⟩
  rw [parseListItem_value st t (tr ++ n :: k) f (by rw [hr]; rfl) ?_]
  · exact h.parse st n k f hr ha (by omega) hd
  · intro hh
    have := hid hh
    subst this
    exact (endsValue_after_item n.type ha).2

/-- tokens from a loop head to the closing bracket, reading the values `vs`. -/
inductive NHead (D : Nat) : List Value → List Token → Prop
  | empty (ws : List Token) (rb : Token) : AllWs ws → rb.type = .listEnd → NHead D [] (ws ++ [rb])
  | last (ws it : List Token) (v : Value) (ws' : List Token) (rb : Token) :
      AllWs ws → Reads D it v → AllWs ws' → rb.type = .listEnd → NHead D [v] (ws ++ (it ++ (ws' ++ [rb])))
  | more (ws it : List Token) (v : Value) (cm : Token) (vs : List Value) (ts : List Token) :
      AllWs ws → Reads D it v → cm.type = .comma → NHead D vs ts → NHead D (v :: vs) (ws ++ (it ++ cm :: ts))

theorem nocons_ws {ws : List Token} (h : AllWs ws) : NoCons ws := fun t ht => (allWs_plain h t ht).2.2

/-- **the item loop**, generic in the items. -/
theorem nhead_loop {D : Nat} {vs : List Value} {ts : List Token} (h : NHead D vs ts) :
    ∃ body rb, ts = body ++ [rb] ∧ rb.type = .listEnd ∧ Bal body ∧ NoCons body ∧
      ∀ (st : PState) (n : Token) (k : List Token) (items : List Value) (fuel : Nat),
        st.rest = ts ++ n :: k → 2 * ts.length ≤ fuel → st.depth + D < 100 →
        listLoop fuel items st = .ok (items ++ vs, adv st body (rb :: n :: k)) := by
  induction h with
  | empty ws rb hws hrb =>
    refine ⟨ws, rb, rfl, hrb, bal_plain _ (allWs_plain hws), nocons_ws hws, ?_⟩
    intro st n k items fuel hr hf _
    obtain ⟨f, rfl⟩ : ∃ f, fuel = f + 1 := ⟨fuel - 1, by simp at hf; omega⟩
    rw [listLoop_end_ws st ws rb (n :: k) f items (by rw [hr]; simp) hws hrb]
    simp
  | last ws it v ws' rb hws hit hws' hrb =>
    obtain ⟨t, tr, rfl, ht1, ht2, ht3, ht4, _⟩ := hit.head
    refine ⟨ws ++ ((t :: tr) ++ ws'), rb, by simp, hrb,
      (bal_plain _ (allWs_plain hws)).append (hit.bal.append (bal_plain _ (allWs_plain hws'))), ?_, ?_⟩
    · intro x hx
      simp only [List.mem_append] at hx
      rcases hx with hx | hx | hx
      · exact nocons_ws hws x hx
      · exact hit.nocons x hx
      · exact nocons_ws hws' x hx
    · intro st n k items fuel hr hf hd
      obtain ⟨f, rfl⟩ : ∃ f, fuel = f + 1 := ⟨fuel - 1, by simp at hf; omega⟩
      have hr0 : st.rest = ws ++ t :: (tr ++ (ws' ++ rb :: n :: k)) := by rw [hr]; simp
      have hd1 : (adv st ws (t :: (tr ++ (ws' ++ rb :: n :: k)))).depth + D < 100 := by
        rw [adv_depth, walkSt_plain ws (allWs_plain hws)]; exact hd
      cases ws' with
      | nil =>
        have hitem := parseListItem_reads hit (adv st ws (t :: (tr ++ ([] ++ rb :: n :: k)))) rb (n :: k) f (by simp)
          (Or.inr (Or.inl hrb)) (by simp at hf ⊢; omega) hd1
        rw [listLoop_iter_last st _ ws t (tr ++ ([] ++ rb :: n :: k)) rb (n :: k) f items v hr0 hws ht1 ht2 ht3 ht4 hitem rfl hrb,
          adv_adv]
        simp
      | cons w ws'' =>
        have hw := hws' w (by simp)
        obtain ⟨g, rfl⟩ : ∃ g, f = g + 1 := ⟨f - 1, by simp at hf; omega⟩
        have hitem := parseListItem_reads hit (adv st ws (t :: (tr ++ (w :: ws'' ++ rb :: n :: k)))) w (ws'' ++ rb :: n :: k) (g + 1)
          (by simp) (Or.inr (Or.inr hw)) (by simp at hf ⊢; omega) hd1
        rw [listLoop_iter_cont st _ ws t (tr ++ (w :: ws'' ++ rb :: n :: k)) w (ws'' ++ rb :: n :: k) (g + 1) items v
          hr0 hws ht1 ht2 ht3 ht4 hitem rfl hw]
        rw [listLoop_end_ws _ (w :: ws'') rb (n :: k) g _ rfl hws' hrb, adv_adv, adv_adv]
  | more ws it v cm vs ts hws hit hcm _ ih =>
    obtain ⟨body', rb, rfl, hrb, hbal, hnc, hloop⟩ := ih
    obtain ⟨t, tr, rfl, ht1, ht2, ht3, ht4, _⟩ := hit.head
    have hcmp : ∀ x ∈ [cm], PlainTok x := by
      intro x hx; simp only [List.mem_singleton] at hx; subst hx
      exact ⟨by simp [hcm], by simp [hcm], by simp [hcm]⟩
    refine ⟨ws ++ ((t :: tr) ++ cm :: body'), rb, by simp, hrb,
      (bal_plain _ (allWs_plain hws)).append (hit.bal.append (Bal.append (a := [cm]) (bal_plain _ hcmp) hbal)), ?_, ?_⟩
    · intro x hx
      simp only [List.mem_append, List.mem_cons] at hx
      rcases hx with hx | hx | hx | hx
      · exact nocons_ws hws x hx
      · exact hit.nocons x (by simp [hx])
      · subst hx; simp [hcm]
      · exact hnc x hx
    · intro st n k items fuel hr hf hd
      obtain ⟨f, rfl⟩ : ∃ f, fuel = f + 1 := ⟨fuel - 1, by simp at hf; omega⟩
      obtain ⟨u, r', hur⟩ : ∃ u r', (body' ++ [rb]) ++ n :: k = u :: r' := by
        cases body' with
        | nil => exact ⟨rb, n :: k, rfl⟩
        | cons a b => exact ⟨a, b ++ [rb] ++ n :: k, by simp⟩
      have hr0 : st.rest = ws ++ t :: (tr ++ cm :: ((body' ++ [rb]) ++ n :: k)) := by rw [hr]; simp
      have hd1 : (adv st ws (t :: (tr ++ cm :: ((body' ++ [rb]) ++ n :: k)))).depth + D < 100 := by
        rw [adv_depth, walkSt_plain ws (allWs_plain hws)]; exact hd
      have hitem := parseListItem_reads hit (adv st ws (t :: (tr ++ cm :: ((body' ++ [rb]) ++ n :: k)))) cm ((body' ++ [rb]) ++ n :: k) f
        (by simp) (Or.inl hcm) (by simp at hf ⊢; omega) hd1
      have hstep := listLoop_iter_comma st _ ws t (tr ++ cm :: ((body' ++ [rb]) ++ n :: k)) cm u r' f items v
        hr0 hws ht1 ht2 ht3 ht4 hitem (by rw [adv_rest, hur]) hcm
      rw [← hur] at hstep
      have hd2 : (adv (adv (adv st ws (t :: (tr ++ cm :: ((body' ++ [rb]) ++ n :: k)))) (t :: tr) (cm :: ((body' ++ [rb]) ++ n :: k)))
          [cm] ((body' ++ [rb]) ++ n :: k)).depth + D < 100 := by
        simp only [adv_depth, walkSt_plain [cm] hcmp, walkSt_plain ws (allWs_plain hws), hit.bal _]
        exact hd
      rw [hstep, hloop _ n k (items ++ [v]) f rfl (by simp at hf ⊢; omega) hd2, adv_adv, adv_adv, adv_adv]
      simp

/-- **a bracketed list of readable items is readable** (one level deeper). -/
theorem reads_list {D : Nat} {vs : List Value} {ts : List Token} (h : NHead D vs ts) (lb : Token) (hlb : lb.type = .listStart) :
    Reads (D + 1) (lb :: ts) (.list vs) := by
  obtain ⟨body, rb, rfl, hrb, hbal, hnc, hloop⟩ := nhead_loop h
  have hncAll : NoCons (lb :: (body ++ [rb])) := by
    intro t ht
    simp only [List.mem_cons, List.mem_append, List.mem_nil_iff, or_false] at ht
    rcases ht with rfl | ht | rfl
    · simp [hlb]
    · exact hnc t ht
    · simp [hrb]
  refine ⟨⟨lb, _, rfl, by simp [isWsT, hlb], by simp [hlb], by simp [hlb], by simp [hlb],
    fun hh => by rcases hh with hh | hh <;> simp [hlb] at hh⟩, bal_bracket lb rb body hlb hrb hbal, hncAll, ?_⟩
  intro st n k fuel hr _ hf hd
  obtain ⟨f, rfl⟩ : ∃ f, fuel = f + 2 := ⟨fuel - 2, by simp at hf; omega⟩
  have hr' : st.rest = lb :: (body ++ rb :: n :: k) := by rw [hr]; simp
  rw [parseValue_listStart st lb _ (f + 1) hr' hlb]
  have hd1 : (adv st [lb] (body ++ rb :: n :: k)).depth + D < 100 := by
    rw [adv_lb _ _ _ hlb, mark_depth]
    show st.depth + 1 + D < 100
    omega
  have hl := hloop (adv st [lb] (body ++ rb :: n :: k)) n k [] f (by simp) (by simp at hf ⊢; omega) hd1
  have hpl := parseList_eq st _ lb rb n (body ++ rb :: n :: k) k f _ hr' (by simp) hlb (by omega) hl rfl hrb
    (by
      have e : (adv (adv st [lb] (body ++ rb :: n :: k)) body (rb :: n :: k)).pos + 1 - st.pos = (lb :: (body ++ [rb])).length := by
        simp only [adv_pos, List.length_cons, List.length_append, List.length_nil]; omega
      have e2 : lb :: (body ++ rb :: n :: k) = (lb :: (body ++ [rb])) ++ n :: k := by simp
      rw [e, e2, List.take_left']
      · exact not_holographic _ hncAll
      · rfl)
  rw [hpl, adv_adv, adv_adv]
  simp

/-! ### the lexer's tokens of an item are readable -/

def PReads (x : NItem) : Prop := ∀ ind l c, Reads x.nest (x.toks ind l c) x.value

theorem allWs_nl_indent (l c n l' c' : Nat) : AllWs [tNewline l c, tIndent n l' c'] := by
  intro t ht
  simp only [List.mem_cons, List.mem_nil_iff, or_false] at ht
  rcases ht with rfl | rfl <;> rfl

theorem nhead_multiTail (D ind : Nat) (r : List NItem) : (∀ y ∈ r, PReads y) → (∀ y ∈ r, y.nest ≤ D) →
    ∀ (ws it : List Token) (v : Value) (l c : Nat), AllWs ws → Reads D it v →
      NHead D (v :: nlValues r) (ws ++ (it ++ nlMultiTailToks ind l c r)) := by
  induction r with
  | nil =>
    intro _ _ ws it v l c hws hit
    have := NHead.last (D := D) ws it v (tNewline l c :: indToks (2 * ind) (l + 1)) (tRb (l + 1) (1 + 2 * ind)) hws hit
      (allWs_nl_ind _ _ _ _) rfl
    simpa [nlMultiTailToks, nlValues] using this
  | cons y r ih =>
    intro hP hD ws it v l c hws hit
    have hy := (hP y (by simp) (ind + 1) (l + 1) (1 + 2 * (ind + 1))).mono (hD y (by simp))
    have := NHead.more ws it v (tComma l c) _ _ hws hit rfl
      (ih (fun z hz => hP z (by simp [hz])) (fun z hz => hD z (by simp [hz]))
        [tNewline l (c + 1), tIndent (2 * (ind + 1)) (l + 1) 1] _ y.value
        (l + 1 + nlCount (y.text (ind + 1))) (colAfter (y.text (ind + 1)) (1 + 2 * (ind + 1))) (allWs_nl_indent _ _ _ _ _) hy)
    simpa [nlMultiTailToks, nlValues] using this

theorem nhead_inlineTail (D ind : Nat) (r : List NItem) : (∀ y ∈ r, PReads y) → (∀ y ∈ r, y.nest ≤ D) →
    ∀ (ws it : List Token) (v : Value) (l c : Nat), AllWs ws → Reads D it v →
      NHead D (v :: nlValues r) (ws ++ (it ++ nlInlineTailToks ind l c r)) := by
  induction r with
  | nil =>
    intro _ _ ws it v l c hws hit
    have := NHead.last (D := D) ws it v [] (tRb l c) hws hit allWs_nil rfl
    simpa [nlInlineTailToks, nlValues] using this
  | cons y r ih =>
    intro hP hD ws it v l c hws hit
    have hy := (hP y (by simp) ind l (c + 1)).mono (hD y (by simp))
    have := NHead.more ws it v (tComma l c) _ _ hws hit rfl
      (ih (fun z hz => hP z (by simp [hz])) (fun z hz => hD z (by simp [hz]))
        [] _ y.value (l + nlCount (y.text ind)) (colAfter (y.text ind) (c + 1)) allWs_nil hy)
    simpa [nlInlineTailToks, nlValues] using this

/-- **`parse_value` on the tokens of any item** (nested to any depth below the hard limit): exactly the item's value; the end
state is `adv` (cursor moved, `bracket_depth` restored, one deep-nesting warning per line at depth ≥ threshold). -/
theorem reads_nitem : ∀ x : NItem, PReads x := by
  apply NItem.induct
  · intro a ind l c
    exact reads_scalar a.toP l c
  · intro xs ih ind l c
    cases xs with
    | nil =>
      have := reads_list (NHead.empty (D := 0) [] (tRb l (c + 1)) allWs_nil rfl) (tLb l c) rfl
      simpa [NItem.toks, NItem.value, NItem.nest, nlNests, nlValues] using this
    | cons x r =>
      have hD := nest_le_nlNests (x :: r)
      by_cases hm : nlMulti (x :: r) = true
      · have hh := nhead_multiTail (nlNests (x :: r)) ind r (fun y hy => ih y (by simp [hy])) (fun y hy => hD y (by simp [hy]))
          [tNewline l (c + 1), tIndent (2 * (ind + 1)) (l + 1) 1] _ x.value
          (l + 1 + nlCount (x.text (ind + 1))) (colAfter (x.text (ind + 1)) (1 + 2 * (ind + 1))) (allWs_nl_indent _ _ _ _ _)
          ((ih x (by simp) (ind + 1) (l + 1) (1 + 2 * (ind + 1))).mono (hD x (by simp)))
        have := reads_list hh (tLb l c) rfl
        simpa [NItem.toks, hm, NItem.value, NItem.nest, nlValues] using this
      · have hh := nhead_inlineTail (nlNests (x :: r)) ind r (fun y hy => ih y (by simp [hy])) (fun y hy => hD y (by simp [hy]))
          [] _ x.value (l + nlCount (x.text ind)) (colAfter (x.text ind) (c + 1)) allWs_nil
          ((ih x (by simp) ind l (c + 1)).mono (hD x (by simp)))
        have := reads_list hh (tLb l c) rfl
        simpa [NItem.toks, hm, NItem.value, NItem.nest, nlValues] using this


/-! ### lines whose value parse may file warnings: the body loop and `parse_document` -/

open Octave.FlatParse (current_mk peek_mk advance_mk curType_mk isAdjacentBracket_mk budget_mk warn_mk pyStrVal_str)
open Octave.FlatParse (trackPure trackKey_eq)
open Octave.FlatParse (Frame skipWhitespace_stop skipWhitespace_newline)

local macro "step_simp" "[" ts:Lean.Parser.Tactic.simpLemma,* "]" : tactic =>
  `(tactic| simp only [bind, StateT.bind, Except.bind, pure, StateT.pure, Except.pure, current_mk, peek_mk, advance_mk,
      curType_mk, isAdjacentBracket_mk, budget_mk, warn_mk, get, getThe, MonadStateOf.get, StateT.get,
      Bool.false_eq_true, if_false, if_true, Bool.false_and, Bool.and_false, Bool.or_false, Bool.false_or,
      List.length_cons, List.length_nil, beq_iff_eq, bne_iff_ne, ne_eq, reduceCtorEq, not_true_eq_false, not_false_eq_true,
      Bool.and_eq_true, Bool.or_eq_true, Bool.not_eq_true', beq_eq_false_iff_ne, false_and, and_false, true_and, and_true,
      false_or, or_false, true_or, or_true, decide_eq_true_eq,
      beq_self_eq_true, Bool.true_or, Bool.or_true, Bool.true_and, Bool.and_true, Bool.not_true, Bool.not_false, $ts,*])

/-- the line is well formed: token types, and `parse_value` reads the value tokens as `v`, stops on the NEWLINE and leaves
`bracket_depth` at 0 (warnings may have been filed). -/
structure NVOK (ln : VLine) : Prop where
  kt : ln.kt.type = .identifier
  kv : ln.kt.value = .str ln.key
  a : ln.a.type = .assign
  nl : ln.nl.type = .newline
  reads : ∀ (st : PState) (k : List Token) (fuel : Nat), st.depth = 0 → st.rest = ln.vt :: (ln.vr ++ ln.nl :: k) →
    2 * (ln.vr.length + 1) ≤ fuel → ∃ s3, parseValue fuel st = .ok (ln.v, s3) ∧ s3.rest = ln.nl :: k ∧ s3.depth = 0

theorem docLoop_nv (vf : Nat) (lines : List VLine) (hF : ∀ ln ∈ lines, 2 * (ln.vr.length + 1) + 1 ≤ vf) (e : Token) (tail : List Token)
    (he : e.type = .envelopeEnd ∨ e.type = .eof) :
    ∀ (st : PState) (acc : List Node) (kp : KeyPos) (extra : Nat), (∀ ln ∈ lines, NVOK ln) → st.depth = 0 →
    st.rest = lines.flatMap VLine.toks ++ e :: tail →
    ∃ st', docLoop vf (2 * lines.length + 1 + extra) [] acc kp st = .ok ((acc ++ lines.map VLine.node, []), st') ∧
      st'.rest = e :: tail := by
  induction lines with
  | nil =>
    intro st acc kp extra _ _ hr
    have hr : st.rest = e :: tail := hr
    have hst : st = { st with rest := e :: tail } := by rw [← hr]
    refine ⟨st, ?_, hr⟩
    have hf : 2 * ([] : List VLine).length + 1 + extra = extra + 1 := by simp only [List.length_nil]; omega
    rw [hf, docLoop]
    conv => lhs; rw [hst]
    step_simp [he]
    rw [← hst]
    simp
  | cons ln r ih =>
    intro st acc kp extra hok hd hr
    have h := hok ln (by simp)
    have hvf := hF ln (by simp)
    obtain ⟨f', rfl⟩ : ∃ f', vf = f' + 1 := ⟨vf - 1, by omega⟩
    obtain ⟨u, K', hK⟩ : ∃ u K', r.flatMap VLine.toks ++ e :: tail = u :: K' := by
      cases hx : r.flatMap VLine.toks ++ e :: tail with
      | nil => simp at hx
      | cons u K' => exact ⟨u, K', rfl⟩
    have hr' : st.rest = ln.kt :: ln.a :: ln.vt :: (ln.vr ++ ln.nl :: u :: K') := by
      rw [hr, List.flatMap_cons, ← hK]; simp [VLine.toks]
    obtain ⟨s3, hv, hs3r, hs3d⟩ := h.reads
      ({ st with rest := ln.vt :: (ln.vr ++ ln.nl :: u :: K'), prev := some ln.a, pos := st.pos + 1 + 1 } : PState) (u :: K') f' hd rfl (by omega)
    have hps := parseSection_value st s3 ln.kt ln.a ln.vt (ln.vr ++ ln.nl :: u :: K') (u :: K') ln.key ln.v ln.nl f'
      h.kt h.kv h.a hr' hv hs3r h.nl
    have hf : 2 * (ln :: r).length + 1 + extra = (2 * r.length + 1 + extra) + 2 := by simp only [List.length_cons]; omega
    have hiter := docLoop_iter (f' + 1) (2 * r.length + 1 + extra) st _ ln.kt _ _ ln.key ln.kt.line acc kp ln.nl u K' hr' h.kt hps rfl
      (by exact hs3r) h.nl
    rw [hf, hiter]
    have hmap : acc ++ (ln :: r).map VLine.node = (acc ++ [VLine.node ln]) ++ r.map VLine.node := by simp
    rw [hmap]
    exact ih (fun x hx => hF x (by simp [hx])) _ _ _ extra (fun x hx => hok x (by simp [hx])) (by exact hs3d) hK.symm

theorem vline_toks_le (lines : List VLine) : ∀ ln ∈ lines, ln.vr.length + 3 ≤ (lines.flatMap VLine.toks).length := by
  induction lines with
  | nil => intro ln h; cases h
  | cons x r ih =>
    intro ln h
    simp only [List.flatMap_cons, List.length_append]
    rcases List.mem_cons.mp h with h | h
    · subst h; simp only [VLine.toks, List.length_cons, List.length_append, List.length_nil]; omega
    · have := ih ln h; omega

theorem nvbody_head (f : Frame) (lines : List VLine) (hok : ∀ ln ∈ lines, NVOK ln) (hm : vmetaFirst lines = false) :
    ∃ u K, lines.flatMap VLine.toks ++ [f.endTok, f.nl1Tok, f.eofTok] = u :: K ∧
      u.type ≠ TT.newline ∧ u.type ≠ TT.comment ∧ u.type ≠ TT.separator ∧ u.type ≠ TT.grammarSentinel ∧
      u.type ≠ TT.envelopeStart ∧ ¬(u.type = TT.identifier ∧ u.value = TVal.str "META".toList) := by
  cases lines with
  | nil => exact ⟨f.endTok, _, rfl, by simp [Frame.endTok], by simp [Frame.endTok], by simp [Frame.endTok], by simp [Frame.endTok], by simp [Frame.endTok], fun h => by cases h.1⟩
  | cons ln r =>
    have h := hok ln (by simp)
    refine ⟨ln.kt, _, rfl, by simp [h.kt], by simp [h.kt], by simp [h.kt], by simp [h.kt], by simp [h.kt], fun hh => ?_⟩
    have h2 : ln.key = "META".toList := by
      have := hh.2; rw [h.kv] at this; simpa using this
    simp only [vmetaFirst, beq_eq_false_iff_ne, ne_eq] at hm
    exact hm h2

theorem parseDocument_nv (f : Frame) (name : Str) (lines : List VLine) (st : PState)
    (hok : ∀ ln ∈ lines, NVOK ln) (hd : st.depth = 0)
    (hm : vmetaFirst lines = false) (hr : st.rest = vdocToks f name lines) :
    ∃ st', parseDocument st = .ok (vdoc name lines, st') := by
  obtain ⟨u, K, hK, h1, h2, h3, h4, h5, h6⟩ := nvbody_head f lines hok hm
  have hlen : (vdocToks f name lines).length = K.length + 3 := by
    have := congrArg List.length hK
    simp only [vdocToks, List.length_cons, List.length_append, List.length_nil] at this ⊢
    omega
  have hlines : lines.length ≤ K.length + 1 := by
    have := congrArg List.length hK
    have h' := vlines_length_le lines
    simp only [List.length_cons, List.length_append, List.length_nil] at this
    omega
  have hvf : ∀ ln ∈ lines, 2 * (ln.vr.length + 1) + 1 ≤ 2 * ((f.envTok name :: f.nl0Tok :: u :: K).length + 2) + 10 := by
    intro ln hln
    have := vline_toks_le lines ln hln
    have h' := congrArg List.length hK
    simp only [List.length_cons, List.length_append, List.length_nil] at h' ⊢
    omega
  have hst : st = { st with rest := f.envTok name :: f.nl0Tok :: u :: K } := by rw [← hK, ← vdocToks, ← hr]
  have t1 : (f.envTok name).type = .envelopeStart := rfl
  have t2 : (f.nl0Tok).type = .newline := rfl
  have t3 : (f.envTok name).value = .str name := rfl
  have t4 : (f.endTok).type = .envelopeEnd := rfl
  obtain ⟨extra, hextra⟩ : ∃ extra, 2 * (2 * ((f.envTok name :: f.nl0Tok :: u :: K).length + 2) + 10) = 2 * lines.length + 1 + extra :=
    ⟨2 * (2 * ((f.envTok name :: f.nl0Tok :: u :: K).length + 2) + 10) - (2 * lines.length + 1), by simp only [List.length_cons]; omega⟩
  obtain ⟨stD, hD1, hD2⟩ := docLoop_nv (2 * ((f.envTok name :: f.nl0Tok :: u :: K).length + 2) + 10) lines hvf
    f.endTok [f.nl1Tok, f.eofTok] (Or.inl rfl)
    { st with rest := u :: K, prev := some f.nl0Tok, pos := st.pos + 1 + 1 } [] [] extra hok hd hK.symm
  rw [← hextra] at hD1
  have hsD : stD = { stD with rest := [f.endTok, f.nl1Tok, f.eofTok] } := by rw [← hD2]
  refine ⟨{ stD with rest := [f.nl1Tok, f.eofTok], prev := some f.endTok, pos := stD.pos + 1 }, ?_⟩
  rw [hst]
  unfold parseDocument
  simp (config := {zeta := false}) only [bind, StateT.bind, Except.bind, budget_mk]
  extract_lets n doc0 jp5 jp4 jp3 jp2 jp1
  step_simp [t1, t2, skipWhitespace_stop]
  simp only [jp1]
  step_simp [t1]
  simp only [jp2]
  step_simp [skipWhitespace_newline, pyStrVal_str, h1, h2, t1, t2, t3]
  simp only [jp3]
  step_simp [h6]
  simp only [jp4]
  step_simp [h3]
  simp only [jp5]
  step_simp []
  simp only [n]
  rw [hD1]
  simp only []
  rw [hsD]
  step_simp [t4, List.nil_append]
  rfl

/-! ### glue: the lexer's token list of a document is one the parser half reads -/


theorem nitem_toks_ne_nil (x : NItem) (ind l c : Nat) : x.toks ind l c ≠ [] := by
  obtain ⟨t, tr, h, _⟩ := (reads_nitem x ind l c).head
  rw [h]; simp

def NLine.toV (ln : NLine) (l : Nat) : VLine :=
  { kt := tIdent ln.key l 1, key := ln.key, a := tAssign l (1 + ln.key.length),
    vt := (ln.v.toks 0 l (1 + ln.key.length + 2)).headD default,
    vr := (ln.v.toks 0 l (1 + ln.key.length + 2)).tail,
    v := ln.v.value,
    nl := tNewline (l + nlCount (ln.v.text 0)) (colAfter (ln.v.text 0) (1 + ln.key.length + 2)) }

theorem NLine.toV_vtoks (ln : NLine) (l : Nat) :
    (ln.toV l).vt :: (ln.toV l).vr = ln.v.toks 0 l (1 + ln.key.length + 2) := by
  obtain ⟨t, r, h⟩ := List.exists_cons_of_ne_nil (nitem_toks_ne_nil ln.v 0 l (1 + ln.key.length + 2))
  simp only [NLine.toV, h, List.headD_cons, List.tail_cons]

theorem NLine.toV_toks (ln : NLine) (l : Nat) : (ln.toV l).toks = ln.toks l := by
  have h := NLine.toV_vtoks ln l
  simp only [VLine.toks, NLine.toks]
  rw [← List.cons_append, h]
  rfl

/-- the line is readable when its value nests fewer than 100 brackets (the reader's hard limit). -/
theorem NLine.toV_ok (ln : NLine) (l : Nat) (hn : ln.v.nest < 100) : NVOK (ln.toV l) := by
  refine ⟨rfl, rfl, rfl, rfl, ?_⟩
  intro st k fuel hd hr hf
  have R := reads_nitem ln.v 0 l (1 + ln.key.length + 2)
  rw [← NLine.toV_vtoks] at R
  refine ⟨_, R.parse st (ln.toV l).nl k fuel hr (Or.inr (Or.inr rfl)) (by simpa using hf) (by rw [hd]; simpa using hn), rfl, ?_⟩
  rw [adv_depth, R.bal, hd]

def toNV (l : Nat) : List NLine → List VLine
  | [] => []
  | x :: r => x.toV l :: toNV (l + x.height) r

theorem nlinesToks_bridge (ls : List NLine) : ∀ l, nlinesToks l ls = (toNV l ls).flatMap VLine.toks := by
  induction ls with
  | nil => intro l; rfl
  | cons x r ih => intro l; simp only [nlinesToks, toNV, List.flatMap_cons, NLine.toV_toks, ih]

theorem ndocToks_bridge (name : Str) (ls : List NLine) :
    ndocToks name ls = vdocToks (flatFrame name (nlinesHeight ls)) name (toNV 2 ls) := by
  simp only [ndocToks, vdocToks, nlinesToks_bridge]
  simp [flatFrame, FlatParse.Frame.envTok, FlatParse.Frame.nl0Tok, FlatParse.Frame.endTok, FlatParse.Frame.nl1Tok, FlatParse.Frame.eofTok,
    tEof, tNewline, tEnvEnd, tEnvStart]

/-- the nodes read back: each line's Assignment at its key (line counted through the multi-line lists, column 1). -/
def nnodesAt (l : Nat) : List NLine → List Node
  | [] => []
  | x :: r => x.node l 1 :: nnodesAt (l + x.height) r

def ndocAt (name : Str) (ls : List NLine) : Document := { name := name, sections := nnodesAt 2 ls }

theorem nvdoc_bridge (name : Str) (ls : List NLine) : vdoc name (toNV 2 ls) = ndocAt name ls := by
  have h : ∀ (ls : List NLine) (l : Nat), (toNV l ls).map VLine.node = nnodesAt l ls := by
    intro ls
    induction ls with
    | nil => intro l; rfl
    | cons x r ih => intro l; simp only [toNV, List.map_cons, nnodesAt, ih]; rfl
  simp only [vdoc, ndocAt, h]

theorem nnodesOf_nnodesAt (ls : List NLine) : ∀ l, NNodesOf ls (nnodesAt l ls) := by
  induction ls with
  | nil => intro l; exact NNodesOf.nil
  | cons x r ih => intro l; exact NNodesOf.cons x l 1 (ih _)

theorem toNV_ok (ls : List NLine) (hn : ∀ x ∈ ls, x.v.nest < 100) : ∀ l, ∀ v ∈ toNV l ls, NVOK v := by
  induction ls with
  | nil => intro l v hv; cases hv
  | cons x r ih =>
    intro l v hv
    simp only [toNV, List.mem_cons] at hv
    rcases hv with rfl | hv
    · exact NLine.toV_ok x l (hn x (by simp))
    · exact ih (fun y hy => hn y (by simp [hy])) _ v hv

def nfirstNotMeta (ls : List NLine) : Bool :=
  match ls with | x :: _ => !(x.key == "META".toList) | [] => true

theorem nvmetaFirst_false (ls : List NLine) (h : nfirstNotMeta ls = true) : vmetaFirst (toNV 2 ls) = false := by
  cases ls with
  | nil => rfl
  | cons x r => simpa [nfirstNotMeta, toNV, vmetaFirst, NLine.toV] using h

/-- the parser on the token list of the document, from the initial state of either entry point. -/
theorem parseDocument_ndoc (env : Env) (strict : Bool) (name : Str) (ls : List NLine) (hn : ∀ x ∈ ls, x.v.nest < 100)
    (hm : nfirstNotMeta ls = true) :
    ∃ st', Parser.parseDocument.run (Parser.initState env (ndocToks name ls) strict) = .ok (ndocAt name ls, st') := by
  have hb := ndocToks_bridge name ls
  obtain ⟨st', h1⟩ := parseDocument_nv (flatFrame name (nlinesHeight ls)) name (toNV 2 ls)
    (Parser.initState env (ndocToks name ls) strict) (toNV_ok ls hn 2) rfl (nvmetaFirst_false ls hm) (by rw [← hb]; rfl)
  refine ⟨st', ?_⟩
  simp only [StateT.run]
  rw [h1, nvdoc_bridge]

end Octave.Nest
