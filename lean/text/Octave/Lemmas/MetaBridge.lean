import Octave.Lemmas.BlockBridge
import Octave.Lemmas.MetaLex
import Octave.Lemmas.MetaParse
/-!
Glue between the lexer half (`MetaLex`, concrete positions) and the parser half (`MetaParse`, arbitrary positions) of the round
trip of documents with a META block — the analogue of `BlockBridge`, which it reuses: the META document is the tree document
whose first node is the block `META`, so positions (`metaPos = posOf (metaNode fields :: nodes)`), the token bridge
(`metaToks_bridge`) and the side condition on block-key columns (`colsOk_metaPos`) are instances of the tree lemmas; the body
forest is seen through the window of positions that starts at body line `1 + fields.length` (`agree_metaPos`).

* `fieldsToP`                the fields as the parser half describes them;
* `metaToks_bridge`          the two descriptions of the token list agree;
* `metaDocRead`, `metaDoc_bridge`   the document the parser half returns, in the vocabulary of the lexer half — in general
                             `meta` is the dict built field by field (`MetaParse.metaDict`);
* `metaDocRead_of_nodup`     with distinct keys it is `metaDoc name canonPos fields nodes` (`meta` = the fields in order);
* `metaDocWarns`             the parser warnings on the canonical text.
-/
namespace Octave
open Lexer Emitter

/-! ### content and positions in the vocabulary of the parser half -/

/-- the fields as the parser half describes them. -/
def fieldsToP (fields : List FLine) : List (Str × FlatParse.Scalar) := fields.map fun ln => (ln.key, ln.v.toP)

theorem fieldsToP_length (fields : List FLine) : (fieldsToP fields).length = fields.length := by simp [fieldsToP]

theorem treeToP_fields (fields : List FLine) : treeToP (fields.map TNode.line) = MetaParse.fieldNodes (fieldsToP fields) := by
  induction fields with
  | nil => rfl
  | cons ln ls ih =>
    simp only [List.map_cons, treeToP, TNode.toP, ih, fieldsToP, MetaParse.fieldNodes]

theorem treeToP_meta (fields : List FLine) (nodes : List TNode) :
    treeToP (metaNode fields :: nodes)
      = BlockParse.TNode.block "META".toList (MetaParse.fieldNodes (fieldsToP fields)) :: treeToP nodes := by
  simp only [treeToP, metaNode, TNode.toP, treeToP_fields]

/-- the positions the lexer gives to the source lines: `META:` is body line 0 (text line 2), field `j` is body line `1 + j`,
the body forest starts at body line `1 + fields.length`. -/
def metaPos (fields : List FLine) (nodes : List TNode) : Nat → BlockParse.LPos := posOf (metaNode fields :: nodes)

/-- the frame (envelope and end tokens) of the canonical text. -/
def metaFrame (name : Str) (fields : List FLine) (nodes : List TNode) : FlatParse.Frame :=
  treeFrame name (metaBodyLines fields nodes)

theorem treeNLines_meta (fields : List FLine) (nodes : List TNode) :
    treeNLines (metaNode fields :: nodes) = metaBodyLines fields nodes := by
  simp [treeNLines, metaNode_nlines, metaBodyLines]

/-- **the two descriptions of the token list agree.** -/
theorem metaToks_bridge (name : Str) (fields : List FLine) (nodes : List TNode) :
    metaDocToks name fields nodes
      = MetaParse.metaToks (metaFrame name fields nodes) name (metaPos fields nodes) (fieldsToP fields) (treeToP nodes) := by
  rw [metaDocToks_eq_tree, treeToks_bridge, MetaParse.metaToks_eq_tree, treeToP_meta, treeNLines_meta]
  rfl

/-- the positions of the body forest, seen from body line `1 + fields.length` (text line `3 + fields.length`). -/
theorem agree_metaPos (fields : List FLine) (nodes : List TNode) :
    Agree (metaPos fields nodes) (lposList 0 (1 + fields.length + 2) nodes) (1 + fields.length) := by
  have h := agree_posOf (metaNode fields :: nodes)
  simp only [lposList] at h
  have h2 := h.right
  rw [TNode.lpos_length, metaNode_nlines, Nat.zero_add] at h2
  rw [show 1 + fields.length + 2 = 2 + (1 + fields.length) by omega]
  exact h2

/-- every block key of the body sits at column `2·d + 1`. -/
theorem colsOk_metaPos (fields : List FLine) (nodes : List TNode) :
    BlockParse.colsOkList (metaPos fields nodes) (treeToP nodes) 0 (1 + (fieldsToP fields).length) = true := by
  rw [fieldsToP_length]
  exact BlockParse.colsOkList_of_canon _ _ 0 _
    (canonColsList_agree nodes 0 _ (metaPos fields nodes) (1 + fields.length) (agree_metaPos fields nodes))

/-! ### the document -/

theorem fieldKv_bridge (fields : List FLine) : MetaParse.fieldKv (fieldsToP fields) = metaKvOf fields := by
  simp [MetaParse.fieldKv, fieldsToP, metaKvOf, FScalar.val_toP]

theorem fieldsToP_keys (fields : List FLine) : (fieldsToP fields).map Prod.fst = fields.map FLine.key := by
  simp [fieldsToP]

/-- the document the reader returns for the canonical text, in general: `meta` is the Python dict built field by field
(`MetaParse.metaDict`: a repeated key overwrites in place); the body nodes at their text lines, column `1 + 2·depth`. -/
def metaDocRead (name : Str) (fields : List FLine) (nodes : List TNode) : Document :=
  { name := name, metaKv := MetaParse.metaDict [] (fieldsToP fields),
    sections := treeNodes canonPos (1 + fields.length) 0 nodes }

/-- **the document of the parser half is the document of the lexer half.** -/
theorem metaDoc_bridge (name : Str) (fields : List FLine) (nodes : List TNode) :
    MetaParse.metaDoc name (metaPos fields nodes) (fieldsToP fields) (treeToP nodes) = metaDocRead name fields nodes := by
  simp only [MetaParse.metaDoc, metaDocRead, fieldsToP_length,
    nodeList_agree nodes 0 (metaPos fields nodes) (1 + fields.length) (agree_metaPos fields nodes)]

/-- with distinct keys (what a Python dict has) `meta` is exactly the fields, in order. -/
theorem metaDocRead_of_nodup (name : Str) (fields : List FLine) (nodes : List TNode) (hnd : (fields.map FLine.key).Nodup) :
    metaDocRead name fields nodes = metaDoc name canonPos fields nodes := by
  simp only [metaDocRead, metaDoc]
  rw [MetaParse.metaDict_of_nodup _ (by rw [fieldsToP_keys]; exact hnd), fieldKv_bridge]

theorem stripFrontmatter_meta (env : Env) (name : Str) (fields : List FLine) (nodes : List TNode) :
    Parser.stripFrontmatter env (metaDocText name fields nodes) = (metaDocText name fields nodes, none) := by
  rw [metaDocText_eq_tree]
  exact stripFrontmatter_tree env name (metaNode fields :: nodes)

/-- the parser's warnings on the canonical text: the duplicate-key warnings of META, then the warnings of the body. -/
def metaDocWarns (fields : List FLine) (nodes : List TNode) : List Parser.Warning :=
  MetaParse.metaWarns (metaPos fields nodes) [] (fieldsToP fields) 1 ++
    BlockParse.warnsList (metaPos fields nodes) (treeToP nodes) [] (1 + fields.length)

end Octave
