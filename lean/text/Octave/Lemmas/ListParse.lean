/-
Parsing of canonical single-line lists by `parseValue` / `parseList` / `listLoop` / `parseListItem`
(the mutual block of `Model/ParserValue.lean`): content model, token rendering, state bookkeeping and
the per-function step lemmas, then `parse_ok` (every rendering is read back as its value) by induction on
the value.  The property theorems built from them are in `Props/C02lists.lean`.
Everything here lives in `namespace Octave.ListParse`.
-/
import Octave.Model.ParserValue
set_option linter.unusedSimpArgs false
namespace Octave.ListParse
open Octave Parser

/-! ## Content model -/

/-- scalar document values (what a single STRING / NUMBER / BOOLEAN / NULL token carries). -/
inductive Scalar where
  | str (s : Str)
  | int (i : Int)
  | float (repr : Str)
  | bool (b : Bool)
  | null
  deriving Repr, DecidableEq

/-- token type of the scalar's token. -/
def Scalar.type : Scalar → TT
  | .str _ => .string
  | .int _ => .number
  | .float _ => .number
  | .bool _ => .boolean
  | .null => .null

/-- token value of the scalar's token. -/
def Scalar.tval : Scalar → TVal
  | .str s => .str s
  | .int i => .int i
  | .float r => .float r
  | .bool b => .bool b
  | .null => .none

/-- the AST value the scalar must be read back as (kind and content). -/
def Scalar.val : Scalar → Value
  | .str s => .str s
  | .int i => .int i
  | .float r => .float r
  | .bool b => .bool b
  | .null => .null

/-- content values: scalars, lists (any length, any nesting), and — as list items only — single inline map
entries `KEY::scalar`. -/
inductive CVal where
  | scalar (s : Scalar)
  | list (xs : List CVal)
  | entry (key : Str) (s : Scalar)

/-- what the parser reads of a token: its type and, for the tokens that carry content, its value
(line, column, `raw` and `normFrom` are never read on the paths taken here, and neither is the value of a
structural token). -/
def sig (t : Token) : TT × TVal :=
  (t.type, match t.type with
    | .string | .number | .boolean | .identifier => t.value
    | _ => .none)

def Scalar.shape (s : Scalar) : TT × TVal := (s.type, s.tval)

mutual
/-- canonical single-line token rendering (signatures): `[v1,v2,…]`, `KEY::v`. -/
def CVal.shapes : CVal → List (TT × TVal)
  | .scalar s => [s.shape]
  | .entry k s => [(.identifier, .str k), (.assign, .none), s.shape]
  | .list [] => [(.listStart, .none), (.listEnd, .none)]
  | .list (x :: r) => (.listStart, .none) :: (x.shapes ++ tailShapes r ++ [(.listEnd, .none)])
/-- `,v` for every further item. -/
def tailShapes : List CVal → List (TT × TVal)
  | [] => []
  | y :: r => (.comma, .none) :: (y.shapes ++ tailShapes r)
end

mutual
def CVal.val : CVal → Value
  | .scalar s => s.val
  | .entry k s => .imap [(k, s.val)]
  | .list xs => .list (vals xs)
def vals : List CVal → List Value
  | [] => []
  | x :: r => x.val :: vals r
end

theorem vals_eq_map (xs : List CVal) : vals xs = xs.map CVal.val := by
  induction xs with
  | nil => simp [vals]
  | cons x r ih => simp [vals, ih]

mutual
/-- fuel `parseValue` needs for the value (`parseListItem` needs one more). -/
def CVal.need : CVal → Nat
  | .scalar _ => 1
  | .entry _ _ => 1
  | .list xs => needLoop xs + 2
/-- fuel `listLoop` needs at the head of the items. -/
def needLoop : List CVal → Nat
  | [] => 1
  | x :: r => max (x.need + 1) (needLoop r) + 1
end

mutual
/-- bracket nesting depth of the value. -/
def CVal.nest : CVal → Nat
  | .scalar _ => 0
  | .entry _ _ => 0
  | .list xs => nests xs + 1
def nests : List CVal → Nat
  | [] => 0
  | x :: r => max x.nest (nests r)
end

mutual
theorem CVal.induct {P : CVal → Prop} (hs : ∀ s, P (.scalar s)) (he : ∀ k s, P (.entry k s))
    (hl : ∀ xs, (∀ x ∈ xs, P x) → P (.list xs)) : ∀ v, P v
  | .scalar s => hs s
  | .entry k s => he k s
  | .list xs => hl xs (CVal.induct_list hs he hl xs)
theorem CVal.induct_list {P : CVal → Prop} (hs : ∀ s, P (.scalar s)) (he : ∀ k s, P (.entry k s))
    (hl : ∀ xs, (∀ x ∈ xs, P x) → P (.list xs)) : ∀ xs : List CVal, ∀ x ∈ xs, P x
  | [], _, h => by cases h
  | y :: r, x, h => by
    rcases List.mem_cons.mp h with h | h
    · exact h ▸ CVal.induct hs he hl y
    · exact CVal.induct_list hs he hl r x h
end

/-! ## State bookkeeping -/

/-- effect of `_check_deep_nesting` (below the hard limit): at most one warning per line. -/
def mark (s : PState) (t : Token) : PState :=
  if s.threshold > 0 && s.depth ≥ s.threshold && !s.warned.contains t.line then
    { s with warned := t.line :: s.warned, warnings := .deepNesting s.depth s.threshold t.line t.col :: s.warnings }
  else s

/-- effect of one consumed token on `bracket_depth` / the deep-nesting warnings. -/
def tokStep (s : PState) (t : Token) : PState :=
  if t.type == .listStart then mark { s with depth := s.depth + 1 } t
  else if t.type == .listEnd then { s with depth := s.depth - 1 }
  else s

def walkSt (ts : List Token) (s : PState) : PState := ts.foldl tokStep s

/-- move the cursor. -/
def setCur (s : PState) (r : List Token) (p : Option Token) (q : Nat) : PState :=
  { s with rest := r, prev := p, pos := q }

/-- the state after consuming exactly the tokens `ts`, with `r` left to read. -/
def adv (s : PState) (ts r : List Token) : PState :=
  setCur (walkSt ts s) r (ts.getLast?.or s.prev) (s.pos + ts.length)

theorem mark_setCur (s : PState) (t : Token) (r p q) : mark (setCur s r p q) t = setCur (mark s t) r p q := by
  unfold mark setCur
  split <;> rfl

theorem tokStep_setCur (s : PState) (t : Token) (r p q) : tokStep (setCur s r p q) t = setCur (tokStep s t) r p q := by
  unfold tokStep
  split
  · exact mark_setCur { s with depth := s.depth + 1 } t r p q
  · split <;> rfl

theorem walkSt_setCur (ts : List Token) (s : PState) (r p q) : walkSt ts (setCur s r p q) = setCur (walkSt ts s) r p q := by
  induction ts generalizing s with
  | nil => rfl
  | cons t ts ih => simp only [walkSt, List.foldl_cons] at ih ⊢; rw [tokStep_setCur, ih]

theorem walkSt_append (a b : List Token) (s : PState) : walkSt (a ++ b) s = walkSt b (walkSt a s) := by
  simp [walkSt, List.foldl_append]

theorem mark_cur (s : PState) (t : Token) : (mark s t).prev = s.prev ∧ (mark s t).pos = s.pos := by
  unfold mark; split <;> exact ⟨rfl, rfl⟩

theorem tokStep_cur (s : PState) (t : Token) : (tokStep s t).prev = s.prev ∧ (tokStep s t).pos = s.pos := by
  unfold tokStep
  split
  · exact mark_cur { s with depth := s.depth + 1 } t
  · split <;> exact ⟨rfl, rfl⟩

theorem walkSt_cur (ts : List Token) (s : PState) : (walkSt ts s).prev = s.prev ∧ (walkSt ts s).pos = s.pos := by
  induction ts generalizing s with
  | nil => exact ⟨rfl, rfl⟩
  | cons t ts ih =>
    simp only [walkSt, List.foldl_cons] at ih ⊢
    rw [(ih (tokStep s t)).1, (ih (tokStep s t)).2]
    exact tokStep_cur s t

theorem setCur_setCur (s : PState) (r p q r' p' q') : setCur (setCur s r p q) r' p' q' = setCur s r' p' q' := rfl

/-- consuming `a` then `b` is consuming `a ++ b`. -/
theorem adv_adv (s : PState) (a b r1 r2 : List Token) : adv (adv s a r1) b r2 = adv s (a ++ b) r2 := by
  unfold adv
  rw [walkSt_setCur, setCur_setCur, walkSt_append]
  congr 1
  · simp [List.getLast?_append, Option.or_assoc, setCur]
  · simp [setCur, Nat.add_assoc]

@[simp] theorem adv_rest (s : PState) (ts r : List Token) : (adv s ts r).rest = r := rfl
@[simp] theorem adv_pos (s : PState) (ts r : List Token) : (adv s ts r).pos = s.pos + ts.length := rfl
theorem adv_nil (s : PState) (r : List Token) : adv s [] r = { s with rest := r } := rfl

/-- a token that is not a bracket only moves the cursor. -/
theorem adv_plain (s : PState) (t : Token) (r : List Token) (h1 : t.type ≠ .listStart) (h2 : t.type ≠ .listEnd) :
    adv s [t] r = { s with rest := r, prev := some t, pos := s.pos + 1 } := by
  simp [adv, walkSt, tokStep, h1, h2, setCur]

/-! ## Step lemmas -/

theorem advance_eq (st : PState) (t u : Token) (r : List Token) (hr : st.rest = t :: u :: r) :
    advance st = .ok (t, { st with rest := u :: r, prev := some t, pos := st.pos + 1 }) := by
  unfold advance
  simp only [bind, StateT.bind, get, getThe, MonadStateOf.get, StateT.get, pure, StateT.pure, Except.pure, Except.bind, hr]
  rfl

/-- reading a signature back: the token's type … -/
theorem sig_type (t : Token) (a : TT) (b : TVal) (h : sig t = (a, b)) : t.type = a := by
  simp only [sig, Prod.mk.injEq] at h; exact h.1

/-- … and, for content tokens, its value. -/
theorem sig_value (t : Token) (a : TT) (b : TVal) (h : sig t = (a, b))
    (ha : a = .string ∨ a = .number ∨ a = .boolean ∨ a = .identifier) : t.value = b := by
  have ht := sig_type t a b h
  simp only [sig, Prod.mk.injEq] at h
  rcases ha with ha | ha | ha | ha <;> subst ha <;> simp only [ht] at h <;> exact h.2

/-- `parseValue` on a scalar token followed by a token that cannot continue a value. -/
theorem parseValue_scalar (s : Scalar) (st : PState) (t n : Token) (k : List Token) (fuel : Nat)
    (hr : st.rest = t :: n :: k) (ht : sig t = s.shape)
    (hn : isValueTok n.type = false) (hb : s.type = .number → n.type ≠ .listStart) :
    parseValue (fuel + 1) st = .ok (s.val, adv st [t] (n :: k)) := by
  have htt := sig_type t _ _ ht
  cases s with
  | str x =>
    have hv := sig_value t _ _ ht (Or.inl rfl)
    simp only [Scalar.type, Scalar.tval, Scalar.val] at htt hv ⊢
    rw [adv_plain _ _ _ (by simp [htt]) (by simp [htt]), parseValue]
    simp only [bind, StateT.bind, current, peek, get, getThe, MonadStateOf.get, StateT.get, pure, StateT.pure, Except.pure, Except.bind, hr,
      List.drop_succ_cons, List.drop_zero]
    simp only [htt]
    rw [if_neg (by simp [hn])]
    simp only [StateT.bind, bind, Except.bind]
    rw [advance_eq st t n k hr]
    simp only [StateT.pure, pure, Except.pure]
    rw [hv]; rfl
  | int i =>
    have hv := sig_value t _ _ ht (Or.inr (Or.inl rfl))
    have hb' : (n.type == TT.listStart) = false := by simpa using hb rfl
    simp only [Scalar.type, Scalar.tval, Scalar.val] at htt hv ⊢
    rw [adv_plain _ _ _ (by simp [htt]) (by simp [htt]), parseValue]
    simp only [bind, StateT.bind, current, peek, get, getThe, MonadStateOf.get, StateT.get, pure, StateT.pure, Except.pure, Except.bind, hr,
      List.drop_succ_cons, List.drop_zero]
    simp only [htt]
    rw [if_neg (by simp [hn])]
    simp only [hb', Bool.false_eq_true, if_false, StateT.bind, StateT.pure, bind, pure, Except.bind, Except.pure]
    rw [advance_eq st t n k hr]
    simp only [StateT.pure, pure, Except.pure]
    rw [hv]
  | float r =>
    have hv := sig_value t _ _ ht (Or.inr (Or.inl rfl))
    have hb' : (n.type == TT.listStart) = false := by simpa using hb rfl
    simp only [Scalar.type, Scalar.tval, Scalar.val] at htt hv ⊢
    rw [adv_plain _ _ _ (by simp [htt]) (by simp [htt]), parseValue]
    simp only [bind, StateT.bind, current, peek, get, getThe, MonadStateOf.get, StateT.get, pure, StateT.pure, Except.pure, Except.bind, hr,
      List.drop_succ_cons, List.drop_zero]
    simp only [htt]
    rw [if_neg (by simp [hn])]
    simp only [hb', Bool.false_eq_true, if_false, StateT.bind, StateT.pure, bind, pure, Except.bind, Except.pure]
    rw [advance_eq st t n k hr]
    simp only [StateT.pure, pure, Except.pure]
    rw [hv]
  | bool b =>
    have hv := sig_value t _ _ ht (Or.inr (Or.inr (Or.inl rfl)))
    simp only [Scalar.type, Scalar.tval, Scalar.val] at htt hv ⊢
    rw [adv_plain _ _ _ (by simp [htt]) (by simp [htt]), parseValue]
    simp only [bind, StateT.bind, current, peek, get, getThe, MonadStateOf.get, StateT.get, pure, StateT.pure, Except.pure, Except.bind, hr,
      List.drop_succ_cons, List.drop_zero]
    simp only [htt]
    rw [if_neg (by simp [hn])]
    simp only [StateT.bind, bind, Except.bind]
    rw [advance_eq st t n k hr]
    simp only [StateT.pure, pure, Except.pure]
    rw [hv]
  | null =>
    simp only [Scalar.type, Scalar.tval, Scalar.val] at htt ⊢
    rw [adv_plain _ _ _ (by simp [htt]) (by simp [htt]), parseValue]
    simp only [bind, StateT.bind, current, peek, get, getThe, MonadStateOf.get, StateT.get, pure, StateT.pure, Except.pure, Except.bind, hr,
      List.drop_succ_cons, List.drop_zero]
    simp only [htt]
    rw [if_neg (by simp [hn])]
    simp only [StateT.bind, bind, Except.bind]
    rw [advance_eq st t n k hr]
    rfl

/-- `_check_deep_nesting` below the hard limit is `mark`. -/
theorem checkDeepNesting_ok (tok : Token) (s : PState) (h : s.depth < 100) :
    checkDeepNesting tok s = .ok ((), mark s tok) := by
  unfold checkDeepNesting mark
  simp only [bind, StateT.bind, get, getThe, MonadStateOf.get, StateT.get, pure, Except.pure, Except.bind]
  rw [if_neg (by omega)]
  cases h1 : (decide (s.threshold > 0) && decide (s.depth ≥ s.threshold)) <;>
    cases h2 : s.warned.contains tok.line <;>
    simp only [h1, h2, Bool.false_eq_true, if_false, if_true, Bool.not_false, Bool.not_true, Bool.true_and, Bool.false_and, Bool.and_false, Bool.and_true] <;> rfl

/-- consuming `[`: cursor, `bracket_depth += 1`, `_check_deep_nesting`. -/
theorem adv_lb (s : PState) (t : Token) (r : List Token) (h : t.type = .listStart) :
    adv s [t] r = mark { s with rest := r, prev := some t, pos := s.pos + 1, depth := s.depth + 1 } t := by
  have : ({ s with rest := r, prev := some t, pos := s.pos + 1, depth := s.depth + 1 } : PState)
      = setCur { s with depth := s.depth + 1 } r (some t) (s.pos + 1) := rfl
  rw [this, mark_setCur]
  simp [adv, walkSt, tokStep, h]

/-- consuming `]`: cursor, `bracket_depth -= 1`. -/
theorem adv_rb (s : PState) (t : Token) (r : List Token) (h : t.type = .listEnd) :
    adv s [t] r = { s with rest := r, prev := some t, pos := s.pos + 1, depth := s.depth - 1 } := by
  simp [adv, walkSt, tokStep, h, setCur]

/-- `parse_value` on LIST_START is `parse_list` (no post-processing). -/
theorem parseValue_listStart (st : PState) (t : Token) (r : List Token) (fuel : Nat)
    (hr : st.rest = t :: r) (ht : t.type = .listStart) :
    parseValue (fuel + 1) st = parseList fuel st := by
  rw [parseValue]
  simp only [bind, StateT.bind, current, peek, get, getThe, MonadStateOf.get, StateT.get, pure, StateT.pure, Except.pure, Except.bind, hr]
  simp only [ht]

/-- `parse_list` around a successful item loop that stopped at LIST_END, when the slice is not holographic. -/
theorem parseList_eq (st st2 : PState) (lb rb n : Token) (r k : List Token) (fuel : Nat) (items : List Value)
    (hr : st.rest = lb :: r) (hne : r ≠ []) (hlb : lb.type = .listStart) (hd : st.depth + 1 < 100)
    (hloop : listLoop fuel [] (adv st [lb] r) = .ok (items, st2))
    (hr2 : st2.rest = rb :: n :: k) (hrb : rb.type = .listEnd)
    (hholo : looksHolographic ((lb :: r).take (st2.pos + 1 - st.pos)) = false) :
    parseList (fuel + 1) st = .ok (.list items, adv st2 [rb] (n :: k)) := by
  obtain ⟨u, r', rfl⟩ := List.exists_cons_of_ne_nil hne
  rw [adv_lb _ _ _ hlb] at hloop
  rw [adv_rb _ _ _ hrb]
  rw [parseList]
  simp only [bind, StateT.bind, get, getThe, MonadStateOf.get, StateT.get, pure, StateT.pure, Except.pure, Except.bind, expect, current, hr]
  simp only [hlb, bne_self_eq_false, Bool.false_eq_true, if_false]
  rw [advance_eq st lb u r' hr]
  simp only [modify, modifyGet, MonadStateOf.modifyGet, StateT.modifyGet, pure, Except.pure]
  rw [checkDeepNesting_ok _ _ (by simpa using hd)]
  simp only []
  rw [hloop]
  simp only [hr2, hrb, beq_self_eq_true, if_true, StateT.bind, bind, Except.bind]
  rw [advance_eq st2 rb n k hr2]
  simp only [modify, modifyGet, MonadStateOf.modifyGet, StateT.modifyGet, pure, Except.pure, StateT.get, StateT.pure]
  rw [hholo]
  rfl

/-- nothing to skip when the current token is not NEWLINE / INDENT / COMMENT. -/
theorem skipListWs_noop (n : Nat) (st : PState) (t : Token) (r : List Token) (hr : st.rest = t :: r)
    (h1 : t.type ≠ .newline) (h2 : t.type ≠ .indent) (h3 : t.type ≠ .comment) :
    skipListWs (n + 1) st = .ok ((), st) := by
  rw [skipListWs]
  simp only [bind, StateT.bind, curType, current, get, getThe, MonadStateOf.get, StateT.get, pure, StateT.pure, Except.pure, Except.bind, hr]
  rw [if_neg (by simp [h1, h2, h3])]
  rfl

/-- the loop head at LIST_END returns the items collected so far. -/
theorem listLoop_end (st : PState) (t : Token) (r : List Token) (fuel : Nat) (items : List Value)
    (hr : st.rest = t :: r) (ht : t.type = .listEnd) :
    listLoop (fuel + 1) items st = .ok (items, st) := by
  rw [listLoop]
  simp only [bind, StateT.bind, budget, get, getThe, MonadStateOf.get, StateT.get, pure, StateT.pure, Except.pure, Except.bind]
  rw [skipListWs_noop _ st t r hr (by simp [ht]) (by simp [ht]) (by simp [ht])]
  simp only [curType, current, bind, StateT.bind, get, getThe, MonadStateOf.get, StateT.get, pure, StateT.pure, Except.pure, Except.bind, hr, ht]
  rfl

/-- one iteration: an item followed by COMMA, then the loop continues after the comma. -/
theorem listLoop_step_comma (st st1 : PState) (t c u : Token) (r r' : List Token) (fuel : Nat) (items : List Value) (x : Value)
    (hr : st.rest = t :: r)
    (h1 : t.type ≠ .newline) (h2 : t.type ≠ .indent) (h3 : t.type ≠ .comment)
    (h4 : t.type ≠ .listEnd) (h5 : t.type ≠ .eof) (h6 : t.type ≠ .envelopeEnd)
    (hitem : parseListItem fuel st = .ok (x, st1))
    (hr1 : st1.rest = c :: u :: r') (hc : c.type = .comma) :
    listLoop (fuel + 1) items st = listLoop fuel (items ++ [x]) (adv st1 [c] (u :: r')) := by
  rw [adv_plain _ _ _ (by simp [hc]) (by simp [hc])]
  rw [listLoop]
  simp only [bind, StateT.bind, budget, get, getThe, MonadStateOf.get, StateT.get, pure, StateT.pure, Except.pure, Except.bind]
  rw [skipListWs_noop _ st t r hr h1 h2 h3]
  simp only [curType, current, bind, StateT.bind, get, getThe, MonadStateOf.get, StateT.get, pure, StateT.pure, Except.pure, Except.bind, hr]
  rw [if_neg (by simp [h4, h5, h6])]
  simp only [StateT.bind, bind, Except.bind]
  rw [hitem]
  simp only [curType, current, bind, StateT.bind, get, getThe, MonadStateOf.get, StateT.get, pure, StateT.pure, Except.pure, Except.bind, hr1, hc]
  simp only [beq_self_eq_true, if_true, StateT.bind, bind, Except.bind]
  rw [advance_eq st1 c u r' hr1]

/-- one iteration: an item followed by LIST_END ends the loop (the bracket is left for `parse_list`). -/
theorem listLoop_step_last (st st1 : PState) (t rb : Token) (r r' : List Token) (fuel : Nat) (items : List Value) (x : Value)
    (hr : st.rest = t :: r)
    (h1 : t.type ≠ .newline) (h2 : t.type ≠ .indent) (h3 : t.type ≠ .comment)
    (h4 : t.type ≠ .listEnd) (h5 : t.type ≠ .eof) (h6 : t.type ≠ .envelopeEnd)
    (hitem : parseListItem fuel st = .ok (x, st1))
    (hr1 : st1.rest = rb :: r') (hrb : rb.type = .listEnd) :
    listLoop (fuel + 1) items st = .ok (items ++ [x], st1) := by
  rw [listLoop]
  simp only [bind, StateT.bind, budget, get, getThe, MonadStateOf.get, StateT.get, pure, StateT.pure, Except.pure, Except.bind]
  rw [skipListWs_noop _ st t r hr h1 h2 h3]
  simp only [curType, current, bind, StateT.bind, get, getThe, MonadStateOf.get, StateT.get, pure, StateT.pure, Except.pure, Except.bind, hr]
  rw [if_neg (by simp [h4, h5, h6])]
  simp only [StateT.bind, bind, Except.bind]
  rw [hitem]
  simp only [curType, current, bind, StateT.bind, get, getThe, MonadStateOf.get, StateT.get, pure, StateT.pure, Except.pure, Except.bind, hr1, hrb]
  rfl

/-- `parse_list_item` on anything but `IDENTIFIER ::` / `NUMBER ::` is `parse_value`. -/
theorem parseListItem_value (st : PState) (t : Token) (r : List Token) (fuel : Nat)
    (hr : st.rest = t :: r)
    (h : (t.type = .identifier ∨ t.type = .number) → (match r with | n :: _ => n | [] => st.last).type ≠ .assign) :
    parseListItem (fuel + 1) st = parseValue fuel st := by
  rw [parseListItem]
  simp only [bind, StateT.bind, current, peek, get, getThe, MonadStateOf.get, StateT.get, pure, StateT.pure, Except.pure, Except.bind, hr,
    List.drop_succ_cons, List.drop_zero]
  rw [if_neg]
  intro hh
  simp only [Bool.or_eq_true, Bool.and_eq_true, beq_iff_eq] at hh
  rcases hh with ⟨h1, h2⟩ | ⟨h1, h2⟩
  · exact h (Or.inl h1) h2
  · exact h (Or.inr h1) h2

/-- the constructor names of `KNOWN_CONSTRUCTORS` (an inline-map key with one of these names and a quoted
value draws a `constructor_misuse` warning). -/
def isCtorKey (key : Str) : Bool :=
  key == "PATTERN".toList || key == "REGEX".toList || key == "ENUM".toList || key == "TYPE".toList
    || key == "NEVER".toList || key == "ALWAYS".toList

/-- `parse_list_item` on `KEY :: scalar`: a one-pair inline map, no warning unless a constructor name meets a quoted string. -/
theorem parseListItem_entry (s : Scalar) (key : Str) (st : PState) (kt a t n : Token) (k : List Token) (fuel : Nat)
    (hr : st.rest = kt :: a :: t :: n :: k)
    (hkt : kt.type = .identifier) (hkv : kt.value = .str key) (ha : a.type = .assign) (ht : sig t = s.shape)
    (hn : isValueTok n.type = false) (hb : s.type = .number → n.type ≠ .listStart)
    (hk : s.type = .string → isCtorKey key = false) :
    parseListItem (fuel + 2) st = .ok (.imap [(key, s.val)], adv st [kt, a, t] (n :: k)) := by
  have e1 : adv st [kt, a, t] (n :: k) = adv (adv (adv st [kt] (a :: t :: n :: k)) [a] (t :: n :: k)) [t] (n :: k) := by
    rw [adv_adv, adv_adv]; rfl
  rw [e1, adv_plain st kt _ (by simp [hkt]) (by simp [hkt]), adv_plain _ a _ (by simp [ha]) (by simp [ha])]
  generalize hs1 : ({ st with rest := a :: t :: n :: k, prev := some kt, pos := st.pos + 1 } : PState) = s1
  have hr1 : s1.rest = a :: t :: n :: k := by rw [← hs1]
  generalize hs2 : ({ s1 with rest := t :: n :: k, prev := some a, pos := s1.pos + 1 } : PState) = s2
  have hr2 : s2.rest = t :: n :: k := by rw [← hs2]
  have hpv := parseValue_scalar s s2 t n k fuel hr2 ht hn hb
  rw [parseListItem]
  simp only [bind, StateT.bind, current, peek, get, getThe, MonadStateOf.get, StateT.get, pure, StateT.pure, Except.pure, Except.bind, hr,
    List.drop_succ_cons, List.drop_zero]
  rw [if_pos (by simp [hkt, ha])]
  simp only [bind, StateT.bind, Except.bind]
  rw [advance_eq st kt a _ hr, hs1]
  simp only [expect, current, curType, bind, StateT.bind, get, getThe, MonadStateOf.get, StateT.get, pure, StateT.pure, Except.pure, Except.bind, hr1]
  simp only [ha, bne_self_eq_false, Bool.false_eq_true, if_false]
  rw [advance_eq s1 a t _ hr1, hs2]
  simp only []
  rw [hpv]
  have hkey : pyStrVal kt.value = key := by rw [hkv]; rfl
  have htt := sig_type t _ _ ht
  cases s with
  | str x =>
    have hc : (key == "PATTERN".toList || key == "REGEX".toList || key == "ENUM".toList || key == "TYPE".toList
      || key == "NEVER".toList || key == "ALWAYS".toList) = false := hk rfl
    simp only [Scalar.val, Scalar.shape, Scalar.type] at htt ⊢
    simp only [hkey, hr2, htt, hc, beq_self_eq_true, Bool.not_true, Bool.and_false, Bool.false_and, Bool.false_eq_true, if_false]
    rfl
  | int i => simp only [Scalar.val, hkey]; rfl
  | float r => simp only [Scalar.val, hkey]; rfl
  | bool b => simp only [Scalar.val, hkey]; rfl
  | null => simp only [Scalar.val, hkey]; rfl

/-! ## Views of a rendered token list -/

/-- the items between the brackets. -/
def itemsShapes : List CVal → List (TT × TVal)
  | [] => []
  | x :: r => x.shapes ++ tailShapes r

theorem shapes_list (xs : List CVal) :
    (CVal.list xs).shapes = (.listStart, .none) :: (itemsShapes xs ++ [(.listEnd, .none)]) := by
  cases xs with
  | nil => simp [CVal.shapes, itemsShapes]
  | cons x r => simp [CVal.shapes, itemsShapes]

theorem view_scalar (s : Scalar) (ts : List Token) (h : ts.map sig = (CVal.scalar s).shapes) :
    ∃ t, ts = [t] ∧ sig t = s.shape := by
  simp only [CVal.shapes] at h
  obtain ⟨t, l, rfl, h1, h2⟩ := List.map_eq_cons_iff.mp h
  simp only [List.map_eq_nil_iff] at h2
  subst h2
  exact ⟨t, rfl, h1⟩

theorem view_entry (key : Str) (s : Scalar) (ts : List Token) (h : ts.map sig = (CVal.entry key s).shapes) :
    ∃ kt a t, ts = [kt, a, t] ∧ kt.type = .identifier ∧ kt.value = .str key ∧ a.type = .assign ∧ sig t = s.shape := by
  simp only [CVal.shapes] at h
  obtain ⟨kt, l, rfl, h1, h2⟩ := List.map_eq_cons_iff.mp h
  obtain ⟨a, l, rfl, h3, h4⟩ := List.map_eq_cons_iff.mp h2
  obtain ⟨t, l, rfl, h5, h6⟩ := List.map_eq_cons_iff.mp h4
  simp only [List.map_eq_nil_iff] at h6
  subst h6
  exact ⟨kt, a, t, rfl, sig_type _ _ _ h1, sig_value _ _ _ h1 (by simp), sig_type _ _ _ h3, h5⟩

theorem view_list (xs : List CVal) (ts : List Token) (h : ts.map sig = (CVal.list xs).shapes) :
    ∃ lb body rb, ts = lb :: (body ++ [rb]) ∧ lb.type = .listStart ∧ rb.type = .listEnd ∧ body.map sig = itemsShapes xs := by
  rw [shapes_list] at h
  obtain ⟨lb, l, rfl, h1, h2⟩ := List.map_eq_cons_iff.mp h
  obtain ⟨body, e, rfl, h3, h4⟩ := List.map_eq_append_iff.mp h2
  obtain ⟨rb, l, rfl, h5, h6⟩ := List.map_eq_cons_iff.mp h4
  simp only [List.map_eq_nil_iff] at h6
  subst h6
  exact ⟨lb, body, rb, rfl, sig_type _ _ _ h1, sig_type _ _ _ h5, h3⟩

theorem view_items (x : CVal) (r : List CVal) (body : List Token) (h : body.map sig = itemsShapes (x :: r)) :
    ∃ tx tt, body = tx ++ tt ∧ tx.map sig = x.shapes ∧ tt.map sig = tailShapes r := by
  simp only [itemsShapes] at h
  obtain ⟨tx, tt, rfl, h1, h2⟩ := List.map_eq_append_iff.mp h
  exact ⟨tx, tt, rfl, h1, h2⟩

theorem view_tail (y : CVal) (r : List CVal) (tt : List Token) (h : tt.map sig = tailShapes (y :: r)) :
    ∃ c ty tt', tt = c :: (ty ++ tt') ∧ c.type = .comma ∧ ty.map sig = y.shapes ∧ tt'.map sig = tailShapes r := by
  simp only [tailShapes] at h
  obtain ⟨c, l, rfl, h1, h2⟩ := List.map_eq_cons_iff.mp h
  obtain ⟨ty, tt', rfl, h3, h4⟩ := List.map_eq_append_iff.mp h2
  exact ⟨c, ty, tt', rfl, sig_type _ _ _ h1, h3, h4⟩

theorem view_tail_nil (tt : List Token) (h : tt.map sig = tailShapes []) : tt = [] := by
  simpa [tailShapes] using h

/-! ## Structural facts about rendered token lists -/

/-- the token types that occur in a rendering. -/
def okType (t : TT) : Bool :=
  t == .string || t == .number || t == .boolean || t == .null || t == .identifier || t == .assign
    || t == .comma || t == .listStart || t == .listEnd

theorem Scalar.type_cases (s : Scalar) : s.type = .string ∨ s.type = .number ∨ s.type = .boolean ∨ s.type = .null := by
  cases s <;> simp [Scalar.type]

theorem tail_ok (r : List CVal) (ih : ∀ x ∈ r, ∀ p ∈ x.shapes, okType p.1 = true) :
    ∀ p ∈ tailShapes r, okType p.1 = true := by
  induction r with
  | nil => simp [tailShapes]
  | cons y r ihr =>
    intro p hp
    simp only [tailShapes, List.mem_cons, List.mem_append] at hp
    rcases hp with rfl | hp | hp
    · rfl
    · exact ih y (by simp) p hp
    · exact ihr (fun x hx => ih x (by simp [hx])) p hp

theorem shapes_ok (v : CVal) : ∀ p ∈ v.shapes, okType p.1 = true := by
  induction v using CVal.induct with
  | hs s =>
    intro p hp
    simp only [CVal.shapes, List.mem_singleton] at hp
    subst hp
    rcases s.type_cases with h | h | h | h <;> simp [Scalar.shape, h, okType]
  | he k s =>
    intro p hp
    simp only [CVal.shapes, List.mem_cons, List.mem_singleton, List.not_mem_nil, or_false] at hp
    rcases hp with rfl | rfl | rfl
    · rfl
    · rfl
    · rcases s.type_cases with h | h | h | h <;> simp [Scalar.shape, h, okType]
  | hl xs ih =>
    intro p hp
    rw [shapes_list] at hp
    simp only [List.mem_cons, List.mem_append, List.mem_singleton, List.not_mem_nil, or_false] at hp
    rcases hp with rfl | hp | rfl
    · rfl
    · cases xs with
      | nil => simp [itemsShapes] at hp
      | cons x r =>
        simp only [itemsShapes, List.mem_append] at hp
        rcases hp with hp | hp
        · exact ih x (by simp) p hp
        · exact tail_ok r (fun y hy => ih y (by simp [hy])) p hp
    · rfl

theorem toks_ok (v : CVal) (ts : List Token) (h : ts.map sig = v.shapes) : ∀ t ∈ ts, okType t.type = true := by
  intro t ht
  have : sig t ∈ v.shapes := h ▸ List.mem_map_of_mem ht
  exact shapes_ok v (sig t) this

/-- a rendering never looks holographic: it has no CONSTRAINT token. -/
theorem toks_not_holographic (v : CVal) (ts : List Token) (h : ts.map sig = v.shapes) : looksHolographic ts = false := by
  have : ts.any (fun t => t.type == .constraint) = false := by
    rw [List.any_eq_false]
    intro t ht
    have := toks_ok v ts h t ht
    intro hc
    simp only [beq_iff_eq] at hc
    rw [hc] at this
    simp [okType] at this
  simp [looksHolographic, this]

/-! ## The bookkeeping walk over a rendering -/

/-- no deep-nesting warning can arise up to `n` further bracket levels. -/
def quiet (s : PState) (n : Nat) : Prop := s.threshold = 0 ∨ s.depth + n < s.threshold

theorem tokStep_plain (s : PState) (t : Token) (h1 : t.type ≠ .listStart) (h2 : t.type ≠ .listEnd) : tokStep s t = s := by
  simp [tokStep, h1, h2]

theorem mark_depth (s : PState) (t : Token) : (mark s t).depth = s.depth := by
  unfold mark; split <;> rfl

theorem mark_quiet (s : PState) (t : Token) (h : s.threshold = 0 ∨ s.depth < s.threshold) : mark s t = s := by
  unfold mark
  rw [if_neg]
  simp only [Bool.and_eq_true, decide_eq_true_eq, not_and, Bool.not_eq_true', Bool.not_eq_false]
  intro h1
  omega

theorem walkSt_cons (t : Token) (ts : List Token) (s : PState) : walkSt (t :: ts) s = walkSt ts (tokStep s t) := rfl
theorem walkSt_nil (s : PState) : walkSt [] s = s := rfl

theorem sig_scalar_plain (s : Scalar) (t : Token) (h : sig t = s.shape) :
    t.type ≠ .listStart ∧ t.type ≠ .listEnd ∧ t.type ≠ .identifier ∧ t.type ≠ .newline ∧ t.type ≠ .indent ∧ t.type ≠ .comment
      ∧ t.type ≠ .eof ∧ t.type ≠ .envelopeEnd := by
  have := sig_type t _ _ h
  rcases s.type_cases with h | h | h | h <;> rw [h] at this <;> simp [this]

/-- what the walk over a rendering does: depth restored; nothing at all when no warning can arise. -/
def WalkOK (v : CVal) : Prop :=
  ∀ ts s, ts.map sig = v.shapes → (walkSt ts s).depth = s.depth ∧ (quiet s v.nest → walkSt ts s = s)

theorem quiet_mono (s : PState) (a b : Nat) (h : a ≤ b) (hq : quiet s b) : quiet s a := by
  rcases hq with hq | hq
  · exact Or.inl hq
  · exact Or.inr (by omega)

theorem walk_tail (r : List CVal) (ih : ∀ y ∈ r, WalkOK y) :
    ∀ tt s, tt.map sig = tailShapes r → (walkSt tt s).depth = s.depth ∧ (quiet s (nests r) → walkSt tt s = s) := by
  induction r with
  | nil =>
    intro tt s h
    rw [view_tail_nil tt h]
    exact ⟨rfl, fun _ => rfl⟩
  | cons y r ihr =>
    intro tt s h
    obtain ⟨c, ty, tt', rfl, hc, hy, ht'⟩ := view_tail y r tt h
    have h1 := ih y (by simp) ty s hy
    have h2 := ihr (fun z hz => ih z (by simp [hz])) tt' (walkSt ty s) ht'
    rw [walkSt_cons, tokStep_plain s c (by simp [hc]) (by simp [hc]), walkSt_append]
    refine ⟨by rw [h2.1, h1.1], fun hq => ?_⟩
    simp only [nests] at hq
    have e1 := h1.2 (quiet_mono s _ _ (Nat.le_max_left _ _) hq)
    rw [e1] at h2 ⊢
    exact h2.2 (quiet_mono s _ _ (Nat.le_max_right _ _) hq)

theorem walk_ok (v : CVal) : WalkOK v := by
  induction v using CVal.induct with
  | hs s =>
    intro ts st h
    obtain ⟨t, rfl, ht⟩ := view_scalar s ts h
    have hp := sig_scalar_plain s t ht
    rw [walkSt_cons, walkSt_nil, tokStep_plain st t hp.1 hp.2.1]
    exact ⟨rfl, fun _ => rfl⟩
  | he k s =>
    intro ts st h
    obtain ⟨kt, a, t, rfl, hkt, _, ha, ht⟩ := view_entry k s ts h
    have hp := sig_scalar_plain s t ht
    rw [walkSt_cons, walkSt_cons, walkSt_cons, walkSt_nil, tokStep_plain st kt (by simp [hkt]) (by simp [hkt]),
      tokStep_plain st a (by simp [ha]) (by simp [ha]), tokStep_plain st t hp.1 hp.2.1]
    exact ⟨rfl, fun _ => rfl⟩
  | hl xs ih =>
    intro ts st h
    obtain ⟨lb, body, rb, rfl, hlb, hrb, hbody⟩ := view_list xs ts h
    have hitems : ∀ s1 : PState, (walkSt body s1).depth = s1.depth ∧ (quiet s1 (nests xs) → walkSt body s1 = s1) := by
      intro s1
      cases xs with
      | nil =>
        simp only [itemsShapes, List.map_eq_nil_iff] at hbody
        subst hbody
        exact ⟨rfl, fun _ => rfl⟩
      | cons x r =>
        obtain ⟨tx, tt, rfl, hx, ht⟩ := view_items x r body hbody
        have h1 := ih x (by simp) tx s1 hx
        have h2 := walk_tail r (fun y hy => ih y (by simp [hy])) tt (walkSt tx s1) ht
        rw [walkSt_append]
        refine ⟨by rw [h2.1, h1.1], fun hq => ?_⟩
        simp only [nests] at hq
        have e1 := h1.2 (quiet_mono s1 _ _ (Nat.le_max_left _ _) hq)
        rw [e1] at h2 ⊢
        exact h2.2 (quiet_mono s1 _ _ (Nat.le_max_right _ _) hq)
    rw [walkSt_cons, walkSt_append, walkSt_cons, walkSt_nil]
    have hs1 : (tokStep st lb).depth = st.depth + 1 := by
      simp only [tokStep, hlb, beq_self_eq_true, if_true]
      rw [mark_depth]
    have hstep : ∀ s2 : PState, tokStep s2 rb = { s2 with depth := s2.depth - 1 } := by
      intro s2; simp [tokStep, hrb]
    rw [hstep]
    refine ⟨?_, fun hq => ?_⟩
    · show (walkSt body (tokStep st lb)).depth - 1 = st.depth
      rw [(hitems _).1, hs1]; omega
    · simp only [CVal.nest] at hq
      have e0 : tokStep st lb = { st with depth := st.depth + 1 } := by
        simp only [tokStep, hlb, beq_self_eq_true, if_true]
        apply mark_quiet
        rcases hq with hq | hq
        · exact Or.inl hq
        · exact Or.inr (by show st.depth + 1 < st.threshold; omega)
      have hq1 : quiet (tokStep st lb) (nests xs) := by
        rw [e0]
        rcases hq with hq | hq
        · exact Or.inl hq
        · exact Or.inr (by show st.depth + 1 + nests xs < st.threshold; omega)
      rw [(hitems _).2 hq1, e0]
      show ({ st with depth := st.depth + 1 - 1 } : PState) = st
      rw [Nat.add_sub_cancel]

/-! ## The parse of a rendering -/

mutual
/-- no inline-map entry pairs a constructor name with a quoted string (that draws a `constructor_misuse`
warning; the value read is the same). -/
def CVal.wf : CVal → Bool
  | .scalar _ => true
  | .entry k s => !(s.type == .string && isCtorKey k)
  | .list xs => wfs xs
def wfs : List CVal → Bool
  | [] => true
  | x :: r => x.wf && wfs r
end

def CVal.isEntry : CVal → Bool
  | .entry _ _ => true
  | _ => false

/-- what may follow the value for `parseValue` to stop exactly after it: nothing is required after a list;
a scalar must not be followed by a value token (multi-word coalescing), nor a number by `[`. -/
def CVal.followOK : CVal → TT → Bool
  | .scalar s, n => !isValueTok n && !(s.type == .number && n == .listStart)
  | .entry _ _, _ => false
  | .list _, _ => true

/-- type of the first token of a rendering: never whitespace, a closer or EOF. -/
theorem first_tok (v : CVal) (ts : List Token) (h : ts.map sig = v.shapes) :
    ∃ t r, ts = t :: r ∧ (t.type = .string ∨ t.type = .number ∨ t.type = .boolean ∨ t.type = .null
      ∨ t.type = .identifier ∨ t.type = .listStart) := by
  cases v with
  | scalar s =>
    obtain ⟨t, rfl, ht⟩ := view_scalar s ts h
    have := sig_type t _ _ ht
    refine ⟨t, [], rfl, ?_⟩
    rcases s.type_cases with h | h | h | h <;> rw [h] at this <;> simp [this]
  | entry k s =>
    obtain ⟨kt, a, t, rfl, hkt, _, _, _⟩ := view_entry k s ts h
    exact ⟨kt, _, rfl, by simp [hkt]⟩
  | list xs =>
    obtain ⟨lb, body, rb, rfl, hlb, _, _⟩ := view_list xs ts h
    exact ⟨lb, _, rfl, by simp [hlb]⟩

/-- `parseValue` reads the rendering of `v` as exactly `v.val`. -/
def ValueOK (v : CVal) : Prop :=
  ∀ fuel st ts n k, st.rest = ts ++ n :: k → ts.map sig = v.shapes → v.isEntry = false → v.wf = true →
    v.need ≤ fuel → st.depth + v.nest < 100 → v.followOK n.type = true →
    parseValue fuel st = .ok (v.val, adv st ts (n :: k))

/-- `parseListItem` reads the rendering of `v` (followed by `,` or `]`) as exactly `v.val`. -/
def ItemOK (v : CVal) : Prop :=
  ∀ fuel st ts n k, st.rest = ts ++ n :: k → ts.map sig = v.shapes → v.wf = true →
    v.need + 1 ≤ fuel → st.depth + v.nest < 100 → (n.type = .comma ∨ n.type = .listEnd) →
    parseListItem fuel st = .ok (v.val, adv st ts (n :: k))

theorem scalar_valueOK (s : Scalar) : ValueOK (.scalar s) := by
  intro fuel st ts n k hr hts _ _ hf _ hfol
  obtain ⟨t, rfl, ht⟩ := view_scalar s ts hts
  obtain ⟨f, rfl⟩ : ∃ f, fuel = f + 1 := ⟨fuel - 1, by simp only [CVal.need] at hf; omega⟩
  simp only [CVal.followOK, Bool.and_eq_true, Bool.not_eq_true', Bool.and_eq_false_iff, beq_eq_false_iff_ne, ne_eq] at hfol
  refine parseValue_scalar s st t n k f hr ht hfol.1 ?_
  intro h1 h2
  rcases hfol.2 with h | h
  · exact h h1
  · exact h h2

theorem scalar_itemOK (s : Scalar) : ItemOK (.scalar s) := by
  intro fuel st ts n k hr hts _ hf _ hn
  obtain ⟨t, rfl, ht⟩ := view_scalar s ts hts
  obtain ⟨f, rfl⟩ : ∃ f, fuel = f + 2 := ⟨fuel - 2, by simp only [CVal.need] at hf; omega⟩
  have hp := sig_scalar_plain s t ht
  rw [parseListItem_value st t (n :: k) (f + 1) hr (by rcases hn with h | h <;> simp [h])]
  refine parseValue_scalar s st t n k f hr ht ?_ ?_
  · rcases hn with h | h <;> simp [h, isValueTok]
  · rcases hn with h | h <;> simp [h]

theorem entry_itemOK (key : Str) (s : Scalar) : ItemOK (.entry key s) := by
  intro fuel st ts n k hr hts hwf hf _ hn
  obtain ⟨kt, a, t, rfl, hkt, hkv, ha, ht⟩ := view_entry key s ts hts
  obtain ⟨f, rfl⟩ : ∃ f, fuel = f + 2 := ⟨fuel - 2, by simp only [CVal.need] at hf; omega⟩
  refine parseListItem_entry s key st kt a t n k f hr hkt hkv ha ht ?_ ?_ ?_
  · rcases hn with h | h <;> simp [h, isValueTok]
  · rcases hn with h | h <;> simp [h]
  · intro h1
    simpa [CVal.wf, h1] using hwf

theorem adv_depth (s : PState) (ts r : List Token) : (adv s ts r).depth = (walkSt ts s).depth := rfl

/-- the loop from the head of item `x` (further items `r`) to the closing bracket. -/
theorem loop_items (rb n : Token) (k : List Token) (hrb : rb.type = .listEnd) (r : List CVal)
    (ihr : ∀ y ∈ r, ItemOK y) :
    ∀ (x : CVal), ItemOK x → ∀ fuel items (s : PState) tx tt,
      s.rest = tx ++ tt ++ rb :: n :: k → tx.map sig = x.shapes → tt.map sig = tailShapes r →
      x.wf = true → wfs r = true →
      max (x.need + 1) (needLoop r) + 1 ≤ fuel → s.depth + max x.nest (nests r) < 100 →
      listLoop fuel items s = .ok (items ++ x.val :: vals r, adv s (tx ++ tt) (rb :: n :: k)) := by
  induction r with
  | nil =>
    intro x hx fuel items s tx tt hr htx htt hwx _ hf hd
    rw [view_tail_nil tt htt] at hr ⊢
    simp only [List.append_nil] at hr ⊢
    obtain ⟨f, rfl⟩ : ∃ f, fuel = f + 1 := ⟨fuel - 1, by omega⟩
    obtain ⟨t, tr, rfl, hty⟩ := first_tok x tx htx
    have hitem := hx f s (t :: tr) rb (n :: k) hr htx hwx (by omega) (by omega) (Or.inr hrb)
    have := listLoop_step_last s _ t rb (tr ++ rb :: n :: k) (n :: k) f items x.val (by rw [hr]; rfl)
      (by rcases hty with h | h | h | h | h | h <;> simp [h]) (by rcases hty with h | h | h | h | h | h <;> simp [h])
      (by rcases hty with h | h | h | h | h | h <;> simp [h]) (by rcases hty with h | h | h | h | h | h <;> simp [h])
      (by rcases hty with h | h | h | h | h | h <;> simp [h]) (by rcases hty with h | h | h | h | h | h <;> simp [h])
      hitem rfl hrb
    rw [this]
    simp [vals]
  | cons y r' ih =>
    intro x hx fuel items s tx tt hr htx htt hwx hwr hf hd
    obtain ⟨c, ty, tt', rfl, hc, hty, htt'⟩ := view_tail y r' tt htt
    obtain ⟨f, rfl⟩ : ∃ f, fuel = f + 1 := ⟨fuel - 1, by omega⟩
    obtain ⟨t, tr, rfl, htyp⟩ := first_tok x tx htx
    obtain ⟨u, ur, rfl, _⟩ := first_tok y ty hty
    simp only [needLoop, nests, wfs, Bool.and_eq_true] at hf hd hwr
    have hr' : s.rest = (t :: tr) ++ c :: ((u :: ur) ++ tt' ++ rb :: n :: k) := by rw [hr]; simp
    have hitem := hx f s (t :: tr) c ((u :: ur) ++ tt' ++ rb :: n :: k) hr' htx hwx (by omega) (by omega) (Or.inl hc)
    have hstep := listLoop_step_comma s _ t c u (tr ++ c :: ((u :: ur) ++ tt' ++ rb :: n :: k)) (ur ++ tt' ++ rb :: n :: k) f items x.val
      (by rw [hr']; rfl)
      (by rcases htyp with h | h | h | h | h | h <;> simp [h]) (by rcases htyp with h | h | h | h | h | h <;> simp [h])
      (by rcases htyp with h | h | h | h | h | h <;> simp [h]) (by rcases htyp with h | h | h | h | h | h <;> simp [h])
      (by rcases htyp with h | h | h | h | h | h <;> simp [h]) (by rcases htyp with h | h | h | h | h | h <;> simp [h])
      hitem rfl hc
    rw [hstep, adv_adv]
    have hdepth : (adv s ((t :: tr) ++ [c]) (u :: (ur ++ tt' ++ rb :: n :: k))).depth = s.depth := by
      rw [adv_depth, walkSt_append, walkSt_cons, walkSt_nil, tokStep_plain _ c (by simp [hc]) (by simp [hc])]
      exact (walk_ok x (t :: tr) s htx).1
    have := ih (fun z hz => ihr z (by simp [hz])) y (ihr y (by simp)) f (items ++ [x.val])
      (adv s ((t :: tr) ++ [c]) (u :: (ur ++ tt' ++ rb :: n :: k))) (u :: ur) tt' (by simp) hty htt' hwr.1 hwr.2
      (by omega) (by rw [hdepth]; omega)
    rw [this, adv_adv]
    simp [vals]

/-- a list whose items all read back reads back (`parse_value` → `parse_list` → loop → `]`). -/
theorem list_valueOK (xs : List CVal) (ih : ∀ x ∈ xs, ItemOK x) : ValueOK (.list xs) := by
  intro fuel st ts n k hr hts _ hwf hf hd _
  obtain ⟨lb, body, rb, rfl, hlb, hrb, hbody⟩ := view_list xs ts hts
  simp only [CVal.need, CVal.nest, CVal.wf] at hf hd hwf
  obtain ⟨f, rfl⟩ : ∃ f, fuel = f + 2 := ⟨fuel - 2, by omega⟩
  have hr' : st.rest = lb :: (body ++ rb :: n :: k) := by rw [hr]; simp
  rw [parseValue_listStart st lb _ (f + 1) hr' hlb]
  have hd1 : (adv st [lb] (body ++ rb :: n :: k)).depth = st.depth + 1 := by
    rw [adv_depth, walkSt_cons, walkSt_nil]
    simp only [tokStep, hlb, beq_self_eq_true, if_true]
    rw [mark_depth]
  have hloop : listLoop f [] (adv st [lb] (body ++ rb :: n :: k))
      = .ok (vals xs, adv (adv st [lb] (body ++ rb :: n :: k)) body (rb :: n :: k)) := by
    cases xs with
    | nil =>
      simp only [itemsShapes, List.map_eq_nil_iff] at hbody
      subst hbody
      obtain ⟨f', rfl⟩ : ∃ f', f = f' + 1 := ⟨f - 1, by simp only [needLoop] at hf; omega⟩
      rw [listLoop_end _ rb (n :: k) f' [] rfl hrb]
      rfl
    | cons x r =>
      obtain ⟨tx, tt, rfl, hx, ht⟩ := view_items x r body hbody
      simp only [needLoop, nests, wfs, Bool.and_eq_true] at hf hd hwf
      have := loop_items rb n k hrb r (fun y hy => ih y (by simp [hy])) x (ih x (by simp)) f []
        (adv st [lb] (tx ++ tt ++ rb :: n :: k)) tx tt rfl hx ht hwf.1 hwf.2 (by omega) (by rw [hd1]; omega)
      rw [this]
      simp [vals]
  have hpl := parseList_eq st _ lb rb n (body ++ rb :: n :: k) k f (vals xs) hr' (by simp) hlb (by omega) hloop rfl hrb
    (by
      have e : (adv (adv st [lb] (body ++ rb :: n :: k)) body (rb :: n :: k)).pos + 1 - st.pos = (lb :: (body ++ [rb])).length := by
        simp only [adv_pos, List.length_cons, List.length_append, List.length_nil]; omega
      have e2 : lb :: (body ++ rb :: n :: k) = (lb :: (body ++ [rb])) ++ n :: k := by simp
      rw [e, e2, List.take_left']
      · exact toks_not_holographic (.list xs) _ hts
      · rfl)
  rw [hpl, adv_adv, adv_adv]
  simp [CVal.val]

theorem list_itemOK (xs : List CVal) (h : ValueOK (.list xs)) : ItemOK (.list xs) := by
  intro fuel st ts n k hr hts hwf hf hd _
  obtain ⟨f, rfl⟩ : ∃ f, fuel = f + 1 := ⟨fuel - 1, by omega⟩
  obtain ⟨lb, body, rb, rfl, hlb, _, _⟩ := view_list xs ts hts
  rw [parseListItem_value st lb (body ++ [rb] ++ n :: k) f (by rw [hr]; simp) (by simp [hlb])]
  exact h f st _ n k hr hts rfl hwf (by omega) hd rfl

/-- every rendering is read back as its value, by `parseValue` (not for a bare entry) and by `parseListItem`. -/
theorem parse_ok (v : CVal) : ValueOK v ∧ ItemOK v := by
  induction v using CVal.induct with
  | hs s => exact ⟨scalar_valueOK s, scalar_itemOK s⟩
  | he k s => exact ⟨fun _ _ _ _ _ _ _ h => by simp [CVal.isEntry] at h, entry_itemOK k s⟩
  | hl xs ih =>
    have hv := list_valueOK xs (fun x hx => (ih x hx).2)
    exact ⟨hv, list_itemOK xs hv⟩

/-! ## Fuel: linear in the number of tokens -/

theorem needLoop_tail_le (r : List CVal) (ih : ∀ y ∈ r, y.need ≤ 2 * y.shapes.length + 1) :
    needLoop r ≤ 2 * (tailShapes r).length + 1 := by
  induction r with
  | nil => simp [needLoop, tailShapes]
  | cons y r ihr =>
    have h1 := ih y (by simp)
    have h2 := ihr (fun z hz => ih z (by simp [hz]))
    simp only [needLoop, tailShapes, List.length_cons, List.length_append]
    omega

/-- `parseValue` needs at most `2 · (number of tokens) + 1` fuel. -/
theorem need_le (v : CVal) : v.need ≤ 2 * v.shapes.length + 1 := by
  induction v using CVal.induct with
  | hs s => simp [CVal.need, CVal.shapes]
  | he k s => simp [CVal.need, CVal.shapes]
  | hl xs ih =>
    rw [shapes_list]
    cases xs with
    | nil => simp [CVal.need, needLoop, itemsShapes]
    | cons x r =>
      have h1 := ih x (by simp)
      have h2 := needLoop_tail_le r (fun y hy => ih y (by simp [hy]))
      simp only [CVal.need, needLoop, itemsShapes, List.length_cons, List.length_append, List.length_nil]
      omega

/-! ## What the walk can change -/

/-- over ANY token list the walk touches only `depth`, `warnings` and `warned`, and only adds deep-nesting warnings. -/
theorem walkSt_frame (ts : List Token) (s : PState) :
    walkSt ts s = { s with depth := (walkSt ts s).depth, warnings := (walkSt ts s).warnings, warned := (walkSt ts s).warned }
    ∧ ∃ ws, (walkSt ts s).warnings = ws ++ s.warnings ∧ ∀ w ∈ ws, ∃ d th l c, w = Warning.deepNesting d th l c := by
  induction ts generalizing s with
  | nil => exact ⟨rfl, [], rfl, by simp⟩
  | cons t ts ih =>
    rw [walkSt_cons]
    have hstep : tokStep s t = { s with depth := (tokStep s t).depth, warnings := (tokStep s t).warnings, warned := (tokStep s t).warned }
        ∧ ∃ ws, (tokStep s t).warnings = ws ++ s.warnings ∧ ∀ w ∈ ws, ∃ d th l c, w = Warning.deepNesting d th l c := by
      unfold tokStep
      split
      · unfold mark
        split
        · exact ⟨rfl, [_], rfl, by simp⟩
        · exact ⟨rfl, [], rfl, by simp⟩
      · split
        · exact ⟨rfl, [], rfl, by simp⟩
        · exact ⟨rfl, [], rfl, by simp⟩
    obtain ⟨h1, ws1, h2, h3⟩ := hstep
    obtain ⟨h4, ws2, h5, h6⟩ := ih (tokStep s t)
    refine ⟨?_, ws2 ++ ws1, by rw [h5, h2, List.append_assoc], ?_⟩
    · rw [h4]
      generalize walkSt ts (tokStep s t) = s2
      rw [h1]
    · intro w hw
      rcases List.mem_append.mp hw with hw | hw
      · exact h6 w hw
      · exact h3 w hw

end Octave.ListParse
