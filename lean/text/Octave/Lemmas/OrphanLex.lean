import Octave.Lemmas.CommentLex
/-!
The lexer and the emitter on documents with comments INCLUDING ORPHAN COMMENTS: the class of `Lemmas/CommentLex` (`CNode`)
extended by the comment lines that END a block — after its last child, at the children's indentation — which the parser keeps
as `Comment` children of that block (`Props/C02orphans`) and the emitter writes back at the children's indentation.
`OrphNode` = `line ln lead trail | block key children orph lead`.  Everything about single lines comes from `CommentLex`
(`run_lead`, `run_cline`, `run_header`, `leadText`, `leadToksRev`, `leadRows`, `emitNode_cline` …); here the tree recursion
once more with the orphan run behind the children: `orphRun_node` / `orphRun_tree`, the document `orph_tokenize_tree` (exact
tokens, positions included), the emitter `orph_emit_tree_matches` / `orph_emit_tree` (the bytes: orphan comments as
`indent(d+1) // text` lines behind the block's children), the tokens in reading order `orphDocToks_eq`.
-/
namespace Octave
open Lexer Scan Emitter


/-! ### trees with comments -/

/-- content of a document body with nested blocks and comments: a `KEY::scalar` line with its leading comment lines and an
optional trailing comment, a `KEY:` block with its leading comment lines and its children; any depth, width and number of
comments. -/
inductive OrphNode where
  | line (ln : FLine) (lead : List Str) (trail : Option Str)
  | block (key : Str) (children : List OrphNode) (orph : List Str) (lead : List Str)

mutual
/-- `FLine.OK` on every line, block keys are identifiers without a reserved prefix, every comment — leading or
trailing, the empty one included — satisfies `CommentOK`. -/
def OrphNode.OK (env : Env) : OrphNode → Prop
  | .line ln lead trail => ln.OK ∧ (∀ c ∈ lead, CommentOK env c) ∧ TrailOK env trail
  | .block key cs orph lead =>
    isIdentifierText key = true ∧ hasReservedPrefix key = false ∧ (∀ c ∈ lead, CommentOK env c) ∧ orphTreeOK env cs ∧
      (∀ c ∈ orph, CommentOK env c)
def orphTreeOK (env : Env) : List OrphNode → Prop
  | [] => True
  | n :: ns => n.OK env ∧ orphTreeOK env ns
end

mutual
/-- canonical text of a node at depth `d` (with its line ends): the leading comments, then the node. -/
def OrphNode.text (d : Nat) : OrphNode → Str
  | .line ln lead trail => leadText d lead ++ (indentStr d ++ (ln.text ++ (trailText trail ++ ['\n'])))
  | .block key cs orph lead => leadText d lead ++ (indentStr d ++ (key ++ ':' :: '\n' :: (orphTreeText (d + 1) cs ++ leadText (d + 1) orph)))
def orphTreeText (d : Nat) : List OrphNode → Str
  | [] => []
  | n :: ns => n.text d ++ orphTreeText d ns
end

mutual
/-- number of text lines of a node (comment lines included). -/
def OrphNode.nlines : OrphNode → Nat
  | .line _ lead _ => lead.length + 1
  | .block _ cs orph lead => lead.length + 1 + orphTreeNLines cs + orph.length
def orphTreeNLines : List OrphNode → Nat
  | [] => 0
  | n :: ns => n.nlines + orphTreeNLines ns
end

mutual
/-- tokens of a node at depth `d` whose first line (its first leading comment, if any) is line `l`, newest first. -/
def OrphNode.toksRev (d l : Nat) : OrphNode → List Token
  | .line ln lead trail => cLineToksRev ln trail d (l + lead.length) ++ leadToksRev d l lead
  | .block key cs orph lead =>
    leadToksRev (d + 1) (l + lead.length + 1 + orphTreeNLines cs) orph ++ orphTreeToksRev (d + 1) (l + lead.length + 1) cs ++
      headerToksRev key d (l + lead.length) ++ leadToksRev d l lead
def orphTreeToksRev (d l : Nat) : List OrphNode → List Token
  | [] => []
  | n :: ns => orphTreeToksRev d (l + n.nlines) ns ++ n.toksRev d l
end

mutual
/-- receipts (identifier notes only; comments produce none), newest first. -/
def OrphNode.repsRev (d l : Nat) : OrphNode → List Repair
  | .line ln lead _ => ln.repsRev (l + lead.length) (1 + 2 * d)
  | .block key cs _ lead =>
    orphTreeRepsRev (d + 1) (l + lead.length + 1) cs ++ (identifierRepairs key (l + lead.length) (1 + 2 * d)).reverse
def orphTreeRepsRev (d l : Nat) : List OrphNode → List Repair
  | [] => []
  | n :: ns => orphTreeRepsRev d (l + n.nlines) ns ++ n.repsRev d l
end

mutual
/-- iterations of the lexer's main loop. -/
def OrphNode.steps (d : Nat) : OrphNode → Nat
  | .line _ lead trail => lead.length * (indentSteps d + 2) + (indentSteps d + 4 + trailSteps trail)
  | .block _ cs orph lead => lead.length * (indentSteps d + 2) + (indentSteps d + 3 + (orphTreeSteps (d + 1) cs + orph.length * (indentSteps (d + 1) + 2)))
def orphTreeSteps (d : Nat) : List OrphNode → Nat
  | [] => 0
  | n :: ns => n.steps d + orphTreeSteps d ns
end

mutual
/-- **one node at depth `d`** with its comments (a line, or a block with all its descendants). -/
theorem orphRun_node (env : Env) (lenient : Bool) : ∀ (n : OrphNode) (d : Nat) (st : LState) (rest : Str),
    Ready st → st.col = 1 → n.OK env →
    ∃ st', Run env lenient (n.steps d) st (n.text d ++ rest) st' rest ∧
      AdvL st st' (n.toksRev d st.line) (n.repsRev d st.line) n.nlines
  | .line ln lead trail, d, st, rest, hr, hc, hok => by
    simp only [OrphNode.OK] at hok
    obtain ⟨s1, r1, a1⟩ := run_lead env lenient d lead st
      (indentStr d ++ (ln.text ++ (trailText trail ++ '\n' :: rest))) hr hc hok.2.1
    obtain ⟨s2, r2, a2⟩ := run_cline env lenient s1 ln trail d rest a1.ready a1.col hok.1 hok.2.2
    refine ⟨s2, ?_, ?_⟩
    · have := Run.trans r1 r2
      simpa [OrphNode.text, OrphNode.steps, List.append_assoc] using this
    · have h := a1.trans a2
      rw [a1.line] at h
      refine ⟨h.ready, ?_, ?_, h.stack, ?_, h.col⟩
      · rw [h.toks]; simp [OrphNode.toksRev]
      · rw [h.repairs]; simp [OrphNode.repsRev]
      · rw [h.line]; simp [OrphNode.nlines]
  | .block key cs orph lead, d, st, rest, hr, hc, hok => by
    simp only [OrphNode.OK] at hok
    obtain ⟨s1, r1, a1⟩ := run_lead env lenient d lead st
      (indentStr d ++ (key ++ ':' :: '\n' :: (orphTreeText (d + 1) cs ++ (leadText (d + 1) orph ++ rest)))) hr hc hok.2.2.1
    obtain ⟨s2, r2, a2⟩ := run_header env lenient s1 key d (orphTreeText (d + 1) cs ++ (leadText (d + 1) orph ++ rest))
      a1.ready a1.col hok.1 hok.2.1
    obtain ⟨s3, r3, a3⟩ := orphRun_tree env lenient cs (d + 1) s2 (leadText (d + 1) orph ++ rest) a2.ready a2.col hok.2.2.2.1
    obtain ⟨s4, r4, a4⟩ := run_lead env lenient (d + 1) orph s3 rest a3.ready a3.col hok.2.2.2.2
    refine ⟨s4, ?_, ?_⟩
    · have := Run.trans r1 (Run.trans r2 (Run.trans r3 r4))
      simpa [OrphNode.text, OrphNode.steps, List.append_assoc] using this
    · have h := ((a1.trans a2).trans a3).trans a4
      rw [a3.line, a2.line, a1.line] at h
      refine ⟨h.ready, ?_, ?_, h.stack, ?_, h.col⟩
      · rw [h.toks]; simp [OrphNode.toksRev, Nat.add_assoc]
      · rw [h.repairs]; simp [OrphNode.repsRev]
      · rw [h.line]; simp only [OrphNode.nlines]
/-- **a list of sibling nodes at depth `d`**, any depth and width below, any number of comments. -/
theorem orphRun_tree (env : Env) (lenient : Bool) : ∀ (ns : List OrphNode) (d : Nat) (st : LState) (rest : Str),
    Ready st → st.col = 1 → orphTreeOK env ns →
    ∃ st', Run env lenient (orphTreeSteps d ns) st (orphTreeText d ns ++ rest) st' rest ∧
      AdvL st st' (orphTreeToksRev d st.line ns) (orphTreeRepsRev d st.line ns) (orphTreeNLines ns)
  | [], d, st, rest, hr, hc, _ =>
    ⟨st, by simpa [orphTreeText, orphTreeSteps] using Run.refl st rest,
      ⟨hr, by simp [orphTreeToksRev], by simp [orphTreeRepsRev], rfl, by simp [orphTreeNLines], hc⟩⟩
  | n :: ns, d, st, rest, hr, hc, hok => by
    simp only [orphTreeOK] at hok
    obtain ⟨s1, r1, a1⟩ := orphRun_node env lenient n d st (orphTreeText d ns ++ rest) hr hc hok.1
    obtain ⟨s2, r2, a2⟩ := orphRun_tree env lenient ns d s1 rest a1.ready a1.col hok.2
    refine ⟨s2, ?_, ?_⟩
    · have := Run.trans r1 r2
      simpa [orphTreeText, orphTreeSteps, List.append_assoc] using this
    · have h := a1.trans a2
      rw [a1.line] at h
      simpa [orphTreeToksRev, orphTreeRepsRev, orphTreeNLines] using h
end

mutual
/-- the lines of a node as (depth, text after the indentation), comment lines included. -/
def OrphNode.rows (d : Nat) : OrphNode → List (Nat × Str)
  | .line ln lead trail => leadRows d lead ++ [(d, ln.text ++ trailText trail)]
  | .block key cs orph lead => leadRows d lead ++ (d, key ++ [':']) :: (orphTreeRows (d + 1) cs ++ leadRows (d + 1) orph)
def orphTreeRows (d : Nat) : List OrphNode → List (Nat × Str)
  | [] => []
  | n :: ns => n.rows d ++ orphTreeRows d ns
end

mutual
theorem OrphNode.text_rows : ∀ (n : OrphNode) (d : Nat), n.text d = unlines ((n.rows d).map rowText)
  | .line ln lead trail, d => by
    simp [OrphNode.text, OrphNode.rows, rowText, unlines, unlines_append, leadText_rows]
  | .block key cs orph lead, d => by
    simp [OrphNode.text, OrphNode.rows, rowText, unlines, unlines_append, leadText_rows, orphTreeText_rows cs (d + 1)]
theorem orphTreeText_rows : ∀ (ns : List OrphNode) (d : Nat), orphTreeText d ns = unlines ((orphTreeRows d ns).map rowText)
  | [], d => rfl
  | n :: ns, d => by
    simp [orphTreeText, orphTreeRows, unlines_append, OrphNode.text_rows n d, orphTreeText_rows ns d]
end

mutual
theorem OrphNode.rows_length : ∀ (n : OrphNode) (d : Nat), (n.rows d).length = n.nlines
  | .line ln lead trail, d => by simp [OrphNode.rows, OrphNode.nlines, leadRows_length]
  | .block key cs orph lead, d => by
    simp [OrphNode.rows, OrphNode.nlines, leadRows_length, orphTreeRows_length cs (d + 1)]; omega
theorem orphTreeRows_length : ∀ (ns : List OrphNode) (d : Nat), (orphTreeRows d ns).length = orphTreeNLines ns
  | [], d => rfl
  | n :: ns, d => by simp [orphTreeRows, orphTreeNLines, OrphNode.rows_length n d, orphTreeRows_length ns d]
end

mutual
theorem OrphNode.rows_ok (env : Env) : ∀ (n : OrphNode) (d : Nat), n.OK env → ∀ r ∈ n.rows d, BodyOK r.2
  | .line ln lead trail, d, hok, r, hr => by
    simp only [OrphNode.OK] at hok
    simp only [OrphNode.rows, List.mem_append, List.mem_singleton] at hr
    rcases hr with h | h
    · exact leadRows_ok env d lead hok.2.1 r h
    · subst h; exact bodyOK_cline env ln trail hok.1 hok.2.2
  | .block key cs orph lead, d, hok, r, hr => by
    simp only [OrphNode.OK] at hok
    simp only [OrphNode.rows, List.mem_append, List.mem_cons] at hr
    rcases hr with h | h | h | h
    · exact leadRows_ok env d lead hok.2.2.1 r h
    · subst h; exact bodyOK_header key hok.1
    · exact orphTreeRows_ok env cs (d + 1) hok.2.2.2.1 r h
    · exact leadRows_ok env (d + 1) orph hok.2.2.2.2 r h
theorem orphTreeRows_ok (env : Env) : ∀ (ns : List OrphNode) (d : Nat), orphTreeOK env ns → ∀ r ∈ orphTreeRows d ns, BodyOK r.2
  | [], d, _, r, hr => by simp [orphTreeRows] at hr
  | n :: ns, d, hok, r, hr => by
    simp only [orphTreeOK] at hok
    simp only [orphTreeRows, List.mem_append] at hr
    rcases hr with h | h
    · exact OrphNode.rows_ok env n d hok.1 r h
    · exact orphTreeRows_ok env ns d hok.2 r h
end


/-- canonical text of a document whose body is a tree with comments, followed by the document's trailing comments. -/
def orphDocText (name : Str) (nodes : List OrphNode) (trailing : List Str) : Str :=
  "===".toList ++ name ++ "===".toList ++ '\n' :: (orphTreeText 0 nodes ++ (leadText 0 trailing ++ ("===END===".toList ++ ['\n'])))

/-- all rows of the body: the tree, then the document's trailing comments. -/
def orphDocRows (nodes : List OrphNode) (trailing : List Str) : List (Nat × Str) := orphTreeRows 0 nodes ++ leadRows 0 trailing

/-- number of lines of the body. -/
def orphDocNLines (nodes : List OrphNode) (trailing : List Str) : Nat := orphTreeNLines nodes + trailing.length

/-- its tokens, newest first (without EOF). -/
def orphDocToksRev (name : Str) (nodes : List OrphNode) (trailing : List Str) : List Token :=
  [tNewline (orphDocNLines nodes trailing + 2) 10, tEnvEnd (orphDocNLines nodes trailing + 2) 1] ++
  leadToksRev 0 (orphTreeNLines nodes + 2) trailing ++ orphTreeToksRev 0 2 nodes ++
  [tNewline 1 (1 + (name.length + 6)), tEnvStart name 1 1]

/-- its tokens in reading order, EOF included. -/
def orphDocToks (name : Str) (nodes : List OrphNode) (trailing : List Str) : List Token :=
  (tEof (orphDocNLines nodes trailing + 3) 1 :: orphDocToksRev name nodes trailing).reverse

def orphDocSteps (nodes : List OrphNode) (trailing : List Str) : Nat := orphTreeSteps 0 nodes + trailing.length * 2 + 4

theorem orphRun_doc (env : Env) (lenient : Bool) (name : Str) (nodes : List OrphNode) (trailing : List Str)
    (hn : isEnvName name = true) (hne : name ≠ "END".toList) (hok : orphTreeOK env nodes)
    (htr : ∀ c ∈ trailing, CommentOK env c) :
    ∃ st', Run env lenient (orphDocSteps nodes trailing) ({ spans := [] } : LState) (orphDocText name nodes trailing) st' [] ∧
      st'.toks = orphDocToksRev name nodes trailing ∧ st'.repairs = orphTreeRepsRev 0 2 nodes ∧ st'.stack = [] ∧
      st'.line = orphDocNLines nodes trailing + 3 ∧ st'.col = 1 := by
  let st0 : LState := { spans := [] }
  let endT : Str := "===END===".toList ++ ['\n']
  obtain ⟨s1, e1, a1⟩ := step_envStart env lenient st0 name ('\n' :: (orphTreeText 0 nodes ++ (leadText 0 trailing ++ endT))) rfl hn hne
  obtain ⟨s2, e2, a2⟩ := step_newline env lenient s1 (orphTreeText 0 nodes ++ (leadText 0 trailing ++ endT)) a1.ready
  obtain ⟨s3, r3, a3⟩ := orphRun_tree env lenient nodes 0 s2 (leadText 0 trailing ++ endT) a2.ready a2.col hok
  obtain ⟨s3', r3', a3'⟩ := run_lead env lenient 0 trailing s3 endT a3.ready a3.col htr
  obtain ⟨s4, e4, a4⟩ := step_envEnd env lenient s3' ['\n'] a3'.ready
  obtain ⟨s5, e5, a5⟩ := step_newline env lenient s4 [] a4.ready
  have run : Run env lenient (orphDocSteps nodes trailing) st0 (orphDocText name nodes trailing) s5 [] := by
    have tail : Run env lenient (orphTreeSteps 0 nodes + (trailing.length * (indentSteps 0 + 2) + 2)) s2
        (orphTreeText 0 nodes ++ (leadText 0 trailing ++ endT)) s5 [] :=
      Run.trans r3 (Run.trans r3' (Run.cons' (by simp [endT]) e4 (Run.one e5)))
    have e1' : step env lenient st0 (orphDocText name nodes trailing) =
        .ok (s1, '\n' :: (orphTreeText 0 nodes ++ (leadText 0 trailing ++ endT))) := e1
    have full : Run env lenient (orphTreeSteps 0 nodes + (trailing.length * (indentSteps 0 + 2) + 2) + 1 + 1) st0
        (orphDocText name nodes trailing) s5 [] :=
      Run.cons' (by simp [orphDocText]) e1' (Run.cons e2 tail)
    refine Run.cast ?_ full
    simp [orphDocSteps, indentSteps]; omega
  have l1 : s1.line = 1 := by rw [a1.line]
  have l2 : s2.line = 2 := by rw [a2.line, l1]
  have l3 : s3.line = orphTreeNLines nodes + 2 := by rw [a3.line, l2]; omega
  have l3' : s3'.line = orphDocNLines nodes trailing + 2 := by rw [a3'.line, l3]; simp [orphDocNLines]; omega
  have l4 : s4.line = orphDocNLines nodes trailing + 2 := by rw [a4.line, l3']
  refine ⟨s5, run, ?_, ?_, ?_, ?_, a5.col⟩
  · have c1 : s1.col = 1 + (name.length + 6) := a1.col
    have c3 : s3'.col = 1 := a3'.col
    have c4 : s4.col = 10 := by rw [a4.col, c3]
    rw [a5.toks, a4.toks, a3'.toks, a3.toks, a2.toks, a1.toks, l1, l2, l3, l3', l4, c1, c3, c4]
    simp [orphDocToksRev]
    exact ⟨rfl, rfl⟩
  · rw [a5.repairs, a4.repairs, a3'.repairs, a3.repairs, a2.repairs, a1.repairs, l2]; simp; rfl
  · rw [a5.stack, a4.stack, a3'.stack, a3.stack, a2.stack, a1.stack]
  · rw [a5.line, l4]

theorem orphDocRows_ok (env : Env) (nodes : List OrphNode) (trailing : List Str) (hok : orphTreeOK env nodes)
    (htr : ∀ c ∈ trailing, CommentOK env c) : ∀ r ∈ orphDocRows nodes trailing, BodyOK r.2 := by
  intro r hr
  rcases List.mem_append.mp hr with h | h
  · exact orphTreeRows_ok env nodes 0 hok r h
  · exact leadRows_ok env 0 trailing htr r h

theorem orphDocText_rows (name : Str) (nodes : List OrphNode) (trailing : List Str) :
    orphDocText name nodes trailing =
      "===".toList ++ name ++ "===".toList ++ '\n' :: (unlines ((orphDocRows nodes trailing).map rowText) ++ ("===END===".toList ++ ['\n'])) := by
  simp [orphDocText, orphDocRows, orphTreeText_rows, leadText_rows, unlines_append]

/-- the lines of the text. -/
theorem orph_splitLines_docText (env : Env) (name : Str) (nodes : List OrphNode) (trailing : List Str) (hn : isEnvName name = true)
    (hok : orphTreeOK env nodes) (htr : ∀ c ∈ trailing, CommentOK env c) :
    splitLines (orphDocText name nodes trailing) =
      ("===".toList ++ name ++ "===".toList) :: ((orphDocRows nodes trailing).map rowText ++ ["===END===".toList, []]) := by
  have h1 := splitLines_append_nl ("===".toList ++ name ++ "===".toList)
    (unlines ((orphDocRows nodes trailing).map rowText) ++ ("===END===".toList ++ ['\n']))
    (fun d hd => (envLine_clean name hn d hd).1)
  have h2 := splitLines_unlines ((orphDocRows nodes trailing).map rowText) ("===END===".toList ++ ['\n']) (by
    intro l hl d hd
    obtain ⟨r, hr, rfl⟩ := List.mem_map.mp hl
    exact (rowText_clean r (orphDocRows_ok env nodes trailing hok htr r hr) d hd).1)
  have h3 : splitLines ("===END===".toList ++ ['\n']) = ["===END===".toList, []] := by decide
  rw [orphDocText_rows, h1, h2, h3]

theorem orphDocText_noTab (env : Env) (name : Str) (nodes : List OrphNode) (trailing : List Str) (hn : isEnvName name = true)
    (hok : orphTreeOK env nodes) (htr : ∀ c ∈ trailing, CommentOK env c) :
    ∀ d ∈ orphDocText name nodes trailing, d ≠ '\t' := by
  have hl := unlines_noTab ((orphDocRows nodes trailing).map rowText) (by
    intro l hl d hd
    obtain ⟨r, hr, rfl⟩ := List.mem_map.mp hl
    exact (rowText_clean r (orphDocRows_ok env nodes trailing hok htr r hr) d hd).2)
  intro d hd
  rw [orphDocText_rows] at hd
  simp only [List.mem_append, List.mem_cons] at hd
  rcases hd with h' | h' | h' | h' | h'
  · exact (envLine_clean name hn d (by simp only [List.mem_append]; exact h')).2
  · subst h'; decide
  · exact hl d h'
  · intro he; subst he; revert h'; decide
  · intro he; subst he; simp at h'

/-- **The lexer on the canonical text of a document with nested blocks and comments** (any name, any tree — any depth, any
width —, any number of leading comments above every node, an optional trailing comment after every assignment, any number of
trailing comments of the document; keys and scalars satisfying the emitter's own conditions, comment texts satisfying
`CommentOK`; both lexer modes, every environment whose NFC leaves the lines alone): `tokenize` succeeds with exactly the
expected tokens, positions included — ONE COMMENT token per comment, carrying exactly its text —, and with no receipt other
than the (non-normalisation) identifier notes of keys and bare words. -/
theorem orph_tokenize_tree (env : Env) (lenient : Bool) (name : Str) (nodes : List OrphNode) (trailing : List Str)
    (hn : isEnvName name = true) (hne : name ≠ "END".toList) (hok : orphTreeOK env nodes)
    (htr : ∀ c ∈ trailing, CommentOK env c)
    (hnfc : ∀ l ∈ splitLines (orphDocText name nodes trailing), env.nfc l = l) :
    tokenize env (orphDocText name nodes trailing) lenient =
      .ok (orphDocToks name nodes trailing, (orphTreeRepsRev 0 2 nodes).reverse) := by
  have hsplit := orph_splitLines_docText env name nodes trailing hn hok htr
  have hfence : ∀ l ∈ splitLines (orphDocText name nodes trailing), fenceLine l = none ∧ env.nfc l = l := by
    intro l hl
    refine ⟨?_, hnfc l hl⟩
    rw [hsplit] at hl
    simp only [List.mem_cons, List.mem_append, List.mem_map, List.mem_nil_iff, or_false] at hl
    rcases hl with h | ⟨r, hr, rfl⟩ | h | h
    · subst h; exact fenceLine_none_of_head _ (by intro c hc; have : c = '=' := by simpa using hc.symm
                                                  subst this; decide)
    · exact rowText_fence r (orphDocRows_ok env nodes trailing hok htr r hr)
    · subst h; decide
    · subst h; decide
  have hnorm := normalize_plain env (orphDocText name nodes trailing) hfence
  have htab := tabCheck_noTab [] (orphDocText name nodes trailing) 0 1 1 (orphDocText_noTab env name nodes trailing hn hok htr)
  obtain ⟨st', run, ht, hr, hs, hl, hc⟩ := orphRun_doc env lenient name nodes trailing hn hne hok htr
  have hloop := loop_of_run env lenient _ _ st' (orphDocText name nodes trailing) run (by intro sp hsp; simp at hsp)
  unfold tokenize
  simp only [hnorm, htab, hloop, bind, Except.bind, hs, List.getLast?_nil, ht, hr, hl, hc]
  rfl

mutual
/-- when the emitter writes exactly `OrphNode.text`. -/
def OrphNode.EmitOK (env : Env) : OrphNode → Prop
  | .line ln lead trail => CNode.LineEmitOK env ln lead trail
  | .block _ cs orph lead => (∀ c ∈ lead, env.strip c = c) ∧ orphTreeEmitOK env cs ∧ (∀ c ∈ orph, env.strip c = c)
def orphTreeEmitOK (env : Env) : List OrphNode → Prop
  | [] => True
  | n :: ns => n.EmitOK env ∧ orphTreeEmitOK env ns
end

mutual
/-- the AST node carries this content — key, value, children, `leading_comments`, `trailing_comment` —, with ANY source
positions (no block target). -/
def OrphNode.Matches : OrphNode → Node → Prop
  | .line ln lead trail, n => ∃ l c, n = .assign ln.key ln.v.value l c lead trail
  | .block key cs orph lead, n => ∃ children l c, n = .block key (children ++ orph.map Node.comment) l c lead none ∧ orphTreeMatches cs children
def orphTreeMatches : List OrphNode → List Node → Prop
  | [], ns => ns = []
  | t :: ts, ns => ∃ n ns', ns = n :: ns' ∧ t.Matches n ∧ orphTreeMatches ts ns'
end

/-- `emitChildren` distributes over `++`. -/
theorem orph_emitChildren_append (env : Env) (d : Nat) (b : Bool) : ∀ (xs ys : List Node) (a c : List Str),
    emitChildren env xs d b = some a → emitChildren env ys d b = some c → emitChildren env (xs ++ ys) d b = some (a ++ c)
  | [], ys, a, c, h1, h2 => by
    simp only [emitChildren, Option.some.injEq] at h1
    subst h1; simpa using h2
  | x :: xs, ys, a, c, h1, h2 => by
    simp only [emitChildren, List.cons_append] at h1 ⊢
    cases hx : emitNode env x d b with
    | none => rw [hx] at h1; simp at h1
    | some u =>
      cases hxs : emitChildren env xs d b with
      | none => rw [hx, hxs] at h1; simp at h1
      | some v =>
        rw [hx, hxs] at h1
        simp only [Option.some.injEq] at h1
        subst h1
        rw [orph_emitChildren_append env d b xs ys v c hxs h2, List.append_assoc]

/-- **`Comment` children are written as comment lines at the children's indentation.** -/
theorem orph_emitChildren_comments (env : Env) (d : Nat) (b : Bool) : ∀ (cs : List Str), (∀ c ∈ cs, env.strip c = c) →
    emitChildren env (cs.map Node.comment) d b = some ((leadRows d cs).map rowText)
  | [], _ => rfl
  | c :: cs, h => by
    have ih := orph_emitChildren_comments env d b cs (fun x hx => h x (by simp [hx]))
    simp only [List.map_cons, emitChildren, emitNode, ih, commentLine_eq env d c (h c (by simp)), leadRows, rowText,
      List.cons_append, List.nil_append]

mutual
theorem orph_emitNode_tree (env : Env) : ∀ (t : OrphNode) (n : Node) (d : Nat) (b : Bool), t.Matches n → t.EmitOK env →
    emitNode env n d b = some ((t.rows d).map rowText)
  | .line ln lead trail, n, d, b, hm, he => by
    simp only [OrphNode.Matches] at hm
    obtain ⟨l, c, rfl⟩ := hm
    rw [emitNode_cline env ln lead trail l c d b (by simpa [OrphNode.EmitOK] using he)]
    simp [OrphNode.rows, rowText]
  | .block key cs orph lead, n, d, b, hm, he => by
    simp only [OrphNode.Matches] at hm
    obtain ⟨children, l, c, rfl, hch⟩ := hm
    simp only [OrphNode.EmitOK] at he
    have ih := orph_emitChildren_append env (d + 1) true _ _ _ _ (orph_emitChildren_tree env cs children (d + 1) true hch he.2.1)
      (orph_emitChildren_comments env (d + 1) true orph he.2.2)
    simp only [emitNode, ih, Option.map_some, leadingLines_eq env d lead he.1, List.append_nil, OrphNode.rows,
      List.map_cons, List.map_append, rowText, List.cons_append, List.append_assoc, List.nil_append]
theorem orph_emitChildren_tree (env : Env) : ∀ (ts : List OrphNode) (ns : List Node) (d : Nat) (b : Bool),
    orphTreeMatches ts ns → orphTreeEmitOK env ts → emitChildren env ns d b = some ((orphTreeRows d ts).map rowText)
  | [], ns, d, b, hm, _ => by
    simp only [orphTreeMatches] at hm
    subst hm; rfl
  | t :: ts, ns, d, b, hm, he => by
    simp only [orphTreeMatches] at hm
    obtain ⟨n, ns', rfl, h1, h2⟩ := hm
    simp only [orphTreeEmitOK] at he
    simp only [emitChildren, orph_emitNode_tree env t n d b h1 he.1, orph_emitChildren_tree env ts ns' d b h2 he.2, orphTreeRows,
      List.map_append]
end

theorem orph_emitTop_tree (env : Env) : ∀ (ts : List OrphNode) (ns : List Node), orphTreeMatches ts ns → orphTreeEmitOK env ts →
    emitTop env ns = some ((orphTreeRows 0 ts).map rowText)
  | [], ns, hm, _ => by
    simp only [orphTreeMatches] at hm
    subst hm; rfl
  | t :: ts, ns, hm, he => by
    simp only [orphTreeMatches] at hm
    obtain ⟨n, ns', rfl, h1, h2⟩ := hm
    simp only [orphTreeEmitOK] at he
    have hn := orph_emitNode_tree env t n 0 false h1 he.1
    have ih := orph_emitTop_tree env ts ns' h2 he.2
    cases t with
    | line ln lead trail =>
      simp only [OrphNode.Matches] at h1
      obtain ⟨l, c, rfl⟩ := h1
      simp only [emitTop, hn, ih, orphTreeRows, List.map_append]
    | block key cs lead =>
      simp only [OrphNode.Matches] at h1
      obtain ⟨children, l, c, rfl, _⟩ := h1
      simp only [emitTop, hn, ih, orphTreeRows, List.map_append]

/-- **The emitter on a document with nested blocks and comments** writes exactly `orphDocText`, whatever positions the nodes
carry: leading comments as `indent // text` lines above their node, the trailing comment as ` // text` after the value, the
document's trailing comments as `// text` lines before `===END===`. -/
theorem orph_emit_tree_matches (env : Env) (name : Str) (nodes : List OrphNode) (trailing : List Str) (sections : List Node)
    (hm : orphTreeMatches nodes sections) (h : orphTreeEmitOK env nodes) (htr : ∀ c ∈ trailing, env.strip c = c) :
    emit env { name := name, sections := sections, trailingComments := trailing } = some (orphDocText name nodes trailing) := by
  have ht := orph_emitTop_tree env nodes sections hm h
  have hj := joinWith_unlines ((orphDocRows nodes trailing).map rowText) "===END===".toList
  unfold emit emitBody
  simp only [emitMetaLines, ht, leadingLines_eq env 0 trailing htr, List.isEmpty_nil, Bool.true_or, if_true,
    Bool.false_eq_true, if_false, List.nil_append, List.append_nil, bind, Option.bind, pure, Option.map]
  show some (finishText (joinWith ['\n'] (("===".toList ++ name ++ "===".toList) ::
    ((orphTreeRows 0 nodes).map rowText ++ (leadRows 0 trailing).map rowText ++ ["===END===".toList])))) = _
  rw [← List.map_append, ← orphDocRows]
  have hne : (orphDocRows nodes trailing).map rowText ++ ["===END===".toList] ≠ [] := by simp
  obtain ⟨x, xs, hx⟩ := List.exists_cons_of_ne_nil hne
  rw [hx, joinWith, ← hx, hj]
  have hlast : (("===".toList ++ name ++ "===".toList) ++ ['\n'] ++ (unlines ((orphDocRows nodes trailing).map rowText) ++ "===END===".toList)).getLast? = some '=' := by
    rw [List.getLast?_append, List.getLast?_append]; rfl
  simp only [finishText, hlast]
  simp [orphDocText_rows]

mutual
/-- the AST of a tree with positions chosen by `pos` from the (0-based) index of the node's own line in the body and its
depth; comments in the `leading` / `trailing` fields. -/
def OrphNode.node (pos : Nat → Nat → Nat × Nat) (i d : Nat) : OrphNode → Node
  | .line ln lead trail => .assign ln.key ln.v.value (pos (i + lead.length) d).1 (pos (i + lead.length) d).2 lead trail
  | .block key cs orph lead =>
    .block key (orphTreeNodes pos (i + lead.length + 1) (d + 1) cs ++ orph.map Node.comment) (pos (i + lead.length) d).1 (pos (i + lead.length) d).2 lead none
def orphTreeNodes (pos : Nat → Nat → Nat × Nat) (i d : Nat) : List OrphNode → List Node
  | [] => []
  | n :: ns => n.node pos i d :: orphTreeNodes pos (i + n.nlines) d ns
end

mutual
theorem OrphNode.node_matches (pos : Nat → Nat → Nat × Nat) : ∀ (t : OrphNode) (i d : Nat), t.Matches (t.node pos i d)
  | .line ln lead trail, i, d => by simp only [OrphNode.Matches, OrphNode.node]; exact ⟨_, _, rfl⟩
  | .block key cs orph lead, i, d => by
    simp only [OrphNode.Matches, OrphNode.node]
    exact ⟨_, _, _, rfl, orphTreeNodes_matches pos cs (i + lead.length + 1) (d + 1)⟩
theorem orphTreeNodes_matches (pos : Nat → Nat → Nat × Nat) : ∀ (ts : List OrphNode) (i d : Nat), orphTreeMatches ts (orphTreeNodes pos i d ts)
  | [], i, d => by simp [orphTreeMatches, orphTreeNodes]
  | t :: ts, i, d => by
    simp only [orphTreeMatches, orphTreeNodes]
    exact ⟨_, _, rfl, OrphNode.node_matches pos t i d, orphTreeNodes_matches pos ts (i + t.nlines) d⟩
end

def orphDoc (name : Str) (pos : Nat → Nat → Nat × Nat) (nodes : List OrphNode) (trailing : List Str) : Document :=
  { name := name, sections := orphTreeNodes pos 0 0 nodes, trailingComments := trailing }

theorem orph_emit_tree (env : Env) (name : Str) (pos : Nat → Nat → Nat × Nat) (nodes : List OrphNode) (trailing : List Str)
    (h : orphTreeEmitOK env nodes) (htr : ∀ c ∈ trailing, env.strip c = c) :
    emit env (orphDoc name pos nodes trailing) = some (orphDocText name nodes trailing) :=
  orph_emit_tree_matches env name nodes trailing _ (orphTreeNodes_matches pos nodes 0 0) h htr

mutual
def OrphNode.toks (d l : Nat) : OrphNode → List Token
  | .line ln lead trail => leadToks d l lead ++ cLineToks ln trail d (l + lead.length)
  | .block key cs orph lead => leadToks d l lead ++ (headerToks key d (l + lead.length) ++ (orphTreeToks (d + 1) (l + lead.length + 1) cs ++
      leadToks (d + 1) (l + lead.length + 1 + orphTreeNLines cs) orph))
def orphTreeToks (d l : Nat) : List OrphNode → List Token
  | [] => []
  | n :: ns => n.toks d l ++ orphTreeToks d (l + n.nlines) ns
end

mutual
theorem OrphNode.toksRev_reverse : ∀ (n : OrphNode) (d l : Nat), (n.toksRev d l).reverse = n.toks d l
  | .line ln lead trail, d, l => by
    simp [OrphNode.toksRev, OrphNode.toks, cLineToksRev_reverse, leadToksRev_reverse]
  | .block key cs orph lead, d, l => by
    simp [OrphNode.toksRev, OrphNode.toks, headerToksRev, headerToks, indentToksRev_reverse, leadToksRev_reverse,
      orphTreeToksRev_reverse cs (d + 1) (l + lead.length + 1)]
theorem orphTreeToksRev_reverse : ∀ (ns : List OrphNode) (d l : Nat), (orphTreeToksRev d l ns).reverse = orphTreeToks d l ns
  | [], d, l => rfl
  | n :: ns, d, l => by
    simp [orphTreeToksRev, orphTreeToks, OrphNode.toksRev_reverse n d l, orphTreeToksRev_reverse ns d (l + n.nlines)]
end

/-- the token list of the document in reading order. -/
theorem orphDocToks_eq (name : Str) (nodes : List OrphNode) (trailing : List Str) :
    orphDocToks name nodes trailing =
      tEnvStart name 1 1 :: tNewline 1 (1 + (name.length + 6)) :: (orphTreeToks 0 2 nodes ++ (leadToks 0 (orphTreeNLines nodes + 2) trailing ++
        [tEnvEnd (orphDocNLines nodes trailing + 2) 1, tNewline (orphDocNLines nodes trailing + 2) 10,
         tEof (orphDocNLines nodes trailing + 3) 1])) := by
  simp [orphDocToks, orphDocToksRev, orphTreeToksRev_reverse, leadToksRev_reverse]


mutual
/-- the comment texts of a node in document order: its leading comments, then its trailing comment / its children's, then the orphans of the block. -/
def OrphNode.comments : OrphNode → List Str
  | .line _ lead trail => lead ++ trail.toList
  | .block _ cs orph lead => lead ++ (orphTreeComments cs ++ orph)
def orphTreeComments : List OrphNode → List Str
  | [] => []
  | n :: ns => n.comments ++ orphTreeComments ns
end

/-- all comment texts of the document, in order. -/
def orphDocComments (nodes : List OrphNode) (trailing : List Str) : List Str := orphTreeComments nodes ++ trailing

end Octave
