/-
Parser half for documents whose META block carries LIST values (`  TAGS::[a,b]`, also multi-line and nested lists): the META
loop (`metaLoop` of `Model/ParserTop.lean`, Python `parse_meta_block`) on field lines whose value is ANY token list that
`parse_value` reads (`Nest.NVOK`: scalars, floats, flat and nested lists with NEWLINE / INDENT tokens inside the brackets).

`Lemmas/MetaParse` proves the loop for SCALAR values only (`metaLoop_line` goes through `parseValue_scalar`); here the value is
generic, in the style of `Nest.docLoop_nv` (only `bracket_depth = 0` is carried from line to line; the end state is existential
because a value parse may file deep-nesting warnings).

* `MLine` / `MLine.OK`      one field line at token level: INDENT, then a `ListDocParse.VLine` (`KEY :: value NEWLINE`);
* `metaListDict`            the Python dict `meta` after the loop (`meta[key] = value` in order, a repeated key overwrites in place);
* `metaLoop_mline`          one field with the cursor on its key (two iterations: the field, its NEWLINE);
* `metaLoop_mfields`        the loop on any number of field lines, then a token that `MetaParse.metaStops`;
* `parseMetaBlock_mfields`  `parse_meta_block` on `KEY:` NEWLINE + n ≥ 1 field lines.
Everything lives in `namespace Octave.MetaListParse`.
-/
import Octave.Lemmas.MetaParse
import Octave.Lemmas.NestParse
set_option linter.unusedSimpArgs false
set_option linter.unusedVariables false
namespace Octave.MetaListParse
open Octave Parser FlatParse BlockParse
open Octave.MetaParse (metaStops metaLoop_stop)

local macro "step_simp" "[" ts:Lean.Parser.Tactic.simpLemma,* "]" : tactic =>
  `(tactic| simp only [bind, StateT.bind, Except.bind, pure, StateT.pure, Except.pure, current_mk, peek_mk, advance_mk,
      curType_mk, isAdjacentBracket_mk, budget_mk, warn_mk, get, getThe, MonadStateOf.get, StateT.get,
      Bool.false_eq_true, if_false, if_true, Bool.false_and, Bool.and_false, Bool.or_false, Bool.false_or,
      List.length_cons, List.length_nil, beq_iff_eq, bne_iff_ne, ne_eq, reduceCtorEq, not_true_eq_false, not_false_eq_true,
      Bool.and_eq_true, Bool.or_eq_true, Bool.not_eq_true', beq_eq_false_iff_ne, false_and, and_false, true_and, and_true,
      false_or, or_false, true_or, or_true, decide_eq_true_eq,
      beq_self_eq_true, Bool.true_or, Bool.or_true, Bool.true_and, Bool.and_true, Bool.not_true, Bool.not_false, $ts,*])

/-- one META field line at token level: its INDENT token, then `KEY :: value NEWLINE`. -/
structure MLine where
  ind : Token
  ln : ListDocParse.VLine

def MLine.toks (f : MLine) : List Token := f.ind :: f.ln.toks

/-- well formed at the indentation `lvl` of the block: an INDENT at least that deep, a line `parse_value` reads. -/
structure MLine.OK (lvl : Nat) (f : MLine) : Prop where
  ity : f.ind.type = .indent
  ival : ¬ indentVal f.ind < lvl
  nv : Nest.NVOK f.ln

/-- the Python dict `meta` after the loop went through the fields, starting from `acc`. -/
def metaListDict (acc : List (Str × MetaVal)) : List MLine → List (Str × MetaVal)
  | [] => acc
  | f :: fs => metaListDict (dictSet acc f.ln.key (.val f.ln.v)) fs

/-- **one field line with the cursor on its key** (its INDENT consumed: `hasInd = true`): two iterations of the loop — the
field (`meta[key] = value`, whatever `parse_value` reads, duplicate-key bookkeeping) and its NEWLINE. -/
theorem metaLoop_mline (vf fuel lvl : Nat) (ln : ListDocParse.VLine) (h : Nest.NVOK ln) (hvf : 2 * (ln.vr.length + 1) ≤ vf)
    (acc : List (Str × MetaVal)) (kp : KeyPos) (st : PState) (u : Token) (k : List Token)
    (hd : st.depth = 0) (hr : st.rest = ln.toks ++ u :: k) :
    ∃ s', metaLoop vf (fuel + 2) lvl true acc kp st
        = metaLoop vf fuel lvl false (dictSet acc ln.key (.val ln.v)) (trackPure kp ln.key ln.kt.line).1 s'
      ∧ s'.rest = u :: k ∧ s'.depth = 0 := by
  obtain ⟨rest, p, n, la, w, d, wd, s, th, al⟩ := st
  simp only at hd hr
  subst hd
  subst hr
  obtain ⟨s3, hv, hs3r, hs3d⟩ := h.reads
    ({ rest := ln.vt :: (ln.vr ++ ln.nl :: u :: k), prev := some ln.a, pos := n + 1 + 1, last := la, warnings := w, depth := 0,
       warned := wd, strict := s, threshold := th, alpha := al } : PState) (u :: k) vf rfl rfl hvf
  have hs3 : s3 = { s3 with rest := ln.nl :: u :: k } := by rw [← hs3r]
  refine ⟨{ s3 with rest := u :: k, prev := some ln.nl, pos := s3.pos + 1,
                    warnings := (trackPure kp ln.key ln.kt.line).2 ++ s3.warnings }, ?_, rfl, hs3d⟩
  rw [metaLoop]
  step_simp [ListDocParse.VLine.toks, List.cons_append, List.append_assoc, List.nil_append, h.kt, h.a, h.kv, pyStrVal_str]
  rw [hv]
  simp only []
  rw [hs3]
  step_simp [trackKey_eq]
  rw [metaLoop]
  step_simp [h.nl]

/-- **the META loop on any number of field lines whose values are anything `parse_value` reads**, from the start of a line
(`has_indented = False`), followed by a token that `metaStops`: the dict is updated field by field, the cursor ends on that
token, `bracket_depth` is 0 again. -/
theorem metaLoop_mfields (vf lvl : Nat) (hl : 0 < lvl) (e : Token) (k : List Token) (hs : metaStops lvl e = true) :
    ∀ (fields : List MLine) (fuel : Nat) (acc : List (Str × MetaVal)) (kp : KeyPos) (st : PState),
    (∀ f ∈ fields, f.OK lvl) → (∀ f ∈ fields, 2 * (f.ln.vr.length + 1) ≤ vf) → st.depth = 0 →
    st.rest = fields.flatMap MLine.toks ++ e :: k → 3 * fields.length + 1 ≤ fuel →
    ∃ st', metaLoop vf fuel lvl false acc kp st = .ok (metaListDict acc fields, st') ∧ st'.rest = e :: k ∧ st'.depth = 0 := by
  intro fields
  induction fields with
  | nil =>
    intro fuel acc kp st _ _ hd hr hfuel
    obtain ⟨rest, p, n, la, w, d, wd, s, th, al⟩ := st
    simp only [List.flatMap_nil, List.nil_append] at hr
    simp only at hd
    subst hr
    obtain ⟨F, rfl⟩ : ∃ F, fuel = F + 1 := ⟨fuel - 1, by omega⟩
    exact ⟨_, metaLoop_stop (hl := hl) (hs := hs) .., rfl, hd⟩
  | cons f fs ih =>
    intro fuel acc kp st hok hvf hd hr hfuel
    have hf := hok f (by simp)
    obtain ⟨u, K', hK⟩ : ∃ u K', fs.flatMap MLine.toks ++ e :: k = u :: K' := by
      cases hx : fs.flatMap MLine.toks ++ e :: k with
      | nil => simp at hx
      | cons u K' => exact ⟨u, K', rfl⟩
    obtain ⟨rest, p, n, la, w, d, wd, s, th, al⟩ := st
    simp only at hd
    have hr' : rest = f.ind :: f.ln.kt :: f.ln.a :: f.ln.vt :: (f.ln.vr ++ f.ln.nl :: u :: K') := by
      have : rest = f.ind :: (f.ln.toks ++ (fs.flatMap MLine.toks ++ e :: k)) := by
        simpa [MLine.toks, List.append_assoc] using hr
      rw [this, hK]; simp [ListDocParse.VLine.toks]
    subst hr'
    simp only [List.length_cons] at hfuel
    obtain ⟨F, rfl⟩ : ∃ F, fuel = F + 3 := ⟨fuel - 3, by omega⟩
    have hiv := hf.ival
    simp only [indentVal] at hiv
    obtain ⟨s', h1, h2, h3⟩ := metaLoop_mline vf F lvl f.ln hf.nv (hvf f (by simp)) acc kp
      ({ rest := f.ln.kt :: f.ln.a :: f.ln.vt :: (f.ln.vr ++ f.ln.nl :: u :: K'), prev := some f.ind, pos := n + 1, last := la,
         warnings := w, depth := d, warned := wd, strict := s, threshold := th, alpha := al } : PState) u K' hd
      (by simp [ListDocParse.VLine.toks])
    obtain ⟨st', h4, h5, h6⟩ := ih F (dictSet acc f.ln.key (.val f.ln.v)) (trackPure kp f.ln.key f.ln.kt.line).1 s'
      (fun x hx => hok x (by simp [hx])) (fun x hx => hvf x (by simp [hx])) h3 (by rw [h2, hK]) (by omega)
    refine ⟨st', ?_, h5, h6⟩
    rw [metaLoop]
    step_simp [hf.ity]
    cases hval : f.ind.value <;> simp only [hval] at hiv ⊢ <;> step_simp [hiv] <;> (rw [h1, h4]; rfl)

end Octave.MetaListParse
