/-
C07 for the BRACE-FOR-ANGLE annotation repair (`NAME{q}` → `NAME<q>`, GH#263) — lexer level, LENIENT lexer mode.

Where the rewrite lives: `_match_unicode_identifier(content, pos, lenient=True, repairs)`, i.e. `tokenize(content,
lenient=True)`.  `parse` and `parse_with_warnings` call `tokenize` in the NON-lenient mode: there `NAME{q}` is the
IDENTIFIER `NAME` followed by an unexpected `{` (E005, with the W_REPAIR_CANDIDATE hint in the message) — nothing is
rewritten, nothing needs a receipt (`matchIdentifier_brace` with `lenient = false`; closed checks below).

The receipt is a `Repair.curlyBrace` record (`repair_candidate` / `curly_brace_annotation`: original, repaired, line,
column).  It is NOT a normalisation record, so `C07_lexer_receipts_bijection` (normalisation records ↔ tokens carrying
`normFrom`) does not speak about it; the IDENTIFIER token carries no `normFrom`.

Class: flat documents (`===NAME===`, lines `KEY::value`, `===END===`) whose values are scalars (`FScalar`) or annotated
names `NAME<q>` (`NAME`, `q` identifier-shaped, `NAME` without reserved prefix), each written EITHER with braces `NAME{q}`
OR canonically `NAME<q>` (`BVal.an name q curly`), every line independently.

Proved for EVERY such document:

  * `C07_brace_step_receipt`     (any lexer state, any continuation) one lenient step on `NAME{q}` produces ONE IDENTIFIER
                                 token `NAME<q>` at the position of `NAME` and pushes exactly ONE `curlyBrace` record:
                                 original `NAME{q}`, repaired `NAME<q>`, that line and column;
  * `C07_brace_receipts`         `tokenize(text, lenient=True)` succeeds; the `curlyBrace` records of its log are, in
                                 reading order, exactly `braceReceipts`: ONE per value written with braces
                                 (`braceReceipts_length`), none for a canonical value or a scalar; no normalisation record;
  * `C07_brace_same_tokens`      the token list does not depend on how the names were written (same values, same
                                 positions: `NAME{q}` and `NAME<q>` have the same length);
  * `C07_brace_canonical_none`   the canonical text (every name written `NAME<q>`) yields no `curlyBrace` record — in
                                 both lexer modes (`C07_brace_canonical_none_strict`).

Hypotheses: `isEnvName name`, `name ≠ "END"`, `BLine.OK` (decidable), `hnfc` (NFC leaves the lines unchanged).
Not proved: the statement for ALL inputs ("every `curlyBrace` record of any `tokenize(…, True)` run belongs to exactly one
IDENTIFIER token whose text was written with braces") — it needs a `step_shape`-style pass over every branch of
`Lexer.step`, as `Lemmas/Receipts` does for normalisation records; braces after an annotated name (`NAME<a>{q}`), empty or
multi-item qualifiers (`NAME{}`, `NAME{q,r}`: no repair, E005 in both modes — checked below).
-/
import Octave.Lemmas.BraceLex
import Octave.Lemmas.ExprBridge
import Octave.Props.C03expr
namespace Octave.C07
open Octave Lexer Emitter Spell Expr MW

/-- true exactly on `curlyBrace` records. -/
def isCurly : Repair → Bool
  | .curlyBrace .. => true
  | _ => false

theorem braceIdReps_not_curly (s : Str) (l c : Nat) : (identifierRepairs s l c).reverse.filter isCurly = [] := by
  rw [List.filter_eq_nil_iff]
  intro x hx
  have hx := List.mem_reverse.mp hx
  unfold identifierRepairs at hx
  rw [List.mem_append] at hx
  rcases hx with hx | hx
  · split at hx
    · simp only [List.mem_singleton] at hx; subst hx; simp [isCurly]
    · simp at hx
  · split at hx
    · split at hx
      · simp only [List.mem_singleton] at hx; subst hx; simp [isCurly]
      · simp at hx
    · simp at hx

theorem braceScalarReps_not_curly (v : FScalar) (l c : Nat) : (v.reps l c).reverse.filter isCurly = [] := by
  cases v <;> first | exact braceIdReps_not_curly _ l c | rfl

/-- the receipt owed to the line written at text line `l`: for a name written with braces ONE `curlyBrace` record —
original `NAME{q}`, repaired `NAME<q>`, the line, the column of `NAME` (right after `KEY::`). -/
def braceLineReceipt (l : Nat) (x : BLine) : List Repair :=
  match x.v with
  | .an name q true => [.curlyBrace (braceOriginal name q) (braceRepaired name q) l (1 + x.key.length + 2)]
  | _ => []

/-- the receipts owed to the document, in reading order. -/
def braceReceipts (l : Nat) : List BLine → List Repair
  | [] => []
  | x :: r => braceLineReceipt l x ++ braceReceipts (l + 1) r

/-- number of names written with braces. -/
def braceCount : List BLine → Nat
  | [] => 0
  | x :: r => (match x.v with | .an _ _ true => 1 | _ => 0) + braceCount r

theorem braceReceipts_length (sl : List BLine) : ∀ l, (braceReceipts l sl).length = braceCount sl := by
  induction sl with
  | nil => intro l; rfl
  | cons x r ih =>
    intro l
    obtain ⟨key, v⟩ := x
    cases v with
    | sc v => simp [braceReceipts, braceLineReceipt, braceCount, ih]
    | an name q b => cases b <;> simp [braceReceipts, braceLineReceipt, braceCount, ih] <;> omega

theorem braceLineReps_curly (x : BLine) (l : Nat) : ((x.repsRev l 1).filter isCurly).reverse = braceLineReceipt l x := by
  obtain ⟨key, v⟩ := x
  cases v with
  | sc v =>
    simp only [BLine.repsRev, BVal.repsRev, List.filter_append, braceIdReps_not_curly, braceScalarReps_not_curly]; rfl
  | an name q b =>
    cases b
    · simp only [BLine.repsRev, BVal.repsRev, List.filter_append, braceIdReps_not_curly]; rfl
    · simp only [BLine.repsRev, BVal.repsRev, List.filter_append, braceIdReps_not_curly, List.nil_append, List.append_nil]
      rfl

/-- **the `curlyBrace` records of the log** are, in reading order, exactly `braceReceipts`. -/
theorem bracedocReps_curly (sl : List BLine) : (bracedocReps sl).filter isCurly = braceReceipts 2 sl := by
  have h : ∀ (sl : List BLine) (l : Nat), ((braceLinesRepsRev l sl).filter isCurly).reverse = braceReceipts l sl := by
    intro sl
    induction sl with
    | nil => intro l; rfl
    | cons x r ih =>
      intro l
      simp only [braceLinesRepsRev, braceReceipts, List.filter_append, List.reverse_append, braceLineReps_curly, ih]
  rw [bracedocReps, List.filter_reverse, h]

theorem braceLineReps_norm (x : BLine) (l : Nat) : (x.repsRev l 1).filter isNormalization = [] := by
  obtain ⟨key, v⟩ := x
  cases v with
  | sc v => simp only [BLine.repsRev, BVal.repsRev, List.filter_append, filter_idReps, scalar_reps_norm, List.append_nil]
  | an name q b =>
    cases b
    · simp only [BLine.repsRev, BVal.repsRev, List.filter_append, filter_idReps, List.append_nil]
    · simp only [BLine.repsRev, BVal.repsRev, List.filter_append, filter_idReps, List.append_nil, List.nil_append]
      rfl

theorem bracedocReps_norm (sl : List BLine) : (bracedocReps sl).filter isNormalization = [] := by
  have h : ∀ (sl : List BLine) (l : Nat), (braceLinesRepsRev l sl).filter isNormalization = [] := by
    intro sl
    induction sl with
    | nil => intro l; rfl
    | cons x r ih => intro l; simp only [braceLinesRepsRev, List.filter_append, braceLineReps_norm, ih, List.append_nil]
  rw [bracedocReps, List.filter_reverse, h]; rfl

/-! ### the theorems -/

/-- **one lenient lexer step on `NAME{q}`** (any state past the document start, any continuation): one IDENTIFIER token
`NAME<q>` at the position of `NAME`; the log grows by exactly ONE `curlyBrace` record (original `NAME{q}`, repaired
`NAME<q>`, that line and column) and the non-normalisation notes of the repaired name. -/
theorem C07_brace_step_receipt (env : Env) (st : LState) (s q rest : Str) (hr : Ready st)
    (hid : isIdentifierText s = true) (hres : hasReservedPrefix s = false) (hq : isIdentifierText q = true) :
    ∃ st', step env true st (braceOriginal s q ++ rest) = .ok (st', rest) ∧
      st'.toks = tIdent (braceRepaired s q) st.line st.col :: st.toks ∧
      (∃ notes, st'.repairs = notes ++ Repair.curlyBrace (braceOriginal s q) (braceRepaired s q) st.line st.col :: st.repairs ∧
        notes.filter isCurly = [] ∧ notes.filter isNormalization = []) := by
  obtain ⟨st', h1, a⟩ := step_brace env st s q rest hr hid hres hq
  refine ⟨st', h1, by rw [a.toks]; rfl, (identifierRepairs (braceRepaired s q) st.line st.col).reverse, ?_,
    braceIdReps_not_curly _ _ _, filter_idReps _ _ _⟩
  rw [a.repairs]; simp

/-- … while the NON-lenient mode does not rewrite: `_match_unicode_identifier` returns `NAME`, leaves the brace in the
input and reports no repair. -/
theorem C07_brace_strict_no_rewrite (env : Env) (s q rest : Str)
    (hid : isIdentifierText s = true) (hq : isIdentifierText q = true) :
    matchIdentifier env false (braceOriginal s q ++ rest) = some (s, '{' :: (q ++ '}' :: rest), none) := by
  have := matchIdentifier_brace env false s q rest hid hq
  simpa [braceOriginal, List.append_assoc] using this

/-- **C07 for brace-for-angle**: `tokenize(text, lenient=True)` on a document of the class succeeds; the `curlyBrace`
records of its log are, in reading order, exactly `braceReceipts` — one per name written with braces, with original
`NAME{q}`, repaired `NAME<q>`, line and column of that occurrence; none for a canonical name or a scalar — and the log
holds no normalisation record. -/
theorem C07_brace_receipts (env : Env) (name : Str) (sl : List BLine)
    (hn : isEnvName name = true) (hne : name ≠ "END".toList) (hok : ∀ x ∈ sl, x.OK)
    (hnfc : ∀ l ∈ splitLines (bracedocText name sl), env.nfc l = l) :
    ∃ reps, tokenize env (bracedocText name sl) true = .ok (bracedocToks name sl, reps) ∧
      reps.filter isCurly = braceReceipts 2 sl ∧ reps.filter isNormalization = [] :=
  ⟨_, tokenize_bracedoc env name sl hn hne hok hnfc, bracedocReps_curly sl, bracedocReps_norm sl⟩

/-- the canonical form of a line: the name written with angles. -/
def braceLineCanon (x : BLine) : BLine :=
  match x.v with
  | .an name q _ => ⟨x.key, .an name q false⟩
  | .sc v => ⟨x.key, .sc v⟩

def braceCanon (sl : List BLine) : List BLine := sl.map braceLineCanon

theorem braceLineToks_canon (x : BLine) (l c : Nat) : (braceLineCanon x).toksRev l c = x.toksRev l c := by
  obtain ⟨key, v⟩ := x
  cases v with
  | sc v => rfl
  | an name q b =>
    simp only [braceLineCanon, BLine.toksRev, BVal.tok, BVal.spell_length]

/-- **the tokens do not depend on the spelling**: braces or angles, the lexer (lenient mode) yields the same token list
— same values `NAME<q>`, same positions. -/
theorem C07_brace_same_tokens (name : Str) (sl : List BLine) :
    bracedocToks name (braceCanon sl) = bracedocToks name sl := by
  have h : ∀ (sl : List BLine) (l : Nat), braceLinesToksRev l (braceCanon sl) = braceLinesToksRev l sl := by
    intro sl
    induction sl with
    | nil => intro l; rfl
    | cons x r ih =>
      intro l
      have := ih (l + 1)
      simp only [braceCanon, List.map_cons, braceLinesToksRev, braceLineToks_canon] at this ⊢
      rw [this]
  have hl : (braceCanon sl).length = sl.length := by simp [braceCanon]
  simp only [bracedocToks, bracedocToksRev, h, hl]

theorem braceCanon_ok (sl : List BLine) (hok : ∀ x ∈ sl, x.OK) : ∀ x ∈ braceCanon sl, x.OK := by
  intro x hx
  obtain ⟨y, hy, rfl⟩ := List.mem_map.mp hx
  obtain ⟨key, v⟩ := y
  have := hok _ hy
  cases v with
  | sc v => exact this
  | an name q b => exact this

theorem braceReceipts_canon (sl : List BLine) : ∀ l, braceReceipts l (braceCanon sl) = [] := by
  induction sl with
  | nil => intro l; rfl
  | cons x r ih =>
    intro l
    obtain ⟨key, v⟩ := x
    have := ih (l + 1)
    cases v with
    | sc v => simpa [braceCanon, braceReceipts, braceLineReceipt, braceLineCanon] using this
    | an name q b => simpa [braceCanon, braceReceipts, braceLineReceipt, braceLineCanon] using this

/-- **canonical input yields none**: the canonical text of a document of the class gives the same tokens and no
`curlyBrace` record (lenient lexer mode). -/
theorem C07_brace_canonical_none (env : Env) (name : Str) (sl : List BLine)
    (hn : isEnvName name = true) (hne : name ≠ "END".toList) (hok : ∀ x ∈ sl, x.OK)
    (hnfc : ∀ l ∈ splitLines (bracedocText name (braceCanon sl)), env.nfc l = l) :
    ∃ reps, tokenize env (bracedocText name (braceCanon sl)) true = .ok (bracedocToks name sl, reps) ∧
      reps.filter isCurly = [] ∧ reps.filter isNormalization = [] := by
  obtain ⟨reps, h1, h2, h3⟩ := C07_brace_receipts env name (braceCanon sl) hn hne (braceCanon_ok sl hok) hnfc
  rw [C07_brace_same_tokens] at h1
  exact ⟨reps, h1, by rw [h2, braceReceipts_canon], h3⟩

/-! ### non-vacuity -/

def braceEx : List BLine :=
  [ ⟨"K".toList, .an "NAME".toList "q".toList true⟩, ⟨"L".toList, .an "A.b".toList "x_1".toList false⟩,
    ⟨"M".toList, .sc (.bare "plain".toList)⟩, ⟨"N".toList, .an "TRUE".toList "q".toList true⟩ ]

def braceExText : Str := "===D===\nK::NAME{q}\nL::A.b<x_1>\nM::plain\nN::TRUE{q}\n===END===\n".toList

theorem braceEx_ok : ∀ x ∈ braceEx, x.OK := by decide

example : bracedocText "D".toList braceEx = braceExText := by decide +kernel
example : bracedocText "D".toList (braceCanon braceEx)
    = "===D===\nK::NAME<q>\nL::A.b<x_1>\nM::plain\nN::TRUE<q>\n===END===\n".toList := by decide +kernel

/-- the receipts owed, as literals: one per name written with braces. -/
example : braceReceipts 2 braceEx =
    [ .curlyBrace "NAME{q}".toList "NAME<q>".toList 2 4, .curlyBrace "TRUE{q}".toList "TRUE<q>".toList 5 4 ] := by decide +kernel
example : (braceReceipts 2 braceEx).length = 2 := by rw [braceReceipts_length]; rfl

example : ∃ reps, tokenize Env.ascii braceExText true = .ok (bracedocToks "D".toList braceEx, reps) ∧
    reps.filter isCurly = braceReceipts 2 braceEx ∧ reps.filter isNormalization = [] := by
  have h := C07_brace_receipts Env.ascii "D".toList braceEx (by decide) (by decide) braceEx_ok (fun _ _ => rfl)
  have e : bracedocText "D".toList braceEx = braceExText := by decide +kernel
  rw [e] at h; exact h

example : ∃ reps, tokenize Env.ascii (bracedocText "D".toList (braceCanon braceEx)) true = .ok (bracedocToks "D".toList braceEx, reps) ∧
    reps.filter isCurly = [] ∧ reps.filter isNormalization = [] :=
  C07_brace_canonical_none Env.ascii "D".toList braceEx (by decide) (by decide) braceEx_ok (fun _ _ => rfl)

/-- the step theorem at an arbitrary state. -/
example (st : LState) (hr : Ready st) (rest : Str) :
    ∃ st', step Env.ascii true st ("NAME{q}".toList ++ rest) = .ok (st', rest) ∧
      st'.toks = tIdent "NAME<q>".toList st.line st.col :: st.toks ∧
      (∃ notes, st'.repairs = notes ++ Repair.curlyBrace "NAME{q}".toList "NAME<q>".toList st.line st.col :: st.repairs ∧
        notes.filter isCurly = [] ∧ notes.filter isNormalization = []) :=
  C07_brace_step_receipt Env.ascii st "NAME".toList "q".toList rest hr (by decide) (by decide) (by decide)

/-- the whole lexer model evaluated on the concrete text (independent of the theorems): tokens and the full log. -/
example : (match tokenize Env.ascii braceExText true with
    | .ok p => p == (bracedocToks "D".toList braceEx, bracedocReps braceEx) | .error _ => false) = true := by decide +kernel
example : bracedocReps braceEx =
    [ .curlyBrace "NAME{q}".toList "NAME<q>".toList 2 4, .curlyBrace "TRUE{q}".toList "TRUE<q>".toList 5 4 ] := by decide +kernel

/-! ### the excluded points (model; the real lexer does the same, see the report) -/

/-- the non-lenient mode (the one `parse` / `parse_with_warnings` use): E005 at the brace, nothing rewritten. -/
example : (match tokenize Env.ascii braceExText false with
    | .error e => e == .lexer "E005".toList 2 8 | .ok _ => false) = true := by decide +kernel
example : (match Parser.parseWithWarnings Env.ascii braceExText with
    | .error e => e == .lexer "E005".toList 2 8 | .ok _ => false) = true := by decide +kernel
/-- an empty qualifier, a qualifier list, a qualifier ending in a hyphen: no repair, E005 at the brace even in lenient mode. -/
example : (match tokenize Env.ascii "===D===\nK::NAME{}\n===END===\n".toList true with
    | .error e => e == .lexer "E005".toList 2 8 | .ok _ => false) = true := by decide +kernel
example : (match tokenize Env.ascii "===D===\nK::NAME{q,r}\n===END===\n".toList true with
    | .error e => e == .lexer "E005".toList 2 8 | .ok _ => false) = true := by decide +kernel
example : (match tokenize Env.ascii "===D===\nK::NAME{q-}\n===END===\n".toList true with
    | .error e => e == .lexer "E005".toList 2 8 | .ok _ => false) = true := by decide +kernel
/-- a reserved word as the name (`hasReservedPrefix`): `true{q}` is BOOLEAN followed by `{` — E005 at the brace. -/
example : (match tokenize Env.ascii "===D===\nK::true{q}\n===END===\n".toList true with
    | .error e => e == .lexer "E005".toList 2 8 | .ok _ => false) = true := by decide +kernel
/-- braces after an annotated name (outside the class): repaired too, ONE record for the whole `NAME<a>{q}`. -/
example : (match tokenize Env.ascii "===D===\nK::NAME<a>{q}\n===END===\n".toList true with
    | .ok p => p.2 == [.curlyBrace "NAME<a>{q}".toList "NAME<a><q>".toList 2 4] | .error _ => false) = true := by decide +kernel
/-- two brace groups: the first is repaired, the second is an error (E005 at the second brace). -/
example : (match tokenize Env.ascii "===D===\nK::NAME{q}{r}\n===END===\n".toList true with
    | .error e => e == .lexer "E005".toList 2 11 | .ok _ => false) = true := by decide +kernel

end Octave.C07
