/-
C07 — Every lenient rewrite has a receipt; canonical input has none (I4).
Proved here, at the level of one lexer step (any input, any state): whenever a token pattern
matches with an ASCII alias or a triple-quoted string, exactly ONE normalization record is pushed,
carrying the original text, the replacement and the token's own line/column; a pattern match without
normalisation pushes none; the `+` fallback pushes exactly one.  The document-level bijection with
the generator's injected rewrites is an open proof target backed by the correspondence (receipt
lists equal, in order, with positions) and the oracle.
-/
import Octave.Model.Canon
import Octave.Lemmas.Step
import Octave.Props.Facts
namespace Octave.C07
open Octave Lexer

/-- every operator pattern goes through `simple`, which records the alias text iff the matched text is an alias. -/
theorem C07_simple_normFrom (t : TT) (text rest : Str) :
    (simple t text rest).normFrom = (alias? text).map (fun _ => text)
    ∧ (simple t text rest).value = .str ((alias? text).getD text) := by
  unfold simple
  cases alias? text <;> simp

/-- One pattern-branch step: the token carries the step's line/column and `normFrom`, and the repairs list
grows by exactly one normalization record (original, replacement, line, column) when `normFrom` is set and by
nothing otherwise.  Holds for every state and input on which the branch is taken. -/
theorem C07_pattern_step_receipt (env : Env) (lenient : Bool) (st : LState) (c : Char) (r : Str) (m : Match)
    (hspan : atSpanStart st = false) (hc : c ≠ ' ')
    (hm : matchPattern env st.blank st.prev (c :: r) = .ok (some m))
    (hopen : m.type ≠ .listEnd) (hnl : m.type ≠ .listStart) :
    ∃ st', step env lenient st (c :: r) = .ok (st', m.rest)
      ∧ st'.toks = { type := m.type, value := m.value, line := st.line, col := st.col, normFrom := m.normFrom, raw := m.raw } :: st.toks
      ∧ st'.repairs = (match m.normFrom with
          | some o => Repair.normalization o m.value st.line st.col :: st.repairs
          | none => st.repairs) :=
  pattern_step env lenient st c r m hspan hc hm hopen hnl

/-- the `+` fallback (no pattern matches `+`): one SYNTHESIS token normalised from "+", one receipt. -/
example : (match Lexer.tokenize Env.ascii "A+B".toList with
    | .ok (toks, reps) => (toks.map (·.type), reps)
    | .error _ => ([], [])) =
    ([.identifier, .synthesis, .identifier, .eof], [Repair.normalization ['+'] (.str ['⊕']) 1 2]) := by decide +kernel

/-- non-vacuity on the whole model: aliases, triple quotes → one receipt each with exact positions; the
canonical spelling of the same document → none. -/
example : (match Lexer.tokenize Env.ascii "K::A->B | C\nL::\"\"\"x\"\"\"\n".toList with
    | .ok (_, reps) => reps | .error _ => []) =
    [Repair.normalization "->".toList (.str ['→']) 1 5, Repair.normalization "|".toList (.str ['∨']) 1 9,
     Repair.normalization "\"\"\"".toList (.str ['x']) 2 4] := by decide +kernel
example : (match Lexer.tokenize Env.ascii "K::A→B∨C\nL::x\n".toList with
    | .ok (_, reps) => reps | .error _ => [Repair.wrongCase [] [] 0 0]) = [] := by decide +kernel

end Octave.C07
