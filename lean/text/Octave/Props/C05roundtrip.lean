/-
C05 — literal zones, the DOCUMENT-LEVEL statement: lexer ∘ parser ∘ emitter, proved for every content.

  "The text between a pair of literal-zone fences, the info tag and the fence length come out of parse, canonicalise …
   exactly as they went in … and an empty zone stays an empty zone."

`Props/C05zones.lean` has the lexer half and the emitter (whole text, every content) and locates finding C05N1 in the lexer.
Here the PARSER half (`Lemmas/ZoneParse.lean`: `parse_literal_zone`, `parse_value`, `parse_section`, the body loop on any mix
of flat lines and zone assignments, `parse_document`, at ARBITRARY token positions) is composed with it through
`Lemmas/ZoneBridge.lean`, and the property is stated through the real entry points `Parser.parse` (strict),
`Parser.parseWithWarnings` (lenient), `canonStrict` / `canonLenient` (parse ∘ emit):

  * `C05_zone_read_verbatim`            the document read back holds a zone value whose content, tag and marker are exactly
                                        the ones written — for EVERY content string (tabs, NFD, backslashes, quotes,
                                        operators, `===END===`, shorter backtick runs, empty lines, …), every marker of ≥ 3
                                        backticks, every tag; nothing else appears in the document;
  * `C05_zone_fixed_point_partial`      emit → strict read → emit gives the same bytes / the canonical text is a fixed point of
                                        `canonStrict`; guard `content ≠ ""` = finding C05N1 (exact: `C05N1_canon_exact`;
                                        general negation `C05N1_canon_image`; on the witness `C05N1_witness_canon`);
  * `C05_zone_doc_fixed_point`          the same starting from a DOCUMENT: no guard at all (content `""` is written as the
                                        empty zone and read back as content `""`);
  * `C05_empty_zone_stays_empty`        the empty zone is read as a zone with content `""` (present, not absent / not
                                        dropped) and written back as the same two fence lines;
  * `C05_zone_neighbours_untouched`     the flat lines after the zone are read exactly as without the zone (same keys, values,
                                        types, order — only the line numbers are shifted by the height of the zone), even
                                        when the content contains `===END===` or `KEY::value` lines;
    `C05_zone_then_lines_fixed_point_partial`  … and the whole text (zone + following lines) is a fixed point.

Hypotheses (all decidable, all necessary — see the end of the file and the report for the real reader at each excluded
point): those of the lexer half (`isEnvName name`, `name ≠ "END"`, the key is identifier-shaped without reserved-word
prefix, `isMarker marker`, `TagOK env tag`, `zoneContentOK marker content`: no content line is a fence line whose backtick run
is as long as the marker or longer, NFC leaves the STRUCTURAL lines alone — nothing is assumed on the content), plus ONE from
the parser: `key ≠ "META"` (a first body item keyed META is taken for the META block header: E001).
-/
import Octave.Lemmas.ZoneBridge
import Octave.Props.C05zones
import Octave.Props.C01roundtrip
namespace Octave.C05
open Octave Lexer Scan Emitter

/-! ### 1. the parser half at the token level (arbitrary positions) -/

/-- **`parse_section` on the tokens of a zone assignment** — any key, marker, tag, content, any positions — followed by a
token that is not a COMMENT: exactly the Assignment with the zone value; the cursor is left on the following token. -/
theorem C05_parseSection_zone (st : Parser.PState) (z : ZoneParse.Zone) (leading : List Str) (next : Token) (k : List Token)
    (fuel : Nat) (hnext : next.type ≠ TT.comment) (hr : st.rest = z.head ++ next :: k) :
    Parser.parseSection (fuel + 2) leading st
      = .ok (some (.assign z.key (.zone z.content z.tag z.marker) z.p.kl z.p.kc leading none),
             { st with rest := next :: k, prev := some z.closeTok, pos := st.pos + 6 }) :=
  ZoneParse.parseSection_zone st z leading next k fuel hnext hr

/-- **The parser on a token list of flat lines and zone assignments in any order** (strict entry point): exactly one node
per item, in order.  Only condition: the first item's key is not `META`. -/
theorem C05_items_read (env : Env) (f : FlatParse.Frame) (name : Str) (items : List ZoneParse.Item)
    (hm : ZoneParse.metaFirstI items = false) :
    C02.parseToks env (ZoneParse.itemToks f name items) = .ok (ZoneParse.itemDoc name items) := by
  have h := ZoneParse.parseDocument_items f name items (Parser.initState env (ZoneParse.itemToks f name items) true) hm rfl
  unfold C02.parseToks
  simp only [StateT.run, h, bind, Except.bind, pure, Except.pure]

/-- … lenient entry point: the same document and exactly the warnings `itemWarns [] items` (a zone never produces one by
itself — no W_PATTERN_AUTOQUOTE under `PATTERN` / `REGEX`; a repeated key does, and BOTH assignments are kept). -/
theorem C05_items_read_warnings (env : Env) (f : FlatParse.Frame) (name : Str) (items : List ZoneParse.Item)
    (hm : ZoneParse.metaFirstI items = false) :
    C02.parseToksWithWarnings env (ZoneParse.itemToks f name items)
      = .ok (ZoneParse.itemDoc name items, ZoneParse.itemWarns [] items) := by
  have h := ZoneParse.parseDocument_items f name items (Parser.initState env (ZoneParse.itemToks f name items) false) hm rfl
  unfold C02.parseToksWithWarnings
  simp only [StateT.run, h, bind, Except.bind, pure, Except.pure]
  simp [Parser.initState]

/-- the hypothesis is necessary: a first item keyed `META` (flat line or zone assignment) is rejected with E001 at its `::`,
in both modes. -/
theorem C05_items_meta_first_rejected (env : Env) (strict : Bool) (f : FlatParse.Frame) (name : Str) (it : ZoneParse.Item)
    (r : List ZoneParse.Item) (hm : ZoneParse.metaFirstI (it :: r) = true) :
    Parser.parseDocument.run (Parser.initState env (ZoneParse.itemToks f name (it :: r)) strict)
      = .error (.parser "E001".toList it.assignPos.1 it.assignPos.2) :=
  ZoneParse.parseDocument_items_meta_first f name it r _ hm rfl

/-! ### 2. lexer ∘ parser on the canonical texts -/

theorem zoneDoc_eq_zoneFlatDoc (name key marker : Str) (tag : Option Str) (content : Str) (l c : Nat) (pos : Nat → Nat × Nat) :
    zoneFlatDoc name key marker tag content l c pos [] = zoneDoc name key marker tag content l c := rfl

/-- **A zone assignment followed by flat lines, strict reader.** -/
theorem C05_zone_then_lines_read (env : Env) (name key marker : Str) (tag : Option Str) (content : Str) (lines : List FLine)
    (hn : isEnvName name = true) (hne : name ≠ "END".toList)
    (hk : isIdentifierText key = true) (hkr : hasReservedPrefix key = false) (hkm : key ≠ "META".toList)
    (hm : isMarker marker = true) (htag : TagOK env tag)
    (hc : zoneContentOK marker content = true)
    (hok : ∀ ln ∈ lines, ln.OK)
    (hnfc : ∀ l ∈ zoneDocPlain name key marker (tag.getD []) ++ lines.map FLine.text, env.nfc l = l) :
    Parser.parse env (zoneFlatDocText name key marker tag content lines) =
      .ok (zoneFlatDoc name key marker tag content 2 1 (fun i => (i + ((splitLines content).length + 5), 1)) lines) := by
  have h := parse_zoneFlatDocLines env name key marker (tag.getD []) (splitLines content) lines hn hne hk hkr hkm hm
    (tagTextOK_of_TagOK env tag htag) (contentLines_ok marker content hc) hok hnfc
  rw [tagOf_of_TagOK env tag htag, joinWith_splitLines] at h
  exact h

/-- **The canonical text of a zone document is accepted by the strict reader, which returns the document**: the zone value
carries `content` — the very string —, the tag and the marker. -/
theorem C05_zone_doc_read (env : Env) (name key marker : Str) (tag : Option Str) (content : Str)
    (hn : isEnvName name = true) (hne : name ≠ "END".toList)
    (hk : isIdentifierText key = true) (hkr : hasReservedPrefix key = false) (hkm : key ≠ "META".toList)
    (hm : isMarker marker = true) (htag : TagOK env tag)
    (hc : zoneContentOK marker content = true)
    (hnfc : ∀ l ∈ zoneDocPlain name key marker (tag.getD []), env.nfc l = l) :
    Parser.parse env (zoneDocText name key marker tag content) = .ok (zoneDoc name key marker tag content 2 1) :=
  C05_zone_then_lines_read env name key marker tag content [] hn hne hk hkr hkm hm htag hc (by simp) (by simpa using hnfc)

/-- the text with an EMPTY zone is read as the document whose zone has content `""`. -/
theorem C05_empty_zone_doc_read (env : Env) (name key marker : Str) (tag : Option Str)
    (hn : isEnvName name = true) (hne : name ≠ "END".toList)
    (hk : isIdentifierText key = true) (hkr : hasReservedPrefix key = false) (hkm : key ≠ "META".toList)
    (hm : isMarker marker = true) (htag : TagOK env tag)
    (hnfc : ∀ l ∈ zoneDocPlain name key marker (tag.getD []), env.nfc l = l) :
    Parser.parse env (emptyZoneDocText name key marker tag) = .ok (zoneDoc name key marker tag [] 2 1) := by
  have h := parse_zoneFlatDocLines env name key marker (tag.getD []) [] [] hn hne hk hkr hkm hm
    (tagTextOK_of_TagOK env tag htag) (by simp) (by simp) (by simpa using hnfc)
  rw [tagOf_of_TagOK env tag htag] at h
  exact h

/-- **lenient entry point**: the same document; the receipts are the identifier notes of the keys and bare words OUTSIDE
the zone; the parser warnings are those of the items (none for the zone document alone, see below). -/
theorem C05_zone_then_lines_read_lenient (env : Env) (name key marker : Str) (tag : Option Str) (content : Str) (lines : List FLine)
    (hn : isEnvName name = true) (hne : name ≠ "END".toList)
    (hk : isIdentifierText key = true) (hkr : hasReservedPrefix key = false) (hkm : key ≠ "META".toList)
    (hm : isMarker marker = true) (htag : TagOK env tag)
    (hc : zoneContentOK marker content = true)
    (hok : ∀ ln ∈ lines, ln.OK)
    (hnfc : ∀ l ∈ zoneDocPlain name key marker (tag.getD []) ++ lines.map FLine.text, env.nfc l = l) :
    Parser.parseWithWarnings env (zoneFlatDocText name key marker tag content lines) =
      .ok (zoneFlatDoc name key marker tag content 2 1 (fun i => (i + ((splitLines content).length + 5), 1)) lines,
           zoneFlatReps key (splitLines content).length lines,
           ZoneParse.itemWarns [] (zoneItems key content tag marker (splitLines content).length lines)) := by
  have h := parseWithWarnings_zoneFlatDocLines env name key marker (tag.getD []) (splitLines content) lines hn hne hk hkr hkm hm
    (tagTextOK_of_TagOK env tag htag) (contentLines_ok marker content hc) hok hnfc
  rw [tagOf_of_TagOK env tag htag, joinWith_splitLines] at h
  exact h

/-- the zone document alone, lenient: the document, the key's identifier notes, NO parser warning — whatever the key
(`PATTERN`, `REGEX` included) and whatever the content. -/
theorem C05_zone_doc_read_lenient (env : Env) (name key marker : Str) (tag : Option Str) (content : Str)
    (hn : isEnvName name = true) (hne : name ≠ "END".toList)
    (hk : isIdentifierText key = true) (hkr : hasReservedPrefix key = false) (hkm : key ≠ "META".toList)
    (hm : isMarker marker = true) (htag : TagOK env tag)
    (hc : zoneContentOK marker content = true)
    (hnfc : ∀ l ∈ zoneDocPlain name key marker (tag.getD []), env.nfc l = l) :
    Parser.parseWithWarnings env (zoneDocText name key marker tag content) =
      .ok (zoneDoc name key marker tag content 2 1, identifierRepairs key 2 1, []) := by
  have h := C05_zone_then_lines_read_lenient env name key marker tag content [] hn hne hk hkr hkm hm htag hc (by simp)
    (by simpa using hnfc)
  have hw : ZoneParse.itemWarns [] (zoneItems key content tag marker (splitLines content).length []) = [] := by
    simp [zoneItems, toPLines, ZoneParse.itemWarns, ZoneParse.Item.warns, FlatParse.trackPure, List.lookup]
  rw [hw] at h
  have hr : zoneFlatReps key (splitLines content).length [] = identifierRepairs key 2 1 := by simp [zoneFlatReps, linesRepsRev]
  rw [hr] at h
  exact h

/-! ### 3. the property -/

/-- **C05, read side: the zone comes out of the reader exactly as it went in.**  For every envelope name, key, marker of
three or more backticks, info tag and EVERY content string (no restriction on its characters; the only condition is that
no content line is itself a fence line with a backtick run as long as the marker or longer — such a line ENDS the zone or is
an E007 error, so it is not content): the strict reader accepts the text, and the document it returns has exactly one
section, the Assignment `key` whose value is a literal zone with THIS content, THIS tag and THIS marker; no META, no
separator, no comment, nothing else. -/
theorem C05_zone_read_verbatim (env : Env) (name key marker : Str) (tag : Option Str) (content : Str)
    (hn : isEnvName name = true) (hne : name ≠ "END".toList)
    (hk : isIdentifierText key = true) (hkr : hasReservedPrefix key = false) (hkm : key ≠ "META".toList)
    (hm : isMarker marker = true) (htag : TagOK env tag)
    (hc : zoneContentOK marker content = true)
    (hnfc : ∀ l ∈ zoneDocPlain name key marker (tag.getD []), env.nfc l = l) :
    ∃ d, Parser.parse env (zoneDocText name key marker tag content) = .ok d ∧
      d.sections = [.assign key (.zone content tag marker) 2 1 [] none] ∧
      d.name = name ∧ d.metaKv = [] ∧ d.hasSeparator = false ∧ d.trailingComments = [] ∧ d.grammarVersion = none ∧
      d.rawFrontmatter = none :=
  ⟨_, C05_zone_doc_read env name key marker tag content hn hne hk hkr hkm hm htag hc hnfc, rfl, rfl, rfl, rfl, rfl, rfl, rfl⟩

theorem canonStrict_of (env : Env) (x t : Str) (d : Document) (hp : Parser.parse env x = .ok d) (he : emit env d = some t) :
    canonStrict env x = .ok t := by
  unfold canonStrict
  simp only [hp, he, bind, Except.bind, pure, Except.pure]

theorem canonLenient_of (env : Env) (x t : Str) (d : Document) (r : List Repair) (w : List Parser.Warning)
    (hp : Parser.parseWithWarnings env x = .ok (d, r, w)) (he : emit env d = some t) :
    canonLenient env x = .ok t := by
  unfold canonLenient
  simp only [hp, he, bind, Except.bind, pure, Except.pure]

/-- **C05, the canonical text of a zone document is a fixed point** — emit, read with the strict reader, emit again: the
same bytes; and the text is a fixed point of `canonStrict` (CLI `normalize`) and of `canonLenient` (`octave_write`,
`octave_validate`).
PARTIAL: the guard `content ≠ ""` (content = ONE EMPTY LINE) is open finding C05N1 — the same guard as `C05N1_exact`.
It is exact (`C05N1_canon_exact`), the image of the excluded text is computed for every name / key / marker / tag
(`C05N1_canon_image`), and the negation is proved on the witness (`C05N1_witness_canon`).  Nothing else is missing: the
lexer, parser and emitter halves are all proved. -/
theorem C05_zone_fixed_point_partial (env : Env) (name key marker : Str) (tag : Option Str) (content : Str) (l c : Nat)
    (hn : isEnvName name = true) (hne : name ≠ "END".toList)
    (hk : isIdentifierText key = true) (hkr : hasReservedPrefix key = false) (hkm : key ≠ "META".toList)
    (hm : isMarker marker = true) (htag : TagOK env tag)
    (hc : zoneContentOK marker content = true)
    (hnfc : ∀ l ∈ zoneDocPlain name key marker (tag.getD []), env.nfc l = l)
    (hguard : content ≠ []) :
    (∃ text d', emit env (zoneDoc name key marker tag content l c) = some text ∧ Parser.parse env text = .ok d' ∧
        emit env d' = some text ∧ text = zoneDocText name key marker tag content) ∧
    canonStrict env (zoneDocText name key marker tag content) = .ok (zoneDocText name key marker tag content) ∧
    canonLenient env (zoneDocText name key marker tag content) = .ok (zoneDocText name key marker tag content) := by
  have hr := C05_zone_doc_read env name key marker tag content hn hne hk hkr hkm hm htag hc hnfc
  have he := fun l c => C05_emit_zoneDoc env name key marker tag content l c hguard
  exact ⟨⟨_, _, he l c, hr, he 2 1, rfl⟩, canonStrict_of env _ _ _ hr (he 2 1),
    canonLenient_of env _ _ _ _ _ (C05_zone_doc_read_lenient env name key marker tag content hn hne hk hkr hkm hm htag hc hnfc) (he 2 1)⟩

/-- **finding C05N1, the excluded point, for every name / key / marker / tag**: the text whose zone holds ONE EMPTY LINE is
canonicalised to the text with the EMPTY zone — the content line is lost. -/
theorem C05N1_canon_image (env : Env) (name key marker : Str) (tag : Option Str)
    (hn : isEnvName name = true) (hne : name ≠ "END".toList)
    (hk : isIdentifierText key = true) (hkr : hasReservedPrefix key = false) (hkm : key ≠ "META".toList)
    (hm : isMarker marker = true) (htag : TagOK env tag)
    (hnfc : ∀ l ∈ zoneDocPlain name key marker (tag.getD []), env.nfc l = l) :
    canonStrict env (zoneDocText name key marker tag []) = .ok (emptyZoneDocText name key marker tag) ∧
    emptyZoneDocText name key marker tag ≠ zoneDocText name key marker tag [] :=
  ⟨canonStrict_of env _ _ _ (C05_zone_doc_read env name key marker tag [] hn hne hk hkr hkm hm htag (by rfl) hnfc)
      (C05_emit_zoneDoc_empty env name key marker tag 2 1),
   fun h => C05N1_texts_differ name key marker tag h.symm⟩

/-- **the guard is exact**: the canonical text is a fixed point of the strict canonicaliser iff `content ≠ ""`. -/
theorem C05N1_canon_exact (env : Env) (name key marker : Str) (tag : Option Str) (content : Str)
    (hn : isEnvName name = true) (hne : name ≠ "END".toList)
    (hk : isIdentifierText key = true) (hkr : hasReservedPrefix key = false) (hkm : key ≠ "META".toList)
    (hm : isMarker marker = true) (htag : TagOK env tag)
    (hc : zoneContentOK marker content = true)
    (hnfc : ∀ l ∈ zoneDocPlain name key marker (tag.getD []), env.nfc l = l) :
    canonStrict env (zoneDocText name key marker tag content) = .ok (zoneDocText name key marker tag content) ↔ content ≠ [] := by
  constructor
  · intro h he
    subst he
    obtain ⟨h1, h2⟩ := C05N1_canon_image env name key marker tag hn hne hk hkr hkm hm htag hnfc
    rw [h1] at h
    exact h2 (Except.ok.inj h)
  · intro hg
    exact (C05_zone_fixed_point_partial env name key marker tag content 2 1 hn hne hk hkr hkm hm htag hc hnfc hg).2.1

/-- **negation on the witness** of C05N1 (`"===D===\nK::\n```\n\n```\n===END===\n"`), obtained from the theorems (not by
evaluation; `C05N1_witness` in `Props/C05zones.lean` is the evaluated form): its canonical form is the empty-zone text, which
differs from it. -/
theorem C05N1_witness_canon :
    canonStrict Env.ascii c05n1Witness = .ok c05n1Image ∧ c05n1Image ≠ c05n1Witness := by
  have h := C05N1_canon_image Env.ascii "D".toList "K".toList "```".toList none (by decide) (by decide) (by decide) (by decide)
    (by decide) (by decide) trivial (by decide)
  have e1 : c05n1Witness = zoneDocText "D".toList "K".toList "```".toList none [] := by decide
  have e2 : c05n1Image = emptyZoneDocText "D".toList "K".toList "```".toList none := by decide
  rw [e1, e2]
  exact h

/-- **C05 from the document side, NO guard**: for every zone document — content `""` included — emit, strict read, emit
gives the same bytes, and the document read back carries the same content, tag and marker.  (Content `""` is written as
the empty zone and the empty zone is read back as content `""`; C05N1 is invisible from this side: it concerns the TEXT
with one empty content line, which no document is written as.)  `zoneContentOK marker ""` holds, so the hypothesis is
only about non-empty contents. -/
theorem C05_zone_doc_fixed_point (env : Env) (name key marker : Str) (tag : Option Str) (content : Str) (l c : Nat)
    (hn : isEnvName name = true) (hne : name ≠ "END".toList)
    (hk : isIdentifierText key = true) (hkr : hasReservedPrefix key = false) (hkm : key ≠ "META".toList)
    (hm : isMarker marker = true) (htag : TagOK env tag)
    (hc : zoneContentOK marker content = true)
    (hnfc : ∀ l ∈ zoneDocPlain name key marker (tag.getD []), env.nfc l = l) :
    ∃ text, emit env (zoneDoc name key marker tag content l c) = some text ∧
      Parser.parse env text = .ok (zoneDoc name key marker tag content 2 1) ∧
      emit env (zoneDoc name key marker tag content 2 1) = some text := by
  by_cases hg : content = []
  · subst hg
    exact ⟨_, C05_emit_zoneDoc_empty env name key marker tag l c,
      C05_empty_zone_doc_read env name key marker tag hn hne hk hkr hkm hm htag hnfc,
      C05_emit_zoneDoc_empty env name key marker tag 2 1⟩
  · exact ⟨_, C05_emit_zoneDoc env name key marker tag content l c hg,
      C05_zone_doc_read env name key marker tag content hn hne hk hkr hkm hm htag hc hnfc,
      C05_emit_zoneDoc env name key marker tag content 2 1 hg⟩

/-- **C05, an empty zone stays an empty zone.**  The text with the open line directly followed by the close line is read
as an Assignment whose value IS a literal zone (content `""`, the tag, the marker) — the value is present, the key is not
dropped, the zone is not turned into an absent value, an empty string or a block — and it is written back as the same two
fence lines: the text is a fixed point of both canonicalisers. -/
theorem C05_empty_zone_stays_empty (env : Env) (name key marker : Str) (tag : Option Str)
    (hn : isEnvName name = true) (hne : name ≠ "END".toList)
    (hk : isIdentifierText key = true) (hkr : hasReservedPrefix key = false) (hkm : key ≠ "META".toList)
    (hm : isMarker marker = true) (htag : TagOK env tag)
    (hnfc : ∀ l ∈ zoneDocPlain name key marker (tag.getD []), env.nfc l = l) :
    (∃ d, Parser.parse env (emptyZoneDocText name key marker tag) = .ok d ∧
        d.sections = [.assign key (.zone [] tag marker) 2 1 [] none]) ∧
    canonStrict env (emptyZoneDocText name key marker tag) = .ok (emptyZoneDocText name key marker tag) ∧
    (∀ l c, emit env (zoneDoc name key marker tag [] l c) = some (emptyZoneDocText name key marker tag)) := by
  have hr := C05_empty_zone_doc_read env name key marker tag hn hne hk hkr hkm hm htag hnfc
  exact ⟨⟨_, hr, rfl⟩, canonStrict_of env _ _ _ hr (C05_emit_zoneDoc_empty env name key marker tag 2 1),
    fun l c => C05_emit_zoneDoc_empty env name key marker tag l c⟩

/-- what of a node the property speaks about: everything but the position. -/
def nodeView : Node → Option (Str × Value × List Str × Option Str)
  | .assign k v _ _ ld tr => some (k, v, ld, tr)
  | _ => none

theorem flatNodes_view (p q : Nat → Nat × Nat) : ∀ (ls : List FLine) (i j : Nat),
    (flatNodes p i ls).map nodeView = (flatNodes q j ls).map nodeView := by
  intro ls
  induction ls with
  | nil => intro i j; rfl
  | cons ln r ih => intro i j; simp only [flatNodes, List.map_cons, FLine.node, nodeView, ih (i + 1) (j + 1)]

theorem nfc_flat_of_zone (env : Env) (name key marker trailing : Str) (lines : List FLine)
    (hn : isEnvName name = true) (hok : ∀ ln ∈ lines, ln.OK)
    (hnfc : ∀ l ∈ zoneDocPlain name key marker trailing ++ lines.map FLine.text, env.nfc l = l) :
    ∀ l ∈ splitLines (flatText name lines), env.nfc l = l := by
  intro l hl
  rw [splitLines_flatText name lines hn hok] at hl
  apply hnfc
  simp only [List.mem_cons, List.mem_append, List.mem_nil_iff, or_false] at hl
  simp only [zoneDocPlain, envLine, List.mem_append, List.mem_cons, List.mem_nil_iff, or_false]
  rcases hl with h | h | h | h
  · exact Or.inl (Or.inl h)
  · exact Or.inr h
  · exact Or.inl (Or.inr (Or.inr (Or.inr (Or.inr (Or.inl h)))))
  · exact Or.inl (Or.inr (Or.inr (Or.inr (Or.inr (Or.inr h)))))

/-- **C05, a fence never swallows or releases neighbouring fields.**  With any flat lines after the zone — and whatever the
zone contains, `===END===` or `KEY::value` lines included — the reader returns the zone assignment FOLLOWED BY exactly
the assignments of the following lines: as many, in order, same keys, same values with the same types (positions: line
`i + n + 5` for the `i`-th line after a zone of `n` content lines).  They are exactly what the reader returns for the
document WITHOUT the zone (second part; `firstNotMeta lines` is only needed for that zone-free document to be readable at
all, open finding C01N3), positions aside. -/
theorem C05_zone_neighbours_untouched (env : Env) (name key marker : Str) (tag : Option Str) (content : Str) (lines : List FLine)
    (hn : isEnvName name = true) (hne : name ≠ "END".toList)
    (hk : isIdentifierText key = true) (hkr : hasReservedPrefix key = false) (hkm : key ≠ "META".toList)
    (hm : isMarker marker = true) (htag : TagOK env tag)
    (hc : zoneContentOK marker content = true)
    (hok : ∀ ln ∈ lines, ln.OK)
    (hnfc : ∀ l ∈ zoneDocPlain name key marker (tag.getD []) ++ lines.map FLine.text, env.nfc l = l) :
    ∃ dz, Parser.parse env (zoneFlatDocText name key marker tag content lines) = .ok dz ∧
      dz.sections = .assign key (.zone content tag marker) 2 1 [] none ::
          flatNodes (fun i => (i + ((splitLines content).length + 5), 1)) 0 lines ∧
      dz.sections.length = lines.length + 1 ∧
      (C01.firstNotMeta lines = true →
        ∃ df, Parser.parse env (flatText name lines) = .ok df ∧
          (dz.sections.drop 1).map nodeView = df.sections.map nodeView ∧
          df.name = dz.name ∧ df.metaKv = dz.metaKv ∧ df.trailingComments = dz.trailingComments) := by
  refine ⟨_, C05_zone_then_lines_read env name key marker tag content lines hn hne hk hkr hkm hm htag hc hok hnfc, rfl, ?_, ?_⟩
  · have : ∀ (ls : List FLine) (p : Nat → Nat × Nat) (k : Nat), (flatNodes p k ls).length = ls.length := by
      intro ls; induction ls with
      | nil => intro p k; rfl
      | cons a r ih => intro p k; simp [flatNodes, ih]
    simp [zoneFlatDoc, this]
  · intro hfm
    refine ⟨_, C01.C01_flat_canonical_is_readable env name lines hn hne hok hfm
      (nfc_flat_of_zone env name key marker (tag.getD []) lines hn hok hnfc), ?_, rfl, rfl, rfl⟩
    simp only [zoneFlatDoc, flatDoc, List.drop_succ_cons, List.drop_zero]
    exact flatNodes_view _ _ lines 0 0

/-- … and the whole text (zone + following lines) is a fixed point of the strict canonicaliser: emit ∘ parse changes
neither the zone nor its neighbours.  PARTIAL: guard `content ≠ ""` (finding C05N1), as in `C05_zone_fixed_point_partial`. -/
theorem C05_zone_then_lines_fixed_point_partial (env : Env) (name key marker : Str) (tag : Option Str) (content : Str)
    (lines : List FLine)
    (hn : isEnvName name = true) (hne : name ≠ "END".toList)
    (hk : isIdentifierText key = true) (hkr : hasReservedPrefix key = false) (hkm : key ≠ "META".toList)
    (hm : isMarker marker = true) (htag : TagOK env tag)
    (hc : zoneContentOK marker content = true)
    (hok : ∀ ln ∈ lines, ln.OK) (hem : ∀ ln ∈ lines, ln.EmitOK)
    (hnfc : ∀ l ∈ zoneDocPlain name key marker (tag.getD []) ++ lines.map FLine.text, env.nfc l = l)
    (hguard : content ≠ []) :
    canonStrict env (zoneFlatDocText name key marker tag content lines) = .ok (zoneFlatDocText name key marker tag content lines) := by
  have hr := C05_zone_then_lines_read env name key marker tag content lines hn hne hk hkr hkm hm htag hc hok hnfc
  have he := emit_zoneFlatDoc env name key marker tag content 2 1 (fun i => (i + ((splitLines content).length + 5), 1)) lines hem
  have hcl : contentLines content = splitLines content := by
    cases content with
    | nil => exact absurd rfl hguard
    | cons a r => rfl
  rw [hcl] at he
  exact canonStrict_of env _ _ _ hr he


/-! ### 4. non-vacuity: the theorems applied (not evaluated) to the nasty content of `Props/C05zones.lean` -/

/-- marker of 5 backticks, tag `py`, an environment whose NFC is NOT the identity on the content's NFD pair; the content has
a tab, an NFD pair, a backslash-n, quotes, `->`, trailing spaces, an empty line, `===END===`, shorter backtick runs with and
without text, `{curly}`, `#`, `+`, `vs`, an indented line: all hypotheses hold. -/
example : ∃ d, Parser.parse envDrop (zoneDocText "D".toList "K".toList "`````".toList (some "py".toList) nastyContent) = .ok d ∧
    d.sections = [.assign "K".toList (.zone nastyContent (some "py".toList) "`````".toList) 2 1 [] none] ∧
    d.name = "D".toList ∧ d.metaKv = [] ∧ d.hasSeparator = false ∧ d.trailingComments = [] ∧ d.grammarVersion = none ∧
    d.rawFrontmatter = none :=
  C05_zone_read_verbatim envDrop "D".toList "K".toList "`````".toList (some "py".toList) nastyContent
    (by decide) (by decide) (by decide) (by decide) (by decide) (by decide) ⟨by decide, by decide, by decide⟩ (by decide) (by decide)

example := C05_zone_fixed_point_partial envDrop "D".toList "K".toList "`````".toList (some "py".toList) nastyContent 9 9
  (by decide) (by decide) (by decide) (by decide) (by decide) (by decide) ⟨by decide, by decide, by decide⟩ (by decide) (by decide)
  (by decide)

example : canonStrict envDrop (zoneDocText "D".toList "K".toList "`````".toList (some "py".toList) nastyContent)
    = .ok (zoneDocText "D".toList "K".toList "`````".toList (some "py".toList) nastyContent) :=
  (C05N1_canon_exact envDrop "D".toList "K".toList "`````".toList (some "py".toList) nastyContent
    (by decide) (by decide) (by decide) (by decide) (by decide) (by decide) ⟨by decide, by decide, by decide⟩ (by decide) (by decide)).2
    (by decide)

/-- the key `PATTERN` (a bare word there would give W_PATTERN_AUTOQUOTE): the zone gives no warning, no receipt. -/
example : Parser.parseWithWarnings Env.ascii (zoneDocText "DOC".toList "PATTERN".toList "```".toList none "`` not a fence\n\tx".toList)
    = .ok (zoneDoc "DOC".toList "PATTERN".toList "```".toList none "`` not a fence\n\tx".toList 2 1, [], []) :=
  C05_zone_doc_read_lenient Env.ascii "DOC".toList "PATTERN".toList "```".toList none "`` not a fence\n\tx".toList
    (by decide) (by decide) (by decide) (by decide) (by decide) (by decide) trivial (by decide) (by decide)

/-- document side, content `""` (no guard). -/
example := C05_zone_doc_fixed_point Env.ascii "D".toList "K".toList "```".toList none [] 7 7
  (by decide) (by decide) (by decide) (by decide) (by decide) (by decide) trivial (by decide) (by decide)

/-- the empty zone, 4 backticks, tag `x`. -/
example := C05_empty_zone_stays_empty Env.ascii "D".toList "K".toList "````".toList (some "x".toList)
  (by decide) (by decide) (by decide) (by decide) (by decide) (by decide) ⟨by decide, by decide, by decide⟩ (by decide)

/-- a zone whose content holds `===END===` and a line `B_1::2` that looks like a sibling, followed by the nine lines of the
flat example document (strings with quotes / backslashes / `→`, bare words, booleans, null, integers): the neighbours are
untouched, and the whole text is a fixed point. -/
def neighbourContent : Str := "===END===\nB_1::2\n\t`` x".toList

example := C05_zone_neighbours_untouched envDrop "D".toList "K".toList "```".toList none neighbourContent C01.exLines
  (by decide) (by decide) (by decide) (by decide) (by decide) (by decide) trivial (by decide) C01.exLines_ok (by decide)

example : canonStrict envDrop (zoneFlatDocText "D".toList "K".toList "```".toList none neighbourContent C01.exLines)
    = .ok (zoneFlatDocText "D".toList "K".toList "```".toList none neighbourContent C01.exLines) :=
  C05_zone_then_lines_fixed_point_partial envDrop "D".toList "K".toList "```".toList none neighbourContent C01.exLines
    (by decide) (by decide) (by decide) (by decide) (by decide) (by decide) trivial (by decide) C01.exLines_ok C01.exLines_emit
    (by decide) (by decide)

/-- token level, ALL positions and all strings symbolic: zone, line, zone with the first key again — in this order. -/
example (env : Env) (f : FlatParse.Frame) (p q : ZoneParse.ZPos) (c1 c2 m1 m2 : Str) (t1 t2 : Option Str) (l a b c d : Nat) (i : Int) (raw : Str) :
    C02.parseToks env (ZoneParse.itemToks f "DOC".toList
      [ .zone ⟨"K1".toList, c1, t1, m1, p⟩, .line ⟨"META".toList, .int i raw, l, a, b, c, d⟩, .zone ⟨"K1".toList, c2, t2, m2, q⟩ ])
    = .ok { name := "DOC".toList,
            sections := [ .assign "K1".toList (.zone c1 t1 m1) p.kl p.kc [] none, .assign "META".toList (.int i) l a [] none,
                          .assign "K1".toList (.zone c2 t2 m2) q.kl q.kc [] none ] } :=
  C05_items_read env f _ _ (by simp [ZoneParse.metaFirstI, ZoneParse.Item.key])

/-- … whose lenient read reports exactly the duplicate key (both zones are kept). -/
example (env : Env) (f : FlatParse.Frame) (p q : ZoneParse.ZPos) (c1 c2 m1 m2 : Str) (t1 t2 : Option Str) (l a b c d : Nat) (i : Int) (raw : Str) :
    (C02.parseToksWithWarnings env (ZoneParse.itemToks f "DOC".toList
      [ .zone ⟨"K1".toList, c1, t1, m1, p⟩, .line ⟨"META".toList, .int i raw, l, a, b, c, d⟩, .zone ⟨"K1".toList, c2, t2, m2, q⟩ ])).map Prod.snd
    = .ok [ .duplicateKey "K1".toList p.kl q.kl [p.kl, q.kl] ] := by
  rw [C05_items_read_warnings env f _ _ (by simp [ZoneParse.metaFirstI, ZoneParse.Item.key])]
  simp [ZoneParse.itemWarns, ZoneParse.Item.warns, ZoneParse.Item.key, ZoneParse.Item.l, FlatParse.Line.warns, FlatParse.trackPure,
    List.lookup, Except.map]

/-- one zone assignment from any parser state (six tokens consumed, cursor on the NEWLINE). -/
example (st : Parser.PState) (k : List Token) (z : ZoneParse.Zone) :
    Parser.parseSection 2 [] { st with rest := z.toks ++ k }
      = .ok (some (.assign z.key (.zone z.content z.tag z.marker) z.p.kl z.p.kc [] none),
             { st with rest := z.nlTok :: k, prev := some z.closeTok, pos := st.pos + 6 }) :=
  C05_parseSection_zone _ z [] z.nlTok k 0 (by simp [ZoneParse.Zone.nlTok]) (by simp [ZoneParse.Zone.toks])

/-! ### 5. the whole model EVALUATED (`decide +kernel`), independently of the proofs -/

open ZoneParse in
/-- strict read of the nasty text: the document the theorem predicts. -/
example : isOkDocZ (Parser.parse Env.ascii (zoneDocText "D".toList "K".toList "`````".toList (some "py".toList) nastyContent))
    (zoneDoc "D".toList "K".toList "`````".toList (some "py".toList) nastyContent 2 1) = true := by decide +kernel

open ZoneParse in
/-- the same through an environment whose NFC would change the content if it were applied to it. -/
example : isOkDocZ (Parser.parse envDrop (zoneDocText "D".toList "K".toList "`````".toList (some "py".toList) nastyContent))
    (zoneDoc "D".toList "K".toList "`````".toList (some "py".toList) nastyContent 2 1) = true := by decide +kernel

open ZoneParse in
/-- the empty zone. -/
example : isOkDocZ (Parser.parse Env.ascii "===D===\nK::\n````x\n````\n===END===\n".toList)
    (zoneDoc "D".toList "K".toList "````".toList (some "x".toList) [] 2 1) = true := by decide +kernel

open ZoneParse in
/-- zone, then lines; the content holds `===END===` and a sibling look-alike. -/
example : isOkDocZ (Parser.parse Env.ascii "===D===\nK::\n```\n===END===\nB::2\n```\nB::1\nC::x\n===END===\n".toList)
    { name := "D".toList,
      sections := [.assign "K".toList (.zone "===END===\nB::2".toList none "```".toList) 2 1 [] none,
                   .assign "B".toList (.int 1) 7 1 [] none, .assign "C".toList (.str "x".toList) 8 1 [] none] } = true := by
  decide +kernel

open ZoneParse in
/-- items in ANOTHER order (line, zone, line, zone) at the text level — covered by the token-level theorem `C05_items_read`;
the lexer half for this order is by evaluation only. -/
example : isOkDocZ (Parser.parse Env.ascii "===D===\nB::1\nK::\n```\nB::2\n```\nC::x\nL::\n````q\n\t\n````\n===END===\n".toList)
    { name := "D".toList,
      sections := [.assign "B".toList (.int 1) 2 1 [] none,
                   .assign "K".toList (.zone "B::2".toList none "```".toList) 3 1 [] none,
                   .assign "C".toList (.str "x".toList) 7 1 [] none,
                   .assign "L".toList (.zone "\t".toList (some "q".toList) "````".toList) 8 1 [] none] } = true := by
  decide +kernel

/-- both canonicalisers on the zone + lines text. -/
example : isOkStr (canonLenient Env.ascii "===D===\nK::\n```\n===END===\nB::2\n```\nB::1\nC::x\n===END===\n".toList)
    "===D===\nK::\n```\n===END===\nB::2\n```\nB::1\nC::x\n===END===\n".toList = true := by decide +kernel

/-! ### 6. the hypotheses are necessary: the model at the excluded points (the real reader does the same, see the report) -/

def parseErr {α : Type} : Except Exc α → Option (Str × Nat × Nat)
  | .error (.parser c l k) => some (c, l, k)
  | _ => none

/-- `key ≠ "META"`: a FIRST item `META::` + zone is taken for the META block header — E001 at the `::` (line 2, column 5);
the same key on a LATER item is an ordinary assignment. -/
example : parseErr (Parser.parse Env.ascii "===D===\nMETA::\n```\nx\n```\n===END===\n".toList) = some ("E001".toList, 2, 5) := by
  decide +kernel

open ZoneParse in
example : isOkDocZ (Parser.parse Env.ascii "===D===\nA::1\nMETA::\n```\nx\n```\n===END===\n".toList)
    { name := "D".toList,
      sections := [.assign "A".toList (.int 1) 2 1 [] none, .assign "META".toList (.zone "x".toList none "```".toList) 3 1 [] none] }
    = true := by decide +kernel

open ZoneParse in
/-- `hasReservedPrefix key = false`: under the key `true` (lexed as BOOLEAN, not IDENTIFIER) `parse_section` returns `None`
and the body loop skips token after token — the WHOLE ZONE IS DROPPED SILENTLY by the strict reader (no error). -/
example : isOkDocZ (Parser.parse Env.ascii "===D===\ntrue::\n```\na\n```\n===END===\n".toList) { name := "D".toList, sections := [] }
    = true := by decide +kernel

/-- `name ≠ "END"`: `===END===` on line 1 is the END marker; the reader returns an empty document named INFERRED. -/
example : (match Parser.parse Env.ascii "===END===\nK::\n```\na\n```\n===END===\n".toList with
    | .ok d => d.name == "INFERRED".toList && d.sections.isEmpty | .error _ => false) = true := by decide +kernel

/-- `TagOK` (`strip tag = tag`): spaces around the tag are not part of it — `` ``` py `` is read as tag `py`. -/
example : ZoneParse.isOkDocZ (Parser.parse Env.ascii "===D===\nK::\n``` py \na\n```\n===END===\n".toList)
    (zoneDoc "D".toList "K".toList "```".toList (some "py".toList) "a".toList 2 1) = true := by decide +kernel

/-- token level, what may follow FENCE_CLOSE: a COMMENT token there (never produced by the lexer) becomes the trailing
comment of the assignment. -/
example (st : Parser.PState) (k : List Token) (z : ZoneParse.Zone) (cm next : Token) (h : cm.type = .comment) :
    Parser.parseSection 2 [] { st with rest := z.head ++ cm :: next :: k }
      = .ok (some (.assign z.key (.zone z.content z.tag z.marker) z.p.kl z.p.kc [] (some (Parser.pyStrVal cm.value))),
             { st with rest := next :: k, prev := some cm, pos := st.pos + 7 }) :=
  ZoneParse.parseSection_zone_comment _ z [] cm next k 0 h rfl

/-- token level: FENCE_OPEN, LITERAL_CONTENT not followed by FENCE_CLOSE is E006 at the FENCE_OPEN (the lexer never produces
it: an unterminated zone is its own E006). -/
example (o li x : Token) (k : List Token) (m : Str) (tg : Option Str) (la : Token)
    (ho : o.type = .fenceOpen) (hv : o.value = .fence m tg) (hl : li.type = .literalContent) (hx : x.type ≠ .fenceClose) :
    Parser.parseLiteralZone { rest := o :: li :: x :: k, last := la } = .error (.parser "E006".toList o.line o.col) :=
  ZoneParse.parseLiteralZone_unclosed o li x k m tg none 0 la [] 0 [] false 5 isAlphaA ho hv hl hx

end Octave.C05
