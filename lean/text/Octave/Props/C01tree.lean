/-
C01 / C02 on documents with NESTED BLOCKS — the document-level statement, proved for all inputs of the class:

  a tree document = an envelope `===NAME===`, a forest of lines `KEY::scalar` (scalar = a string the emitter quotes, a bare
  word, a boolean, null) and blocks `KEY:` with children two spaces deeper — ANY depth, ANY width, lines and blocks mixed at
  every level, empty blocks included —, `===END===`.

For every such document (any name, any forest, any keys, any values, whatever characters the strings contain):

  * `C01_tree_canonical_is_readable`   the strict reader accepts the canonical text and returns the same document
                                       (every node positioned at its line, column `1 + 2·depth`);
  * `C01_tree_fixed_point`             canonicalising the canonical text gives the same bytes: `emit (parse (emit d)) = emit d`;
  * `C02_tree_content_preserved`       the document read back has the same envelope name, and its sections carry exactly the
                                       tree (`treeMatches`: same keys, same nesting, same order, same values with the same
                                       types, no comments); no META, no separator, no trailing comments appear;
  * `C02_tree_lenient_read`            the lenient entry point reads the same document, with no normalisation receipt
                                       (`…_exact`: the exact receipts and warnings; `…_silent`: when there is no warning);
  * `tree_text_injective`              the canonical text determines name and content (`treeContent`);
  * `C15_tree_emit_injective`          two tree documents with the same emitted text have the same name and the same content:
                                       the reader is a left inverse of the emitter.

It composes the lexer half (`Lemmas/BlockLex`, `Props/C01blocks`) with the parser half (`Lemmas/BlockParse`,
`Props/C02blocks`) through `Lemmas/BlockBridge`.  Hypotheses, all decidable and all necessary:
  `isEnvName name`, `name ≠ "END"`; keys (of lines and of blocks) are identifier-shaped without a reserved-word prefix and
  bare words likewise (`treeOK`); the values are spelled the way the emitter spells them (`treeEmitOK`); the first
  top-level key is not `META` (`firstKeyIsMeta nodes = false`: a first body node keyed META is re-read as the META block —
  `META:` + children goes to `doc.meta`, `META::v` is rejected with E001; the class of open finding C01N3; `META` anywhere
  else is an ordinary key); NFC leaves every line of the text unchanged (`hnfc`: the documented limit of the format —
  open finding F16 is what happens otherwise).
The two injectivity theorems need only `isEnvName` and `treeOK` (`treeEmitOK` too when stated on `emit`): the hypotheses on
`META`, `END` and NFC are discharged inside the proof (the body is re-read under the name `D`, behind a dummy first line,
in the ASCII environment).
The general statement (sections, lists, numbers, comments, META, zones) remains an open proof target backed by the
correspondence check and the search.
-/
import Octave.Lemmas.BlockBridge
import Octave.Props.C01blocks
import Octave.Props.C02blocks
namespace Octave.C01
open Octave Lexer Emitter

/-- the lexer half in the vocabulary of the parser half: the (frontmatter-stripped) canonical text lexes to `treeToks`. -/
theorem tree_text_lexes (env : Env) (lenient : Bool) (name : Str) (nodes : List TNode)
    (hn : isEnvName name = true) (hne : name ≠ "END".toList) (hok : treeOK nodes)
    (hnfc : ∀ l ∈ splitLines (treeDocText name nodes), env.nfc l = l) :
    Lexer.tokenize env (Parser.stripFrontmatter env (treeDocText name nodes)).1 lenient
      = .ok (BlockParse.treeToks (treeFrame name (treeNLines nodes)) name (posOf nodes) (treeToP nodes),
             (treeRepsRev 0 2 nodes).reverse) := by
  rw [stripFrontmatter_tree, ← treeToks_bridge]
  exact tokenize_tree env lenient name nodes hn hne hok hnfc

theorem metaFirstT_false (nodes : List TNode) (hm : firstKeyIsMeta nodes = false) :
    BlockParse.metaFirstT (treeToP nodes) = false := by
  rw [metaFirstT_bridge]; exact hm

theorem colsOk_posOf (nodes : List TNode) : BlockParse.colsOkList (posOf nodes) (treeToP nodes) 0 0 = true :=
  BlockParse.colsOkList_of_canon _ _ 0 0 (canonCols_posOf nodes)

/-- **the canonical text of a document with nested blocks is accepted by the strict reader, which returns the same
document** (every node positioned at its text line, column `1 + 2·depth`: `canonPos`). -/
theorem C01_tree_canonical_is_readable (env : Env) (name : Str) (nodes : List TNode)
    (hn : isEnvName name = true) (hne : name ≠ "END".toList) (hok : treeOK nodes) (hm : firstKeyIsMeta nodes = false)
    (hnfc : ∀ l ∈ splitLines (treeDocText name nodes), env.nfc l = l) :
    Parser.parse env (treeDocText name nodes) = .ok (treeDoc name canonPos nodes) := by
  have hlex := tree_text_lexes env false name nodes hn hne hok hnfc
  have := C02.C02_tree_text_read env (treeDocText name nodes) (treeFrame name (treeNLines nodes)) name (posOf nodes)
    (treeToP nodes) _ hlex (metaFirstT_false nodes hm) (colsOk_posOf nodes)
  rw [this, stripFrontmatter_tree, treeDoc_bridge]
  rfl

/-- **C01 on documents with nested blocks: the canonical text is a fixed point.**  Emit the document, read the text with
the strict reader, emit again: the same bytes.  For every tree document, whatever positions its nodes carry. -/
theorem C01_tree_fixed_point (env : Env) (name : Str) (pos : Nat → Nat → Nat × Nat) (nodes : List TNode)
    (hn : isEnvName name = true) (hne : name ≠ "END".toList) (hok : treeOK nodes) (hem : treeEmitOK nodes)
    (hm : firstKeyIsMeta nodes = false) (hnfc : ∀ l ∈ splitLines (treeDocText name nodes), env.nfc l = l) :
    ∃ text d', emit env (treeDoc name pos nodes) = some text ∧ Parser.parse env text = .ok d' ∧ emit env d' = some text :=
  ⟨treeDocText name nodes, treeDoc name canonPos nodes, emit_tree env name pos nodes hem,
   C01_tree_canonical_is_readable env name nodes hn hne hok hm hnfc, emit_tree env name _ nodes hem⟩

/-- the same for ANY AST that carries the tree (any positions at all in the nodes, not only those given by a function of
line index and depth). -/
theorem C01_tree_fixed_point_matches (env : Env) (name : Str) (nodes : List TNode) (sections : List Node)
    (hmt : treeMatches nodes sections)
    (hn : isEnvName name = true) (hne : name ≠ "END".toList) (hok : treeOK nodes) (hem : treeEmitOK nodes)
    (hm : firstKeyIsMeta nodes = false) (hnfc : ∀ l ∈ splitLines (treeDocText name nodes), env.nfc l = l) :
    ∃ text d', emit env { name := name, sections := sections } = some text ∧ Parser.parse env text = .ok d' ∧
      emit env d' = some text :=
  ⟨treeDocText name nodes, treeDoc name canonPos nodes, emit_tree_matches env name nodes sections hmt hem,
   C01_tree_canonical_is_readable env name nodes hn hne hok hm hnfc, emit_tree env name _ nodes hem⟩

/-- **C02 on documents with nested blocks: reading the canonical text yields exactly the content that was written** —
name; sections that carry the tree (`treeMatches`: per node the same key, for a line the same value with its type, for a
block the same children in the same order, recursively; no comments, no block target); nothing else appears. -/
theorem C02_tree_content_preserved (env : Env) (name : Str) (pos : Nat → Nat → Nat × Nat) (nodes : List TNode)
    (hn : isEnvName name = true) (hne : name ≠ "END".toList) (hok : treeOK nodes) (hem : treeEmitOK nodes)
    (hm : firstKeyIsMeta nodes = false) (hnfc : ∀ l ∈ splitLines (treeDocText name nodes), env.nfc l = l) :
    ∃ text d', emit env (treeDoc name pos nodes) = some text ∧ Parser.parse env text = .ok d' ∧
      d'.name = name ∧ d'.metaKv = [] ∧ d'.hasSeparator = false ∧ d'.trailingComments = [] ∧ d'.grammarVersion = none ∧
      d'.rawFrontmatter = none ∧ treeMatches nodes d'.sections :=
  ⟨treeDocText name nodes, treeDoc name canonPos nodes, emit_tree env name pos nodes hem,
   C01_tree_canonical_is_readable env name nodes hn hne hok hm hnfc, rfl, rfl, rfl, rfl, rfl, rfl,
   treeNodes_matches canonPos nodes 0 0⟩

/-- the lenient entry point (`parse_with_warnings`) on the canonical text, exactly: the same document, the lexer's receipts
(identifier notes of keys and bare words only) and the parser's warnings (`BlockParse.warnsList`: per line
W_PATTERN_AUTOQUOTE for a bare word under `PATTERN`/`REGEX`, then the duplicate-key warning of its level). -/
theorem C02_tree_lenient_read_exact (env : Env) (name : Str) (nodes : List TNode)
    (hn : isEnvName name = true) (hne : name ≠ "END".toList) (hok : treeOK nodes) (hm : firstKeyIsMeta nodes = false)
    (hnfc : ∀ l ∈ splitLines (treeDocText name nodes), env.nfc l = l) :
    Parser.parseWithWarnings env (treeDocText name nodes)
      = .ok (treeDoc name canonPos nodes, (treeRepsRev 0 2 nodes).reverse,
             BlockParse.warnsList (posOf nodes) (treeToP nodes) [] 0) := by
  have hlex := tree_text_lexes env false name nodes hn hne hok hnfc
  have := C02.C02_tree_text_read_warnings env (treeDocText name nodes) (treeFrame name (treeNLines nodes)) name (posOf nodes)
    (treeToP nodes) _ hlex (metaFirstT_false nodes hm) (colsOk_posOf nodes)
  rw [this, stripFrontmatter_tree, treeDoc_bridge]
  rfl

/-- the lenient entry point (`parse_with_warnings`) reads the same document from the canonical text, and the lexer issues
no normalisation receipt. -/
theorem C02_tree_lenient_read (env : Env) (name : Str) (nodes : List TNode)
    (hn : isEnvName name = true) (hne : name ≠ "END".toList) (hok : treeOK nodes) (hm : firstKeyIsMeta nodes = false)
    (hnfc : ∀ l ∈ splitLines (treeDocText name nodes), env.nfc l = l) :
    ∃ reps warns, Parser.parseWithWarnings env (treeDocText name nodes) = .ok (treeDoc name canonPos nodes, reps, warns)
      ∧ reps.filter isNormalization = [] := by
  refine ⟨_, _, C02_tree_lenient_read_exact env name nodes hn hne hok hm hnfc, ?_⟩
  rw [List.filter_reverse, tree_repsRev_not_norm]
  rfl

/-- … and the reader is silent (no warning at all) when no line is a bare word under `PATTERN`/`REGEX` and no Assignment key
repeats within one level. -/
theorem C02_tree_lenient_read_silent (env : Env) (name : Str) (nodes : List TNode)
    (hn : isEnvName name = true) (hne : name ≠ "END".toList) (hok : treeOK nodes) (hm : firstKeyIsMeta nodes = false)
    (hnfc : ∀ l ∈ splitLines (treeDocText name nodes), env.nfc l = l)
    (hq : BlockParse.quietList (treeToP nodes) = true) (hnd : (BlockParse.lineKeys (treeToP nodes)).Nodup) :
    Parser.parseWithWarnings env (treeDocText name nodes)
      = .ok (treeDoc name canonPos nodes, (treeRepsRev 0 2 nodes).reverse, []) := by
  rw [C02_tree_lenient_read_exact env name nodes hn hne hok hm hnfc,
    BlockParse.warnsList_eq_nil (posOf nodes) (treeToP nodes) [] 0 hq hnd (fun _ _ => rfl)]

/-! ### the emitter is injective on documents with nested blocks (what the seal of C15 relies on) -/

/-- the text after the envelope line does not depend on the name. -/
theorem treeDocText_split (name : Str) (nodes : List TNode) :
    treeDocText name nodes
      = ("===".toList ++ name ++ "===".toList) ++ '\n' :: (treeText 0 nodes ++ ("===END===".toList ++ ['\n'])) := rfl

/-- a line that is certainly not keyed `META`, put in front of a tree to make the reader theorem applicable. -/
def dummyLine : TNode := .line ⟨"A".toList, .null⟩

theorem dummyLine_ok : dummyLine.OK := by
  simp only [dummyLine, TNode.OK, FLine.OK, FScalar.OK]
  decide

/-- **The canonical text determines the document**: two tree documents with the same canonical text have the same name and
the same content (`treeContent`: keys, nesting, order, values with their types).  No hypothesis other than the shape of
names and keys (`isEnvName`, `treeOK`: without them a name or a key could contain a line break and the text would be
ambiguous): not on `META`, not on `END`, not on NFC — the proof reads `===D===`, a dummy first line, then the body, with
the strict reader in the ASCII environment, and the reader is a left inverse there. -/
theorem tree_text_injective (n1 n2 : Str) (t1 t2 : List TNode)
    (hn1 : isEnvName n1 = true) (hok1 : treeOK t1) (hn2 : isEnvName n2 = true) (hok2 : treeOK t2)
    (h : treeDocText n1 t1 = treeDocText n2 t2) : n1 = n2 ∧ treeContent t1 = treeContent t2 := by
  have hname : n1 = n2 := by
    have hs := congrArg splitLines h
    rw [splitLines_treeDocText n1 t1 hn1 hok1, splitLines_treeDocText n2 t2 hn2 hok2] at hs
    exact List.append_cancel_left (List.append_cancel_right (List.cons.inj hs).1)
  refine ⟨hname, ?_⟩
  subst hname
  rw [treeDocText_split, treeDocText_split] at h
  have hbody : treeText 0 t1 ++ ("===END===".toList ++ ['\n']) = treeText 0 t2 ++ ("===END===".toList ++ ['\n']) :=
    (List.cons.inj (List.append_cancel_left h)).2
  have hD : treeDocText "D".toList (dummyLine :: t1) = treeDocText "D".toList (dummyLine :: t2) := by
    simp only [treeDocText, treeText, List.append_assoc, hbody]
  have r1 := C01_tree_canonical_is_readable Env.ascii "D".toList (dummyLine :: t1) (by decide) (by decide)
    ⟨dummyLine_ok, hok1⟩ rfl (fun _ _ => rfl)
  have r2 := C01_tree_canonical_is_readable Env.ascii "D".toList (dummyLine :: t2) (by decide) (by decide)
    ⟨dummyLine_ok, hok2⟩ rfl (fun _ _ => rfl)
  rw [hD, r2] at r1
  have hd : treeDoc "D".toList canonPos (dummyLine :: t2) = treeDoc "D".toList canonPos (dummyLine :: t1) := by
    simpa using r1
  simp only [treeDoc, Document.mk.injEq] at hd
  have m1 := treeNodes_matches canonPos (dummyLine :: t1) 0 0
  have m2 := treeNodes_matches canonPos (dummyLine :: t2) 0 0
  rw [hd.2.2.2.1] at m2
  have hc := treeContent_of_matches _ _ _ m1 m2
  simp only [treeContent, List.cons.injEq] at hc
  exact hc.2

/-- **Two documents with nested blocks that have the same canonical text have the same content** (name; keys, nesting,
order, values with their types: `treeContent`): on this class `emit` is injective up to the positions stored in the
nodes, which is the hypothesis `C15_emit_injective` of the seal theorems (engine `project`).  Proof: the strict reader is
a left inverse.  (Flat documents are the trees without blocks: this also removes the hypotheses on `META`, `END` and NFC
from `C15_flat_emit_injective`.) -/
theorem C15_tree_emit_injective (env : Env) (n1 n2 : Str) (p1 p2 : Nat → Nat → Nat × Nat) (t1 t2 : List TNode)
    (hn1 : isEnvName n1 = true) (hok1 : treeOK t1) (hem1 : treeEmitOK t1)
    (hn2 : isEnvName n2 = true) (hok2 : treeOK t2) (hem2 : treeEmitOK t2)
    (h : emit env (treeDoc n1 p1 t1) = emit env (treeDoc n2 p2 t2)) :
    n1 = n2 ∧ treeContent t1 = treeContent t2 := by
  rw [emit_tree env n1 p1 t1 hem1, emit_tree env n2 p2 t2 hem2] at h
  exact tree_text_injective n1 n2 t1 t2 hn1 hok1 hn2 hok2 (by simpa using h)

/-- the same for ANY two ASTs that carry the trees (any positions at all in the nodes). -/
theorem C15_tree_emit_injective_matches (env : Env) (n1 n2 : Str) (s1 s2 : List Node) (t1 t2 : List TNode)
    (hmt1 : treeMatches t1 s1) (hmt2 : treeMatches t2 s2)
    (hn1 : isEnvName n1 = true) (hok1 : treeOK t1) (hem1 : treeEmitOK t1)
    (hn2 : isEnvName n2 = true) (hok2 : treeOK t2) (hem2 : treeEmitOK t2)
    (h : emit env { name := n1, sections := s1 } = emit env { name := n2, sections := s2 }) :
    n1 = n2 ∧ treeContent t1 = treeContent t2 := by
  rw [emit_tree_matches env n1 t1 s1 hmt1 hem1, emit_tree_matches env n2 t2 s2 hmt2 hem2] at h
  exact tree_text_injective n1 n2 t1 t2 hn1 hok1 hn2 hok2 (by simpa using h)

/-! non-vacuity: the example trees of `Props/C01blocks` meet every hypothesis -/

/-- `exTree2`: every scalar kind, depth 3, an empty block, a block after a deeper block, a block last. -/
example : ∃ text d', emit Env.ascii (treeDoc "DOC".toList (fun _ _ => (7, 7)) exTree2) = some text ∧
    Parser.parse Env.ascii text = .ok d' ∧ emit Env.ascii d' = some text :=
  C01_tree_fixed_point Env.ascii "DOC".toList _ exTree2 (by decide) (by decide) exTree2_ok exTree2_emit (by decide)
    (fun _ _ => rfl)

example : Parser.parse Env.ascii (treeDocText "DOC".toList exTree2) = .ok (treeDoc "DOC".toList canonPos exTree2) :=
  C01_tree_canonical_is_readable Env.ascii "DOC".toList exTree2 (by decide) (by decide) exTree2_ok (by decide) (fun _ _ => rfl)

/-- the document of the task statement, written out: text and the AST the strict reader returns.  (Reading needs `treeOK`
only; this text is not what the emitter writes for that AST — it spells the string `s` bare, `needsQuotes "s" = false` —,
which is why `treeEmitOK` is a hypothesis of the fixed-point theorems and `exTree2` is the example there.) -/
example : Parser.parse Env.ascii "===D===\nB:\n  X::\"1\"\n  C:\n    Y::\"s\"\nZ::true\n===END===\n".toList
    = .ok { name := "D".toList,
            sections :=
              [ .block "B".toList
                  [ .assign "X".toList (.str "1".toList) 3 3 [] none,
                    .block "C".toList [ .assign "Y".toList (.str "s".toList) 5 5 [] none ] 4 3 [] none ] 2 1 [] none,
                .assign "Z".toList (.bool true) 6 1 [] none ] } :=
  C01_tree_canonical_is_readable Env.ascii "D".toList exTree (by decide) (by decide) exTree_ok (by decide) (fun _ _ => rfl)

example : ∃ reps warns, Parser.parseWithWarnings Env.ascii (treeDocText "D".toList exTree)
      = .ok (treeDoc "D".toList canonPos exTree, reps, warns) ∧ reps.filter isNormalization = [] :=
  C02_tree_lenient_read Env.ascii "D".toList exTree (by decide) (by decide) exTree_ok (by decide) (fun _ _ => rfl)

example : ∃ text d', emit Env.ascii (treeDoc "DOC".toList (fun i d => (d, i)) exTree2) = some text ∧
    Parser.parse Env.ascii text = .ok d' ∧ d'.name = "DOC".toList ∧ d'.metaKv = [] ∧ d'.hasSeparator = false ∧
    d'.trailingComments = [] ∧ d'.grammarVersion = none ∧ d'.rawFrontmatter = none ∧ treeMatches exTree2 d'.sections :=
  C02_tree_content_preserved Env.ascii "DOC".toList _ exTree2 (by decide) (by decide) exTree2_ok exTree2_emit (by decide)
    (fun _ _ => rfl)

/-- `exTree2` is read silently: its receipts are the identifier notes only, and there is no warning. -/
example : Parser.parseWithWarnings Env.ascii (treeDocText "DOC".toList exTree2)
    = .ok (treeDoc "DOC".toList canonPos exTree2, (treeRepsRev 0 2 exTree2).reverse, []) :=
  C02_tree_lenient_read_silent Env.ascii "DOC".toList exTree2 (by decide) (by decide) exTree2_ok (by decide) (fun _ _ => rfl)
    (by decide) (by decide)

/-- injectivity applied: whatever positions the two ASTs of `exTree2` carry, they have the same text and the same content;
and a tree with another value has another text. -/
example : treeContent exTree2 = treeContent exTree2 :=
  (C15_tree_emit_injective Env.ascii "DOC".toList "DOC".toList (fun _ _ => (0, 0)) (fun i d => (i, d)) exTree2 exTree2
    (by decide) exTree2_ok exTree2_emit (by decide) exTree2_ok exTree2_emit
    (by rw [emit_tree _ _ _ _ exTree2_emit, emit_tree _ _ _ _ exTree2_emit])).2

example : treeDocText "D".toList exTree ≠ treeDocText "D".toList [.line ⟨"Z".toList, .bool true⟩] := by
  intro h
  have := (tree_text_injective _ _ _ _ (by decide) exTree_ok (by decide) (by simp only [treeOK, TNode.OK, FLine.OK, FScalar.OK]; decide) h).2
  simp [exTree, treeContent] at this

/-- the content of the task's example, positions forgotten. -/
example : treeContent exTree =
    [ .block "B".toList [ .line "X".toList (.str "1".toList), .block "C".toList [ .line "Y".toList (.str "s".toList) ] ],
      .line "Z".toList (.bool true) ] := rfl

/-- the bridge on the examples: the token list of the lexer half IS the token list of the parser half, the block keys are at
the lexer's columns (checked by evaluation, independently of `canonCols_posOf`), the document is the same. -/
example : treeDocToks "DOC".toList exTree2
    = BlockParse.treeToks (treeFrame "DOC".toList 12) "DOC".toList (posOf exTree2) (treeToP exTree2) := by decide
example : BlockParse.canonColsList (posOf exTree2) (treeToP exTree2) 0 0 = true := by decide
example : BlockParse.colsOkList (posOf exTree2) (treeToP exTree2) 0 0 = true := by decide
example : Agree (posOf exTree2) (lposList 0 2 exTree2) 0 := agree_posOf exTree2

/-- the positions of the example: one record per body line, as the lexer half's report prescribes. -/
example : (List.range 5).map (posOf exTree) =
    [⟨2, 1, 2, 1, 2, 3, 3⟩, ⟨3, 1, 3, 3, 4, 6, 9⟩, ⟨4, 1, 4, 3, 4, 5, 5⟩, ⟨5, 1, 5, 5, 6, 8, 11⟩, ⟨6, 1, 6, 1, 2, 4, 8⟩] := by
  decide

/-- the hypothesis on `META` is necessary: a first top-level block keyed `META` is read into `doc.meta`. -/
example : firstKeyIsMeta [.block "META".toList [.line ⟨"X".toList, .qstr "1".toList⟩]] = true ∧
    (match Parser.parse Env.ascii (treeDocText "D".toList [.block "META".toList [.line ⟨"X".toList, .qstr "1".toList⟩]]) with
      | .ok d => d.sections.isEmpty && !d.metaKv.isEmpty | .error _ => false) = true := by
  constructor
  · decide
  · decide +kernel

end Octave.C01
