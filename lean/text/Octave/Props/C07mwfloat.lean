/-
C07 / C03 on flat documents whose values may be MULTI-WORD VALUES HEADED BY ANY NUMBER LEXEME — floats `1.50`, exponents
`1e3` / `2.5E+10`, leading zeros `007`, negative zero `-0.0`, signed integers — the PARSER-level rewrite
`K::1.50 mice` → the single string `1.50 mice` (the RAW lexeme is kept: not `1.5 mice`), with its receipt
(`multi_word_coalesce`, context `number_identifier`).  Extends `C07mwbool` (whose class it contains; a port with one more
head constructor) and closes the "Not proved" item "heads that are any representable NUMBER lexeme" of `C07mwnum`.

A document of the class is an envelope `===NAME===`, any number of lines `KEY::value` and `===END===`; a value is a scalar
(`FScalar`), or a multi-word value `MfWords`: a HEAD followed by `n ≥ 1` identifier-shaped words (`Expr.wordOK`), each
preceded by ANY POSITIVE number of spaces (`gap + 1`).  The head (`MfHead`) is
  * `.word w` / `.int i` / `.str s` / `.bool b` / `.null` / `.ver d1 d2 d3`   the six heads of `C07mwbool`,
  * `.num s sc`   (new) ANY NUMBER lexeme `s` of the lexer — `C13.pyNumberFull s`: `-?digits(.digits)?([eE][+-]?digits)?`,
                  leading zeros allowed — together with the scalar token `sc` the lexer makes of it.
Decidable, environment-free: `MfLine.OK` (for `.num`: `pyNumberFull s` and `sc` is a NUMBER scalar whose `raw` is `s`).
Environment-dependent: `MfLine.NumOK env` (for `.num`: `C13.Representable env s` — an int lexeme has at most 4300 digits, a
float lexeme does not overflow to `inf` — and `sc = C13.numScalar env s`, i.e. `int(s)` resp. `repr(float(s))` with `raw = s`;
`mwf_numScalar_raw`: that scalar always satisfies the `raw` condition of `OK`).

What the real reader does (and the model, proved here for EVERY document of the class): the lexer emits ONE NUMBER token for
the head (`C13.step_numParts`: any float terminator behind the lexeme, here a SPACE) whose VALUE is the number (`1.5`, `7`)
and whose `raw` is the lexeme (`1.50`, `007`), and one IDENTIFIER per word; `parse_value`'s NUMBER branch (`numberWords`,
`parseValue_fwnum` for ANY NUMBER token) joins `_token_to_str(head)` — the RAW lexeme — and the words by exactly ONE space
each, whatever the spacing was; the value is that STRING (the number is gone); ONE `lenient_parse` / `multi_word_coalesce`
warning with context `number_identifier` is pushed, holding the parts (raw lexeme first), the result, line and column of the
NUMBER token.  The emitter quotes every result (`needsQuotes_fw`; a `+` of an exponent is not an identifier character, the
proof allows it), so the canonical text of the line is `KEY::"1.50 mice"`.  The STRICT entry point `parse` accepts these
values too and builds the same document.

Real code (octave_mcp, `parse_with_warnings("===D===\nK::<s> mice\n===END===\n")`): `1.50` → value `'1.50 mice'`, receipt
`original ['1.50','mice'] result '1.50 mice' context number_identifier line 2 column 4`; likewise `1e3` → `'1e3 mice'`, `007` →
`'007 mice'`, `-0.0` → `'-0.0 mice'`, `1.5e-3` → `'1.5e-3 mice'`, `-1.5   big   mice` → `'-1.5 big mice'`: the model agrees.

Proved for EVERY document of the class (any number of lines, words, spaces, any environment):

  * `C07_mwfloat_lexes`             `tokenize` (both modes) yields exactly `mwfdocToks` (`C07_mwfloat_word_tokens`) and no
                                    normalisation receipt (`mwfdocReps_norm`);
  * `C07_mwfloat_read` / `…_read_lenient`   `parse` / `parse_with_warnings` return the flat document of the CANONICAL lines
                                    (`mwfDoc`: value `.str "1.50 mice"` — `s w1 … wn` joined by single spaces, RAW lexeme),
                                    positions included, with the exact lexer repairs and the exact parser warnings;
  * `C07_mwfloat_receipts`          the `multi_word_coalesce` records among the warnings are, in reading order, exactly
                                    `mwfReceipts`: ONE per multi-word line (`mwfReceipts_length`);
  * `C07_mwfloat_receipts_exact`    with pairwise different keys, none `PATTERN` / `REGEX` (`mwfQuietKeys`), the warning
                                    list IS `mwfReceipts`;
  * `C07_mwfloat_canonical_none` / `…_canonical_silent`   the canonical text reads as the same document with no
                                    `multi_word_coalesce` record (quiet keys: no warning at all) — no `NumOK` needed;
  * `C03_mwfloat_converge`          `emit(parse(x))` = `emit(parse_with_warnings(x)[0])` = the canonical text;
                                    `C03_mwfloat_spacings_agree`; `C03_mwfloat_canonical_fixed` (fixed point).

Hypotheses: `isEnvName name`, `name ≠ "END"`, `MfLine.OK`, `MfLine.NumOK env` (representable; at the excluded points the
real lexer raises: `K::1e999 mice` → `LexerError E005 … Numeric literal out of range`, a 4301-digit integer → `E005 … Exceeds
the limit (4300 digits)`; `C13.step_numParts_refused` is the model's side), `MfLine.EmitOK` (scalar lines only), first key not
`META`, `hnfc` (NFC leaves every line unchanged; trivial for `Env.ascii`).

Not covered (real code evaluated; none is in the class): a lexeme GLUED to the word (`K::1.5mice` → the string `1.5 mice` — a
space appears — with `original ['1.5','mice']`; `K::1e mice` → `1 e mice`; `K::1_000 mice` → `1 _000 mice`), `K::.5 mice`
(no NUMBER token: a word-headed coalesce without context), `K::1. mice` (real value `1. mice`), numbers / literals among the
FURTHER words (`K::1.5 2` → `1.5 2`, `K::1.5 true` → `1.5 true`, both `number_identifier`), an adjacent bracket behind the
last word (`K::1.5 mice[x]` → `1.5 mice`, the `[x]` discarded without record: finding C07N3), `+3 mice` (`+` is an operator),
values inside lists / blocks / META.
-/
import Octave.Lemmas.MwFloatBridge
import Octave.Model.Canon
import Octave.Props.C03expr
import Octave.Props.C07multiword
namespace Octave.C07
open Octave Lexer Emitter Parser FlatParse Spell Expr MW MWN MWB MWF

/-! ### lexer -/

theorem mwf_head_reps_norm (h : MfHead) (l c : Nat) : (h.reps l c).reverse.filter isNormalization = [] := by
  cases h with
  | word w => exact filter_idReps w l c
  | int i => rfl
  | str sv => rfl
  | bool b => rfl
  | null => rfl
  | ver d1 d2 d3 => rfl
  | num s sc => rfl

theorem mwfLineReps_norm (x : MfLine) (l : Nat) : (x.repsRev l 1).filter isNormalization = [] := by
  obtain ⟨key, v⟩ := x
  cases v with
  | sc v => simp only [MfLine.repsRev, MfVal.repsRev, List.filter_append, filter_idReps, scalar_reps_norm, List.append_nil]
  | nw m => simp only [MfLine.repsRev, MfVal.repsRev, List.filter_append, filter_idReps, mwf_head_reps_norm, mwTailReps_norm, List.append_nil]

/-- the lexer log of a document of the class holds NO normalisation record (the rewrite is made by the parser). -/
theorem mwfdocReps_norm (sl : List MfLine) : (mwfdocReps sl).filter isNormalization = [] := by
  have h : ∀ (sl : List MfLine) (l : Nat), (mwfLinesRepsRev l sl).filter isNormalization = [] := by
    intro sl
    induction sl with
    | nil => intro l; rfl
    | cons x r ih => intro l; simp only [mwfLinesRepsRev, List.filter_append, mwfLineReps_norm, ih, List.append_nil]
  rw [mwfdocReps, List.filter_reverse, h]; rfl

/-- **(a) the lexer** (both modes): exactly `mwfdocToks` and `mwfdocReps`. -/
theorem C07_mwfloat_lexes (env : Env) (lenient : Bool) (name : Str) (sl : List MfLine)
    (hn : isEnvName name = true) (hne : name ≠ "END".toList) (hok : ∀ x ∈ sl, x.OK) (hnum : ∀ x ∈ sl, x.NumOK env)
    (hnfc : ∀ l ∈ splitLines (mwfdocText name sl), env.nfc l = l) :
    tokenize env (mwfdocText name sl) lenient = .ok (mwfdocToks name sl, mwfdocReps sl) :=
  tokenize_mwfdoc env lenient name sl hn hne hok hnum hnfc

/-- … in which the tokens of a multi-word value written at line `l`, column `c` are ONE IDENTIFIER token per word, in
order: the head at `(l, c)`, every further word at its own column. -/
theorem C07_mwfloat_word_tokens (m : MfWords) (l c : Nat) :
    ∃ ts, ((MfVal.nw m).toksRev l c).reverse = m.head.tok l c :: ts ∧ MWToks (m.tail.map Prod.snd) ts :=
  ⟨(mwTailToksRev l (c + m.head.text.length) m.tail).reverse, by simp [MfVal.toksRev], mwTailToks_bridge l m.tail _⟩

/-! ### parser -/

/-- text level, given the lexer half: both entry points on a text that lexes to `mwfToks`. -/
theorem mwf_read_of_toks (env : Env) (text : Str) (reps : List Repair) (f : Frame) (name : Str) (lines : List MfQLine)
    (hs : Parser.stripFrontmatter env text = (text, none))
    (hlex : Lexer.tokenize env text = .ok (mwfToks f name lines, reps))
    (hwf : ∀ ln ∈ lines, ln.WF) (hm : mwfMetaFirst lines = false) :
    Parser.parse env text = .ok { name := name, sections := lines.map MfQLine.node } ∧
    Parser.parseWithWarnings env text
      = .ok ({ name := name, sections := lines.map MfQLine.node }, reps, mwfWarns [] lines) := by
  have hlex' : Lexer.tokenize env (Parser.stripFrontmatter env text).1 = .ok (mwfToks f name lines, reps) := by
    rw [hs]; exact hlex
  constructor
  · obtain ⟨st', h1, _⟩ := parseDocument_mwf f name lines hwf hm (Parser.initState env (mwfToks f name lines) true) rfl rfl
    rw [C02.parse_eq_parseToks env _ _ _ hlex', hs]
    unfold C02.parseToks
    simp only [StateT.run, h1, bind, Except.bind, pure, Except.pure, Except.map]
  · obtain ⟨st', h1, h2⟩ := parseDocument_mwf f name lines hwf hm (Parser.initState env (mwfToks f name lines) false) rfl rfl
    have h2' : st'.warnings = (mwfWarns [] lines).reverse := by
      rw [h2]; simp [Parser.initState]
    rw [C02.parseWithWarnings_eq_parseToks env _ _ _ hlex', hs]
    unfold C02.parseToksWithWarnings
    simp only [StateT.run, h1, h2', bind, Except.bind, pure, Except.pure, Except.map, List.reverse_reverse]

/-- the document every text of the class is read as: the flat document of the canonical lines, nodes positioned at their
keys (line `i + 2`, column 1). -/
abbrev mwfDoc (name : Str) (sl : List MfLine) : Document := flatDoc name (fun i => (i + 2, 1)) (mwfCanonLines sl)

/-- **the STRICT entry point `parse` accepts multi-word values** and returns the document whose values are the joined
strings — the same document, positions included, as for the canonical text. -/
theorem C07_mwfloat_read (env : Env) (name : Str) (sl : List MfLine)
    (hn : isEnvName name = true) (hne : name ≠ "END".toList) (hok : ∀ x ∈ sl, x.OK) (hnum : ∀ x ∈ sl, x.NumOK env)
    (hm : mwfFirstNotMeta sl = true)
    (hnfc : ∀ l ∈ splitLines (mwfdocText name sl), env.nfc l = l) :
    Parser.parse env (mwfdocText name sl) = .ok (mwfDoc name sl) := by
  have hlex := tokenize_mwfdoc env false name sl hn hne hok hnum hnfc
  rw [mwfdocToks_bridge] at hlex
  have h := (mwf_read_of_toks env (mwfdocText name sl) _ _ name _ (stripFrontmatter_mwfdoc env name sl) hlex
    (toMfQLines_wf sl hok 2) (mwfMetaFirst_bridge sl 2 hm)).1
  rw [h, mwf_qnodes_bridge sl 0]
  rfl

/-- **(b) the lenient entry point** (`parse_with_warnings`): the same document, exactly the lexer repairs `mwfdocReps` and
exactly the parser warnings `mwfWarns` of the lines. -/
theorem C07_mwfloat_read_lenient (env : Env) (name : Str) (sl : List MfLine)
    (hn : isEnvName name = true) (hne : name ≠ "END".toList) (hok : ∀ x ∈ sl, x.OK) (hnum : ∀ x ∈ sl, x.NumOK env)
    (hm : mwfFirstNotMeta sl = true)
    (hnfc : ∀ l ∈ splitLines (mwfdocText name sl), env.nfc l = l) :
    Parser.parseWithWarnings env (mwfdocText name sl)
      = .ok (mwfDoc name sl, mwfdocReps sl, mwfWarns [] (toMfQLines 2 sl)) := by
  have hlex := tokenize_mwfdoc env false name sl hn hne hok hnum hnfc
  rw [mwfdocToks_bridge] at hlex
  have h := (mwf_read_of_toks env (mwfdocText name sl) _ _ name _ (stripFrontmatter_mwfdoc env name sl) hlex
    (toMfQLines_wf sl hok 2) (mwfMetaFirst_bridge sl 2 hm)).2
  rw [h, mwf_qnodes_bridge sl 0]
  rfl

/-! ### C07: receipts -/

/-- **C07 for multi-word bare values**: reading a document of the class (lenient entry point) yields the document of the
canonical lines, a lexer log without normalisation record, and a warning list whose `multi_word_coalesce` records are, in
reading order, exactly `mwfReceipts`: ONE per multi-word line — the words as written, the string they became (joined by
one space), the line and the column of the first word — and none for a scalar line. -/
theorem C07_mwfloat_receipts (env : Env) (name : Str) (sl : List MfLine)
    (hn : isEnvName name = true) (hne : name ≠ "END".toList) (hok : ∀ x ∈ sl, x.OK) (hnum : ∀ x ∈ sl, x.NumOK env)
    (hm : mwfFirstNotMeta sl = true)
    (hnfc : ∀ l ∈ splitLines (mwfdocText name sl), env.nfc l = l) :
    ∃ reps warns, Parser.parseWithWarnings env (mwfdocText name sl) = .ok (mwfDoc name sl, reps, warns) ∧
      warns.filter isMultiWord = mwfReceipts 2 sl ∧ reps.filter isNormalization = [] :=
  ⟨_, _, C07_mwfloat_read_lenient env name sl hn hne hok hnum hm hnfc, mwfWarns_filter sl 2 [], mwfdocReps_norm sl⟩

/-- keys pairwise different, none of them `PATTERN` / `REGEX` (decidable): no duplicate-key and no auto-quote warning. -/
def mwfQuietKeys (sl : List MfLine) : Prop :=
  (sl.map MfLine.key).Nodup ∧ ∀ x ∈ sl, x.key ≠ "PATTERN".toList ∧ x.key ≠ "REGEX".toList

instance (sl : List MfLine) : Decidable (mwfQuietKeys sl) := by unfold mwfQuietKeys; infer_instance

theorem mwf_qline_warns_quiet (x : MfLine) (l : Nat) (hk : x.key ≠ "PATTERN".toList ∧ x.key ≠ "REGEX".toList) :
    (toMfQLine x l).warns = mwfLineReceipt l x := by
  obtain ⟨key, v⟩ := x
  cases v with
  | sc v =>
    have hp : ((FLine.mk key v).toP l).plain = true := by
      simp only [Line.plain, FLine.toP, beq_eq_false_iff_ne.2 hk.1, beq_eq_false_iff_ne.2 hk.2, Bool.or_self, Bool.and_false,
        Bool.not_false]
    exact (Line.warns_eq_nil_iff _).2 hp
  | nw m =>
    have ha : ∀ (val : Str) (a b : Nat), autoquote key val a b = [] := by
      intro val a b
      simp only [autoquote, beq_eq_false_iff_ne.2 hk.1, beq_eq_false_iff_ne.2 hk.2, Bool.or_self, Bool.false_eq_true, if_false]
    simp only [toMfQLine, MfQLine.warns, MfTLine.warnsRev, ha, ite_self, List.nil_append, List.reverse_cons, List.reverse_nil]
    rfl

theorem mwfWarns_quiet (sl : List MfLine) : ∀ (l : Nat) (kp : KeyPos), (sl.map MfLine.key).Nodup →
    (∀ x ∈ sl, x.key ≠ "PATTERN".toList ∧ x.key ≠ "REGEX".toList) → (∀ x ∈ sl, kp.lookup x.key = none) →
    mwfWarns kp (toMfQLines l sl) = mwfReceipts l sl := by
  induction sl with
  | nil => intro l kp _ _ _; rfl
  | cons x r ih =>
    intro l kp hnd hk hkp
    have h0 : kp.lookup x.key = none := hkp x (List.mem_cons_self ..)
    have htp : trackPure kp x.key l = (kp ++ [(x.key, [l])], []) := by
      unfold trackPure; rw [h0]
    rw [List.map_cons, List.nodup_cons] at hnd
    simp only [toMfQLines, mwfWarns, mwf_qkey_bridge, mwf_ql_bridge, htp, mwf_qline_warns_quiet x l (hk x (List.mem_cons_self ..)),
      List.append_nil, mwfReceipts]
    rw [ih (l + 1) _ hnd.2 (fun y hy => hk y (List.mem_cons_of_mem _ hy))]
    intro y hy
    apply lookup_append_none _ _ _ (hkp y (List.mem_cons_of_mem _ hy))
    have hne : y.key ≠ x.key := fun h => hnd.1 (h ▸ List.mem_map_of_mem hy)
    simp only [List.lookup_cons, List.lookup_nil]
    rw [beq_eq_false_iff_ne.2 hne]

/-- **… and nothing else**: with pairwise different keys, none of them `PATTERN` / `REGEX`, the warning list of
`parse_with_warnings` IS `mwfReceipts` — exactly one `multi_word_coalesce` record per multi-word line, in order. -/
theorem C07_mwfloat_receipts_exact (env : Env) (name : Str) (sl : List MfLine)
    (hn : isEnvName name = true) (hne : name ≠ "END".toList) (hok : ∀ x ∈ sl, x.OK) (hnum : ∀ x ∈ sl, x.NumOK env)
    (hm : mwfFirstNotMeta sl = true) (hq : mwfQuietKeys sl)
    (hnfc : ∀ l ∈ splitLines (mwfdocText name sl), env.nfc l = l) :
    Parser.parseWithWarnings env (mwfdocText name sl) = .ok (mwfDoc name sl, mwfdocReps sl, mwfReceipts 2 sl) := by
  rw [C07_mwfloat_read_lenient env name sl hn hne hok hnum hm hnfc, mwfWarns_quiet sl 2 [] hq.1 hq.2 (fun _ _ => rfl)]

/-! ### the canonical text -/

/-- a flat document seen as a document of the class (every value a scalar). -/
def mwfOfFlat (ls : List FLine) : List MfLine := ls.map fun ln => ⟨ln.key, .sc ln.v⟩

/-- the canonical form of a document of the class, as a document of the class: `KEY::"w0 w1 … wn"`. -/
def mwfCanon (sl : List MfLine) : List MfLine := mwfOfFlat (mwfCanonLines sl)

theorem mwfLinesText_ofFlat (ls : List FLine) : mwfLinesText (mwfOfFlat ls) = linesText ls := by
  induction ls with
  | nil => rfl
  | cons ln r ih =>
    simp only [mwfOfFlat, List.map_cons, mwfLinesText, linesText] at ih ⊢
    rw [ih]; rfl

/-- the text of the canonical form is the canonical text of the flat document. -/
theorem mwfdocText_ofFlat (name : Str) (ls : List FLine) : mwfdocText name (mwfOfFlat ls) = flatText name ls := by
  simp only [mwfdocText, flatText, mwfLinesText_ofFlat]

theorem mwfCanonLines_ofFlat (ls : List FLine) : mwfCanonLines (mwfOfFlat ls) = ls := by
  induction ls with
  | nil => rfl
  | cons ln r ih =>
    simp only [mwfCanonLines, mwfOfFlat, List.map_cons, List.map_map] at ih ⊢
    rw [ih]; rfl

theorem mwfReceipts_ofFlat (ls : List FLine) : ∀ l, mwfReceipts l (mwfOfFlat ls) = [] := by
  induction ls with
  | nil => intro l; rfl
  | cons ln r ih =>
    intro l
    have := ih (l + 1)
    simp only [mwfOfFlat, List.map_cons, mwfReceipts, mwfLineReceipt, List.nil_append] at this ⊢
    exact this

theorem mwfCanon_ok (sl : List MfLine) (hok : ∀ x ∈ sl, x.OK) : ∀ x ∈ mwfCanon sl, x.OK := by
  intro x hx
  simp only [mwfCanon, mwfOfFlat, mwfCanonLines, List.map_map, List.mem_map, Function.comp] at hx
  obtain ⟨y, hy, rfl⟩ := hx
  obtain ⟨key, v⟩ := y
  have := hok _ hy
  cases v with
  | sc v => exact this
  | nw m => exact ⟨this.1, this.2.1, trivial⟩

theorem mwfCanon_numOK (env : Env) (sl : List MfLine) : ∀ x ∈ mwfCanon sl, x.NumOK env := by
  intro x hx
  simp only [mwfCanon, mwfOfFlat, mwfCanonLines, List.map_map, List.mem_map, Function.comp] at hx
  obtain ⟨y, hy, rfl⟩ := hx
  trivial

theorem mwfCanon_keys (sl : List MfLine) : (mwfCanon sl).map MfLine.key = sl.map MfLine.key := by
  simp only [mwfCanon, mwfOfFlat, mwfCanonLines, List.map_map]
  rfl

theorem mwfCanon_firstNotMeta (sl : List MfLine) : mwfFirstNotMeta (mwfCanon sl) = mwfFirstNotMeta sl := by
  cases sl <;> rfl

theorem mwfCanon_quiet (sl : List MfLine) (h : mwfQuietKeys sl) : mwfQuietKeys (mwfCanon sl) := by
  refine ⟨by rw [mwfCanon_keys]; exact h.1, ?_⟩
  intro x hx
  simp only [mwfCanon, mwfOfFlat, mwfCanonLines, List.map_map, List.mem_map, Function.comp] at hx
  obtain ⟨y, hy, rfl⟩ := hx
  exact h.2 y hy

theorem mwfCanonLines_mwCanon (sl : List MfLine) : mwfCanonLines (mwfCanon sl) = mwfCanonLines sl := mwfCanonLines_ofFlat _

/-- **(c) canonical input yields none**: the canonical text `KEY::"w0 w1 … wn"` of a document of the class reads (lenient
entry point) as the SAME document, with no `multi_word_coalesce` record and no lexer normalisation record. -/
theorem C07_mwfloat_canonical_none (env : Env) (name : Str) (sl : List MfLine)
    (hn : isEnvName name = true) (hne : name ≠ "END".toList) (hok : ∀ x ∈ sl, x.OK)
    (hm : mwfFirstNotMeta sl = true)
    (hnfc : ∀ l ∈ splitLines (flatText name (mwfCanonLines sl)), env.nfc l = l) :
    ∃ reps warns, Parser.parseWithWarnings env (flatText name (mwfCanonLines sl)) = .ok (mwfDoc name sl, reps, warns) ∧
      warns.filter isMultiWord = [] ∧ reps.filter isNormalization = [] := by
  have hnfc' : ∀ l ∈ splitLines (mwfdocText name (mwfCanon sl)), env.nfc l = l := by
    rw [mwfCanon, mwfdocText_ofFlat]; exact hnfc
  obtain ⟨reps, warns, h1, h2, h3⟩ := C07_mwfloat_receipts env name (mwfCanon sl) hn hne (mwfCanon_ok sl hok) (mwfCanon_numOK env sl)
    (by rw [mwfCanon_firstNotMeta]; exact hm) hnfc'
  rw [mwfCanon, mwfdocText_ofFlat] at h1
  refine ⟨reps, warns, ?_, ?_, h3⟩
  · rw [h1]; simp only [mwfDoc, mwfCanonLines_ofFlat]
  · rw [h2, mwfCanon, mwfReceipts_ofFlat]

/-- … and, with quiet keys, no warning at all. -/
theorem C07_mwfloat_canonical_silent (env : Env) (name : Str) (sl : List MfLine)
    (hn : isEnvName name = true) (hne : name ≠ "END".toList) (hok : ∀ x ∈ sl, x.OK)
    (hm : mwfFirstNotMeta sl = true) (hq : mwfQuietKeys sl)
    (hnfc : ∀ l ∈ splitLines (flatText name (mwfCanonLines sl)), env.nfc l = l) :
    ∃ reps, Parser.parseWithWarnings env (flatText name (mwfCanonLines sl)) = .ok (mwfDoc name sl, reps, []) ∧
      reps.filter isNormalization = [] := by
  have hnfc' : ∀ l ∈ splitLines (mwfdocText name (mwfCanon sl)), env.nfc l = l := by
    rw [mwfCanon, mwfdocText_ofFlat]; exact hnfc
  have h1 := C07_mwfloat_receipts_exact env name (mwfCanon sl) hn hne (mwfCanon_ok sl hok) (mwfCanon_numOK env sl)
    (by rw [mwfCanon_firstNotMeta]; exact hm) (mwfCanon_quiet sl hq) hnfc'
  rw [mwfCanon, mwfdocText_ofFlat, mwfReceipts_ofFlat] at h1
  refine ⟨_, ?_, mwfdocReps_norm (mwfOfFlat (mwfCanonLines sl))⟩
  rw [h1]; simp only [mwfDoc, mwfCanonLines_ofFlat]

/-! ### C03: convergence -/

theorem mwfCanonLines_emitOK (sl : List MfLine) (hok : ∀ x ∈ sl, x.OK) (hem : ∀ x ∈ sl, x.EmitOK) :
    ∀ ln ∈ mwfCanonLines sl, ln.EmitOK := by
  intro ln hl
  obtain ⟨x, hx, rfl⟩ := List.mem_map.mp hl
  exact mwfcanon_emitOK x (hok x hx) (hem x hx)

/-- **(d) C03 for multi-word bare values: both canonicalisers map the multi-word spelling to the canonical text**
`KEY::"w0 w1 … wn"` — the strict one (`emit(parse(x))`: the strict reader accepts multi-word values) and the lenient one
(`emit(parse_with_warnings(x)[0])`). -/
theorem C03_mwfloat_converge (env : Env) (name : Str) (sl : List MfLine)
    (hn : isEnvName name = true) (hne : name ≠ "END".toList) (hok : ∀ x ∈ sl, x.OK) (hnum : ∀ x ∈ sl, x.NumOK env) (hem : ∀ x ∈ sl, x.EmitOK)
    (hm : mwfFirstNotMeta sl = true)
    (hnfc : ∀ l ∈ splitLines (mwfdocText name sl), env.nfc l = l) :
    canonStrict env (mwfdocText name sl) = .ok (flatText name (mwfCanonLines sl)) ∧
    canonLenient env (mwfdocText name sl) = .ok (flatText name (mwfCanonLines sl)) :=
  C03.canon_of_read env _ _ _ _ _ (C07_mwfloat_read env name sl hn hne hok hnum hm hnfc)
    (C07_mwfloat_read_lenient env name sl hn hne hok hnum hm hnfc)
    (emit_flat env name _ (mwfCanonLines sl) (mwfCanonLines_emitOK sl hok hem))

/-- **any two spacings of the same words (more generally: any two documents of the class with the same canonical lines)
canonicalise to identical bytes**, through both canonicalisers. -/
theorem C03_mwfloat_spacings_agree (env : Env) (name : Str) (sl₁ sl₂ : List MfLine)
    (hsame : mwfCanonLines sl₁ = mwfCanonLines sl₂)
    (hn : isEnvName name = true) (hne : name ≠ "END".toList)
    (hok₁ : ∀ x ∈ sl₁, x.OK) (hnum₁ : ∀ x ∈ sl₁, x.NumOK env) (hem₁ : ∀ x ∈ sl₁, x.EmitOK) (hm₁ : mwfFirstNotMeta sl₁ = true)
    (hok₂ : ∀ x ∈ sl₂, x.OK) (hnum₂ : ∀ x ∈ sl₂, x.NumOK env) (hem₂ : ∀ x ∈ sl₂, x.EmitOK) (hm₂ : mwfFirstNotMeta sl₂ = true)
    (hnfc₁ : ∀ l ∈ splitLines (mwfdocText name sl₁), env.nfc l = l)
    (hnfc₂ : ∀ l ∈ splitLines (mwfdocText name sl₂), env.nfc l = l) :
    canonStrict env (mwfdocText name sl₁) = canonStrict env (mwfdocText name sl₂) ∧
    canonLenient env (mwfdocText name sl₁) = canonLenient env (mwfdocText name sl₂) := by
  have h1 := C03_mwfloat_converge env name sl₁ hn hne hok₁ hnum₁ hem₁ hm₁ hnfc₁
  have h2 := C03_mwfloat_converge env name sl₂ hn hne hok₂ hnum₂ hem₂ hm₂ hnfc₂
  rw [← hsame] at h2
  exact ⟨by rw [h1.1, h2.1], by rw [h1.2, h2.2]⟩

/-- the canonical text is a fixed point of both canonicalisers. -/
theorem C03_mwfloat_canonical_fixed (env : Env) (name : Str) (sl : List MfLine)
    (hn : isEnvName name = true) (hne : name ≠ "END".toList) (hok : ∀ x ∈ sl, x.OK) (hem : ∀ x ∈ sl, x.EmitOK)
    (hm : mwfFirstNotMeta sl = true)
    (hnfc : ∀ l ∈ splitLines (flatText name (mwfCanonLines sl)), env.nfc l = l) :
    canonStrict env (flatText name (mwfCanonLines sl)) = .ok (flatText name (mwfCanonLines sl)) ∧
    canonLenient env (flatText name (mwfCanonLines sl)) = .ok (flatText name (mwfCanonLines sl)) := by
  have hnfc' : ∀ l ∈ splitLines (mwfdocText name (mwfCanon sl)), env.nfc l = l := by
    rw [mwfCanon, mwfdocText_ofFlat]; exact hnfc
  have hem' : ∀ x ∈ mwfCanon sl, x.EmitOK := by
    intro x hx
    simp only [mwfCanon, mwfOfFlat, List.mem_map] at hx
    obtain ⟨ln, hln, rfl⟩ := hx
    exact mwfCanonLines_emitOK sl hok hem ln hln
  have h := C03_mwfloat_converge env name (mwfCanon sl) hn hne (mwfCanon_ok sl hok) (mwfCanon_numOK env sl) hem'
    (by rw [mwfCanon_firstNotMeta]; exact hm) hnfc'
  rw [mwfCanonLines_mwCanon, mwfCanon, mwfdocText_ofFlat] at h
  exact h



/-! ### non-vacuity -/

/-- an environment in which `repr(float("1.50"))` is `1.5` (as in Python); everything else as `Env.ascii`. -/
def mwfEnv : Env := { Env.ascii with floatRepr := fun s => if s = "1.50".toList then "1.5".toList else s }

/-- a float with a trailing zero (token value `1.5`, raw `1.50`), an exponent (uneven spacing), leading zeros (`int` 7, raw
`007`), negative zero, an exponent with `+`, a plain integer head, a plain float scalar, a boolean head. -/
def mwfEx : List MfLine :=
  [ ⟨"K".toList, .nw ⟨.num "1.50".toList (.float "1.5".toList "1.50".toList), [(0, "mice".toList)]⟩⟩,
    ⟨"L".toList, .nw ⟨.num "1e3".toList (.float "1e3".toList "1e3".toList), [(1, "big".toList), (2, "rocks".toList)]⟩⟩,
    ⟨"M".toList, .nw ⟨.num "007".toList (.int 7 "007".toList), [(0, "agents".toList)]⟩⟩,
    ⟨"N".toList, .nw ⟨.num "-0.0".toList (.float "-0.0".toList "-0.0".toList), [(0, "degrees".toList)]⟩⟩,
    ⟨"O".toList, .nw ⟨.num "2.5E+10".toList (.float "2.5E+10".toList "2.5E+10".toList), [(0, "stars".toList)]⟩⟩,
    ⟨"P".toList, .nw ⟨.num "-12".toList (.int (-12) "-12".toList), [(0, "below".toList)]⟩⟩,
    ⟨"Q".toList, .sc (.int 7)⟩,
    ⟨"R".toList, .nw ⟨.bool true, [(0, "mice".toList)]⟩⟩ ]

def mwfExText : Str :=
  "===D===\nK::1.50 mice\nL::1e3  big   rocks\nM::007 agents\nN::-0.0 degrees\nO::2.5E+10 stars\nP::-12 below\nQ::7\nR::true mice\n===END===\n".toList
def mwfExCanon : Str :=
  "===D===\nK::\"1.50 mice\"\nL::\"1e3 big rocks\"\nM::\"007 agents\"\nN::\"-0.0 degrees\"\nO::\"2.5E+10 stars\"\nP::\"-12 below\"\nQ::7\nR::\"true mice\"\n===END===\n".toList

theorem mwfEx_ok : ∀ x ∈ mwfEx, x.OK := by
  intro x h
  simp only [mwfEx, List.mem_cons, List.mem_nil_iff, or_false] at h
  rcases h with rfl | rfl | rfl | rfl | rfl | rfl | rfl | rfl
  · exact ⟨by decide, by decide, ⟨by decide, rfl⟩, by decide, by decide⟩
  · exact ⟨by decide, by decide, ⟨by decide, rfl⟩, by decide, by decide⟩
  · exact ⟨by decide, by decide, ⟨by decide, rfl⟩, by decide, by decide⟩
  · exact ⟨by decide, by decide, ⟨by decide, rfl⟩, by decide, by decide⟩
  · exact ⟨by decide, by decide, ⟨by decide, rfl⟩, by decide, by decide⟩
  · exact ⟨by decide, by decide, ⟨by decide, rfl⟩, by decide, by decide⟩
  · exact ⟨by decide, by decide, by unfold MfVal.OK FScalar.OK; decide⟩
  · exact ⟨by decide, by decide, trivial, by decide, by decide⟩

/-- every lexeme of the example is representable in `mwfEnv`, and the scalar named is the one the lexer makes. -/
theorem mwfEx_num : ∀ x ∈ mwfEx, x.NumOK mwfEnv := by
  intro x h
  simp only [mwfEx, List.mem_cons, List.mem_nil_iff, or_false] at h
  rcases h with rfl | rfl | rfl | rfl | rfl | rfl | rfl | rfl
  · exact ⟨by unfold C13.Representable; decide, by decide⟩
  · exact ⟨by unfold C13.Representable; decide, by decide⟩
  · exact ⟨by unfold C13.Representable; decide, by decide⟩
  · exact ⟨by unfold C13.Representable; decide, by decide⟩
  · exact ⟨by unfold C13.Representable; decide, by decide⟩
  · exact ⟨by unfold C13.Representable; decide, by decide⟩
  · trivial
  · trivial

theorem mwfEx_emit : ∀ x ∈ mwfEx, x.EmitOK := by
  intro x h
  simp only [mwfEx, List.mem_cons, List.mem_nil_iff, or_false] at h
  rcases h with rfl | rfl | rfl | rfl | rfl | rfl | rfl | rfl
  · trivial
  · trivial
  · trivial
  · trivial
  · trivial
  · trivial
  · unfold MfLine.EmitOK FLine.EmitOK; decide
  · trivial

example : mwfdocText "D".toList mwfEx = mwfExText := by decide +kernel
example : flatText "D".toList (mwfCanonLines mwfEx) = mwfExCanon := by decide +kernel
example : mwfQuietKeys mwfEx := by decide

/-- (a) the lexer, by the theorem; the NUMBER token carries the VALUE (`1.5`, `7`) and the RAW lexeme (`1.50`, `007`). -/
example : tokenize mwfEnv mwfExText false = .ok (mwfdocToks "D".toList mwfEx, mwfdocReps mwfEx) := by
  have h := C07_mwfloat_lexes mwfEnv false "D".toList mwfEx (by decide) (by decide) mwfEx_ok mwfEx_num (fun _ _ => rfl)
  have e : mwfdocText "D".toList mwfEx = mwfExText := by decide +kernel
  rw [e] at h; exact h

/-- (b) the receipts owed, as literals: one per multi-word line, at the head, context `number_identifier`; the RAW lexeme
is kept (`1.50`, `007`, `-0.0`, `2.5E+10`), the parts are joined by ONE space. -/
example : mwfReceipts 2 mwfEx =
    [ .multiWord ["1.50".toList, "mice".toList] "1.50 mice".toList "number_identifier".toList 2 4,
      .multiWord ["1e3".toList, "big".toList, "rocks".toList] "1e3 big rocks".toList "number_identifier".toList 3 4,
      .multiWord ["007".toList, "agents".toList] "007 agents".toList "number_identifier".toList 4 4,
      .multiWord ["-0.0".toList, "degrees".toList] "-0.0 degrees".toList "number_identifier".toList 5 4,
      .multiWord ["2.5E+10".toList, "stars".toList] "2.5E+10 stars".toList "number_identifier".toList 6 4,
      .multiWord ["-12".toList, "below".toList] "-12 below".toList "number_identifier".toList 7 4,
      .multiWord ["true".toList, "mice".toList] "true mice".toList "boolean_multiword".toList 9 4 ] := by decide +kernel
example : (mwfReceipts 2 mwfEx).length = 7 := by rw [mwfReceipts_length]; rfl

/-- the theorems applied (not evaluated). -/
example : Parser.parseWithWarnings mwfEnv mwfExText = .ok (mwfDoc "D".toList mwfEx, mwfdocReps mwfEx, mwfReceipts 2 mwfEx) := by
  have h := C07_mwfloat_receipts_exact mwfEnv "D".toList mwfEx (by decide) (by decide) mwfEx_ok mwfEx_num (by decide) (by decide) (fun _ _ => rfl)
  have e : mwfdocText "D".toList mwfEx = mwfExText := by decide +kernel
  rw [e] at h; exact h

example : ∃ reps warns, Parser.parseWithWarnings mwfEnv (mwfdocText "D".toList mwfEx) = .ok (mwfDoc "D".toList mwfEx, reps, warns) ∧
    warns.filter isMultiWord = mwfReceipts 2 mwfEx ∧ reps.filter isNormalization = [] :=
  C07_mwfloat_receipts mwfEnv "D".toList mwfEx (by decide) (by decide) mwfEx_ok mwfEx_num (by decide) (fun _ _ => rfl)

example : Parser.parse mwfEnv (mwfdocText "D".toList mwfEx) = .ok (mwfDoc "D".toList mwfEx) :=
  C07_mwfloat_read mwfEnv "D".toList mwfEx (by decide) (by decide) mwfEx_ok mwfEx_num (by decide) (fun _ _ => rfl)

/-- the value read for `K::1.50 mice` is the STRING `1.50 mice` (raw lexeme, not `1.5 mice`). -/
example : (mwfDoc "D".toList mwfEx).sections.head? = some (.assign "K".toList (.str "1.50 mice".toList) 2 1 [] none) := rfl

example : ∃ reps, Parser.parseWithWarnings mwfEnv (flatText "D".toList (mwfCanonLines mwfEx)) = .ok (mwfDoc "D".toList mwfEx, reps, []) ∧
    reps.filter isNormalization = [] :=
  C07_mwfloat_canonical_silent mwfEnv "D".toList mwfEx (by decide) (by decide) mwfEx_ok (by decide) (by decide) (fun _ _ => rfl)

example : ∃ reps warns, Parser.parseWithWarnings mwfEnv (flatText "D".toList (mwfCanonLines mwfEx)) = .ok (mwfDoc "D".toList mwfEx, reps, warns) ∧
    warns.filter isMultiWord = [] ∧ reps.filter isNormalization = [] :=
  C07_mwfloat_canonical_none mwfEnv "D".toList mwfEx (by decide) (by decide) mwfEx_ok (by decide) (fun _ _ => rfl)

example : canonStrict mwfEnv mwfExText = .ok mwfExCanon ∧ canonLenient mwfEnv mwfExText = .ok mwfExCanon := by
  have h := C03_mwfloat_converge mwfEnv "D".toList mwfEx (by decide) (by decide) mwfEx_ok mwfEx_num mwfEx_emit (by decide) (fun _ _ => rfl)
  have e1 : mwfdocText "D".toList mwfEx = mwfExText := by decide +kernel
  have e2 : flatText "D".toList (mwfCanonLines mwfEx) = mwfExCanon := by decide +kernel
  rw [e1, e2] at h; exact h

example : canonStrict mwfEnv (flatText "D".toList (mwfCanonLines mwfEx)) = .ok (flatText "D".toList (mwfCanonLines mwfEx)) ∧
    canonLenient mwfEnv (flatText "D".toList (mwfCanonLines mwfEx)) = .ok (flatText "D".toList (mwfCanonLines mwfEx)) :=
  C03_mwfloat_canonical_fixed mwfEnv "D".toList mwfEx (by decide) (by decide) mwfEx_ok mwfEx_emit (by decide) (fun _ _ => rfl)

/-- `mwfRaw (numScalar env s) = some s` always holds (the lexer's `raw` IS the lexeme). -/
theorem mwf_numScalar_raw (env : Env) (s : Str) : mwfRaw (C13.numScalar env s) = some s := by
  unfold C13.numScalar; split <;> rfl

/-- ANY lexeme, ANY environment, ANY spacing: `K::<s> blind mice` with `s` a representable NUMBER lexeme canonicalises to
`K::"<s> blind mice"` (raw lexeme kept). -/
example (env : Env) (s : Str) (g1 g2 : Nat) (hs : C13.pyNumberFull s = true) (hrep : C13.Representable env s)
    (hnfc : ∀ l ∈ splitLines (mwfdocText "D".toList
      [⟨"K".toList, .nw ⟨.num s (C13.numScalar env s), [(g1, "blind".toList), (g2, "mice".toList)]⟩⟩]), env.nfc l = l) :
    canonLenient env (mwfdocText "D".toList [⟨"K".toList, .nw ⟨.num s (C13.numScalar env s), [(g1, "blind".toList), (g2, "mice".toList)]⟩⟩])
      = .ok (flatText "D".toList [⟨"K".toList, .qstr (spaceJoin [s, "blind".toList, "mice".toList])⟩]) := by
  have h := (C03_mwfloat_converge env "D".toList [⟨"K".toList, .nw ⟨.num s (C13.numScalar env s), [(g1, "blind".toList), (g2, "mice".toList)]⟩⟩]
    (by decide) (by decide)
    (by
      intro x hx; simp only [List.mem_singleton] at hx; subst hx
      refine ⟨(by decide : isIdentifierText "K".toList = true), (by decide : hasReservedPrefix "K".toList = false),
        ⟨hs, mwf_numScalar_raw env s⟩, ?_, by simp⟩
      intro p hp
      simp only [List.mem_cons, List.mem_nil_iff, or_false] at hp
      rcases hp with rfl | rfl
      · exact (by decide : wordOK "blind".toList)
      · exact (by decide : wordOK "mice".toList))
    (by intro x hx; simp only [List.mem_singleton] at hx; subst hx; exact ⟨hrep, rfl⟩)
    (by intro x hx; simp only [List.mem_singleton] at hx; subst hx; trivial)
    rfl hnfc).2
  rw [h]
  rfl

/-- … and its receipt, whatever the spacing and the scalar: the parts (RAW lexeme), the joined string, `number_identifier`,
line 2, column 4. -/
example (s : Str) (sc : FlatParse.Scalar) (g1 g2 : Nat) :
    mwfReceipts 2 [⟨"K".toList, .nw ⟨.num s sc, [(g1, "blind".toList), (g2, "mice".toList)]⟩⟩]
      = [.multiWord [s, "blind".toList, "mice".toList] (spaceJoin [s, "blind".toList, "mice".toList]) "number_identifier".toList 2 4] := rfl

/-! ### the whole model evaluated on the concrete texts (independent of the theorems) -/

example : isOkDoc (Parser.parse mwfEnv mwfExText) (mwfDoc "D".toList mwfEx) = true := by decide +kernel
example : isOkStr (canonLenient mwfEnv mwfExText) mwfExCanon = true := by decide +kernel
example : isOkStr (canonStrict mwfEnv mwfExText) mwfExCanon = true := by decide +kernel
example : isOkStr (canonLenient mwfEnv mwfExCanon) mwfExCanon = true := by decide +kernel

end Octave.C07
