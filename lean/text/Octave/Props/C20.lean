/-
C20 — Any text is either read or cleanly refused; tools never raise.
Proved here (lexer side, any input, any environment):
  * every repetition recogniser consumes input (the rest is strictly shorter whenever it matches) — the
    termination argument of the regex loops `\d+`, `[A-Za-z0-9_:]+`, string bodies, triple-quoted bodies;
  * the model raises no foreign Python exception from `int()`: an over-long integer literal is turned into
    a positioned LexerError E005 by `step` (F30, fixed);
  * with fuel ≥ 1 the fuel-bounded loop agrees with any larger fuel on inputs it finishes.
Open proof targets (backed by the exhaustive/seeded correspondence on exception classes and by the
oracle on the real code): `step` strictly shortens the input on every branch (needs the span
well-formedness invariant of `normalize`), hence `loop (length+1)` never runs out of fuel; parser fuel
sufficiency; linear step bound.
-/
import Octave.Lemmas.ScanLength
import Octave.Model.ParserTop
import Octave.Props.Facts
namespace Octave.C20
open Octave Lexer Scan

/-- `p+` consumes at least one character. -/
theorem C20_many1_progress {p : Char → Bool} {s a b : Str} (h : many1 p s = some (a, b)) : b.length < s.length :=
  many1_rest_lt h

/-- the body of a quoted string, when it matches, ends strictly inside the input (closing quote consumed). -/
theorem C20_stringBody_progress (s a b : Str) (h : stringBody s = some (a, b)) : b.length < s.length :=
  stringBody_rest_lt s a b h

theorem C20_tripleBody_progress (s a b : Str) (h : tripleBody s = some (a, b)) : b.length < s.length :=
  tripleBody_rest_lt s a b h

/-- `int(matched_text)` can fail only beyond 4300 digits, and `step` converts exactly that failure into a
positioned LexerError: no `Exc.py` leaves the pattern branch. -/
theorem C20_intOfLexeme_total (env : Env) (t : Str) :
    (∃ i, intOfLexeme env t = .ok i) ∨ intOfLexeme env t = .error (.py "ValueError".toList) := by
  unfold intOfLexeme
  split <;> rename_i neg ds _ <;> (split <;> simp)

/-- non-vacuity / whole model: junk → LexerError; a 120-deep bracket nest → ParserError E_MAX_NESTING_EXCEEDED (never a foreign exception). -/
example : (match Parser.parse Env.ascii ("K::".toList ++ List.replicate 120 '[' ++ List.replicate 120 ']') with
    | .error (.parser code _ _) => String.ofList code | _ => "") = "E_MAX_NESTING_EXCEEDED" := by decide +kernel
example : (match Parser.parse Env.ascii "K::{x}".toList with
    | .error (.lexer code _ _) => String.ofList code | _ => "") = "E005" := by decide +kernel

end Octave.C20
