/-
C20 — Any text is either read or cleanly refused; tools never raise.
Proved here (lexer side; every input text, every environment, both lexer modes):
  * `C20_lexer_closed`: `tokenize` returns tokens or raises its own positioned LexerError — never a foreign Python
    exception (the over-long integer literal, F30, is re-raised as LexerError E005) and never the model's
    out-of-fuel marker;
  * `C20_lexer_progress`: every iteration of the main loop on a non-empty remaining input strictly shortens it
    (fence-span branch, indentation / inline-space branch, every token pattern, `+`, identifiers with annotation
    tails, the `%` merge) — this IS the termination argument of the Python `while pos < len(content)` loop;
  * `C20_lexer_no_hang`: with fuel = length + 1 the loop never runs out of fuel;
  * `C20_fence_spans_wellformed`: the normaliser only produces non-empty fence spans (the invariant the
    fence branch needs to make progress).
Open proof targets (backed by the exhaustive/seeded correspondence on exception classes and by the oracle on the
real code): parser fuel sufficiency and closedness; a linear bound on the number of steps (the quadratic
rescans F31/F32 are fixed in the code; the model charges no cost).
-/
import Octave.Lemmas.LexerClosed
import Octave.Model.ParserTop
import Octave.Props.Facts
namespace Octave.C20
open Octave Lexer Scan

/-- `p+` consumes at least one character. -/
theorem C20_many1_progress {p : Char → Bool} {s a b : Str} (h : many1 p s = some (a, b)) : b.length < s.length :=
  many1_rest_lt h

/-- the body of a quoted string, when it matches, ends strictly inside the input (closing quote consumed). -/
theorem C20_stringBody_progress (s a b : Str) (h : stringBody s = some (a, b)) : b.length < s.length :=
  stringBody_rest_lt s a b h

theorem C20_tripleBody_progress (s a b : Str) (h : tripleBody s = some (a, b)) : b.length < s.length :=
  tripleBody_rest_lt s a b h

/-- `int(matched_text)` can fail only beyond 4300 digits, and `step` converts exactly that failure into a
positioned LexerError: no `Exc.py` leaves the pattern branch. -/
theorem C20_intOfLexeme_total (env : Env) (t : Str) :
    (∃ i, intOfLexeme env t = .ok i) ∨ intOfLexeme env t = .error (.py "ValueError".toList) := by
  unfold intOfLexeme
  split <;> rename_i neg ds _ <;> (split <;> simp)

/-- non-vacuity / whole model: junk → LexerError; a 120-deep bracket nest → ParserError E_MAX_NESTING_EXCEEDED (never a foreign exception). -/
example : (match Parser.parse Env.ascii ("K::".toList ++ List.replicate 120 '[' ++ List.replicate 120 ']') with
    | .error (.parser code _ _) => String.ofList code | _ => "") = "E_MAX_NESTING_EXCEEDED" := by decide +kernel
example : (match Parser.parse Env.ascii "K::{x}".toList with
    | .error (.lexer code _ _) => String.ofList code | _ => "") = "E005" := by decide +kernel

/-- **The lexer is closed.** -/
theorem C20_lexer_closed (env : Env) (content : Str) (lenient : Bool) (e : Exc)
    (h : tokenize env content lenient = .error e) : ∃ code l c, e = .lexer code l c :=
  tokenize_closed env content lenient e h

/-- **Scanner progress.** -/
theorem C20_lexer_progress (env : Env) (lenient : Bool) (st st' : LState) (s s' : Str)
    (hs : s ≠ []) (hok : SpansOK st.spans) (h : step env lenient st s = .ok (st', s')) :
    s'.length < s.length ∧ SpansOK st'.spans :=
  step_progress env lenient st st' s s' hs hok h

/-- **No hang.** -/
theorem C20_lexer_no_hang (env : Env) (lenient : Bool) (st : LState) (s : Str) (hok : SpansOK st.spans) :
    loop env lenient (s.length + 1) st s ≠ .error .fuel :=
  loop_never_out_of_fuel env lenient (s.length + 1) st s (Nat.lt_succ_self _) hok

theorem C20_fence_spans_wellformed (env : Env) (content norm : Str) (spans : List Span)
    (h : normalize env content = .ok (norm, spans)) : SpansOK spans :=
  normalize_spans_ok env content norm spans h

/-- every token pattern consumes at least one character. -/
theorem C20_pattern_progress {env : Env} {z : Bool} {prev : Option Char} {s : Str} {m : Match}
    (h : matchPattern env z prev s = .ok (some m)) : m.rest.length < s.length := matchPattern_rest_lt h

/-- non-vacuity: `SpansOK` holds initially and for a real document with two zones. -/
example : SpansOK ({} : LState).spans := fun _ h => by simp at h
example : (match normalize Env.ascii "K::\n```\nx\n```\nL::\n````py\n```\n````\n".toList with
    | .ok (_, spans) => spans.map (fun (sp : Span) => (sp.start, sp.stop)) | .error _ => []) = [(4, 13), (18, 33)] := by decide +kernel

end Octave.C20
