/-
C13 — what a compiled grammar can generate, the validator accepts: the READER SIDE.

The `gbnf` engine proves which texts each compiled fragment derives (`C13_number_language`: derivable ⇒ `pyNumberFull s`;
`C13_boolean_language`: `true` / `false`; `C13_const_language`, `C13_enum_language`: the literal texts) and takes the
reader as a parameter `accepts : Str → Bool`.  Here the reader is the text engine's model of the real lexer + parser, and the
statements are about `Parser.parse env (fieldText F s)` where `fieldText F s` is the document

    ===D===
    F::s
    ===END===

Hypotheses common to all theorems: `KeyOK F` (identifier-shaped field name, no reserved-word prefix, not `META`) and
`NfcStable env F s` (the environment's NFC leaves the four ASCII lines alone — true of CPython).
-/
import Octave.Lemmas.C13Reader
import Octave.Props.C01roundtrip
namespace Octave.C13
open Octave Lexer Emitter

/-- **every scalar the flat-document theorem covers** (`FScalar`: quoted string, bare word, boolean, null, canonical integer),
as the value of the one field: read without error as the document with the single assignment `F::value`. -/
theorem C13_scalar_read (env : Env) (F : Str) (v : FScalar) (hF : KeyOK F) (hv : v.OK) (hnfc : NfcStable env F v.text) :
    Parser.parse env (fieldText F v.text) = .ok (fieldDoc F v.value) := by
  have hok : ∀ ln ∈ [(⟨F, v⟩ : FLine)], ln.OK := by
    intro ln hln
    have : ln = ⟨F, v⟩ := by simpa using hln
    subst this; exact ⟨hF.1, hF.2.1, hv⟩
  have hm : C01.firstNotMeta [(⟨F, v⟩ : FLine)] = true := by
    simp only [C01.firstNotMeta, Bool.not_eq_true', beq_eq_false_iff_ne, ne_eq]
    exact hF.2.2
  have hsplit := splitLines_fieldText F v.text hF.noNl (fun d hd => (scalar_clean v hv d hd).1)
  rw [fieldText_flat] at hsplit ⊢
  rw [fieldDoc_flat]
  exact C01.C01_flat_canonical_is_readable env "D".toList _ (by decide) (by decide) hok hm (by rw [hsplit]; exact hnfc)

/-- **BOOLEAN, CONST[true], CONST[false]**: `F::true` / `F::false` are read as the boolean `true` / `false`. -/
theorem C13_boolean_read (env : Env) (F : Str) (hF : KeyOK F) :
    (NfcStable env F "true".toList → Parser.parse env (fieldText F "true".toList) = .ok (fieldDoc F (.bool true))) ∧
    (NfcStable env F "false".toList → Parser.parse env (fieldText F "false".toList) = .ok (fieldDoc F (.bool false))) :=
  ⟨fun h => C13_scalar_read env F (.bool true) hF trivial h, fun h => C13_scalar_read env F (.bool false) hF trivial h⟩

/-- **CONST[null]**: `F::null` is read as null. -/
theorem C13_null_read (env : Env) (F : Str) (hF : KeyOK F) (hnfc : NfcStable env F "null".toList) :
    Parser.parse env (fieldText F "null".toList) = .ok (fieldDoc F .null) :=
  C13_scalar_read env F .null hF trivial hnfc

/-- a bare word the lexer reads as ONE IDENTIFIER token: `[A-Za-z_][A-Za-z0-9_.-]*` not ending in `-`
(`isIdentifierText`), with no reserved word `true|false|null|vs` at its start or right after an operator character
(`hasReservedPrefix`).  Decidable. -/
def BareWord (w : Str) : Prop := isIdentifierText w = true ∧ hasReservedPrefix w = false

instance (w : Str) : Decidable (BareWord w) := by unfold BareWord; infer_instance

/-- **CONST / ENUM members that are bare words**: `F::w` is read as the STRING `w` (not a boolean, number or null). -/
theorem C13_bareword_read (env : Env) (F w : Str) (hF : KeyOK F) (hw : BareWord w) (hnfc : NfcStable env F w) :
    Parser.parse env (fieldText F w) = .ok (fieldDoc F (.str w)) :=
  C13_scalar_read env F (.bare w) hF hw hnfc

/-! ### non-vacuity (stage 1) -/

theorem nfcStable_ascii (F s : Str) : NfcStable Env.ascii F s := fun _ _ => rfl

example : KeyOK "F".toList ∧ KeyOK "STATUS".toList ∧ KeyOK "a.b-c_1".toList ∧ ¬ KeyOK "META".toList ∧ ¬ KeyOK "1F".toList ∧
    ¬ KeyOK "true".toList ∧ ¬ KeyOK "A B".toList := by decide
example : BareWord "ACTIVE".toList ∧ BareWord "in_progress".toList ∧ BareWord "v1.2-rc".toList ∧ BareWord "truely".toList ∧
    BareWord "nullable".toList := by decide

example : Parser.parse Env.ascii (fieldText "F".toList "ACTIVE".toList) = .ok (fieldDoc "F".toList (.str "ACTIVE".toList)) :=
  C13_bareword_read Env.ascii _ _ (by decide) (by decide) (nfcStable_ascii _ _)
example : Parser.parse Env.ascii (fieldText "F".toList "true".toList) = .ok (fieldDoc "F".toList (.bool true)) :=
  (C13_boolean_read Env.ascii _ (by decide)).1 (nfcStable_ascii _ _)
example : Parser.parse Env.ascii (fieldText "F".toList "null".toList) = .ok (fieldDoc "F".toList .null) :=
  C13_null_read Env.ascii _ (by decide) (nfcStable_ascii _ _)

end Octave.C13
