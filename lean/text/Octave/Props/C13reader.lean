/-
C13 — what a compiled grammar can generate, the validator accepts: the READER SIDE.

The `gbnf` engine proves which texts each compiled fragment derives (`C13_number_language`: derivable ⇒ `pyNumberFull s`;
`C13_boolean_language`: `true` / `false`; `C13_const_language`, `C13_enum_language`: the literal texts) and takes the
reader as a parameter `accepts : Str → Bool`.  Here the reader is the text engine's model of the real lexer + parser, and the
statements are about `Parser.parse env (fieldText F s)` where `fieldText F s` is the document

    ===D===
    F::s
    ===END===

and the result is `fieldDoc F v`: the document named `D` with exactly one section, the assignment `F` with value `v`
(at line 2, column 1), nothing else (no META, no separator, no comments).

Hypotheses common to all theorems: `KeyOK F` (identifier-shaped field name `[A-Za-z_][A-Za-z0-9_.-]*` not ending in `-`, no
reserved-word prefix, not `META`) and `NfcStable env F s` (the environment's NFC leaves the four ASCII lines alone — true of
CPython; `Env.nfc` is an arbitrary function in the model).  On the real code: `META::1` → ParserError E001 at 2:5 (the
line is taken for the META block header), `true::1` → a document with NO section, `1F::1` → the assignment `F` = 1.

  * `C13_boolean_read`, `C13_null_read`   `F::true` / `F::false` / `F::null` are read as the boolean / null.
  * `C13_bareword_read`                   `F::w` is read as the STRING `w` for every `BareWord w`.
  * `C13_number_read`                     for EVERY `s` with `pyNumberFull s` (the predicate of `gbnf/Octave/Spec/PyNumber.lean`,
      copied verbatim into `Lemmas/C13Reader.lean`: every full match of `-?\d+\.?\d*(?:[eE][+-]?\d+)?` with ASCII digits)
      that is `Representable`, `F::s` is read as the NUMBER value `numberValue env s`:
        - no `.`, `e`, `E` in `s` (`isIntLexeme`): the INT `intOfText s` = sign · decimal value of the digits, leading zeros
          ignored (`-0` → int 0, `007` → int 7); representable = at most 4300 digits, leading zeros counted (CPython's limit);
        - otherwise the FLOAT `repr(float(s))` (`env.floatRepr s`; `1.`, `1.0`, `1e5`, `1E+5`, `1.e5` are all floats;
          `Env.ascii.floatRepr` is the identity, CPython gives `1.0`, `1.0`, `100000.0`, …); representable = `float(s)` is not
          `inf` / `-inf`, which is exactly the test of the lexer's overflow refusal (fix 70ba9a7).
      `C13_number_typed`: that value is an int or a float — never a string, boolean or null.
      `C13_number_read_gbnf`: the same for the compiled NUMBER fragment's own language `gbnfNumber` (`-`? digit+ (`.` digit+)?),
      via `gbnfNumber_pyNumberFull`; there the value is an int exactly when the text has no `.` (`C13_number_gbnf_value`).
      The theorem is at FULL strength for `pyNumberFull` (not `_partial`): the only guard is
      representability.
  * `C13_number_refused`                  the two excluded regions, for ALL inputs: a `pyNumberFull` text that is NOT
      representable makes the reader raise LexerError E005 at line 2, column `1 + |F| + 2` (the first character of the value).
      These are the open findings C13N3 (more than 4300 digits: derivable from TYPE[NUMBER], refused) and C13N4 (float
      overflow: `1` followed by 309 zeros `.0` is derivable, refused).  Witnesses: `C13N3_witness` (4301 digits, run through
      the theorem and `decide +kernel` on the hypotheses), `C13N4_witness` (any environment whose `float()` overflows there).

What `BareWord` EXCLUDES (the neighbourhood of open finding C13N2 — CONST / ENUM literals are raw text, not OCTAVE value
syntax), with what the real code (`octave_mcp.parse`) returns for `F::<text>` there:
    `hello world` → str 'hello world' (accepted, by multi-word coalescing: outside the predicate, not proved);
    `a/b` → str 'a/b' (accepted; `/` is an identifier char of the lexer but not of the emitter's IDENTIFIER_PATTERN);
    `9lives` → str '9 lives' (MISREAD);   `a,b` → str 'a' (MISREAD);   `#tag` → str '§tag' (MISREAD);
    `a&b` → 'a∧b', `x->y` → 'x→y', `A+B` → 'A⊕B' (MISREAD: operator aliases);   `vs` → str '⇌' (MISREAD);
    `null.x` → str 'null .x' (MISREAD);   `"true"` → str 'true' (quotes removed);
    `true-x` → LexerError E005 at 2:8;   `a-` → LexerError E005 at 2:5;   the empty text → null-ish / no value.
  NOT excluded (covered by `C13_bareword_read`): `True`, `NULL`, `False` (wrong-case words are plain identifiers: read as
  the strings 'True', 'NULL', 'False', with a lexer receipt), `truely`, `nullable`, `vsx`, `a.`, `a..b`, `v1.2-rc`.
  The necessity examples at the end run the model at these points.
-/
import Octave.Lemmas.C13Reader
import Octave.Props.C01roundtrip
namespace Octave.C13
open Octave Lexer Emitter

/-- **every scalar the flat-document theorem covers** (`FScalar`: quoted string, bare word, boolean, null, canonical integer),
as the value of the one field: read without error as the document with the single assignment `F::value`. -/
theorem C13_scalar_read (env : Env) (F : Str) (v : FScalar) (hF : KeyOK F) (hv : v.OK) (hnfc : NfcStable env F v.text) :
    Parser.parse env (fieldText F v.text) = .ok (fieldDoc F v.value) := by
  have hok : ∀ ln ∈ [(⟨F, v⟩ : FLine)], ln.OK := by
    intro ln hln
    have : ln = ⟨F, v⟩ := by simpa using hln
    subst this; exact ⟨hF.1, hF.2.1, hv⟩
  have hm : C01.firstNotMeta [(⟨F, v⟩ : FLine)] = true := by
    simp only [C01.firstNotMeta, Bool.not_eq_true', beq_eq_false_iff_ne, ne_eq]
    exact hF.2.2
  have hsplit := splitLines_fieldText F v.text hF.noNl (fun d hd => (scalar_clean v hv d hd).1)
  rw [fieldText_flat] at hsplit ⊢
  rw [fieldDoc_flat]
  exact C01.C01_flat_canonical_is_readable env "D".toList _ (by decide) (by decide) hok hm (by rw [hsplit]; exact hnfc)

/-- **BOOLEAN, CONST[true], CONST[false]**: `F::true` / `F::false` are read as the boolean `true` / `false`. -/
theorem C13_boolean_read (env : Env) (F : Str) (hF : KeyOK F) :
    (NfcStable env F "true".toList → Parser.parse env (fieldText F "true".toList) = .ok (fieldDoc F (.bool true))) ∧
    (NfcStable env F "false".toList → Parser.parse env (fieldText F "false".toList) = .ok (fieldDoc F (.bool false))) :=
  ⟨fun h => C13_scalar_read env F (.bool true) hF trivial h, fun h => C13_scalar_read env F (.bool false) hF trivial h⟩

/-- **CONST[null]**: `F::null` is read as null. -/
theorem C13_null_read (env : Env) (F : Str) (hF : KeyOK F) (hnfc : NfcStable env F "null".toList) :
    Parser.parse env (fieldText F "null".toList) = .ok (fieldDoc F .null) :=
  C13_scalar_read env F .null hF trivial hnfc

/-- a bare word the lexer reads as ONE IDENTIFIER token: `[A-Za-z_][A-Za-z0-9_.-]*` not ending in `-`
(`isIdentifierText`), with no reserved word `true|false|null|vs` at its start or right after an operator character
(`hasReservedPrefix`).  Decidable. -/
def BareWord (w : Str) : Prop := isIdentifierText w = true ∧ hasReservedPrefix w = false

instance (w : Str) : Decidable (BareWord w) := by unfold BareWord; infer_instance

/-- **CONST / ENUM members that are bare words**: `F::w` is read as the STRING `w` (not a boolean, number or null). -/
theorem C13_bareword_read (env : Env) (F w : Str) (hF : KeyOK F) (hw : BareWord w) (hnfc : NfcStable env F w) :
    Parser.parse env (fieldText F w) = .ok (fieldDoc F (.str w)) :=
  C13_scalar_read env F (.bare w) hF hw hnfc

theorem stripFrontmatter_field (env : Env) (F s : Str) :
    Parser.stripFrontmatter env (fieldText F s) = (fieldText F s, none) := by
  unfold Parser.stripFrontmatter
  have : startsWith "---".toList (fieldText F s) = false := by
    rw [fieldText_eq]; simp [startsWith, List.isPrefixOf]
  rw [this]; rfl

/-- **any value text that one lexer step reads as one scalar token** `sc` (`ValueStep`): `F::s` is read without error as
the document with the single assignment `F` whose value is `sc`'s value. -/
theorem C13_value_read (env : Env) (F s : Str) (sc : FlatParse.Scalar) (hF : KeyOK F) (hclean : Clean s)
    (hstep : ValueStep env false s sc) (hnfc : NfcStable env F s) :
    Parser.parse env (fieldText F s) = .ok (fieldDoc F sc.val) := by
  have hlex := tokenize_field env false F s sc hF hclean hstep hnfc
  have hs := stripFrontmatter_field env F s
  have hlex' : Lexer.tokenize env (Parser.stripFrontmatter env (fieldText F s)).1
      = .ok (FlatParse.flatToks (flatFrame "D".toList 1) "D".toList [fieldLine F sc s.length], identifierRepairs F 2 1) := by
    rw [hs]; exact hlex
  have hm : FlatParse.metaFirst [fieldLine F sc s.length] = false := by
    simp only [FlatParse.metaFirst, fieldLine, beq_eq_false_iff_ne, ne_eq]
    exact hF.2.2
  rw [C02.C02_flat_text_read env (fieldText F s) _ "D".toList _ _ hlex' hm, hs]
  rfl

/-- a lexer refusal is the reader's refusal. -/
theorem parse_of_tokenize_error (env : Env) (F s : Str) (e : Exc) (h : Lexer.tokenize env (fieldText F s) = .error e) :
    Parser.parse env (fieldText F s) = .error e := by
  unfold Parser.parse
  rw [stripFrontmatter_field]
  simp only [h, bind, Except.bind]

/-- the value the reader gives a NUMBER lexeme -/
def numberValue (env : Env) (s : Str) : Value :=
  if isIntLexeme s then .int (intOfText s) else .float (env.floatRepr s)

theorem numScalar_val (env : Env) (s : Str) : (numScalar env s).val = numberValue env s := by
  unfold numScalar numberValue
  split <;> rfl

instance (env : Env) (s : Str) : Decidable (Representable env s) := by unfold Representable; infer_instance

/-- **NUMBER**: every full match of the reader's NUMBER pattern (`pyNumberFull`, the predicate the `gbnf` engine proves of
every text derivable from TYPE[NUMBER]) that is representable is read as the NUMBER value `numberValue env s`. -/
theorem C13_number_read (env : Env) (F s : Str) (hs : pyNumberFull s = true) (hF : KeyOK F) (hrep : Representable env s)
    (hnfc : NfcStable env F s) :
    Parser.parse env (fieldText F s) = .ok (fieldDoc F (numberValue env s)) := by
  obtain ⟨p, hp, rfl⟩ := pyNumberFull_shape s hs
  rw [← numScalar_val]
  exact C13_value_read env F p.text _ hF (p.clean hp) (numParts_valueStep env false p hp hrep) hnfc

/-- the value of a NUMBER lexeme is an int or a float: never a string, a boolean or null. -/
theorem C13_number_typed (env : Env) (s : Str) :
    (∃ i, numberValue env s = .int i) ∨ (∃ r, numberValue env s = .float r) := by
  unfold numberValue
  split
  · exact Or.inl ⟨_, rfl⟩
  · exact Or.inr ⟨_, rfl⟩

/-- **the excluded regions (findings C13N3, C13N4), all inputs**: a full match of the NUMBER pattern that is NOT representable
(int literal of more than 4300 digits; float literal that overflows) is REFUSED: LexerError E005 at the value. -/
theorem C13_number_refused (env : Env) (F s : Str) (hs : pyNumberFull s = true) (hF : KeyOK F) (hrep : ¬ Representable env s)
    (hnfc : NfcStable env F s) :
    Parser.parse env (fieldText F s) = .error (.lexer "E005".toList 2 (1 + F.length + 2)) := by
  obtain ⟨p, hp, rfl⟩ := pyNumberFull_shape s hs
  apply parse_of_tokenize_error
  exact tokenize_field_refused env false F p.text hF (p.clean hp) (p.ne_nil hp)
    (fun st rest hr => step_numParts_refused env false st p hp ('\n' :: rest) hr (floatTerm_nl env rest) hrep) hnfc


/-- the compiled NUMBER fragment's own language `-`? digit+ (`.` digit+)?. -/
theorem C13_number_read_gbnf (env : Env) (F s : Str) (hs : gbnfNumber s = true) (hF : KeyOK F) (hrep : Representable env s)
    (hnfc : NfcStable env F s) :
    Parser.parse env (fieldText F s) = .ok (fieldDoc F (numberValue env s)) :=
  C13_number_read env F s (gbnfNumber_pyNumberFull s hs) hF hrep hnfc

/-- in the compiled fragment's language (no exponent) the value is an INT exactly when the text has no `.`. -/
theorem C13_number_gbnf_value (env : Env) (s : Str) (hs : gbnfNumber s = true) :
    numberValue env s = if s.contains '.' then .float (env.floatRepr s) else .int (intOfText s) := by
  unfold numberValue
  rw [gbnfNumber_isInt s hs]
  cases s.contains '.' <;> rfl

/-! ### non-vacuity -/

theorem nfcStable_ascii (F s : Str) : NfcStable Env.ascii F s := fun _ _ => rfl

example : KeyOK "F".toList ∧ KeyOK "STATUS".toList ∧ KeyOK "a.b-c_1".toList ∧ ¬ KeyOK "META".toList ∧ ¬ KeyOK "1F".toList ∧
    ¬ KeyOK "true".toList ∧ ¬ KeyOK "A B".toList := by decide
example : BareWord "ACTIVE".toList ∧ BareWord "in_progress".toList ∧ BareWord "v1.2-rc".toList ∧ BareWord "truely".toList ∧
    BareWord "nullable".toList ∧ BareWord "True".toList ∧ BareWord "NULL".toList ∧ BareWord "a.".toList ∧ BareWord "vsx".toList := by
  decide
/-- the excluded member texts. -/
example : ¬ BareWord "hello world".toList ∧ ¬ BareWord "a/b".toList ∧ ¬ BareWord "9lives".toList ∧ ¬ BareWord "a,b".toList ∧
    ¬ BareWord "#tag".toList ∧ ¬ BareWord "a&b".toList ∧ ¬ BareWord "x->y".toList ∧ ¬ BareWord "vs".toList ∧
    ¬ BareWord "null.x".toList ∧ ¬ BareWord "\"true\"".toList ∧ ¬ BareWord "true-x".toList ∧ ¬ BareWord "a-".toList ∧
    ¬ BareWord [] ∧ ¬ BareWord "true".toList ∧ ¬ BareWord "null".toList := by decide

example : Parser.parse Env.ascii (fieldText "F".toList "ACTIVE".toList) = .ok (fieldDoc "F".toList (.str "ACTIVE".toList)) :=
  C13_bareword_read Env.ascii _ _ (by decide) (by decide) (nfcStable_ascii _ _)
example : Parser.parse Env.ascii (fieldText "F".toList "true".toList) = .ok (fieldDoc "F".toList (.bool true)) :=
  (C13_boolean_read Env.ascii _ (by decide)).1 (nfcStable_ascii _ _)
example : Parser.parse Env.ascii (fieldText "F".toList "null".toList) = .ok (fieldDoc "F".toList .null) :=
  C13_null_read Env.ascii _ (by decide) (nfcStable_ascii _ _)

/-- the hypotheses of `C13_number_read` at the named points; what `numberValue` is there. -/
example : pyNumberFull "-12.50".toList = true ∧ pyNumberFull "0".toList = true ∧ pyNumberFull "007".toList = true ∧
    pyNumberFull "1.".toList = true ∧ pyNumberFull "-0".toList = true ∧ pyNumberFull "1.0".toList = true ∧
    pyNumberFull "1e5".toList = true ∧ pyNumberFull "1E+5".toList = true ∧ pyNumberFull "1.e-5".toList = true := by decide
example : gbnfNumber "-12.50".toList = true ∧ gbnfNumber "0".toList = true ∧ gbnfNumber "007".toList = true ∧
    gbnfNumber "-0".toList = true ∧ gbnfNumber "1.".toList = false ∧ gbnfNumber "1e5".toList = false ∧
    gbnfNumber "-".toList = false ∧ gbnfNumber ".5".toList = false ∧ gbnfNumber "1.5x".toList = false := by decide
example : Representable Env.ascii "-12.50".toList ∧ Representable Env.ascii "0".toList ∧ Representable Env.ascii "007".toList ∧
    Representable Env.ascii "1.".toList := by decide
example : FlatParse.valEqB (numberValue Env.ascii "0".toList) (.int 0) = true := by decide
example : FlatParse.valEqB (numberValue Env.ascii "-0".toList) (.int 0) = true := by decide
example : FlatParse.valEqB (numberValue Env.ascii "007".toList) (.int 7) = true := by decide
example : FlatParse.valEqB (numberValue Env.ascii "-42".toList) (.int (-42)) = true := by decide
example : FlatParse.valEqB (numberValue Env.ascii "1.".toList) (.float "1.".toList) = true := by decide
example : FlatParse.valEqB (numberValue Env.ascii "1.0".toList) (.float "1.0".toList) = true := by decide
example : FlatParse.valEqB (numberValue Env.ascii "1e5".toList) (.float "1e5".toList) = true := by decide
example : FlatParse.valEqB (numberValue Env.ascii "-12.50".toList) (.float "-12.50".toList) = true := by decide

/-- `C13_number_read` instantiated. -/
example : Parser.parse Env.ascii (fieldText "F".toList "007".toList) = .ok (fieldDoc "F".toList (.int 7)) :=
  C13_number_read Env.ascii _ _ (by decide) (by decide) (by decide) (nfcStable_ascii _ _)
example : Parser.parse Env.ascii (fieldText "PRICE".toList "-12.50".toList) = .ok (fieldDoc "PRICE".toList (.float "-12.50".toList)) :=
  C13_number_read_gbnf Env.ascii _ _ (by decide) (by decide) (by decide) (nfcStable_ascii _ _)

/-- the whole model run by the kernel (lexer + parser, no theorem involved) on `F::-12.50`, `F::0`, `F::007`, `F::1.`,
`F::-0`, `F::1e5` (with `Env.ascii`, whose `floatRepr` is the identity). -/
example : FlatParse.isOkDoc (Parser.parse Env.ascii "===D===\nF::-12.50\n===END===\n".toList)
    (fieldDoc "F".toList (.float "-12.50".toList)) = true := by decide +kernel
example : FlatParse.isOkDoc (Parser.parse Env.ascii "===D===\nF::0\n===END===\n".toList)
    (fieldDoc "F".toList (.int 0)) = true := by decide +kernel
example : FlatParse.isOkDoc (Parser.parse Env.ascii "===D===\nF::007\n===END===\n".toList)
    (fieldDoc "F".toList (.int 7)) = true := by decide +kernel
example : FlatParse.isOkDoc (Parser.parse Env.ascii "===D===\nF::1.\n===END===\n".toList)
    (fieldDoc "F".toList (.float "1.".toList)) = true := by decide +kernel
example : FlatParse.isOkDoc (Parser.parse Env.ascii "===D===\nF::-0\n===END===\n".toList)
    (fieldDoc "F".toList (.int 0)) = true := by decide +kernel
example : FlatParse.isOkDoc (Parser.parse Env.ascii "===D===\nF::1e5\n===END===\n".toList)
    (fieldDoc "F".toList (.float "1e5".toList)) = true := by decide +kernel
example : fieldText "F".toList "-12.50".toList = "===D===\nF::-12.50\n===END===\n".toList := by decide

/-! ### the excluded regions on witnesses (findings C13N3, C13N4) -/

/-- 4301 ones: derivable from the compiled NUMBER fragment's language, over CPython's digit limit. -/
def ones4301 : Str := List.replicate 4301 '1'

set_option maxRecDepth 100000 in
theorem ones4301_gbnf : gbnfNumber ones4301 = true := by decide +kernel
set_option maxRecDepth 100000 in
theorem ones4301_not_representable : ¬ Representable Env.ascii ones4301 := by decide +kernel
set_option maxRecDepth 100000 in
theorem ones4300_representable : Representable Env.ascii (List.replicate 4300 '1') := by decide +kernel

/-- **C13N3 on a witness**: `F::111…1` (4301 digits) is derivable and the reader refuses it (E005 at line 2, column 4);
the real code: `LexerError E005 at line 2, column 4: Invalid integer literal: Exceeds the limit (4300 digits)`. -/
theorem C13N3_witness :
    gbnfNumber ones4301 = true ∧
    Parser.parse Env.ascii (fieldText "F".toList ones4301) = .error (.lexer "E005".toList 2 4) :=
  ⟨ones4301_gbnf,
   C13_number_refused Env.ascii "F".toList ones4301 (gbnfNumber_pyNumberFull _ ones4301_gbnf) (by decide)
     ones4301_not_representable (nfcStable_ascii _ _)⟩

/-- `1` followed by 309 zeros and `.0`: derivable from the compiled NUMBER fragment, `float()` of it is `inf` in CPython. -/
def big310 : Str := '1' :: (List.replicate 309 '0' ++ ".0".toList)

/-- **C13N4 on a witness**: in every environment whose `float()` overflows on that text (CPython's does), the reader refuses
it; the real code: `LexerError E005 at line 2, column 4: Numeric literal out of range`. -/
theorem C13N4_witness (env : Env) (hov : env.floatRepr big310 = "inf".toList) (hnfc : NfcStable env "F".toList big310) :
    gbnfNumber big310 = true ∧
    Parser.parse env (fieldText "F".toList big310) = .error (.lexer "E005".toList 2 4) := by
  have hg : gbnfNumber big310 = true := by decide +kernel
  refine ⟨hg, C13_number_refused env "F".toList big310 (gbnfNumber_pyNumberFull _ hg) (by decide) ?_ hnfc⟩
  have hi : isIntLexeme big310 = false := by decide +kernel
  unfold Representable
  rw [hi]
  simp only [Bool.false_eq_true, if_false, hov]
  exact fun h => h.1 rfl

/-- an environment of that kind (a stand-in for CPython's `float`: overflow beyond 309 characters). -/
def envOverflow : Env := { Env.ascii with floatRepr := fun t => if t.length > 309 then "inf".toList else t }

example : Parser.parse envOverflow (fieldText "F".toList big310) = .error (.lexer "E005".toList 2 4) :=
  (C13N4_witness envOverflow (by decide +kernel) (fun _ _ => rfl)).2

/-! ### necessity: the model at excluded points (the real code returns the same, see the header) -/

/-- the value read for `F::<text>` by the whole model (`none`: an error or not exactly one assignment). -/
def readValue (text : String) : Option Value :=
  match Parser.parse Env.ascii (fieldText "F".toList text.toList) with
  | .ok d => (match d.sections with | [.assign _ v _ _ _ _] => some v | _ => none)
  | .error _ => none

def isStr (v : Option Value) (s : String) : Bool :=
  match v with | some (.str t) => t == s.toList | _ => false

/-- member texts outside `BareWord` that are MISREAD (finding C13N2's class) … -/
example : isStr (readValue "9lives") "9 lives" = true ∧ isStr (readValue "a,b") "a" = true ∧
    isStr (readValue "#tag") "§tag" = true ∧ isStr (readValue "a&b") "a∧b" = true ∧ isStr (readValue "vs") "⇌" = true ∧
    isStr (readValue "null.x") "null .x" = true ∧ isStr (readValue "\"true\"") "true" = true := by decide +kernel
/-- … refused … -/
example : (match Parser.parse Env.ascii (fieldText "F".toList "true-x".toList) with
      | .ok _ => none | .error e => some e) = some (.lexer "E005".toList 2 8) ∧
    (match Parser.parse Env.ascii (fieldText "F".toList "a-".toList) with
      | .ok _ => none | .error e => some e) = some (.lexer "E005".toList 2 5) := by decide +kernel
/-- … or read as the same string by a route the theorem does not cover. -/
example : isStr (readValue "hello world") "hello world" = true ∧ isStr (readValue "a/b") "a/b" = true := by decide +kernel
/-- `KeyOK` is necessary: `META::1` is rejected by the parser, `true::1` yields no section. -/
example : (match Parser.parse Env.ascii (fieldText "META".toList "1".toList) with
      | .ok _ => none | .error e => some e) = some (.parser "E001".toList 2 5) ∧
    (match Parser.parse Env.ascii (fieldText "true".toList "1".toList) with
      | .ok d => some d.sections.length | .error _ => none) = some 0 := by decide +kernel

end Octave.C13
