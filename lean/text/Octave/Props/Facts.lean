/-
Characterising facts about the GENERATED tables (Octave/Gen/*): the regex source texts, pattern order,
alias table and constants that the hand-written recognisers of Model/Scan, Model/Lexer, Model/Emitter and
Model/Parser* were written and validated against.  The right-hand sides are pinned by hand; the left-hand
sides are regenerated from /repo on every run, so any change of a table or regex in the source makes the
corresponding fact fail to elaborate, which the check reports and which widens the failing-input search.
-/
import Octave.Gen.LexTables
import Octave.Gen.EmitTables
import Octave.Gen.ParseTables
namespace Octave.Facts
open Octave

theorem pinned_tokenPatterns : Gen.tokenPatterns = [("OCTAVE::(\\d+(?:\\.\\d+)*(?:-[A-Za-z0-9.-]+)?)", "GRAMMAR_SENTINEL"), ("(\\d+\\.\\d+\\.\\d+(?:\\.\\d+)*(?:-[A-Za-z0-9.-]+)?(?:\\+[A-Za-z0-9.]+)?)", "VERSION"), ("(\\d+\\.\\d+(?:-[A-Za-z0-9.-]+)(?:\\+[A-Za-z0-9.]+)?)", "VERSION"), ("(\\d+\\.\\d+(?:\\+[A-Za-z0-9.]+))", "VERSION"), ("===END===", "ENVELOPE_END"), ("===([A-Za-z_][A-Za-z0-9_]*)===", "ENVELOPE_START"), ("---", "SEPARATOR"), ("//[^\\n]*", "COMMENT"), ("::", "ASSIGN"), (":", "BLOCK"), ("→", "FLOW"), ("<->", "TENSION"), ("->", "FLOW"), ("⊕", "SYNTHESIS"), ("⧺", "CONCAT"), ("~", "CONCAT"), ("@", "AT"), ("⇌", "TENSION"), ("\\bvs\\b", "TENSION"), ("∨", "ALTERNATIVE"), ("\\|", "ALTERNATIVE"), ("∧", "CONSTRAINT"), ("&", "CONSTRAINT"), ("§", "SECTION"), ("\\[", "LIST_START"), ("\\]", "LIST_END"), (",", "COMMA"), ("\"\"\"(?:[^\"\\\\]|\\\\.|\"(?!\"\"))*\"\"\"", "STRING"), ("\"(?:[^\"\\\\]|\\\\.)*\"", "STRING"), ("-?\\d+\\.?\\d*(?:[eE][+-]?\\d+)?", "NUMBER"), ("\\btrue\\b", "BOOLEAN"), ("\\bfalse\\b", "BOOLEAN"), ("\\bnull\\b", "NULL"), ("#", "SECTION"), ("\\$[A-Za-z0-9_:]+", "VARIABLE"), ("\\n", "NEWLINE")] := by decide

theorem pinned_asciiAliases : Gen.asciiAliases = [("->", "→"), ("<->", "⇌"), ("+", "⊕"), ("~", "⧺"), ("vs", "⇌"), ("|", "∨"), ("&", "∧"), ("#", "§")] := by decide

theorem pinned_operatorChars : Gen.operatorChars = ["§", "→", "⇌", "∧", "∨", "⊕", "⧺"] := by decide

theorem pinned_wrongCase : Gen.wrongCase = [("True", "true"), ("TRUE", "true"), ("False", "false"), ("FALSE", "false"), ("Null", "null"), ("NULL", "null")] := by decide

theorem pinned_fencePattern : Gen.fencePattern = "^( *)((`{3,})([^\\n`]*)?)$" := by decide

theorem pinned_invalidEnvelopePattern : Gen.invalidEnvelopePattern = "===([^=\\n]*)===" := by decide

theorem pinned_validEnvelopeIdPattern : Gen.validEnvelopeIdPattern = "^[A-Za-z_][A-Za-z0-9_]*$" := by decide

theorem pinned_escapeSequencePattern : Gen.escapeSequencePattern = "\\\\([\\\"\\\\nt])" := by decide

theorem pinned_escapeSequences : Gen.escapeSequences = [("\"", "\""), ("\\", "\\"), ("n", "\n"), ("t", "\t")] := by decide

theorem pinned_identifierPattern : Gen.identifierPattern = "^[A-Za-z_][A-Za-z0-9_.\\-]*(?<!-)\\Z" := by decide

theorem pinned_annotationPattern : Gen.annotationPattern = "^[A-Za-z_][A-Za-z0-9_.\\-]*(?<!-)<([A-Za-z_]([A-Za-z0-9_,]*[A-Za-z0-9_])?)?>\\Z" := by decide

theorem pinned_variablePattern : Gen.variablePattern = "^\\$[A-Za-z0-9_:]+\\Z" := by decide

theorem pinned_expressionPattern : Gen.expressionPattern = "^[A-Za-z_][A-Za-z0-9_.\\-]*(?<!-)([⊕⧺⇌∧∨→@][A-Za-z_][A-Za-z0-9_.\\-]*(?<!-))+\\Z" := by decide

theorem pinned_reservedPrefixPattern : Gen.reservedPrefixPattern = "(?:^|[⊕⧺⇌∧∨→@])(?:true|false|null|vs)(?![A-Za-z0-9_])" := by decide

theorem pinned_unicodeOps : Gen.unicodeOps = "⊕⧺⇌∧∨→@" := by decide

theorem pinned_alwaysQuoteKeys : Gen.alwaysQuoteKeys = ["PATTERN", "REGEX"] := by decide

theorem pinned_expressionOperators : Gen.expressionOperators = ["ALTERNATIVE", "AT", "CONCAT", "CONSTRAINT", "FLOW", "SYNTHESIS", "TENSION"] := by decide

theorem pinned_valueTokens : Gen.valueTokens = ["BOOLEAN", "IDENTIFIER", "NULL", "NUMBER", "STRING", "VARIABLE", "VERSION"] := by decide

theorem pinned_knownConstructors : Gen.knownConstructors = ["ALWAYS", "ENUM", "NEVER", "PATTERN", "REGEX", "TYPE"] := by decide

theorem pinned_maxNestingDepth : Gen.maxNestingDepth = 100 := by decide

theorem pinned_defaultDeepNestingThreshold : Gen.defaultDeepNestingThreshold = 5 := by decide

end Octave.Facts
