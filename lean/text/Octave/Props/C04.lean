/-
C04 — Every scalar value survives write-then-read with value and type intact.
Property theorems over the executable model (Model/Emitter, Model/Lexer, Model/Parser*).  Helper
lemmas live in Octave/Lemmas.  What is proved here and what is only validated by the correspondence
check is listed in notes/C04.md and in the evidence file.
-/
import Octave.Lemmas.Quoted
import Octave.Props.Facts
namespace Octave.C04
open Octave Lexer Emitter Scan

/-- escape-on-write and unescape-on-read are inverse for EVERY string (all code points, any length). -/
theorem C04_unescape_escape (s : Str) : unescape (escape s) = s := Octave.unescape_escape s

/-- A quoted scalar never spills over its line and never trips the tab check: the escaped body has
no raw newline and no raw tab. -/
theorem C04_escape_single_line (s : Str) : ∀ d ∈ escape s, d ≠ '\n' ∧ d ≠ '\t' := Octave.escape_no_raw s

/-- Whatever string the emitter quotes, the lexer's pattern loop reads the emitted lexeme back as ONE
STRING token whose value is exactly that string, consuming exactly the lexeme — for every string,
every preceding character and every continuation that does not begin with a double quote (the
emitter always continues with a newline, a comma, a closing bracket or ` // comment`). -/
theorem C04_quoted_token (env : Env) (prev : Option Char) (s rest : Str) (h : rest.head? ≠ some '"') :
    matchPattern env false prev (quoted s ++ rest) =
      .ok (some { type := .string, value := .str s, text := quoted s, rest := rest }) := by
  have h3 := lit_triple_quoted_none s rest h
  have hb := stringBody_escape s rest
  simp only [quoted, List.cons_append, List.append_assoc, List.singleton_append] at *
  unfold matchPattern
  simp [Env.isDigit, Env.digit?, isAscii, isDigitA, hb, unescape_escape]
  rw [h3]

/-- non-vacuity: the continuation condition holds for the separators the emitter prints. -/
example : ("\n===END===\n".toList).head? ≠ some '"' ∧ (",b]".toList).head? ≠ some '"' := by decide

/-- strings that `needs_quotes` sends to the quoted form: the emitted text is the quoted lexeme. -/
theorem C04_emit_quoted (s : Str) (h : needsQuotes s = true) : emitStr s = quoted s := by
  simp [emitStr, h]

/-- The empty string, strings with newline/tab/CR, the reserved words and every value that starts
with a reserved word followed by a non-word character are always quoted (the F9/F13/F14 class). -/
theorem C04_reserved_quoted (s : Str) (h : hasReservedPrefix s = true) (hne : s ≠ []) : needsQuotes s = true := by
  unfold needsQuotes
  split
  · rfl
  · split
    · rfl
    · split
      · rfl
      · simp [h]

example : needsQuotes "true.".toList = true ∧ needsQuotes "a→vs.b".toList = true ∧ needsQuotes "nullable".toList = false := by decide

end Octave.C04
