/-
C04 — Every scalar value survives write-then-read with value and type intact.
Property theorems over the executable model (Model/Emitter, Model/Lexer, Model/Parser*).  Helper
lemmas live in Octave/Lemmas.  What is proved here and what is only validated by the correspondence
check is listed in notes/C04.md and in the evidence file.
-/
import Octave.Lemmas.Quoted
import Octave.Lemmas.Bare
import Octave.Lemmas.Step
import Octave.Props.Facts
namespace Octave.C04
open Octave Lexer Emitter Scan

/-- escape-on-write and unescape-on-read are inverse for EVERY string (all code points, any length). -/
theorem C04_unescape_escape (s : Str) : unescape (escape s) = s := Octave.unescape_escape s

/-- A quoted scalar never spills over its line and never trips the tab check: the escaped body has
no raw newline and no raw tab. -/
theorem C04_escape_single_line (s : Str) : ∀ d ∈ escape s, d ≠ '\n' ∧ d ≠ '\t' := Octave.escape_no_raw s

/-- Whatever string the emitter quotes, the lexer's pattern loop reads the emitted lexeme back as ONE
STRING token whose value is exactly that string, consuming exactly the lexeme — for every string,
every preceding character and every continuation that does not begin with a double quote (the
emitter always continues with a newline, a comma, a closing bracket or ` // comment`). -/
theorem C04_quoted_token (env : Env) (prev : Option Char) (s rest : Str) (h : rest.head? ≠ some '"') :
    matchPattern env false prev (quoted s ++ rest) =
      .ok (some { type := .string, value := .str s, text := quoted s, rest := rest }) := by
  have h3 := lit_triple_quoted_none s rest h
  have hb := stringBody_escape s rest
  simp only [quoted, List.cons_append, List.append_assoc, List.singleton_append] at *
  unfold matchPattern
  simp only [Bool.false_eq_true, if_false, Env.isDigit, Env.digit?, isAscii, isDigitA]
  have e : matchQuote ('"' :: (escape s ++ '"' :: rest)) (escape s ++ '"' :: rest) =
      some { type := .string, value := .str s, text := '"' :: (escape s ++ ['"']), rest := rest } := by
    have h3' : lit "\"\"\"".toList ('"' :: (escape s ++ '"' :: rest)) = none := h3
    unfold matchQuote
    simp only [h3', hb, unescape_escape]
    rfl
  simp [e]

/-- non-vacuity: the continuation condition holds for the separators the emitter prints. -/
example : ("\n===END===\n".toList).head? ≠ some '"' ∧ (",b]".toList).head? ≠ some '"' := by decide

/-- strings that `needs_quotes` sends to the quoted form: the emitted text is the quoted lexeme. -/
theorem C04_emit_quoted (s : Str) (h : needsQuotes s = true) : emitStr s = quoted s := by
  simp [emitStr, h]

/-- The empty string, strings with newline/tab/CR, the reserved words and every value that starts
with a reserved word followed by a non-word character are always quoted (the F9/F13/F14 class). -/
theorem C04_reserved_quoted (s : Str) (h : hasReservedPrefix s = true) (hne : s ≠ []) : needsQuotes s = true := by
  unfold needsQuotes
  split
  · rfl
  · split
    · rfl
    · split
      · rfl
      · simp [h]

example : needsQuotes "true.".toList = true ∧ needsQuotes "a→vs.b".toList = true ∧ needsQuotes "nullable".toList = false := by decide

/-- `needs_quotes(s) = False` implies there is no reserved-word prefix (the F9/F13/F14 guard sits before every
"bare" exit of `needs_quotes`). -/
theorem C04_bare_no_reserved_prefix (s : Str) (h : needsQuotes s = false) : hasReservedPrefix s = false := by
  cases hr : hasReservedPrefix s with
  | false => rfl
  | true =>
    exfalso
    have : needsQuotes s = true := by
      unfold needsQuotes
      split
      · rfl
      · split
        · rfl
        · split
          · rfl
          · simp [hr]
    rw [h] at this; cases this

/-- **Bare identifiers survive.**  Whenever the emitter leaves an identifier-shaped string bare, the lexer reads the
emitted text back as ONE IDENTIFIER token carrying exactly that string and consuming exactly that text, with no
normalisation receipt — for every such string (any length), every environment, every lexer state that is past the
document start (something other than whitespace was consumed) and not at a fence, both lexer modes, and every continuation allowed after a bare value (`TermOK`: end of
input, or a char that neither extends an identifier nor opens an annotation tail — newline, comma, `]`, space). -/
theorem C04_bare_identifier_step (env : Env) (lenient : Bool) (st : LState) (s rest : Str)
    (hq : needsQuotes s = false) (hid : isIdentifierText s = true) (hterm : TermOK env rest)
    (hspan : atSpanStart st = false) (hpos : st.blank = false) :
    emitStr s = s ∧
    step env lenient st (emitStr s ++ rest) = .ok ({ st with
        pos := st.pos + s.length, prev := s.getLast?.orElse (fun _ => st.prev), col := st.col + s.length,
        toks := { type := .identifier, value := .str s, line := st.line, col := st.col } :: st.toks,
        repairs := (identifierRepairs s st.line st.col).reverse ++ st.repairs, blank := false }, rest) := by
  have he : emitStr s = s := by simp [emitStr, hq]
  refine ⟨he, ?_⟩
  rw [he]
  exact bare_identifier_step env lenient st s rest hid (C04_bare_no_reserved_prefix s hq) hterm hspan hpos

/-- non-vacuity: identifier-shaped strings that start like a reserved word but are not one, and the separators
the emitter prints after a value. -/
example : needsQuotes "truex".toList = false ∧ isIdentifierText "truex".toList = true ∧
    needsQuotes "null_able.v-1".toList = false ∧ isIdentifierText "null_able.v-1".toList = true := by decide
example : TermOK Env.ascii "\n===END===\n".toList ∧ TermOK Env.ascii ",b]".toList ∧ TermOK Env.ascii "]".toList ∧ TermOK Env.ascii [] := by
  refine ⟨?_, ?_, ?_, ?_⟩ <;> intro d hd <;> simp at hd <;> subst hd <;> decide

/-- **Quoted strings survive (one lexer step).**  For EVERY string `s` (any code points, any length): one step of the
lexer on the quoted lexeme the emitter writes, followed by any continuation that does not begin with a double quote,
appends exactly one STRING token whose value is `s` at the step's line/column, consumes exactly the lexeme and
records no receipt. -/
theorem C04_quoted_step (env : Env) (lenient : Bool) (st : LState) (s rest : Str)
    (hrest : rest.head? ≠ some '"') (hspan : atSpanStart st = false) (hpos : st.blank = false) :
    ∃ st', step env lenient st (quoted s ++ rest) = .ok (st', rest)
      ∧ st'.toks = { type := .string, value := .str s, line := st.line, col := st.col } :: st.toks
      ∧ st'.repairs = st.repairs := by
  have hm := C04_quoted_token env st.prev s rest hrest
  rw [← hpos] at hm
  have h := pattern_step env lenient st '"' (escape s ++ ['"'] ++ rest)
    { type := .string, value := .str s, text := quoted s, rest := rest } hspan (by decide)
    (by simpa [quoted] using hm) (by simp) (by simp)
  obtain ⟨st', h1, h2, h3⟩ := h
  exact ⟨st', by simpa [quoted] using h1, h2, h3⟩

end Octave.C04
