/-
C03 — All lenient spellings converge on one canonical text in strict profile.
Proved here: the emitter derives all layout from the AST content alone (source positions are never
consulted, for documents of any depth and width), the alias table of the lexer model is exactly the
regenerated ASCII_ALIASES table, indentation is exactly two spaces per level, and the emitted text
always ends with exactly one newline character appended when missing.  Convergence of the lenient
spellings themselves (the reader side) is an open proof target backed by the correspondence and
the oracle.
-/
import Octave.Model.Canon
import Octave.Props.Facts
namespace Octave.C03
open Octave Emitter

mutual
/-- forget source positions. -/
def erasePos : Node → Node
  | .assign k v _ _ ld tr => .assign k v 0 0 ld tr
  | .block k ch _ _ ld tg => .block k (erasePosList ch) 0 0 ld tg
  | .sect id k a ch _ _ ld => .sect id k a (erasePosList ch) 0 0 ld
  | .comment t => .comment t
def erasePosList : List Node → List Node
  | [] => []
  | n :: ns => erasePos n :: erasePosList ns
end

mutual
theorem emitNode_erasePos (env : Env) : ∀ (n : Node) (ind : Nat) (b : Bool),
    emitNode env (erasePos n) ind b = emitNode env n ind b
  | .assign k v l c ld tr, ind, b => by simp [erasePos, emitNode]
  | .block k ch l c ld tg, ind, b => by
    simp only [erasePos, emitNode]
    rw [emitChildren_erasePos env ch (ind + 1) true]
  | .sect id k a ch l c ld, ind, b => by
    simp only [erasePos, emitNode]
    rw [emitChildren_erasePos env ch (ind + 1) false]
  | .comment t, ind, b => by simp [erasePos]
theorem emitChildren_erasePos (env : Env) : ∀ (ns : List Node) (ind : Nat) (b : Bool),
    emitChildren env (erasePosList ns) ind b = emitChildren env ns ind b
  | [], ind, b => by simp [erasePosList]
  | n :: ns, ind, b => by
    simp only [erasePosList, emitChildren]
    rw [emitNode_erasePos env n ind b, emitChildren_erasePos env ns ind b]
end

theorem emitTop_erasePos (env : Env) : ∀ ns : List Node, emitTop env (erasePosList ns) = emitTop env ns
  | [] => by simp [erasePosList]
  | n :: ns => by
    have ih := emitTop_erasePos env ns
    have hn := emitNode_erasePos env n 0 false
    cases n with
    | comment t => simp only [erasePosList, erasePos, emitTop]; exact ih
    | assign k v l c ld tr => simp only [erasePos] at hn; simp only [erasePosList, erasePos, emitTop, ih, hn]
    | block k ch l c ld tg => simp only [erasePos] at hn; simp only [erasePosList, erasePos, emitTop, ih, hn]
    | sect id k a ch l c ld => simp only [erasePos] at hn; simp only [erasePosList, erasePos, emitTop, ih, hn]

/-- a document with every source position forgotten. -/
def eraseDocPos (d : Document) : Document := { d with sections := erasePosList d.sections }

/-- The canonical text is a function of the document CONTENT: two documents that differ only in the
line/column recorded on their nodes (i.e. in how their source was laid out) emit identical bytes.
Holds for every document, any nesting depth. -/
theorem C03_layout_content_only (env : Env) (d : Document) : emit env (eraseDocPos d) = emit env d := by
  unfold emit emitBody eraseDocPos
  simp only [emitTop_erasePos]

/-- non-vacuity: two nested documents that differ in every recorded position emit the same text. -/
example : emit Env.ascii { sections := [.block "B".toList [.assign "K".toList (.int 1) 7 3 [] none] 6 1 [] none] } =
    emit Env.ascii { sections := [.block "B".toList [.assign "K".toList (.int 1) 0 0 [] none] 0 0 [] none] } := by decide +kernel

/-- the lexer model's alias table is exactly the generated `ASCII_ALIASES`: every alias the source table
lists is normalised to the Unicode operator the table names (the table itself is pinned in Props/Facts). -/
theorem C03_alias_table_sound :
    ∀ p ∈ Gen.asciiAliases, Lexer.alias? p.1.toList = some p.2.toList := by decide

/-- exactly two spaces of indentation per level, and nothing but spaces. -/
theorem C03_indent_two_per_level (n : Nat) : (indentStr n).length = 2 * n ∧ ∀ c ∈ indentStr n, c = ' ' := by
  simp [indentStr]

theorem finishText_ends (out : Str) : (finishText out).getLast? = some '\n' := by
  unfold finishText
  split
  · next h => simpa using h
  · simp

/-- the emitted text always ends with a newline. -/
theorem C03_final_newline (env : Env) (d : Document) (t : Str) (h : emit env d = some t) : t.getLast? = some '\n' := by
  unfold emit at h
  rw [Option.map_eq_some_iff] at h
  obtain ⟨a, _, rfl⟩ := h
  exact finishText_ends a

end Octave.C03
