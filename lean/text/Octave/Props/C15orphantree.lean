/-
C15 (any content change changes the emitted text) and C09 (same content under respelling) on the ORPHAN-TREE class of
`Props/C02orphantree` (`OrphNode`: commented trees whose blocks may END with orphan comment lines).

  * `orphInj_text_injective`            the canonical text `orphDocText` determines the name, the content (`orphInjContent`: keys,
                                        nesting, order, values with their types, EVERY comment — leading, trailing, ORPHAN) and the
                                        document's trailing comments;
  * `C15_orphantree_emit_injective`     two documents of the class with the same emitted bytes are equal in all of that
                                        (`…_matches`: for any two ASTs carrying the trees, whatever positions they hold).
    Proof as in `Props/C01ctree`: the strict reader (`C02_orphantree_canonical_is_readable`) is a left inverse of the emitter; the
    body is re-read under the name `D`, behind a dummy first line, in the ASCII environment (`orphInj_treeOK_ascii`), so there is no
    hypothesis on `META`, `END` or NFC.  New with respect to the ctree proof: an AST block holds `children ++ orph.map comment` and
    the split is unique because no node that `Matches` an `OrphNode` is a `Comment` node (`orphInj_split`).
  * `C09_orphantree_same_content_partial`   two orphan trees that agree once the leading / trailing / document-trailing comments
                                        are forgotten BUT THE ORPHANS KEPT (`orphInjCNodes` equal) are read, by `parse` and by
                                        `parse_with_warnings`, as documents with the same `Document.content`, which is
                                        `orphInjCContent` (orphans are `Comment` nodes in it);
    `C09_orphantree_comments_same_content_partial`: the text against the text with every attached comment removed, orphans kept
    (`orphInjStrip`).
    PARTIAL: `Document.content` (`Lemmas/ContentErase`, mirror of the validator model's `other` nodes) KEEPS `.comment` nodes, so the
    statement does NOT cover adding / removing / editing an orphan comment: such a change changes `content` (negative example at
    the end, `decide +kernel`).  Real code (`Validator.validate` / `_validate_section`, /repo/src/octave_mcp/core/validator.py):
    the validator builds `present_fields` from `isinstance(child, Assignment)` children only and never looks at `Comment`
    children, and `Comment` nodes exist only as orphans inside blocks, so the verdict on a text with an orphan comment and on the
    text without it can never differ (run: `Validator(None).validate(parse(t), strict, {"B": SchemaDefinition(fields = {K})})` for
    UNKNOWN_FIELDS REJECT / IGNORE / WARN, strict and not, on `B:\n  K::1\n  // o1\n  // o2` against `B:\n  K::1`, and on `B:\n  Z::1\n  // o1`
    against `B:\n  Z::1`: the same verdicts in all twelve pairs — `[]`, resp. E007 / nothing / W001 for `Z` alone; the orphan is never
    reported as an unknown field; `B` with orphans only validates like an empty `B`).  The right erasure
    for C09 on this class would therefore DROP `.comment` children (filter them out of `eraseList`), not keep them; with the
    current `Node.erase` the theorem below is the exact statement.
-/
import Octave.Props.C02orphantree
import Octave.Props.C09respell

namespace Octave

/-! ### position-free content of an orphan tree -/

/-- the content of an orphan tree with every position forgotten: keys, nesting, order, values with their types, the leading
comments of every node, the trailing comment of every assignment and the ORPHAN comments of every block. -/
inductive OrphInjContent where
  | line (key : Str) (v : Value) (lead : List Str) (trail : Option Str)
  | block (key : Str) (children : List OrphInjContent) (orph : List Str) (lead : List Str)

mutual
def orphInjNodeContent : OrphNode → OrphInjContent
  | .line ln lead trail => .line ln.key ln.v.value lead trail
  | .block key cs orph lead => .block key (orphInjContent cs) orph lead
def orphInjContent : List OrphNode → List OrphInjContent
  | [] => []
  | n :: ns => orphInjNodeContent n :: orphInjContent ns
end

def orphInjIsComment : Node → Bool
  | .comment _ => true
  | _ => false

/-- no AST node that carries an `OrphNode` is a `Comment` node. -/
theorem orphInj_notComment_node (t : OrphNode) (n : Node) (h : t.Matches n) : orphInjIsComment n = false := by
  cases t with
  | line ln lead trail =>
    simp only [OrphNode.Matches] at h
    obtain ⟨l, c, rfl⟩ := h
    rfl
  | block key cs orph lead =>
    simp only [OrphNode.Matches] at h
    obtain ⟨ch, l, c, rfl, _⟩ := h
    rfl

theorem orphInj_notComment : ∀ (ts : List OrphNode) (ns : List Node), orphTreeMatches ts ns →
    ∀ n ∈ ns, orphInjIsComment n = false
  | [], ns, h, n, hn => by
    simp only [orphTreeMatches] at h
    subst h; cases hn
  | t :: ts, ns, h, n, hn => by
    simp only [orphTreeMatches] at h
    obtain ⟨n', ns', rfl, hm, hr⟩ := h
    rcases List.mem_cons.mp hn with rfl | hn'
    · exact orphInj_notComment_node t _ hm
    · exact orphInj_notComment ts ns' hr n hn'

theorem orphInj_map_comment_inj : ∀ (o o' : List Str), o.map Node.comment = o'.map Node.comment → o = o'
  | [], [], _ => rfl
  | [], _ :: _, h => by cases h
  | _ :: _, [], h => by cases h
  | c :: o, c' :: o', h => by
    simp only [List.map_cons, List.cons.injEq, Node.comment.injEq] at h
    rw [h.1, orphInj_map_comment_inj o o' h.2]

/-- the children of an AST block split uniquely into non-comment nodes followed by `Comment` nodes. -/
theorem orphInj_split : ∀ (a a' : List Node) (o o' : List Str),
    (∀ n ∈ a, orphInjIsComment n = false) → (∀ n ∈ a', orphInjIsComment n = false) →
    a ++ o.map Node.comment = a' ++ o'.map Node.comment → a = a' ∧ o = o'
  | [], [], o, o', _, _, h => ⟨rfl, orphInj_map_comment_inj o o' (by simpa using h)⟩
  | [], x :: a', o, o', _, h2, h => by
    exfalso
    have hx := h2 x (List.mem_cons_self ..)
    cases o with
    | nil => simp at h
    | cons c o =>
      simp only [List.nil_append, List.map_cons, List.cons_append, List.cons.injEq] at h
      rw [← h.1] at hx
      cases hx
  | x :: a, [], o, o', h1, _, h => by
    exfalso
    have hx := h1 x (List.mem_cons_self ..)
    cases o' with
    | nil => simp at h
    | cons c o' =>
      simp only [List.nil_append, List.map_cons, List.cons_append, List.cons.injEq] at h
      rw [h.1] at hx
      cases hx
  | x :: a, x' :: a', o, o', h1, h2, h => by
    simp only [List.cons_append, List.cons.injEq] at h
    obtain ⟨r1, r2⟩ := orphInj_split a a' o o' (fun n hn => h1 n (List.mem_cons_of_mem _ hn))
      (fun n hn => h2 n (List.mem_cons_of_mem _ hn)) h.2
    exact ⟨by rw [h.1, r1], r2⟩

mutual
/-- an AST node determines the content of every orphan-tree node that `Matches` it. -/
theorem orphInj_nodeContent_of_matches : ∀ (t t' : OrphNode) (n : Node), t.Matches n → t'.Matches n →
    orphInjNodeContent t = orphInjNodeContent t'
  | .line ln lead trail, .line ln' lead' trail', n, h, h' => by
    simp only [OrphNode.Matches] at h h'
    obtain ⟨l, c, rfl⟩ := h
    obtain ⟨l', c', e⟩ := h'
    simp only [Node.assign.injEq] at e
    simp only [orphInjNodeContent, e.1, e.2.1, e.2.2.2.2.1, e.2.2.2.2.2]
  | .line ln lead trail, .block key' cs' orph' lead', n, h, h' => by
    simp only [OrphNode.Matches] at h h'
    obtain ⟨l, c, rfl⟩ := h
    obtain ⟨ch, l', c', e, _⟩ := h'
    cases e
  | .block key cs orph lead, .line ln' lead' trail', n, h, h' => by
    simp only [OrphNode.Matches] at h h'
    obtain ⟨ch, l, c, rfl, _⟩ := h
    obtain ⟨l', c', e⟩ := h'
    cases e
  | .block key cs orph lead, .block key' cs' orph' lead', n, h, h' => by
    simp only [OrphNode.Matches] at h h'
    obtain ⟨ch, l, c, rfl, hm⟩ := h
    obtain ⟨ch', l', c', e, hm'⟩ := h'
    simp only [Node.block.injEq] at e
    obtain ⟨ek, ec, _, _, el, _⟩ := e
    obtain ⟨e1, e2⟩ := orphInj_split ch ch' orph orph' (orphInj_notComment cs ch hm) (orphInj_notComment cs' ch' hm') ec
    subst e1
    simp only [orphInjNodeContent, ek, el, e2, orphInj_content_of_matches cs cs' ch hm hm']
theorem orphInj_content_of_matches : ∀ (ts ts' : List OrphNode) (ns : List Node), orphTreeMatches ts ns →
    orphTreeMatches ts' ns → orphInjContent ts = orphInjContent ts'
  | [], [], _, _, _ => rfl
  | [], t' :: ts', ns, h, h' => by
    simp only [orphTreeMatches] at h h'
    obtain ⟨n, ns', e, _⟩ := h'
    rw [h] at e; cases e
  | t :: ts, [], ns, h, h' => by
    simp only [orphTreeMatches] at h h'
    obtain ⟨n, ns', e, _⟩ := h
    rw [h'] at e; cases e
  | t :: ts, t' :: ts', ns, h, h' => by
    simp only [orphTreeMatches] at h h'
    obtain ⟨n, ns1, rfl, hm, hr⟩ := h
    obtain ⟨n', ns1', e, hm', hr'⟩ := h'
    simp only [List.cons.injEq] at e
    obtain ⟨e1, e2⟩ := e
    subst e1; subst e2
    simp only [orphInjContent, orphInj_nodeContent_of_matches t t' n hm hm', orphInj_content_of_matches ts ts' ns1 hr hr']
end

mutual
theorem orphInj_nodeOK_ascii (env : Env) : ∀ (n : OrphNode), n.OK env → n.OK Env.ascii
  | .line ln lead trail, h => by
    simp only [OrphNode.OK] at h ⊢
    exact ⟨h.1, fun c hc => (h.2.1 c hc).ascii, h.2.2.ascii⟩
  | .block key cs orph lead, h => by
    simp only [OrphNode.OK] at h ⊢
    exact ⟨h.1, h.2.1, fun c hc => (h.2.2.1 c hc).ascii, orphInj_treeOK_ascii env cs h.2.2.2.1,
      fun c hc => (h.2.2.2.2 c hc).ascii⟩
/-- the conditions on an orphan tree transfer from any environment to `Env.ascii`. -/
theorem orphInj_treeOK_ascii (env : Env) : ∀ (ns : List OrphNode), orphTreeOK env ns → orphTreeOK Env.ascii ns
  | [], _ => trivial
  | n :: ns, h => by
    simp only [orphTreeOK] at h ⊢
    exact ⟨orphInj_nodeOK_ascii env n h.1, orphInj_treeOK_ascii env ns h.2⟩
end

end Octave

namespace Octave.C15
open Octave Lexer Emitter C02

/-- the text after the envelope line does not depend on the name. -/
theorem orphInj_docText_split (name : Str) (nodes : List OrphNode) (trailing : List Str) :
    orphDocText name nodes trailing
      = ("===".toList ++ name ++ "===".toList) ++
          '\n' :: (orphTreeText 0 nodes ++ (leadText 0 trailing ++ ("===END===".toList ++ ['\n']))) := rfl

/-- a line that is certainly not keyed `META`, put in front of a tree to make the reader theorem applicable. -/
def orphInjDummy : OrphNode := .line ⟨"A".toList, .null⟩ [] none

theorem orphInjDummy_ok (env : Env) : orphInjDummy.OK env := by
  simp only [orphInjDummy, OrphNode.OK, FLine.OK, FScalar.OK, TrailOK]
  refine ⟨by decide, ?_, trivial⟩
  intro c hc
  cases hc

/-- **The canonical text determines the document, every comment included — orphans too.**  No hypothesis other than the shape
of names, keys and comment texts (`isEnvName`, `orphTreeOK`, `CommentOK`: without them a name, a key or a comment could contain
a line break and the text would be ambiguous). -/
theorem orphInj_text_injective (env1 env2 : Env) (n1 n2 : Str) (t1 t2 : List OrphNode) (tr1 tr2 : List Str)
    (hn1 : isEnvName n1 = true) (hok1 : orphTreeOK env1 t1) (htr1 : ∀ c ∈ tr1, CommentOK env1 c)
    (hn2 : isEnvName n2 = true) (hok2 : orphTreeOK env2 t2) (htr2 : ∀ c ∈ tr2, CommentOK env2 c)
    (h : orphDocText n1 t1 tr1 = orphDocText n2 t2 tr2) :
    n1 = n2 ∧ orphInjContent t1 = orphInjContent t2 ∧ tr1 = tr2 := by
  have hname : n1 = n2 := by
    have hs := congrArg splitLines h
    rw [orph_splitLines_docText env1 n1 t1 tr1 hn1 hok1 htr1, orph_splitLines_docText env2 n2 t2 tr2 hn2 hok2 htr2] at hs
    exact List.append_cancel_left (List.append_cancel_right (List.cons.inj hs).1)
  refine ⟨hname, ?_⟩
  subst hname
  rw [orphInj_docText_split, orphInj_docText_split] at h
  have hbody : orphTreeText 0 t1 ++ (leadText 0 tr1 ++ ("===END===".toList ++ ['\n']))
      = orphTreeText 0 t2 ++ (leadText 0 tr2 ++ ("===END===".toList ++ ['\n'])) :=
    (List.cons.inj (List.append_cancel_left h)).2
  have hD : orphDocText "D".toList (orphInjDummy :: t1) tr1 = orphDocText "D".toList (orphInjDummy :: t2) tr2 := by
    simp only [orphDocText, orphTreeText, List.append_assoc, hbody]
  have r1 := (C02_orphantree_canonical_is_readable Env.ascii "D".toList (orphInjDummy :: t1) tr1 (by decide) (by decide)
    ⟨orphInjDummy_ok _, orphInj_treeOK_ascii env1 t1 hok1⟩ (fun c hc => (htr1 c hc).ascii) rfl (fun _ _ => rfl)).1
  have r2 := (C02_orphantree_canonical_is_readable Env.ascii "D".toList (orphInjDummy :: t2) tr2 (by decide) (by decide)
    ⟨orphInjDummy_ok _, orphInj_treeOK_ascii env2 t2 hok2⟩ (fun c hc => (htr2 c hc).ascii) rfl (fun _ _ => rfl)).1
  rw [hD, r2] at r1
  have hd : orphDoc "D".toList canonPos (orphInjDummy :: t2) tr2 = orphDoc "D".toList canonPos (orphInjDummy :: t1) tr1 := by
    simpa using r1
  have hsec := congrArg Document.sections hd
  have htc := congrArg Document.trailingComments hd
  simp only [orphDoc] at hsec htc
  have m1 := orphTreeNodes_matches canonPos (orphInjDummy :: t1) 0 0
  have m2 := orphTreeNodes_matches canonPos (orphInjDummy :: t2) 0 0
  rw [hsec] at m2
  have hc := orphInj_content_of_matches _ _ _ m1 m2
  simp only [orphInjContent, List.cons.injEq] at hc
  exact ⟨hc.2, htc.symm⟩

/-- **C15 on the orphan-tree class: two documents with the same emitted bytes have the same content** — name; keys, nesting,
order, values with their types; every leading comment, every trailing comment, every ORPHAN comment of every block, the
document's trailing comments (texts and order).  So any content change changes the emitted text.  The two documents may be
emitted in different environments and carry any positions. -/
theorem C15_orphantree_emit_injective (env1 env2 : Env) (n1 n2 : Str) (p1 p2 : Nat → Nat → Nat × Nat) (t1 t2 : List OrphNode)
    (tr1 tr2 : List Str)
    (hn1 : isEnvName n1 = true) (hok1 : orphTreeOK env1 t1) (hem1 : orphTreeEmitOK env1 t1) (htr1 : ∀ c ∈ tr1, CommentOK env1 c)
    (hn2 : isEnvName n2 = true) (hok2 : orphTreeOK env2 t2) (hem2 : orphTreeEmitOK env2 t2) (htr2 : ∀ c ∈ tr2, CommentOK env2 c)
    (h : emit env1 (orphDoc n1 p1 t1 tr1) = emit env2 (orphDoc n2 p2 t2 tr2)) :
    n1 = n2 ∧ orphInjContent t1 = orphInjContent t2 ∧ tr1 = tr2 := by
  rw [orph_emit_tree env1 n1 p1 t1 tr1 hem1 (fun c hc => (htr1 c hc).1),
    orph_emit_tree env2 n2 p2 t2 tr2 hem2 (fun c hc => (htr2 c hc).1)] at h
  exact orphInj_text_injective env1 env2 n1 n2 t1 t2 tr1 tr2 hn1 hok1 htr1 hn2 hok2 htr2 (by simpa using h)

/-- the same for ANY two ASTs that carry the trees (any positions at all in the nodes). -/
theorem C15_orphantree_emit_injective_matches (env1 env2 : Env) (n1 n2 : Str) (s1 s2 : List Node) (t1 t2 : List OrphNode)
    (tr1 tr2 : List Str) (hmt1 : orphTreeMatches t1 s1) (hmt2 : orphTreeMatches t2 s2)
    (hn1 : isEnvName n1 = true) (hok1 : orphTreeOK env1 t1) (hem1 : orphTreeEmitOK env1 t1) (htr1 : ∀ c ∈ tr1, CommentOK env1 c)
    (hn2 : isEnvName n2 = true) (hok2 : orphTreeOK env2 t2) (hem2 : orphTreeEmitOK env2 t2) (htr2 : ∀ c ∈ tr2, CommentOK env2 c)
    (h : emit env1 { name := n1, sections := s1, trailingComments := tr1 }
        = emit env2 { name := n2, sections := s2, trailingComments := tr2 }) :
    n1 = n2 ∧ orphInjContent t1 = orphInjContent t2 ∧ tr1 = tr2 := by
  rw [orph_emit_tree_matches env1 n1 t1 tr1 s1 hmt1 hem1 (fun c hc => (htr1 c hc).1),
    orph_emit_tree_matches env2 n2 t2 tr2 s2 hmt2 hem2 (fun c hc => (htr2 c hc).1)] at h
  exact orphInj_text_injective env1 env2 n1 n2 t1 t2 tr1 tr2 hn1 hok1 htr1 hn2 hok2 htr2 (by simpa using h)

/-! ### non-vacuity -/

/-- the nested example of `Props/C02orphantree`, two ASTs with different positions: same bytes, same content. -/
example : orphInjContent orphEx2 = orphInjContent orphEx2 ∧ ["dt".toList] = ["dt".toList] :=
  (C15_orphantree_emit_injective Env.ascii Env.ascii "D".toList "D".toList (fun _ _ => (0, 0)) (fun i d => (i, d)) orphEx2 orphEx2
    ["dt".toList] ["dt".toList] (by decide) orphEx2_ok orphEx2_emit (by decide) (by decide) orphEx2_ok orphEx2_emit (by decide)
    (by rw [orph_emit_tree _ _ _ _ _ orphEx2_emit (by decide), orph_emit_tree _ _ _ _ _ orphEx2_emit (by decide)])).2

/-- the content of the first example, positions forgotten: the orphans are part of it. -/
example : orphInjContent orphEx1 =
    [ .block "B".toList [ .line "K".toList (.int 1) [] none ] ["o1".toList, "o2".toList] [],
      .line "A".toList (.int 2) [] none ] := rfl

/-- contrapositive use: a document that differs in ONE ORPHAN comment has another text. -/
example : orphDocText "D".toList orphEx1 [] ≠
    orphDocText "D".toList [.block "B".toList [.line ⟨"K".toList, .int 1⟩ [] none] ["o1".toList] [],
                            .line ⟨"A".toList, .int 2⟩ [] none] [] := by
  intro h
  have := (orphInj_text_injective Env.ascii Env.ascii _ _ _ _ _ _ (by decide) orphEx1_ok (by decide) (by decide)
    (by simp only [orphTreeOK, OrphNode.OK, FLine.OK, FScalar.OK]; decide) (by decide) h).2.1
  simp [orphEx1, orphInjContent, orphInjNodeContent] at this

/-- an orphan of the inner block moved to the outer block (one indentation step) gives another text. -/
example : orphDocText "D".toList [.block "B".toList [.block "C".toList [.line ⟨"X".toList, .int 1⟩ [] none] ["o".toList] []] [] []] []
    ≠ orphDocText "D".toList [.block "B".toList [.block "C".toList [.line ⟨"X".toList, .int 1⟩ [] none] [] []] ["o".toList] []] [] := by
  intro h
  have := (orphInj_text_injective Env.ascii Env.ascii _ _ _ _ _ _ (by decide)
    (by simp only [orphTreeOK, OrphNode.OK, FLine.OK, FScalar.OK]; decide) (by decide) (by decide)
    (by simp only [orphTreeOK, OrphNode.OK, FLine.OK, FScalar.OK]; decide) (by decide) h).2.1
  simp [orphInjContent, orphInjNodeContent] at this

end Octave.C15

namespace Octave.C09
open Octave Lexer Emitter C02

mutual
/-- content (`Document.content`) of an orphan tree: assignments and blocks — keys, nesting, order, values; no ATTACHED comment;
the ORPHANS of a block stay, as `Comment` nodes behind its children (`Node.erase` keeps `.comment`). -/
def orphInjCNode : OrphNode → Node
  | .line ln _ _ => .assign ln.key ln.v.value 0 0 [] none
  | .block key cs orph _ => .block key (orphInjCNodes cs ++ orph.map Node.comment) 0 0 [] none
def orphInjCNodes : List OrphNode → List Node
  | [] => []
  | n :: ns => orphInjCNode n :: orphInjCNodes ns
end

def orphInjCContent (name : Str) (nodes : List OrphNode) : Document := { name := name, sections := orphInjCNodes nodes }

mutual
/-- the same tree with every ATTACHED comment removed (leading, trailing); the orphans stay. -/
def orphInjStripNode : OrphNode → OrphNode
  | .line ln _ _ => .line ln [] none
  | .block key cs orph _ => .block key (orphInjStrip cs) orph []
def orphInjStrip : List OrphNode → List OrphNode
  | [] => []
  | n :: ns => orphInjStripNode n :: orphInjStrip ns
end

mutual
theorem orphInj_cnode_strip : ∀ n : OrphNode, orphInjCNode (orphInjStripNode n) = orphInjCNode n
  | .line _ _ _ => rfl
  | .block key cs orph _ => by simp only [orphInjStripNode, orphInjCNode, orphInj_cnodes_strip cs]
/-- removing the attached comments does not change the content. -/
theorem orphInj_cnodes_strip : ∀ ns : List OrphNode, orphInjCNodes (orphInjStrip ns) = orphInjCNodes ns
  | [] => rfl
  | n :: ns => by simp only [orphInjStrip, orphInjCNodes, orphInj_cnode_strip n, orphInj_cnodes_strip ns]
end

theorem orphInj_eraseList_comments : ∀ cs : List Str, Node.eraseList (cs.map Node.comment) = cs.map Node.comment
  | [] => rfl
  | c :: cs => by simp only [List.map_cons, Node.eraseList, Node.erase, orphInj_eraseList_comments cs]

mutual
/-- an AST that carries an orphan tree has the content of the tree: erasure drops the attached comments and the positions and
KEEPS the orphan `Comment` nodes. -/
theorem orphInj_erase_of_matches : ∀ (t : OrphNode) (n : Node), t.Matches n → n.erase = orphInjCNode t
  | .line ln lead trail, n, h => by
    simp only [OrphNode.Matches] at h
    obtain ⟨l, c, rfl⟩ := h
    simp only [Node.erase_assign, orphInjCNode]
  | .block key cs orph lead, n, h => by
    simp only [OrphNode.Matches] at h
    obtain ⟨ch, l, c, rfl, hm⟩ := h
    simp only [Node.erase, orphInjCNode, Node.eraseList_append, orphInj_eraseList_comments,
      orphInj_eraseList_of_matches cs ch hm]
theorem orphInj_eraseList_of_matches : ∀ (ts : List OrphNode) (ns : List Node), orphTreeMatches ts ns →
    Node.eraseList ns = orphInjCNodes ts
  | [], ns, h => by
    simp only [orphTreeMatches] at h
    subst h; rfl
  | t :: ts, ns, h => by
    simp only [orphTreeMatches] at h
    obtain ⟨n, ns', rfl, hm, hr⟩ := h
    simp only [Node.eraseList, orphInjCNodes, orphInj_erase_of_matches t n hm, orphInj_eraseList_of_matches ts ns' hr]
end

theorem orphInj_doc_content (name : Str) (pos : Nat → Nat → Nat × Nat) (nodes : List OrphNode) (trailing : List Str) :
    (orphDoc name pos nodes trailing).content = orphInjCContent name nodes := by
  simp only [Document.content, orphDoc, orphInjCContent, MetaVal.erasePairs,
    orphInj_eraseList_of_matches nodes _ (orphTreeNodes_matches pos nodes 0 0)]

/-- one text of the class: both entry points read a document whose content is `orphInjCContent name nodes`. -/
theorem orphInj_tree_content (env : Env) (name : Str) (nodes : List OrphNode) (trailing : List Str)
    (hn : isEnvName name = true) (hne : name ≠ "END".toList) (hok : orphTreeOK env nodes)
    (htr : ∀ c ∈ trailing, CommentOK env c) (hm : orphFirstIsBareMeta nodes = false)
    (hnfc : ∀ l ∈ splitLines (orphDocText name nodes trailing), env.nfc l = l) :
    respellContent (Parser.parse env (orphDocText name nodes trailing)) = .ok (orphInjCContent name nodes) ∧
    respellContentW (Parser.parseWithWarnings env (orphDocText name nodes trailing)) = .ok (orphInjCContent name nodes) := by
  rw [C02_orphantree_strict_read env name nodes trailing hn hne hok htr hm hnfc,
    C02_orphantree_lenient_read_exact env name nodes trailing hn hne hok htr hm hnfc,
    respellContent_ok, respellContentW_ok, orphInj_doc_content]
  exact ⟨rfl, rfl⟩

/-- **C09 on orphan trees (PARTIAL): two documents that differ only in their ATTACHED comments are read as documents with the
same content.**  `nodes₁` and `nodes₂` are the same tree WITH THE SAME ORPHANS (`orphInjCNodes` equal: keys, nesting, order,
values, and per block the orphan texts in order) with ANY leading comments in front of any node, ANY trailing comment behind any
line and ANY document-trailing comments, chosen independently; by `parse` and by `parse_with_warnings`; neither read fails.
What is missing for the full property: a change of the ORPHAN comments is not covered — and cannot be with `Document.content`,
which keeps `.comment` nodes (negative example below); the real validator never looks at `Comment` children, so the erasure
that drops them would be the right one and would make this statement total on the class. -/
theorem C09_orphantree_same_content_partial (env : Env) (name : Str) (nodes₁ nodes₂ : List OrphNode) (tr₁ tr₂ : List Str)
    (hsame : orphInjCNodes nodes₁ = orphInjCNodes nodes₂)
    (hn : isEnvName name = true) (hne : name ≠ "END".toList)
    (hok₁ : orphTreeOK env nodes₁) (hok₂ : orphTreeOK env nodes₂)
    (htr₁ : ∀ c ∈ tr₁, CommentOK env c) (htr₂ : ∀ c ∈ tr₂, CommentOK env c)
    (hm₁ : orphFirstIsBareMeta nodes₁ = false) (hm₂ : orphFirstIsBareMeta nodes₂ = false)
    (hnfc₁ : ∀ l ∈ splitLines (orphDocText name nodes₁ tr₁), env.nfc l = l)
    (hnfc₂ : ∀ l ∈ splitLines (orphDocText name nodes₂ tr₂), env.nfc l = l) :
    respellContent (Parser.parse env (orphDocText name nodes₁ tr₁))
      = respellContent (Parser.parse env (orphDocText name nodes₂ tr₂)) ∧
    respellContentW (Parser.parseWithWarnings env (orphDocText name nodes₁ tr₁))
      = respellContentW (Parser.parseWithWarnings env (orphDocText name nodes₂ tr₂)) ∧
    respellContent (Parser.parse env (orphDocText name nodes₁ tr₁)) = .ok (orphInjCContent name nodes₁) := by
  have h1 := orphInj_tree_content env name nodes₁ tr₁ hn hne hok₁ htr₁ hm₁ hnfc₁
  have h2 := orphInj_tree_content env name nodes₂ tr₂ hn hne hok₂ htr₂ hm₂ hnfc₂
  have e : orphInjCContent name nodes₂ = orphInjCContent name nodes₁ := by simp only [orphInjCContent, hsame]
  rw [e] at h2
  exact ⟨by rw [h1.1, h2.1], by rw [h1.2, h2.2], h1.1⟩

mutual
theorem orphInj_node_strip_ok (env : Env) : ∀ n : OrphNode, n.OK env → (orphInjStripNode n).OK env
  | .line ln lead trail, h => by
    simp only [OrphNode.OK] at h
    simp only [orphInjStripNode, OrphNode.OK]
    exact ⟨h.1, (fun _ hc => by cases hc), trivial⟩
  | .block key cs orph lead, h => by
    simp only [OrphNode.OK] at h
    simp only [orphInjStripNode, OrphNode.OK]
    exact ⟨h.1, h.2.1, (fun _ hc => by cases hc), orphInj_tree_strip_ok env cs h.2.2.2.1, h.2.2.2.2⟩
theorem orphInj_tree_strip_ok (env : Env) : ∀ ns : List OrphNode, orphTreeOK env ns → orphTreeOK env (orphInjStrip ns)
  | [], _ => by simp only [orphInjStrip, orphTreeOK]
  | n :: ns, h => by
    simp only [orphTreeOK] at h
    simp only [orphInjStrip, orphTreeOK]
    exact ⟨orphInj_node_strip_ok env n h.1, orphInj_tree_strip_ok env ns h.2⟩
end

/-- if the stripped tree does not begin with a node keyed `META`, the commented one does not begin with a BARE such node. -/
theorem orphInj_meta_of_strip (nodes : List OrphNode) (h : orphFirstIsBareMeta (orphInjStrip nodes) = false) :
    orphFirstIsBareMeta nodes = false := by
  cases nodes with
  | nil => rfl
  | cons n ns =>
    cases n with
    | line ln lead trail =>
      simp only [orphInjStrip, orphInjStripNode, orphFirstIsBareMeta, OrphNode.lead, OrphNode.key, List.isEmpty_nil,
        Bool.true_and] at h
      simp only [orphFirstIsBareMeta, OrphNode.lead, OrphNode.key, h, Bool.and_false]
    | block key cs orph lead =>
      simp only [orphInjStrip, orphInjStripNode, orphFirstIsBareMeta, OrphNode.lead, OrphNode.key, List.isEmpty_nil,
        Bool.true_and] at h
      simp only [orphFirstIsBareMeta, OrphNode.lead, OrphNode.key, h, Bool.and_false]

/-- the instance: the canonical text WITH its comments against the canonical text with every leading / trailing /
document-trailing comment removed AND THE ORPHANS KEPT (`orphInjStrip`, trailing `[]`): same content.  `hm` on the stripped
forest, as in `C09_ctree_comments_same_content` (a comment above a first node keyed `META` is content-relevant). -/
theorem C09_orphantree_comments_same_content_partial (env : Env) (name : Str) (nodes : List OrphNode) (trailing : List Str)
    (hn : isEnvName name = true) (hne : name ≠ "END".toList) (hok : orphTreeOK env nodes)
    (htr : ∀ c ∈ trailing, CommentOK env c) (hm : orphFirstIsBareMeta (orphInjStrip nodes) = false)
    (hnfc : ∀ l ∈ splitLines (orphDocText name nodes trailing), env.nfc l = l)
    (hnfc0 : ∀ l ∈ splitLines (orphDocText name (orphInjStrip nodes) []), env.nfc l = l) :
    respellContent (Parser.parse env (orphDocText name nodes trailing))
      = respellContent (Parser.parse env (orphDocText name (orphInjStrip nodes) [])) ∧
    respellContentW (Parser.parseWithWarnings env (orphDocText name nodes trailing))
      = respellContentW (Parser.parseWithWarnings env (orphDocText name (orphInjStrip nodes) [])) ∧
    respellContent (Parser.parse env (orphDocText name nodes trailing)) = .ok (orphInjCContent name nodes) :=
  C09_orphantree_same_content_partial env name nodes (orphInjStrip nodes) trailing [] (orphInj_cnodes_strip nodes).symm hn hne hok
    (orphInj_tree_strip_ok env nodes hok) htr (fun _ hc => by cases hc) (orphInj_meta_of_strip nodes hm) hm hnfc hnfc0

/-! ### non-vacuity, and the negative example -/

/-- the nested example with every attached comment removed: the five orphan lines stay. -/
example : orphDocText "D".toList (orphInjStrip orphEx2) [] =
    "===D===\nB:\n  K::1\n  C:\n    X::1\n    // i1\n  // o1\n  // o2\nE:\n  // only\n  //\nA::2\n===END===\n".toList := by
  decide +kernel

example : respellContent (Parser.parse Env.ascii (orphDocText "D".toList orphEx2 ["dt".toList]))
      = respellContent (Parser.parse Env.ascii (orphDocText "D".toList (orphInjStrip orphEx2) [])) ∧
    respellContentW (Parser.parseWithWarnings Env.ascii (orphDocText "D".toList orphEx2 ["dt".toList]))
      = respellContentW (Parser.parseWithWarnings Env.ascii (orphDocText "D".toList (orphInjStrip orphEx2) [])) ∧
    respellContent (Parser.parse Env.ascii (orphDocText "D".toList orphEx2 ["dt".toList]))
      = .ok (orphInjCContent "D".toList orphEx2) :=
  C09_orphantree_comments_same_content_partial Env.ascii "D".toList orphEx2 ["dt".toList] (by decide) (by decide) orphEx2_ok
    (by decide) (by decide) (fun _ _ => rfl) (fun _ _ => rfl)

/-- the content, written out: attached comments gone, orphans present. -/
example : orphInjCContent "D".toList orphEx2 =
    { name := "D".toList,
      sections := [ .block "B".toList
                      [ .assign "K".toList (.int 1) 0 0 [] none,
                        .block "C".toList [ .assign "X".toList (.int 1) 0 0 [] none, .comment "i1".toList ] 0 0 [] none,
                        .comment "o1".toList, .comment "o2".toList ] 0 0 [] none,
                    .block "E".toList [ .comment "only".toList, .comment [] ] 0 0 [] none,
                    .assign "A".toList (.int 2) 0 0 [] none ] } := rfl

/-- another commenting of `orphEx1`, same orphans. -/
def orphInjEx1b : List OrphNode :=
  [.block "B".toList [.line ⟨"K".toList, .int 1⟩ ["x".toList] (some "y".toList)] ["o1".toList, "o2".toList] ["z".toList],
   .line ⟨"A".toList, .int 2⟩ [[]] none]

theorem orphInjEx1b_ok : orphTreeOK Env.ascii orphInjEx1b := by
  simp only [orphInjEx1b, orphTreeOK, OrphNode.OK, FLine.OK, FScalar.OK]
  decide

/-- the general form: two different commentings with the same orphans. -/
example : respellContent (Parser.parse Env.ascii (orphDocText "D".toList orphEx1 []))
      = respellContent (Parser.parse Env.ascii (orphDocText "D".toList orphInjEx1b ["w".toList])) :=
  (C09_orphantree_same_content_partial Env.ascii "D".toList orphEx1 orphInjEx1b [] ["w".toList] rfl (by decide) (by decide)
    orphEx1_ok orphInjEx1b_ok (by decide) (by decide) (by decide) (by decide) (fun _ _ => rfl) (fun _ _ => rfl)).1

/-- the tree of `orphEx1` WITHOUT its two orphans. -/
def orphInjEx1NoOrph : List OrphNode :=
  [.block "B".toList [.line ⟨"K".toList, .int 1⟩ [] none] [] [], .line ⟨"A".toList, .int 2⟩ [] none]

example : orphDocText "D".toList orphInjEx1NoOrph [] = "===D===\nB:\n  K::1\nA::2\n===END===\n".toList := by decide +kernel

/-- **NEGATIVE: adding an orphan comment changes `Document.content`.**  Both texts are read (theorem above) and the contents
differ: the hypothesis `orphInjCNodes nodes₁ = orphInjCNodes nodes₂` of the partial theorem cannot be weakened to "equal once
the orphans are forgotten too". -/
example : ∃ d₁ d₂, Parser.parse Env.ascii "===D===\nB:\n  K::1\n  // o1\n  // o2\nA::2\n===END===\n".toList = .ok d₁ ∧
    Parser.parse Env.ascii "===D===\nB:\n  K::1\nA::2\n===END===\n".toList = .ok d₂ ∧ d₁.content ≠ d₂.content := by
  refine ⟨orphDoc "D".toList canonPos orphEx1 [], orphDoc "D".toList canonPos orphInjEx1NoOrph [], ?_, ?_, ?_⟩
  · rw [← orphEx1_text]
    exact C02_orphantree_strict_read Env.ascii "D".toList orphEx1 [] (by decide) (by decide) orphEx1_ok (by decide) (by decide)
      (fun _ _ => rfl)
  · have e : "===D===\nB:\n  K::1\nA::2\n===END===\n".toList = orphDocText "D".toList orphInjEx1NoOrph [] := by decide +kernel
    rw [e]
    exact C02_orphantree_strict_read Env.ascii "D".toList orphInjEx1NoOrph [] (by decide) (by decide)
      (by simp only [orphInjEx1NoOrph, orphTreeOK, OrphNode.OK, FLine.OK, FScalar.OK]; decide) (by decide) (by decide)
      (fun _ _ => rfl)
  · rw [orphInj_doc_content, orphInj_doc_content]
    intro h
    have := congrArg Document.sections h
    simp [orphInjCContent, orphEx1, orphInjEx1NoOrph, orphInjCNodes, orphInjCNode] at this

/-- the same by evaluating the whole model on the two literal texts (independent of the theorems): both reads succeed, the
content differs, and differs from the text with ONE of the two orphans as well. -/
example : respellSameContentB (Parser.parse Env.ascii "===D===\nB:\n  K::1\n  // o1\n  // o2\nA::2\n===END===\n".toList)
    (Parser.parse Env.ascii "===D===\nB:\n  K::1\nA::2\n===END===\n".toList) = false := by decide +kernel
example : respellSameContentB (Parser.parse Env.ascii "===D===\nB:\n  K::1\n  // o1\n  // o2\nA::2\n===END===\n".toList)
    (Parser.parse Env.ascii "===D===\nB:\n  K::1\n  // o1\nA::2\n===END===\n".toList) = false := by decide +kernel
/-- (both reads do succeed: each text has the same content as itself.) -/
example : respellSameContentB (Parser.parse Env.ascii "===D===\nB:\n  K::1\n  // o1\n  // o2\nA::2\n===END===\n".toList)
    (Parser.parse Env.ascii "===D===\nB:\n  K::1\n  // o1\n  // o2\nA::2\n===END===\n".toList) = true := by decide +kernel
example : respellSameContentB (Parser.parse Env.ascii "===D===\nB:\n  K::1\nA::2\n===END===\n".toList)
    (Parser.parse Env.ascii "===D===\nB:\n  K::1\nA::2\n===END===\n".toList) = true := by decide +kernel
/-- … while an attached comment is not content (`// c` above `K`). -/
example : respellSameContentB (Parser.parse Env.ascii "===D===\nB:\n  // c\n  K::1\n  // o1\nA::2\n===END===\n".toList)
    (Parser.parse Env.ascii "===D===\nB:\n  K::1\n  // o1\nA::2\n===END===\n".toList) = true := by decide +kernel

end Octave.C09
