/-
C05 — literal zones ANYWHERE in a document: the document-level statement for forests of lines, blocks and zone
assignments, lexer ∘ parser ∘ emitter, proved for every content.

  "Literal zones pass through byte-for-byte … zones as assignment values … at every indent depth; several zones per
   document, adjacent to every other node kind."

`Props/C05roundtrip.lean` proves the round trip for a document whose FIRST body item is a top-level zone assignment followed
by flat lines.  Here the class is

  a document = an envelope `===NAME===`, a FOREST of `KEY::scalar` lines, `KEY:` blocks with children two spaces deeper,
  and ZONE ASSIGNMENTS `KEY::` + literal zone — in ANY order, at ANY depth, ANY number of zones, each with its own marker
  (three or more backticks), tag and content —, `===END===`                                          (`ZNode`, `zdocText`).

A zone at depth `d` is written the way the emitter writes it: `indent KEY::`, `indent marker tag`, the content lines
VERBATIM (NOT indented), `indent marker`.  A zone is described by its content LINES `C` (`Lemmas/ZoneTreeLex.lean`): `C = []`
is the EMPTY zone, `C = [""]` the zone whose content is one empty line; for a content STRING `content`,
`C = splitLines content` and the value read back is `content` itself (`ZNode.ofContent`, `ZNode.node_ofContent`).

Machinery: `Lemmas/LexFrame.lean` (FRAME LEMMA: `step` does not look at pending fence spans that start ahead; a `Run` proved
without pending spans holds verbatim with them — this is what lets lines and blocks BEFORE and BETWEEN zones reuse the
existing `run_tline` / `run_header`), `Lemmas/ZoneTreeLex.lean` (`normalize` finds one span per zone, the tab check accepts
tabs inside every span, the main loop on any forest, `tokenize_ztree`), `Lemmas/ZoneTreeParse.lean` (`parse_section` /
`blockLoop` / `docLoop` / `parse_document` on forests with zone assignments as leaves, arbitrary token positions),
`Lemmas/ZoneTreeBridge.lean` (the two halves composed; the emitter).

Results, for EVERY such forest, every name, every content (tabs, NFD, backslashes, quotes, operators, `===END===`, `KEY::v`
look-alikes, shorter backtick runs, empty lines …), every environment whose NFC leaves the lines OUTSIDE the zone contents
alone:

  * `C05_ztree_normalize`             `normalize` returns the text unchanged and ONE SPAN PER ZONE (no NFC on any content line);
  * `C05_ztree_lexes_verbatim`        the lexer yields, for each zone, FENCE_OPEN (marker, tag, column of the first backtick;
                                      no INDENT token in front) / LITERAL_CONTENT (the content, exactly) / FENCE_CLOSE /
                                      NEWLINE, every other line tokenised as without the zones, on the right line numbers; no
                                      receipt from inside a zone;
  * `C05_ztree_zone_read_verbatim`    the strict reader returns exactly the document: every zone assignment at its place — top
                                      level or inside any block, before / between / after lines and blocks — with exactly its
                                      content, tag and marker (`zdoc`); `C05_ztree_zones_in_order`: the zones of the document
                                      read back, in document order, are the zones written; `…_lenient`: the lenient entry
                                      point, exact receipts and warnings;
  * `C05_ztree_fixed_point_partial`   emit → strict read → emit gives the same bytes; the text is a fixed point of `canonStrict`
                                      and `canonLenient`.  Guard `zforestNoEmptyLine`: no zone content is the single empty line
                                      (finding C05N1: `C05N1_ztree_image` computes the image of ANY text of the class — every
                                      one-empty-line zone becomes an empty zone —, `C05N1_ztree_witness` is the negation inside
                                      a nested block);
  * `C05_ztree_emit`, `C05_ztree_doc_fixed_point`   from the DOCUMENT side: no guard on the contents (content `""` is written as
                                      the empty zone and read back as content `""`); the zones read back are the zones of the
                                      document;
  * `C05_ztree_neighbours_untouched`  deleting every zone assignment from the text deletes exactly the zone assignments from the
                                      document read back: all other nodes — same keys, values, types, nesting, order — are what
                                      the reader returns for the zone-free text (positions aside).

Hypotheses (all decidable except `hnfc`, all necessary — section 7 exhibits the model at each excluded point, the report has
the real reader): `isEnvName name`, `name ≠ "END"`; `zforestOK` — keys identifier-shaped without reserved-word prefix, scalars
as the emitter spells them, `isMarker`, `tagTextOK`, no content line closes its fence (`contentLineOK`) —; the first top-level
key is not `META` (`zfirstKeyIsMeta`); NFC leaves the structural lines alone (`zdocNfcLines`: nothing is assumed on the
contents).  For the fixed point additionally `zforestEmitOK` (scalars spelled the emitter's way; the text after the backticks
is what `strip` returns) and the C05N1 guard `zforestNoEmptyLine`.

NOT covered: BARE zones (a fence line that is itself a block child / top-level node, no key) — `blockLoop`'s fence branch,
which reads the COLUMN of FENCE_OPEN, and the block-header path of `parse_section` are not exercised by zone ASSIGNMENTS
(a zone assignment is reached through `parse_value`, which has no indentation test).  Section 8 evaluates the model on bare
zones and records what was found there: a bare zone directly after an EMPTY sibling block is re-parented into that block.
-/
import Octave.Lemmas.ZoneTreeBridge
import Octave.Props.C05roundtrip
namespace Octave.C05
open Octave Lexer Scan Emitter

/-! ### 0. zones given by a content string -/

/-- the zone assignment `KEY::` + zone with info tag `tag` and content STRING `content` (one or more content lines:
`content = ""` is ONE EMPTY content line), as a node of the forest. -/
def _root_.Octave.ZNode.ofContent (key marker : Str) (tag : Option Str) (content : Str) : ZNode :=
  .zone key marker (tag.getD []) (splitLines content)

/-- … and the EMPTY zone (no content line). -/
def _root_.Octave.ZNode.emptyZone (key marker : Str) (tag : Option Str) : ZNode := .zone key marker (tag.getD []) []

/-- the zone value the reader must produce for it: `content` itself, the tag, the marker. -/
theorem ZNode.node_ofContent (env : Env) (pos : Nat → Nat → Nat × Nat) (d l : Nat) (key marker : Str) (tag : Option Str)
    (content : Str) (htag : TagOK env tag) :
    (ZNode.ofContent key marker tag content).node env pos d l
      = .assign key (.zone content tag marker) (pos l d).1 (pos l d).2 [] none := by
  simp only [ZNode.ofContent, ZNode.node, joinWith_splitLines, tagOf_of_TagOK env tag htag]

theorem ZNode.node_emptyZone (env : Env) (pos : Nat → Nat → Nat × Nat) (d l : Nat) (key marker : Str) (tag : Option Str)
    (htag : TagOK env tag) :
    (ZNode.emptyZone key marker tag).node env pos d l = .assign key (.zone [] tag marker) (pos l d).1 (pos l d).2 [] none := by
  simp only [ZNode.emptyZone, ZNode.node, tagOf_of_TagOK env tag htag]
  rfl

/-- its well-formedness in the vocabulary of `Props/C05zones.lean`. -/
theorem ZNode.ofContent_ok (env : Env) (key marker : Str) (tag : Option Str) (content : Str)
    (hk : isIdentifierText key = true) (hkr : hasReservedPrefix key = false) (hm : isMarker marker = true) (htag : TagOK env tag)
    (hc : zoneContentOK marker content = true) : (ZNode.ofContent key marker tag content).OK :=
  ⟨hk, hkr, hm, tagTextOK_of_TagOK env tag htag, contentLines_ok marker content hc⟩

theorem strip_of_TagOK (env : Env) (tag : Option Str) (h : TagOK env tag) : env.strip (tag.getD []) = tag.getD [] := by
  cases tag with
  | none => rfl
  | some t => exact h.2.2

theorem ZNode.ofContent_emitOK (env : Env) (key marker : Str) (tag : Option Str) (content : Str) (htag : TagOK env tag) :
    (ZNode.ofContent key marker tag content).EmitOK env := strip_of_TagOK env tag htag

/-- the C05N1 guard for a content string: `content ≠ ""`. -/
theorem ZNode.ofContent_noEmptyLine (key marker : Str) (tag : Option Str) (content : Str) (hg : content ≠ []) :
    (ZNode.ofContent key marker tag content).NoEmptyLine := by
  intro h
  have := joinWith_splitLines content
  rw [h] at this
  exact hg this.symm

/-- the text of a zone assignment at depth `d`: `indent KEY::`, `indent marker tag`, the content VERBATIM, `indent marker`. -/
theorem ZNode.text_ofContent (d : Nat) (key marker : Str) (tag : Option Str) (content : Str) :
    (ZNode.ofContent key marker tag content).text d =
      indentStr d ++ key ++ "::\n".toList ++ indentStr d ++ marker ++ tag.getD [] ++ "\n".toList
        ++ content ++ "\n".toList ++ indentStr d ++ marker ++ "\n".toList := by
  simp [ZNode.ofContent, ZNode.text, zoneSpanText, lineBlock_splitLines, fenceOpenLine, fenceCloseLine, spaces_eq_indentStr]

/-! ### 1. the lexer -/

/-- the four tokens of a zone (newest first) among the tokens of a zone assignment at depth `d` whose `KEY::` line is line
`l`: FENCE_OPEN at the column of the first backtick with the marker and the tag, LITERAL_CONTENT with the content lines
joined by line breaks, FENCE_CLOSE, NEWLINE — and NO INDENT token in front of FENCE_OPEN. -/
theorem C05_ztree_zone_tokens (env : Env) (key marker trailing : Str) (C : List Str) (d l : Nat) :
    (ZNode.zone key marker trailing C).toksRev env d l =
      [tNewline (l + 1 + C.length + 1) (2 * d + marker.length + 1), tFenceClose marker (l + 1 + C.length + 1) 1,
       tLiteral (joinWith ['\n'] C) (l + 1 + 1) 1, tFenceOpen marker (tagOf env trailing) (l + 1) (1 + 2 * d),
       tNewline l (1 + 2 * d + key.length + 2), tAssign l (1 + 2 * d + key.length), tIdent key l (1 + 2 * d)]
      ++ indentToksRev d l := rfl

/-- **C05 at the lexer, zones anywhere.**  `tokenize` succeeds on the text of every forest with exactly `zdocToks`, in both
lexer modes; the receipts are the identifier notes of keys and bare words OUTSIDE the zones. -/
theorem C05_ztree_lexes_verbatim (env : Env) (lenient : Bool) (name : Str) (nodes : List ZNode)
    (hn : isEnvName name = true) (hne : name ≠ "END".toList) (hok : zforestOK nodes)
    (hnfc : ∀ l ∈ zdocNfcLines name nodes, env.nfc l = l) :
    tokenize env (zdocText name nodes) lenient = .ok (zdocToks env name nodes, (zforestRepsRev 0 2 nodes).reverse) :=
  tokenize_ztree env lenient name nodes hn hne hok hnfc

/-- **`normalize` finds one span per zone** and returns the text unchanged (no NFC on any content line). -/
theorem C05_ztree_normalize (env : Env) (name : Str) (nodes : List ZNode)
    (hn : isEnvName name = true) (hok : zforestOK nodes)
    (hnfc : ∀ l ∈ zdocNfcLines name nodes, env.nfc l = l) :
    normalize env (zdocText name nodes) = .ok (zdocText name nodes, segSpans env 0 (zdocSegs name nodes)) := by
  have hwf := zdocSegs_wf name nodes hn hok
  rw [zdocText_segs]
  exact normalize_segs env _ (fun s hs => (Seg.ok_of_wf env s (hwf s hs) (fun l hl => hnfc l (by
    simp only [zdocNfcLines, List.mem_append]; exact Or.inl (mem_segsNfcLines hs l hl)))).1) (hnfc [] (by simp [zdocNfcLines]))

/-! ### 2. the reader -/

mutual
/-- the literal zones of an AST in document order: (key, content, tag, marker). -/
def nodeZones : Node → List (Str × Str × Option Str × Str)
  | .assign k v _ _ _ _ => (match v with | .zone c t m => [(k, c, t, m)] | _ => [])
  | .block _ ch _ _ _ _ => nodesZones ch
  | .sect _ _ _ ch _ _ _ => nodesZones ch
  | .comment _ => []
def nodesZones : List Node → List (Str × Str × Option Str × Str)
  | [] => []
  | n :: ns => nodeZones n ++ nodesZones ns
end

mutual
/-- the zones of a forest in reading order. -/
def _root_.Octave.ZNode.zones (env : Env) : ZNode → List (Str × Str × Option Str × Str)
  | .line _ => []
  | .zone key marker trailing C => [(key, joinWith ['\n'] C, tagOf env trailing, marker)]
  | .block _ cs => zforestZones env cs
def zforestZones (env : Env) : List ZNode → List (Str × Str × Option Str × Str)
  | [] => []
  | n :: ns => n.zones env ++ zforestZones env ns
end

mutual
theorem nodeZones_znode (env : Env) (pos : Nat → Nat → Nat × Nat) : ∀ (n : ZNode) (d l : Nat),
    nodeZones (n.node env pos d l) = n.zones env
  | .line ln, d, l => by
    simp only [ZNode.node, nodeZones, ZNode.zones]
    cases ln.v <;> rfl
  | .zone key marker trailing C, d, l => rfl
  | .block key cs, d, l => by simp only [ZNode.node, nodeZones, ZNode.zones, nodesZones_zforest env pos cs (d + 1) (l + 1)]
theorem nodesZones_zforest (env : Env) (pos : Nat → Nat → Nat × Nat) : ∀ (ns : List ZNode) (d l : Nat),
    nodesZones (zforestNodes env pos d l ns) = zforestZones env ns
  | [], d, l => rfl
  | n :: ns, d, l => by
    simp only [zforestNodes, nodesZones, zforestZones, nodeZones_znode env pos n d l, nodesZones_zforest env pos ns d (l + n.nlines)]
end

/-- **C05, read side, zones anywhere: every zone comes out of the reader exactly as it went in, at its place.**  The strict
reader accepts the text of every forest and returns exactly `zdoc`: the sections are the forest node for node — a
`KEY::scalar` line is its Assignment, a block is its Block with exactly its children, a zone assignment (top level or at any
depth inside blocks, before, between or after any other node) is the Assignment whose value is a literal zone with THIS
content (the content lines joined by line breaks), THIS tag and THIS marker; node positions: the line of the key, column
`1 + 2·depth`; no META, no separator, no comment, nothing else. -/
theorem C05_ztree_zone_read_verbatim (env : Env) (name : Str) (nodes : List ZNode)
    (hn : isEnvName name = true) (hne : name ≠ "END".toList) (hok : zforestOK nodes)
    (hmeta : zfirstKeyIsMeta nodes = false)
    (hnfc : ∀ l ∈ zdocNfcLines name nodes, env.nfc l = l) :
    ∃ d, Parser.parse env (zdocText name nodes) = .ok d ∧
      d.sections = zforestNodes env zcanonPos 0 2 nodes ∧
      d.name = name ∧ d.metaKv = [] ∧ d.hasSeparator = false ∧ d.trailingComments = [] ∧ d.grammarVersion = none ∧
      d.rawFrontmatter = none :=
  ⟨_, parse_zdoc env name nodes hn hne hok hmeta hnfc, rfl, rfl, rfl, rfl, rfl, rfl, rfl⟩

/-- the projection the property speaks about: **the zones of the document read back, in document order, are the zones
written** — as many, same keys, same contents, same tags, same markers. -/
theorem C05_ztree_zones_in_order (env : Env) (name : Str) (nodes : List ZNode)
    (hn : isEnvName name = true) (hne : name ≠ "END".toList) (hok : zforestOK nodes)
    (hmeta : zfirstKeyIsMeta nodes = false)
    (hnfc : ∀ l ∈ zdocNfcLines name nodes, env.nfc l = l) :
    ∃ d, Parser.parse env (zdocText name nodes) = .ok d ∧ nodesZones d.sections = zforestZones env nodes :=
  ⟨_, parse_zdoc env name nodes hn hne hok hmeta hnfc, nodesZones_zforest env zcanonPos nodes 0 2⟩

/-- **lenient entry point**: the same document; the receipts are the identifier notes of keys and bare words outside the
zones (none from inside a zone); the parser warnings are `zdocWarns` (duplicate keys per level — zone assignments
included —, bare words under `PATTERN` / `REGEX`; a zone never gives one by itself). -/
theorem C05_ztree_read_lenient (env : Env) (name : Str) (nodes : List ZNode)
    (hn : isEnvName name = true) (hne : name ≠ "END".toList) (hok : zforestOK nodes)
    (hmeta : zfirstKeyIsMeta nodes = false)
    (hnfc : ∀ l ∈ zdocNfcLines name nodes, env.nfc l = l) :
    Parser.parseWithWarnings env (zdocText name nodes) =
      .ok (zdoc env name zcanonPos nodes, (zforestRepsRev 0 2 nodes).reverse, zdocWarns env nodes) :=
  parseWithWarnings_zdoc env name nodes hn hne hok hmeta hnfc

/-- the parser half alone, at ARBITRARY token positions: `parse_section` on a block whose descendants mix lines, zone
assignments and blocks. -/
theorem C05_block_with_zones_read (p : BlockParse.LPos) (key : Str) (cs : List ZoneTreeParse.ZT) (d : Nat) (st : Parser.PState)
    (e : Token) (k : List Token) (F : Nat) (hr : st.rest = (ZoneTreeParse.ZT.block p key cs).body d ++ e :: k)
    (hs : BlockParse.stopsAt (2 * d + 1) e = true) (hc : (ZoneTreeParse.ZT.block p key cs).colsOk d = true)
    (hF : ((ZoneTreeParse.ZT.block p key cs).body d).length ≤ F) :
    Parser.parseSection F [] st = .ok (some (ZoneTreeParse.ZT.block p key cs).node,
      { st with rest := e :: k, prev := some (ZoneTreeParse.ZT.block p key cs).lastTok,
                pos := st.pos + ((ZoneTreeParse.ZT.block p key cs).body d).length,
                warnings := (ZoneTreeParse.ZT.block p key cs).warns.reverse ++ st.warnings }) :=
  ZoneTreeParse.parseSection_zblock p key cs d st e k F hr hs hc hF

/-! ### 3. fixed point -/

/-- **C05, zones anywhere: the canonical text is a fixed point** — emit (from ANY node positions), read with the strict
reader, emit again: the same bytes; and the text is a fixed point of `canonStrict` (CLI `normalize`) and of `canonLenient`
(`octave_write`, `octave_validate`).
PARTIAL: the guard `zforestNoEmptyLine` (`C ≠ [""]` for every zone: a content of ONE EMPTY LINE is read as content `""` and
written back as the EMPTY zone) is open finding C05N1; negation inside a nested block: `C05N1_ztree_witness`, and for every
forest `C05N1_ztree_image`.  `zforestEmitOK` is not a defect: scalars spelled the emitter's way, and the text after the
backticks equal to its own `strip` (the emitter re-writes the tag it read).  Nothing else is missing: lexer, parser and
emitter halves are all proved. -/
theorem C05_ztree_fixed_point_partial (env : Env) (name : Str) (pos : Nat → Nat → Nat × Nat) (nodes : List ZNode)
    (hn : isEnvName name = true) (hne : name ≠ "END".toList) (hok : zforestOK nodes)
    (hmeta : zfirstKeyIsMeta nodes = false)
    (hnfc : ∀ l ∈ zdocNfcLines name nodes, env.nfc l = l)
    (hem : zforestEmitOK env nodes) (hguard : zforestNoEmptyLine nodes) :
    (∃ text d', emit env (zdoc env name pos nodes) = some text ∧ Parser.parse env text = .ok d' ∧
        emit env d' = some text ∧ text = zdocText name nodes) ∧
    canonStrict env (zdocText name nodes) = .ok (zdocText name nodes) ∧
    canonLenient env (zdocText name nodes) = .ok (zdocText name nodes) := by
  have hr := parse_zdoc env name nodes hn hne hok hmeta hnfc
  have he := fun pos => emit_zdoc env name pos nodes hok hem hguard
  exact ⟨⟨_, _, he pos, hr, he zcanonPos, rfl⟩, canonStrict_of env _ _ _ hr (he zcanonPos),
    canonLenient_of env _ _ _ _ _ (parseWithWarnings_zdoc env name nodes hn hne hok hmeta hnfc) (he zcanonPos)⟩

mutual
/-- the forest as the emitter writes it: a zone whose content is the single empty line becomes the EMPTY zone; everything
else unchanged. -/
def _root_.Octave.ZNode.norm : ZNode → ZNode
  | .line ln => .line ln
  | .zone key marker trailing C => .zone key marker trailing (if C = [[]] then [] else C)
  | .block key cs => .block key (znorm cs)
def znorm : List ZNode → List ZNode
  | [] => []
  | n :: ns => n.norm :: znorm ns
end

theorem contentPart_norm (C : List Str) : contentPart (if C = [[]] then [] else C) = contentPart C := by
  by_cases h : C = [[]]
  · subst h; rfl
  · rw [if_neg h]

theorem joinWith_norm (C : List Str) : joinWith ['\n'] (if C = [[]] then [] else C) = joinWith ['\n'] C := by
  by_cases h : C = [[]]
  · subst h; rfl
  · rw [if_neg h]

mutual
theorem norm_ok : ∀ (n : ZNode), n.OK → n.norm.OK
  | .line ln, h => h
  | .zone key marker trailing C, h => by
    obtain ⟨h1, h2, h3, h4, h5⟩ := h
    refine ⟨h1, h2, h3, h4, ?_⟩
    by_cases hc : C = [[]]
    · rw [if_pos hc]; simp
    · rw [if_neg hc]; exact h5
  | .block key cs, h => by
    simp only [ZNode.OK, ZNode.norm] at h ⊢
    exact ⟨h.1, h.2.1, znorm_ok cs h.2.2⟩
theorem znorm_ok : ∀ (ns : List ZNode), zforestOK ns → zforestOK (znorm ns)
  | [], _ => trivial
  | n :: ns, h => by
    simp only [zforestOK, znorm] at h ⊢
    exact ⟨norm_ok n h.1, znorm_ok ns h.2⟩
end

mutual
theorem norm_emitOK (env : Env) : ∀ (n : ZNode), n.EmitOK env → n.norm.EmitOK env
  | .line ln, h => h
  | .zone key marker trailing C, h => h
  | .block key cs, h => by
    simp only [ZNode.EmitOK, ZNode.norm] at h ⊢
    exact znorm_emitOK env cs h
theorem znorm_emitOK (env : Env) : ∀ (ns : List ZNode), zforestEmitOK env ns → zforestEmitOK env (znorm ns)
  | [], _ => trivial
  | n :: ns, h => by
    simp only [zforestEmitOK, znorm] at h ⊢
    exact ⟨norm_emitOK env n h.1, znorm_emitOK env ns h.2⟩
end

mutual
theorem norm_noEmptyLine : ∀ (n : ZNode), n.norm.NoEmptyLine
  | .line ln => trivial
  | .zone key marker trailing C => by
    simp only [ZNode.norm, ZNode.NoEmptyLine]
    by_cases hc : C = [[]]
    · rw [if_pos hc]; simp
    · rw [if_neg hc]; exact hc
  | .block key cs => by
    simp only [ZNode.norm, ZNode.NoEmptyLine]
    exact znorm_noEmptyLine cs
theorem znorm_noEmptyLine : ∀ (ns : List ZNode), zforestNoEmptyLine (znorm ns)
  | [] => trivial
  | n :: ns => by
    simp only [znorm, zforestNoEmptyLine]
    exact ⟨norm_noEmptyLine n, znorm_noEmptyLine ns⟩
end

mutual
theorem norm_emitLines : ∀ (n : ZNode) (d : Nat), n.norm.emitLines d = n.emitLines d
  | .line ln, d => rfl
  | .zone key marker trailing C, d => by simp only [ZNode.norm, ZNode.emitLines, contentPart_norm]
  | .block key cs, d => by simp only [ZNode.norm, ZNode.emitLines, znorm_emitLines cs (d + 1)]
theorem znorm_emitLines : ∀ (ns : List ZNode) (d : Nat), zforestEmitLines d (znorm ns) = zforestEmitLines d ns
  | [], d => rfl
  | n :: ns, d => by simp only [znorm, zforestEmitLines, norm_emitLines n d, znorm_emitLines ns d]
end

mutual
theorem norm_nfcLines : ∀ (n : ZNode) (d : Nat), segsNfcLines (n.norm.segs d) = segsNfcLines (n.segs d)
  | .line ln, d => rfl
  | .zone key marker trailing C, d => rfl
  | .block key cs, d => by simp only [ZNode.norm, ZNode.segs, segsNfcLines, znorm_nfcLines cs (d + 1)]
theorem znorm_nfcLines : ∀ (ns : List ZNode) (d : Nat), segsNfcLines (zforestSegs d (znorm ns)) = segsNfcLines (zforestSegs d ns)
  | [], d => rfl
  | n :: ns, d => by simp only [znorm, zforestSegs, segsNfcLines_append, norm_nfcLines n d, znorm_nfcLines ns d]
end

mutual
theorem norm_zones (env : Env) : ∀ (n : ZNode), n.norm.zones env = n.zones env
  | .line ln => rfl
  | .zone key marker trailing C => by simp only [ZNode.norm, ZNode.zones, joinWith_norm]
  | .block key cs => by simp only [ZNode.norm, ZNode.zones, znorm_zones env cs]
theorem znorm_zones (env : Env) : ∀ (ns : List ZNode), zforestZones env (znorm ns) = zforestZones env ns
  | [] => rfl
  | n :: ns => by simp only [znorm, zforestZones, norm_zones env n, znorm_zones env ns]
end

theorem znorm_firstKey (nodes : List ZNode) : zfirstKeyIsMeta (znorm nodes) = zfirstKeyIsMeta nodes := by
  cases nodes with
  | nil => rfl
  | cons n ns => cases n <;> rfl

/-- **what the emitter writes for ANY document of the class** (no guard): the text of the normalised forest — every zone
with content `""` as the EMPTY zone. -/
theorem C05_ztree_emit (env : Env) (name : Str) (pos : Nat → Nat → Nat × Nat) (nodes : List ZNode)
    (hok : zforestOK nodes) (hem : zforestEmitOK env nodes) :
    emit env (zdoc env name pos nodes) = some (zdocText name (znorm nodes)) := by
  rw [emit_zdoc_lines env name pos nodes hok hem, ← znorm_emitLines nodes 0,
    zforest_unlines_emitLines (znorm nodes) 0 (znorm_noEmptyLine nodes)]
  rfl

/-- **C05 from the document side, NO guard on the contents**: for every document of the class — zones with content `""`
included — emit, strict read, emit gives the same bytes, and the document read back has the same zones (same keys, same
content STRINGS, tags, markers, in order).  (Content `""` is written as the empty zone and the empty zone is read back as
content `""`: C05N1 is invisible from this side; it concerns the TEXT with one empty content line, which no document is
written as.) -/
theorem C05_ztree_doc_fixed_point (env : Env) (name : Str) (pos : Nat → Nat → Nat × Nat) (nodes : List ZNode)
    (hn : isEnvName name = true) (hne : name ≠ "END".toList) (hok : zforestOK nodes)
    (hmeta : zfirstKeyIsMeta nodes = false)
    (hnfc : ∀ l ∈ zdocNfcLines name nodes, env.nfc l = l)
    (hem : zforestEmitOK env nodes) :
    ∃ text d', emit env (zdoc env name pos nodes) = some text ∧ Parser.parse env text = .ok d' ∧ emit env d' = some text ∧
      nodesZones d'.sections = nodesZones (zdoc env name pos nodes).sections := by
  have hnfc' : ∀ l ∈ zdocNfcLines name (znorm nodes), env.nfc l = l := by
    intro l hl
    apply hnfc
    simpa only [zdocNfcLines, zdocSegs, segsNfcLines, segsNfcLines_append, znorm_nfcLines] using hl
  have hr := parse_zdoc env name (znorm nodes) hn hne (znorm_ok nodes hok) (by rw [znorm_firstKey]; exact hmeta) hnfc'
  refine ⟨_, _, C05_ztree_emit env name pos nodes hok hem, hr, ?_, ?_⟩
  · exact emit_zdoc env name zcanonPos (znorm nodes) (znorm_ok nodes hok) (znorm_emitOK env nodes hem) (znorm_noEmptyLine nodes)
  · show nodesZones (zforestNodes env zcanonPos 0 2 (znorm nodes)) = nodesZones (zforestNodes env pos 0 2 nodes)
    rw [nodesZones_zforest, nodesZones_zforest, znorm_zones]

/-- **finding C05N1 for every forest**: the strict canonicaliser maps the text to the text of the normalised forest — every
zone whose content is ONE EMPTY LINE loses that line — and that is a different text as soon as one such zone exists. -/
theorem C05N1_ztree_image (env : Env) (name : Str) (nodes : List ZNode)
    (hn : isEnvName name = true) (hne : name ≠ "END".toList) (hok : zforestOK nodes)
    (hmeta : zfirstKeyIsMeta nodes = false)
    (hnfc : ∀ l ∈ zdocNfcLines name nodes, env.nfc l = l)
    (hem : zforestEmitOK env nodes) :
    canonStrict env (zdocText name nodes) = .ok (zdocText name (znorm nodes)) :=
  canonStrict_of env _ _ _ (parse_zdoc env name nodes hn hne hok hmeta hnfc) (C05_ztree_emit env name zcanonPos nodes hok hem)

/-! ### 4. neighbours -/

mutual
/-- the forest with every zone assignment deleted (at every depth). -/
def _root_.Octave.ZNode.strip : ZNode → Option ZNode
  | .line ln => some (.line ln)
  | .zone _ _ _ _ => none
  | .block key cs => some (.block key (zstrip cs))
def zstrip : List ZNode → List ZNode
  | [] => []
  | n :: ns => (match n.strip with | some m => [m] | none => []) ++ zstrip ns
end

mutual
/-- an AST with every zone assignment deleted and every position forgotten. -/
def eraseZ : Node → Option Node
  | .assign k v _ _ ld tr => (match v with | .zone _ _ _ => none | w => some (.assign k w 0 0 ld tr))
  | .block k ch _ _ ld tg => some (.block k (erasesZ ch) 0 0 ld tg)
  | .sect id k a ch _ _ ld => some (.sect id k a (erasesZ ch) 0 0 ld)
  | .comment t => some (.comment t)
def erasesZ : List Node → List Node
  | [] => []
  | n :: ns => (match eraseZ n with | some m => [m] | none => []) ++ erasesZ ns
end

mutual
theorem strip_ok : ∀ (n m : ZNode), n.OK → n.strip = some m → m.OK
  | .line ln, m, h, e => by simp only [ZNode.strip, Option.some.injEq] at e; subst e; exact h
  | .zone .., m, _, e => by simp [ZNode.strip] at e
  | .block key cs, m, h, e => by
    simp only [ZNode.strip, Option.some.injEq] at e; subst e
    simp only [ZNode.OK] at h ⊢
    exact ⟨h.1, h.2.1, zstrip_ok cs h.2.2⟩
theorem zstrip_ok : ∀ (ns : List ZNode), zforestOK ns → zforestOK (zstrip ns)
  | [], _ => trivial
  | n :: ns, h => by
    simp only [zforestOK] at h
    simp only [zstrip]
    cases e : n.strip with
    | none => simpa using zstrip_ok ns h.2
    | some m => simpa [zforestOK] using ⟨strip_ok n m h.1 e, zstrip_ok ns h.2⟩
end

mutual
/-- the NFC-relevant lines of the zone-free forest are among those of the forest. -/
theorem strip_nfcLines : ∀ (n m : ZNode) (d : Nat), n.strip = some m →
    ∀ l ∈ segsNfcLines (m.segs d), l ∈ segsNfcLines (n.segs d)
  | .line ln, m, d, e, l, hl => by simp only [ZNode.strip, Option.some.injEq] at e; subst e; exact hl
  | .zone .., m, d, e, l, hl => by simp [ZNode.strip] at e
  | .block key cs, m, d, e, l, hl => by
    simp only [ZNode.strip, Option.some.injEq] at e; subst e
    simp only [ZNode.segs, segsNfcLines, List.mem_append] at hl ⊢
    rcases hl with h | h
    · exact Or.inl h
    · exact Or.inr (zstrip_nfcLines cs (d + 1) l h)
theorem zstrip_nfcLines : ∀ (ns : List ZNode) (d : Nat), ∀ l ∈ segsNfcLines (zforestSegs d (zstrip ns)), l ∈ segsNfcLines (zforestSegs d ns)
  | [], d, l, hl => hl
  | n :: ns, d, l, hl => by
    simp only [zstrip] at hl
    simp only [zforestSegs, segsNfcLines_append, List.mem_append]
    cases e : n.strip with
    | none =>
      rw [e] at hl
      exact Or.inr (zstrip_nfcLines ns d l (by simpa using hl))
    | some m =>
      rw [e] at hl
      simp only [List.singleton_append, zforestSegs, segsNfcLines_append, List.mem_append] at hl
      rcases hl with h | h
      · exact Or.inl (strip_nfcLines n m d e l h)
      · exact Or.inr (zstrip_nfcLines ns d l h)
end

theorem zdocNfcLines_strip (name : Str) (nodes : List ZNode) : ∀ l ∈ zdocNfcLines name (zstrip nodes), l ∈ zdocNfcLines name nodes := by
  intro l hl
  simp only [zdocNfcLines, zdocSegs, segsNfcLines, segsNfcLines_append, List.mem_append, List.append_assoc] at hl ⊢
  rcases hl with h | h | h
  · exact Or.inl h
  · exact Or.inr (Or.inl (zstrip_nfcLines nodes 0 l h))
  · exact Or.inr (Or.inr h)

mutual
/-- with constant positions the starting line does not matter. -/
theorem znode_shift (env : Env) : ∀ (n : ZNode) (d l l' : Nat),
    n.node env (fun _ _ => (0, 0)) d l = n.node env (fun _ _ => (0, 0)) d l'
  | .line ln, d, l, l' => rfl
  | .zone .., d, l, l' => rfl
  | .block key cs, d, l, l' => by
    simp only [ZNode.node, zforest_shift env cs (d + 1) (l + 1) (l' + 1)]
theorem zforest_shift (env : Env) : ∀ (ns : List ZNode) (d l l' : Nat),
    zforestNodes env (fun _ _ => (0, 0)) d l ns = zforestNodes env (fun _ _ => (0, 0)) d l' ns
  | [], d, l, l' => rfl
  | n :: ns, d, l, l' => by
    simp only [zforestNodes]
    rw [zforest_shift env ns d (l + n.nlines) (l' + n.nlines), znode_shift env n d l l']
end

mutual
/-- a zone-free node at positions 0 is its own erasure. -/
theorem eraseZ_strip_fix (env : Env) : ∀ (n m : ZNode) (d l : Nat), n.strip = some m →
    eraseZ (m.node env (fun _ _ => (0, 0)) d l) = some (m.node env (fun _ _ => (0, 0)) d l)
  | .line ln, m, d, l, e => by
    simp only [ZNode.strip, Option.some.injEq] at e; subst e
    simp only [ZNode.node, eraseZ]
    cases ln.v <;> rfl
  | .zone .., m, d, l, e => by simp [ZNode.strip] at e
  | .block key cs, m, d, l, e => by
    simp only [ZNode.strip, Option.some.injEq] at e; subst e
    simp only [ZNode.node, eraseZ, erasesZ_stripped env cs (d + 1) (l + 1)]
/-- a zone-free forest at positions 0 is its own erasure. -/
theorem erasesZ_stripped (env : Env) : ∀ (ns : List ZNode) (d l : Nat),
    erasesZ (zforestNodes env (fun _ _ => (0, 0)) d l (zstrip ns)) = zforestNodes env (fun _ _ => (0, 0)) d l (zstrip ns)
  | [], d, l => rfl
  | n :: ns, d, l => by
    simp only [zstrip]
    cases e : n.strip with
    | none => simpa using erasesZ_stripped env ns d l
    | some m =>
      simp only [List.singleton_append, zforestNodes, erasesZ, eraseZ_strip_fix env n m d l e, List.cons.injEq, true_and]
      exact erasesZ_stripped env ns d _
end

mutual
theorem eraseZ_znode (env : Env) (pos : Nat → Nat → Nat × Nat) : ∀ (n : ZNode) (d l : Nat),
    eraseZ (n.node env pos d l) = (n.strip).map (fun m => (m.node env (fun _ _ => (0, 0)) d 0))
  | .line ln, d, l => by
    simp only [ZNode.node, ZNode.strip, Option.map_some, eraseZ]
    cases ln.v <;> rfl
  | .zone .., d, l => rfl
  | .block key cs, d, l => by
    simp only [ZNode.node, ZNode.strip, Option.map_some, eraseZ, erasesZ_zforest env pos cs (d + 1) (l + 1)]
    rw [zforest_shift env (zstrip cs) (d + 1) 0 (0 + 1)]
/-- **erasing the zones of the document = the document of the zone-free forest** (at positions 0). -/
theorem erasesZ_zforest (env : Env) (pos : Nat → Nat → Nat × Nat) : ∀ (ns : List ZNode) (d l : Nat),
    erasesZ (zforestNodes env pos d l ns) = zforestNodes env (fun _ _ => (0, 0)) d 0 (zstrip ns)
  | [], d, l => rfl
  | n :: ns, d, l => by
    simp only [zforestNodes, erasesZ, zstrip, eraseZ_znode env pos n d l, erasesZ_zforest env pos ns d (l + n.nlines)]
    cases e : n.strip with
    | none => simp
    | some m =>
      simp only [Option.map_some, List.singleton_append, zforestNodes, List.cons.injEq, true_and]
      exact zforest_shift env (zstrip ns) d _ _
end

mutual
theorem strip_idem : ∀ (n m : ZNode), n.strip = some m → m.strip = some m
  | .line ln, m, e => by simp only [ZNode.strip, Option.some.injEq] at e; subst e; rfl
  | .zone .., m, e => by simp [ZNode.strip] at e
  | .block key cs, m, e => by
    simp only [ZNode.strip, Option.some.injEq] at e; subst e
    simp only [ZNode.strip, zstrip_idem cs]
theorem zstrip_idem : ∀ (ns : List ZNode), zstrip (zstrip ns) = zstrip ns
  | [] => rfl
  | n :: ns => by
    simp only [zstrip]
    cases e : n.strip with
    | none => simpa using zstrip_idem ns
    | some m => simp only [List.singleton_append, zstrip, strip_idem n m e, zstrip_idem ns]
end

mutual
theorem zones_strip (env : Env) : ∀ (n m : ZNode), n.strip = some m → m.zones env = []
  | .line ln, m, e => by simp only [ZNode.strip, Option.some.injEq] at e; subst e; rfl
  | .zone .., m, e => by simp [ZNode.strip] at e
  | .block key cs, m, e => by
    simp only [ZNode.strip, Option.some.injEq] at e; subst e
    simp only [ZNode.zones, zforestZones_strip env cs]
theorem zforestZones_strip (env : Env) : ∀ (ns : List ZNode), zforestZones env (zstrip ns) = []
  | [] => rfl
  | n :: ns => by
    simp only [zstrip]
    cases e : n.strip with
    | none => simpa using zforestZones_strip env ns
    | some m => simp only [List.singleton_append, zforestZones, zones_strip env n m e, zforestZones_strip env ns, List.append_nil]
end

/-- **C05, zones anywhere: a fence never swallows or releases neighbouring fields.**  Delete every zone assignment from the
forest (at every depth).  The document read from the text WITH the zones, with its zone assignments deleted, is the
document read from the text WITHOUT them, positions aside: every line and every block — keys, values with their types,
nesting, order — is exactly what the reader returns when the zones are not there, whatever the zones contain (`===END===`,
`KEY::value` look-alikes, deeper or shallower indentation, …).  (`zfirstKeyIsMeta (zstrip nodes) = false` is only needed
for the zone-free text to be readable at all.) -/
theorem C05_ztree_neighbours_untouched (env : Env) (name : Str) (nodes : List ZNode)
    (hn : isEnvName name = true) (hne : name ≠ "END".toList) (hok : zforestOK nodes)
    (hmeta : zfirstKeyIsMeta nodes = false) (hmeta' : zfirstKeyIsMeta (zstrip nodes) = false)
    (hnfc : ∀ l ∈ zdocNfcLines name nodes, env.nfc l = l) :
    ∃ dz df, Parser.parse env (zdocText name nodes) = .ok dz ∧ Parser.parse env (zdocText name (zstrip nodes)) = .ok df ∧
      erasesZ dz.sections = erasesZ df.sections ∧ nodesZones df.sections = [] ∧
      df.name = dz.name ∧ df.metaKv = dz.metaKv ∧ df.trailingComments = dz.trailingComments := by
  have h1 := parse_zdoc env name nodes hn hne hok hmeta hnfc
  have h2 := parse_zdoc env name (zstrip nodes) hn hne (zstrip_ok nodes hok) hmeta'
    (fun l hl => hnfc l (zdocNfcLines_strip name nodes l hl))
  refine ⟨_, _, h1, h2, ?_, ?_, rfl, rfl, rfl⟩
  · show erasesZ (zforestNodes env zcanonPos 0 2 nodes) = erasesZ (zforestNodes env zcanonPos 0 2 (zstrip nodes))
    rw [erasesZ_zforest env zcanonPos nodes 0 2, erasesZ_zforest env zcanonPos (zstrip nodes) 0 2, zstrip_idem]
  · show nodesZones (zforestNodes env zcanonPos 0 2 (zstrip nodes)) = []
    rw [nodesZones_zforest]
    exact zforestZones_strip env nodes


/-! ### 5. non-vacuity: the theorems applied (not evaluated) -/

/-- two zones — one at top level AFTER a line, one inside a NESTED block between siblings — with nasty contents: the first
has a tab, an NFD pair, a backslash-n, quotes, `->`, trailing spaces, an empty line, `===END===`, shorter backtick runs with
and without text, `{curly}`, `#`, `+`, `vs`, an indented line (5-backtick marker, tag `py`); the second `===END===`, a
`KEY::value` look-alike and a tab + shorter run (3-backtick marker, no tag), written unindented inside a depth-2 block. -/
def exNodes : List ZNode :=
  [ .line ⟨"A".toList, .int 1⟩,
    ZNode.ofContent "K".toList "`````".toList (some "py".toList) nastyContent,
    .block "B".toList
      [ .line ⟨"X".toList, .qstr "s t".toList⟩,
        .block "C".toList
          [ ZNode.ofContent "Z".toList "```".toList none "===END===\nQ::2\n\t`` x".toList,
            .line ⟨"W".toList, .bool true⟩ ],
        .line ⟨"Y".toList, .bare "w".toList⟩ ],
    .line ⟨"E".toList, .null⟩ ]

def exText : Str :=
  ("===D===\nA::1\nK::\n`````py\n".toList ++ nastyContent ++
   "\n`````\nB:\n  X::\"s t\"\n  C:\n    Z::\n    ```\n===END===\nQ::2\n\t`` x\n    ```\n    W::true\n  Y::w\nE::null\n===END===\n".toList)

example : zdocText "D".toList exNodes = exText := by decide +kernel

theorem exNodes_ok : zforestOK exNodes := by
  simp only [exNodes, zforestOK, ZNode.OK, ZNode.ofContent, FLine.OK, FScalar.OK, and_true]
  decide

theorem exNodes_emitOK : zforestEmitOK envDrop exNodes ∧ zforestNoEmptyLine exNodes := by
  simp only [exNodes, zforestEmitOK, ZNode.EmitOK, zforestNoEmptyLine, ZNode.NoEmptyLine, ZNode.ofContent, FLine.EmitOK, and_true]
  decide

theorem exNodes_nfc : ∀ l ∈ zdocNfcLines "D".toList exNodes, envDrop.nfc l = l := by decide +kernel

/-- the document the reader must return. -/
def exDoc : Document :=
  { name := "D".toList,
    sections :=
      [ .assign "A".toList (.int 1) 2 1 [] none,
        .assign "K".toList (.zone nastyContent (some "py".toList) "`````".toList) 3 1 [] none,
        .block "B".toList
          [ .assign "X".toList (.str "s t".toList) 14 3 [] none,
            .block "C".toList
              [ .assign "Z".toList (.zone "===END===\nQ::2\n\t`` x".toList none "```".toList) 16 5 [] none,
                .assign "W".toList (.bool true) 22 5 [] none ] 15 3 [] none,
            .assign "Y".toList (.str "w".toList) 23 3 [] none ] 13 1 [] none,
        .assign "E".toList .null 24 1 [] none ] }

example : zdoc envDrop "D".toList zcanonPos exNodes = exDoc := by
  apply ZoneTreeParse.docEqZT_sound
  decide +kernel

/-- the lexer theorem applies (lenient mode, an environment whose NFC is NOT the identity on the first content). -/
example : tokenize envDrop exText true = .ok (zdocToks envDrop "D".toList exNodes, []) := by
  have h := C05_ztree_lexes_verbatim envDrop true "D".toList exNodes (by decide) (by decide) exNodes_ok exNodes_nfc
  have e : zdocText "D".toList exNodes = exText := by decide +kernel
  have r : (zforestRepsRev 0 2 exNodes).reverse = [] := by decide +kernel
  rw [e, r] at h
  exact h

/-- the read theorem applies: both zones come back verbatim, each at its place. -/
example : ∃ d, Parser.parse envDrop (zdocText "D".toList exNodes) = .ok d ∧
    d.sections = zforestNodes envDrop zcanonPos 0 2 exNodes ∧
    d.name = "D".toList ∧ d.metaKv = [] ∧ d.hasSeparator = false ∧ d.trailingComments = [] ∧ d.grammarVersion = none ∧
    d.rawFrontmatter = none :=
  C05_ztree_zone_read_verbatim envDrop "D".toList exNodes (by decide) (by decide) exNodes_ok (by decide) exNodes_nfc

example : ∃ d, Parser.parse envDrop (zdocText "D".toList exNodes) = .ok d ∧
    nodesZones d.sections = [("K".toList, nastyContent, some "py".toList, "`````".toList),
                             ("Z".toList, "===END===\nQ::2\n\t`` x".toList, none, "```".toList)] := by
  obtain ⟨d, h1, h2⟩ := C05_ztree_zones_in_order envDrop "D".toList exNodes (by decide) (by decide) exNodes_ok (by decide) exNodes_nfc
  refine ⟨d, h1, ?_⟩
  rw [h2]
  decide +kernel

/-- the fixed-point theorem applies (from arbitrary node positions). -/
example := C05_ztree_fixed_point_partial envDrop "D".toList (fun _ _ => (7, 7)) exNodes (by decide) (by decide) exNodes_ok
  (by decide) exNodes_nfc exNodes_emitOK.1 exNodes_emitOK.2

example : canonStrict envDrop exText = .ok exText := by
  have h := (C05_ztree_fixed_point_partial envDrop "D".toList zcanonPos exNodes (by decide) (by decide) exNodes_ok
    (by decide) exNodes_nfc exNodes_emitOK.1 exNodes_emitOK.2).2.1
  have e : zdocText "D".toList exNodes = exText := by decide +kernel
  rw [e] at h
  exact h

/-- `normalize`: one span per zone — `[17, 97)` for the top-level zone, `[125, 161)` for the one at depth 2 (its open line
starts at the FOUR spaces of its indentation) — and the text unchanged, under an NFC that would change the first content. -/
example : normalize envDrop (zdocText "D".toList exNodes) = .ok (zdocText "D".toList exNodes,
    [{ start := 17, stop := 97, marker := "`````".toList, tag := some "py".toList },
     { start := 125, stop := 161, marker := "```".toList, tag := none }]) := by
  have h := C05_ztree_normalize envDrop "D".toList exNodes (by decide) exNodes_ok exNodes_nfc
  have e : segSpans envDrop 0 (zdocSegs "D".toList exNodes) =
      [{ start := 17, stop := 97, marker := "`````".toList, tag := some "py".toList },
       { start := 125, stop := 161, marker := "```".toList, tag := none }] := by decide +kernel
  rw [e] at h
  exact h

/-- the lenient read: the same document, no receipt, no warning. -/
example : Parser.parseWithWarnings envDrop (zdocText "D".toList exNodes) = .ok (zdoc envDrop "D".toList zcanonPos exNodes, [], []) := by
  have h := C05_ztree_read_lenient envDrop "D".toList exNodes (by decide) (by decide) exNodes_ok (by decide) exNodes_nfc
  have r : (zforestRepsRev 0 2 exNodes).reverse = [] := by decide +kernel
  have w : zdocWarns envDrop exNodes = [] := by decide +kernel
  rw [r, w] at h
  exact h

/-- the emitter, from arbitrary positions. -/
example : emit envDrop (zdoc envDrop "D".toList (fun l d => (d, l)) exNodes) = some (zdocText "D".toList (znorm exNodes)) :=
  C05_ztree_emit envDrop "D".toList _ exNodes exNodes_ok exNodes_emitOK.1

/-- the neighbours theorem applies: without the two zones the text is `A::1 / B: / X / C: / W / Y / E`. -/
example : zdocText "D".toList (zstrip exNodes) = "===D===\nA::1\nB:\n  X::\"s t\"\n  C:\n    W::true\n  Y::w\nE::null\n===END===\n".toList := by
  decide +kernel

example := C05_ztree_neighbours_untouched envDrop "D".toList exNodes (by decide) (by decide) exNodes_ok (by decide) (by decide)
  exNodes_nfc

/-- document side, with an EMPTY-content zone and a one-empty-line zone inside a block (no guard). -/
def exNodesN1 : List ZNode :=
  [ .block "A".toList [ .block "B".toList [ ZNode.ofContent "K".toList "```".toList none [] ], .line ⟨"X".toList, .int 1⟩ ] ]

theorem exNodesN1_ok : zforestOK exNodesN1 := by
  simp only [exNodesN1, zforestOK, ZNode.OK, ZNode.ofContent, FLine.OK, FScalar.OK, and_true]
  decide

example := C05_ztree_doc_fixed_point Env.ascii "D".toList (fun _ _ => (0, 0)) exNodesN1 (by decide) (by decide) exNodesN1_ok
  (by decide) (by decide +kernel)
  (by simp only [exNodesN1, zforestEmitOK, ZNode.EmitOK, ZNode.ofContent, FLine.EmitOK, and_true]; decide)

/-- **negation of the C05N1 guard on a witness inside a NESTED block**, obtained from the theorems: the text whose zone
(depth 2) holds ONE EMPTY LINE is canonicalised to the text with the EMPTY zone — a different text. -/
theorem C05N1_ztree_witness :
    canonStrict Env.ascii "===D===\nA:\n  B:\n    K::\n    ```\n\n    ```\n  X::1\n===END===\n".toList
      = .ok "===D===\nA:\n  B:\n    K::\n    ```\n    ```\n  X::1\n===END===\n".toList ∧
    "===D===\nA:\n  B:\n    K::\n    ```\n    ```\n  X::1\n===END===\n".toList
      ≠ "===D===\nA:\n  B:\n    K::\n    ```\n\n    ```\n  X::1\n===END===\n".toList := by
  have h := C05N1_ztree_image Env.ascii "D".toList exNodesN1 (by decide) (by decide) exNodesN1_ok (by decide) (by decide +kernel)
    (by simp only [exNodesN1, zforestEmitOK, ZNode.EmitOK, ZNode.ofContent, FLine.EmitOK, and_true]; decide)
  have e1 : zdocText "D".toList exNodesN1 = "===D===\nA:\n  B:\n    K::\n    ```\n\n    ```\n  X::1\n===END===\n".toList := by decide +kernel
  have e2 : zdocText "D".toList (znorm exNodesN1) = "===D===\nA:\n  B:\n    K::\n    ```\n    ```\n  X::1\n===END===\n".toList := by decide +kernel
  rw [e1, e2] at h
  exact ⟨h, by decide⟩

/-- token level, ALL positions and strings symbolic: a block holding a zone, a line, a zone with the first key again. -/
example (p q r : BlockParse.LPos) (z1 z2 : ZoneParse.Zone) (ln : FlatParse.Line) (st : Parser.PState) (e : Token) (k : List Token)
    (hs : BlockParse.stopsAt 1 e = true) (hc : p.c1 - 1 < 2)
    (hr : st.rest = (ZoneTreeParse.ZT.block p "B".toList [.leaf q (.zone z1), .leaf r (.line ln), .leaf q (.zone z2)]).body 0 ++ e :: k) :
    Parser.parseSection 30 [] st = .ok (some (.block "B".toList [z1.node, ln.node, z2.node] p.l p.c1 [] none),
      { st with rest := e :: k, prev := some z2.nlTok, pos := st.pos + 24,
                warnings := (ZoneTreeParse.ZT.block p "B".toList [.leaf q (.zone z1), .leaf r (.line ln), .leaf q (.zone z2)]).warns.reverse
                  ++ st.warnings }) := by
  have h := C05_block_with_zones_read p "B".toList [.leaf q (.zone z1), .leaf r (.line ln), .leaf q (.zone z2)] 0 st e k 30 hr hs
    (by simp [ZoneTreeParse.ZT.colsOk, ZoneTreeParse.colsOkList, hc]) (by simp [ZoneTreeParse.ZT.body, ZoneTreeParse.toksList,
      BlockParse.indentToks, ZoneParse.Item.toks, ZoneParse.Zone.toks, ZoneParse.Zone.head, FlatParse.Line.toks])
  rw [h]
  rfl

/-! ### 6. the whole model EVALUATED (`decide +kernel`), independently of the proofs -/

open ZoneTreeParse in
/-- strict read of the two-zone text: the document the theorem predicts (both environments). -/
example : isOkDocZT (Parser.parse Env.ascii exText) exDoc = true := by decide +kernel

open ZoneTreeParse in
example : isOkDocZT (Parser.parse envDrop exText) exDoc = true := by decide +kernel

/-- both canonicalisers on it. -/
example : isOkStr (canonStrict envDrop exText) exText = true := by decide +kernel
example : isOkStr (canonLenient Env.ascii exText) exText = true := by decide +kernel

/-- the lexer's tokens are the theorem's. -/
example : (match tokenize envDrop exText false with
    | .ok (toks, reps) => toks == zdocToks envDrop "D".toList exNodes && reps.isEmpty
    | .error _ => false) = true := by decide +kernel

open ZoneTreeParse in
/-- three zones in a row inside a block (adjacent zones; the last child of a block; a zone as the ONLY child), an empty zone,
then a sibling block and a line. -/
example : isOkDocZT (Parser.parse Env.ascii
      "===D===\nA:\n  K::\n  ```\n  ```\n  L::\n  ````q\n\t\n  ````\n  M::\n  ```\nA::1\n  ```\nB:\n  N::\n  ```\n\n\n  ```\nC::x\n===END===\n".toList)
    { name := "D".toList,
      sections :=
        [ .block "A".toList
            [ .assign "K".toList (.zone [] none "```".toList) 3 3 [] none,
              .assign "L".toList (.zone "\t".toList (some "q".toList) "````".toList) 6 3 [] none,
              .assign "M".toList (.zone "A::1".toList none "```".toList) 10 3 [] none ] 2 1 [] none,
          .block "B".toList [ .assign "N".toList (.zone "\n".toList none "```".toList) 15 3 [] none ] 14 1 [] none,
          .assign "C".toList (.str "x".toList) 20 1 [] none ] } = true := by decide +kernel

/-! ### 7. the hypotheses are necessary: the model at the excluded points (the real reader does the same, see the report) -/

open ZoneTreeParse in
/-- `zfirstKeyIsMeta`: a FIRST top-level item `META::` + zone is taken for the META block header (E001 at the `::`); inside a
block, or later at top level, `META` is an ordinary key. -/
example : parseErr (Parser.parse Env.ascii "===D===\nMETA::\n```\nx\n```\nA::1\n===END===\n".toList) = some ("E001".toList, 2, 5) := by
  decide +kernel

open ZoneTreeParse in
example : isOkDocZT (Parser.parse Env.ascii "===D===\nA:\n  META::\n  ```\nx\n  ```\n===END===\n".toList)
    { name := "D".toList,
      sections := [.block "A".toList [.assign "META".toList (.zone "x".toList none "```".toList) 3 3 [] none] 2 1 [] none] }
    = true := by decide +kernel

/-- `zfirstKeyIsMeta (zstrip nodes)` (neighbours theorem): deleting the zones can bring a `META` line to the front, and the
zone-free text is then rejected — with the zone in front it is an ordinary assignment. -/
example : parseErr (Parser.parse Env.ascii "===D===\nMETA::1\n===END===\n".toList) = some ("E001".toList, 2, 5) := by decide +kernel

open ZoneTreeParse in
example : isOkDocZT (Parser.parse Env.ascii "===D===\nK::\n```\nx\n```\nMETA::1\n===END===\n".toList)
    { name := "D".toList,
      sections := [.assign "K".toList (.zone "x".toList none "```".toList) 2 1 [] none, .assign "META".toList (.int 1) 6 1 [] none] }
    = true := by decide +kernel

/-- `contentLineOK`: inside a block too, a content line that is a fence line of EQUAL length — however it is indented —
closes the zone early (here the real close line then opens a zone that is never closed: E006); a LONGER run is E007. -/
example : lexErr (tokenize Env.ascii "===D===\nA:\n  K::\n  ```\n  a\n      ```\n  b\n  ```\n===END===\n".toList) = some ("E006".toList, 8, 1) := by
  decide +kernel
example : lexErr (tokenize Env.ascii "===D===\nA:\n  K::\n  ```\n````\n  ```\n===END===\n".toList) = some ("E007".toList, 5, 1) := by
  decide +kernel

open ZoneTreeParse in
/-- `hasReservedPrefix key = false`, inside a block: under the key `true` the zone assignment is DROPPED SILENTLY by the
strict reader — and the following sibling `X::1` is RE-PARENTED to the top level (the block comes back empty). -/
example : isOkDocZT (Parser.parse Env.ascii "===D===\nA:\n  true::\n  ```\n  a\n  ```\n  X::1\n===END===\n".toList)
    { name := "D".toList, sections := [.block "A".toList [] 2 1 [] none, .assign "X".toList (.int 1) 7 3 [] none] } = true := by
  decide +kernel

open ZoneTreeParse in
/-- `zforestEmitOK` (`strip trailing = trailing`): spaces around the tag are not part of it — `` ``` py `` is read as tag `py`
and written back as `` ```py ``: read theorem applies (with `tagOf`), the text is not a fixed point. -/
example : isOkDocZT (Parser.parse Env.ascii "===D===\nA:\n  K::\n  ``` py \n  x\n  ```\n===END===\n".toList)
    { name := "D".toList,
      sections := [.block "A".toList [.assign "K".toList (.zone "  x".toList (some "py".toList) "```".toList) 3 3 [] none] 2 1 [] none] }
    = true := by decide +kernel
example : isOkStr (canonStrict Env.ascii "===D===\nA:\n  K::\n  ``` py \n  x\n  ```\n===END===\n".toList)
    "===D===\nA:\n  K::\n  ```py\n  x\n  ```\n===END===\n".toList = true := by decide +kernel

/-- tabs: accepted inside every span, refused outside (here after the second zone's sibling key). -/
example : lexErr (tokenize Env.ascii "===D===\nA:\n  K::\n  ```\n\tx\n  ```\n  X::\t1\n===END===\n".toList) = some ("E005".toList, 7, 6) := by
  decide +kernel

/-- `hnfc` on a structural line: when NFC changes a quoted value OUTSIDE the zones the text read is the composed form
(finding F16); the same characters INSIDE a zone are untouched (examples above). -/
example : (normalize envDrop "A::\"e\u0301\"\nK::\n```\ne\u0301\n```".toList).toOption.map (·.1)
    = some "A::\"e\"\nK::\n```\ne\u0301\n```".toList := by decide +kernel


/-! ### 8. outside the class: BARE zones as block children (not covered) — and what was found there

A bare zone (a fence line that is itself a block child, AST `Assignment(key = "", value = zone)`) goes through `blockLoop`'s fence
branch and the block-header path of `parse_section`, which read the COLUMN of FENCE_OPEN.  Evaluation of the model (the real
reader does the same, see the report): bare zones first / between / last among the children of a block round-trip, but a
bare zone that directly follows an EMPTY sibling block is taken for that block's child ("a zone written at the block key's
own indentation directly after the header is the block's child", `c.col - 1 ≥ block_indent`): the emitter's own output for
`B: [A: [], zone, Y::1]` is read back as `B: [A: [zone], Y::1]` — the zone changes parent — and is not a fixed point. -/

/-- the emitter on `B: [A: [], bare zone, Y::1]` … -/
example : emit Env.ascii { name := "D".toList, sections := [.block "B".toList
      [.block "A".toList [] 0 0 [] none, .assign [] (.zone "x".toList none "```".toList) 0 0 [] none,
       .assign "Y".toList (.int 1) 0 0 [] none] 0 0 [] none] }
    = some "===D===\nB:\n  A:\n  ```\nx\n  ```\n  Y::1\n===END===\n".toList := by decide +kernel

open ZoneTreeParse in
/-- … is read back with the zone as a child of the EMPTY block `A` (re-parented) … -/
example : isOkDocZT (Parser.parse Env.ascii "===D===\nB:\n  A:\n  ```\nx\n  ```\n  Y::1\n===END===\n".toList)
    { name := "D".toList,
      sections := [.block "B".toList
        [.block "A".toList [.assign [] (.zone "x".toList none "```".toList) 6 6 [] none] 3 3 [] none,
         .assign "Y".toList (.int 1) 7 3 [] none] 2 1 [] none] } = true := by decide +kernel

/-- … and canonicalised to a DIFFERENT text (the zone moves one level deeper). -/
example : isOkStr (canonStrict Env.ascii "===D===\nB:\n  A:\n  ```\nx\n  ```\n  Y::1\n===END===\n".toList)
    "===D===\nB:\n  A:\n    ```\nx\n    ```\n  Y::1\n===END===\n".toList = true := by decide +kernel

open ZoneTreeParse in
/-- bare zones elsewhere in a block are read at their place: after a line, after a NON-empty nested block, after a zone
assignment (node position = that of the token AFTER the close fence: line of the close fence, column after it). -/
example : isOkDocZT (Parser.parse Env.ascii "===D===\nB:\n  A:\n    Q::1\n  ```\nx\n  ```\n  K::\n  ```\na\n  ```\n  ```\nb\n  ```\n===END===\n".toList)
    { name := "D".toList,
      sections := [.block "B".toList
        [.block "A".toList [.assign "Q".toList (.int 1) 4 5 [] none] 3 3 [] none,
         .assign [] (.zone "x".toList none "```".toList) 7 6 [] none,
         .assign "K".toList (.zone "a".toList none "```".toList) 8 3 [] none,
         .assign [] (.zone "b".toList none "```".toList) 14 6 [] none] 2 1 [] none] } = true := by decide +kernel

end Octave.C05
