/-
C01 / C02 / C03 (and the receipt clause of C07) on UNIFIED documents — the document-level statements for the COMBINATION of
the classes proved separately before (trees of scalar lines and blocks, sections, flat documents with list values, flat documents
with operator expressions): real documents have lists and expressions INSIDE blocks and sections.

  a unified document = an envelope `===NAME===`, a forest of
    lines    `KEY::value`   value = a scalar (`FScalar`: a string the emitter quotes, a bare word, a boolean, null, an integer),
                                    a LIST of scalars of any length (the empty list included), or an operator EXPRESSION
                                    `w0 op1 w1 … opn wn` (n ≥ 1, the seven operators `→ ⊕ ⧺ ⇌ ∨ ∧ @`),
    blocks   `KEY:`         with children two spaces deeper,
    sections `§ID::NAME`    with children two spaces deeper (ids as in `Props/C01sections`),
  ANY depth, ANY width, the kinds mixed at every level; then `===END===`.

Canonical spelling (`UNode.canonT`, `uDocText` — what the emitter writes, `emit_udoc_matches`): a list on one line `[a,b]`, or
— `needsMulti`: three or more items, or an annotation-shaped string among them — one item per line; a multi-line list of a
line at depth `d` has its items behind `2·(d+1)` spaces and its closing bracket behind `2·d` spaces (the line's own
indentation); expressions with Unicode operators and no spaces; markers `§`.

For every such document (any name, any forest, any keys / ids / values):

  * `C01_udoc_canonical_is_readable`  the strict reader accepts the canonical text and returns the same document (every node
                                      at its first text line — lines counted through the multi-line lists —, column `1 + 2·depth`);
  * `C01_udoc_fixed_point`            `emit (parse (emit d)) = emit d`, whatever positions the AST carries (`…_matches`);
  * `C02_udoc_content_preserved`      the document read back has the same name and its sections carry exactly the forest
                                      (`unodesMatch`: keys, section ids and names, nesting, order, values with their types, list
                                      items in order with their types, an expression as the string of its canonical text);
  * `C02_udoc_lenient_read`           the lenient entry point reads the same document, with NO normalisation receipt
                                      (`…_exact`: the exact receipts and parser warnings);
  * `C03_udoc_spellings_converge`     EVERY spelling (`UT`: per list the one-line layout or one item per line behind ANY number
                                      of spaces with the closing bracket behind ANY number of spaces; per operator occurrence the
                                      Unicode operator, its ASCII alias or `vs`, with any spaces around it; the markers `§` or `#`)
                                      is read as the same content, and both canonicalisers return the canonical text;
                                      `C03_udoc_spellings_agree`: two spellings of one document give identical bytes;
  * `C07_udoc_receipts`               the normalisation receipts of a spelled text are exactly one per aliased operator
                                      occurrence and one per `#` marker, in reading order, at their positions (`utReceipts`);
  * `udoc_text_injective` / `C15_udoc_emit_injective`   the canonical text determines name and content (`unodesVContent`).

Built from `Lemmas/ULex` (ONE mutual induction over the forest reusing `run_header`, `run_sheader`, `lex_item`, `lex_inline`,
the new `lex_cmulti`, `run_expr`), `Lemmas/UParse` (ONE HdrOK / ChildOK / LoopOK scheme, generic in the value through
`QLine.OK` and `ListDocParse.parseSection_value`) and `Lemmas/UBridge`.

Hypotheses (all decidable except the two about `Env`; each is exhibited at the end with what the code does at the excluded point):
  `isEnvName name`, `name ≠ "END"`; `unodesOK`: keys, names, bare words and operands identifier-shaped without a reserved-word
  prefix, ids `SecId.OK`, integers of at most 4300 digits, an expression has at least one operator; `unodesEmitOK` (statements
  about `emit` only): strings quoted exactly when `needs_quotes` says so, no bare scalar and no expression under `PATTERN` /
  `REGEX` (list items there are not force-quoted: no condition); `firstKeyIsMetaU = false`: the first top-level node is not a
  line or a block keyed `META`; and about the outside world: NFC leaves every line of the text unchanged (`hnfc`, finding F16);
  `\d` does not match `§` (`hsec`: asked only when the document has a section whose marker is written `§`); the operator
  characters are symbols, not identifier characters or digits (`OpEnv`, `he`: asked only when the document has an expression).
No hypothesis on depth, width, list length, item kinds, the position of a list or an expression in the tree: the COMBINATION
of the classes adds no condition to those of its parts.
-/
import Octave.Lemmas.UBridge
import Octave.Props.C01sections
import Octave.Props.C01lists
import Octave.Props.C03expr
namespace Octave.C01
open Octave Lexer Emitter
open Octave.U
open Octave.Expr (OpEnv)
open Octave.UParse (QNode QLine toksList nodeList wfList warnsList metaFirstQ docToks qdoc parseDocument_forest After)

/-! ### the parser half on token lists (any positions) -/

/-- **The parser on the token list of a unified document** (any mode, arbitrary positions subject to `wf`): the document
`qdoc`, and exactly the warnings `warnsList`. -/
theorem udoc_parseDocument (env : Env) (strict : Bool) (f : FlatParse.Frame) (name : Str) (nodes : List QNode)
    (hm : metaFirstQ nodes = false) (hc : wfList env.isAlpha nodes 0) :
    ∃ st', Parser.parseDocument.run (Parser.initState env (docToks f name nodes) strict) = .ok (qdoc name nodes, st') ∧
      st'.warnings = (warnsList nodes []).reverse := by
  obtain ⟨st', h, p, n, rfl⟩ := parseDocument_forest f name nodes (Parser.initState env (docToks f name nodes) strict)
    ⟨rfl, Or.inr (by show 1 < 5; omega)⟩ hm hc rfl
  exact ⟨_, h, by simp [Parser.initState]⟩

/-- strict entry point on tokens. -/
theorem C02_udoc_document_read (env : Env) (f : FlatParse.Frame) (name : Str) (nodes : List QNode)
    (hm : metaFirstQ nodes = false) (hc : wfList env.isAlpha nodes 0) :
    C02.parseToks env (docToks f name nodes) = .ok (qdoc name nodes) := by
  obtain ⟨st', h, _⟩ := udoc_parseDocument env true f name nodes hm hc
  unfold C02.parseToks
  rw [h]; rfl

/-- lenient entry point on tokens: the same document and exactly the warnings `warnsList nodes []`. -/
theorem C02_udoc_document_read_warnings (env : Env) (f : FlatParse.Frame) (name : Str) (nodes : List QNode)
    (hm : metaFirstQ nodes = false) (hc : wfList env.isAlpha nodes 0) :
    C02.parseToksWithWarnings env (docToks f name nodes) = .ok (qdoc name nodes, warnsList nodes []) := by
  obtain ⟨st', h, hw⟩ := udoc_parseDocument env false f name nodes hm hc
  unfold C02.parseToksWithWarnings
  rw [h]
  simp only [bind, Except.bind, pure, Except.pure, hw, List.reverse_reverse]

/-! ### the two halves composed: any spelling -/

/-- the document read back from a spelled text: every node at its first text line, column `1 + 2·depth`. -/
def utDocAt (name : Str) (ts : List UT) : Document := { name := name, sections := utNodesAt 0 2 ts }

theorem qdoc_bridge (hash : Bool) (name : Str) (ts : List UT) : qdoc name (utToQ hash 0 2 ts) = utDocAt name ts := by
  simp only [qdoc, utDocAt, nodeList_toQ]

/-- the lexer half in the vocabulary of the parser half. -/
theorem ut_text_lexes (env : Env) (lenient : Bool) (hash : Bool) (name : Str) (ts : List UT)
    (he : utHasExpr ts = true → OpEnv env) (hsec : hash = false → utHasSect ts = true → env.isDigit '§' = false)
    (hn : isEnvName name = true) (hne : name ≠ "END".toList) (hok : utOK ts)
    (hnfc : ∀ l ∈ splitLines (utDocText hash name ts), env.nfc l = l) :
    Lexer.tokenize env (Parser.stripFrontmatter env (utDocText hash name ts)).1 lenient
      = .ok (docToks (flatFrame name (utNLines ts)) name (utToQ hash 0 2 ts), utReps hash 0 2 ts) := by
  rw [stripFrontmatter_ut, ← utDocToks_bridge]
  exact tokenize_ut env lenient hash name ts he hsec hn hne hok hnfc

/-- **the strict reader on ANY spelling of a unified document**: the document, every node at its text line. -/
theorem C01_ut_text_read (env : Env) (hash : Bool) (name : Str) (ts : List UT)
    (he : utHasExpr ts = true → OpEnv env) (hsec : hash = false → utHasSect ts = true → env.isDigit '§' = false)
    (hn : isEnvName name = true) (hne : name ≠ "END".toList) (hok : utOK ts)
    (hm : utFirstKeyIsMeta ts = false) (hnfc : ∀ l ∈ splitLines (utDocText hash name ts), env.nfc l = l) :
    Parser.parse env (utDocText hash name ts) = .ok (utDocAt name ts) := by
  have hlex := ut_text_lexes env false hash name ts he hsec hn hne hok hnfc
  rw [C02.parse_eq_parseToks env _ _ _ hlex,
    C02_udoc_document_read env _ name _ (by rw [metaFirstQ_bridge]; exact hm) (utWf_toQ hash env.isAlpha (alphaOK_env env) ts 0 2 hok),
    stripFrontmatter_ut, qdoc_bridge]
  rfl

/-- **the lenient reader on ANY spelling**, exactly: the same document, the lexer's receipts `utReps`, the parser's warnings
(per expression line `bare_flow` / `constraint_outside_brackets` / `chained_tension`, per line W_PATTERN_AUTOQUOTE for an
unquoted string under `PATTERN`/`REGEX`, then the duplicate-key warning of its level). -/
theorem C02_ut_lenient_read_exact (env : Env) (hash : Bool) (name : Str) (ts : List UT)
    (he : utHasExpr ts = true → OpEnv env) (hsec : hash = false → utHasSect ts = true → env.isDigit '§' = false)
    (hn : isEnvName name = true) (hne : name ≠ "END".toList) (hok : utOK ts)
    (hm : utFirstKeyIsMeta ts = false) (hnfc : ∀ l ∈ splitLines (utDocText hash name ts), env.nfc l = l) :
    Parser.parseWithWarnings env (utDocText hash name ts)
      = .ok (utDocAt name ts, utReps hash 0 2 ts, warnsList (utToQ hash 0 2 ts) []) := by
  have hlex := ut_text_lexes env false hash name ts he hsec hn hne hok hnfc
  rw [C02.parseWithWarnings_eq_parseToks env _ _ _ hlex,
    C02_udoc_document_read_warnings env _ name _ (by rw [metaFirstQ_bridge]; exact hm)
      (utWf_toQ hash env.isAlpha (alphaOK_env env) ts 0 2 hok),
    stripFrontmatter_ut, qdoc_bridge]
  rfl

/-! ### receipts: exactly one per aliased operator occurrence and per `#` marker -/

/-- the receipts owed to the value of a line (reading order): one per operator occurrence written with an alias. -/
def valueReceipts (sp : VSp) (l c : Nat) : UValue → List Repair
  | .expr e => Expr.tailReceipts l (c + e.head.length) e.tail sp.ops
  | _ => []

mutual
/-- the normalisation receipts owed to a spelled node, in reading order. -/
def nodeReceipts (hash : Bool) (d l : Nat) : UT → List Repair
  | .line key v sp => valueReceipts sp l (1 + 2 * d + key.length + 2) v
  | .block _ cs => utReceipts hash (d + 1) (l + 1) cs
  | .sect _ _ cs => markerReps hash l (1 + 2 * d) ++ utReceipts hash (d + 1) (l + 1) cs
def utReceipts (hash : Bool) (d l : Nat) : List UT → List Repair
  | [] => []
  | n :: ns => nodeReceipts hash d l n ++ utReceipts hash d (l + n.nlines) ns
end

theorem identReps_not_norm (s : Str) (a b : Nat) : (identifierRepairs s a b).filter isNormalization = [] :=
  filter_norm_eq_nil (identifierRepairs_not_norm s a b)

theorem uvalue_reps_norm (v : UValue) (sp : VSp) (l c : Nat) : (v.reps sp l c).filter isNormalization = valueReceipts sp l c v := by
  cases v with
  | scalar s => exact toksReps_not_norm _
  | list items => exact toksReps_not_norm _
  | expr e =>
    simp only [UValue.reps, valueReceipts, List.filter_append, identReps_not_norm, List.nil_append]
    rw [List.filter_reverse, Expr.tailReps_norm]

theorem markerReps_reverse (hash : Bool) (l c : Nat) : (markerReps hash l c).reverse = markerReps hash l c := by
  cases hash <;> rfl

mutual
theorem ut_reps_norm (hash : Bool) : ∀ (n : UT) (d l : Nat), (n.reps hash d l).filter isNormalization = nodeReceipts hash d l n
  | .line key v sp, d, l => by
    simp only [UT.reps, lineReps, nodeReceipts, List.filter_append, identReps_not_norm, List.nil_append, uvalue_reps_norm]
  | .block key cs, d, l => by
    simp only [UT.reps, nodeReceipts, List.filter_append, identReps_not_norm, List.nil_append, uts_reps_norm hash cs (d + 1) (l + 1)]
  | .sect id key cs, d, l => by
    simp only [UT.reps, nodeReceipts, List.filter_append, uts_reps_norm hash cs (d + 1) (l + 1)]
    rw [List.filter_reverse, sheader_reps_norm, markerReps_reverse]
theorem uts_reps_norm (hash : Bool) : ∀ (ns : List UT) (d l : Nat), (utReps hash d l ns).filter isNormalization = utReceipts hash d l ns
  | [], d, l => rfl
  | n :: ns, d, l => by
    simp only [utReps, utReceipts, List.filter_append, ut_reps_norm hash n d l, uts_reps_norm hash ns d (l + n.nlines)]
end

theorem valueReceipts_canon (v : UValue) (d l c : Nat) : valueReceipts (v.canonSp d) l c v = [] := by
  cases v with
  | scalar s => rfl
  | list items => rfl
  | expr e => exact C03.tailReceipts_canon l e.tail _

mutual
theorem unode_receipts_canon : ∀ (n : UNode) (d l : Nat), nodeReceipts false d l (n.canonT d) = []
  | .line key v, d, l => by simp only [UNode.canonT, nodeReceipts, valueReceipts_canon]
  | .block key cs, d, l => by simp only [UNode.canonT, nodeReceipts, unodes_receipts_canon cs (d + 1) (l + 1)]
  | .sect id key cs, d, l => by
    simp only [UNode.canonT, nodeReceipts, unodes_receipts_canon cs (d + 1) (l + 1), List.append_nil]; rfl
theorem unodes_receipts_canon : ∀ (ns : List UNode) (d l : Nat), utReceipts false d l (canonTs d ns) = []
  | [], d, l => rfl
  | n :: ns, d, l => by
    simp only [canonTs, utReceipts, unode_receipts_canon n d l, unodes_receipts_canon ns d _, List.append_nil]
end

/-- **C07 on spelled unified documents**: the normalisation receipts of the lenient reader are, in reading order, exactly one
per operator occurrence written with an alias and one per marker written `#`, each at its own position — nothing else is
normalised (list layouts and spaces draw no receipt). -/
theorem C07_udoc_receipts (env : Env) (hash : Bool) (name : Str) (ts : List UT)
    (he : utHasExpr ts = true → OpEnv env) (hsec : hash = false → utHasSect ts = true → env.isDigit '§' = false)
    (hn : isEnvName name = true) (hne : name ≠ "END".toList) (hok : utOK ts)
    (hm : utFirstKeyIsMeta ts = false) (hnfc : ∀ l ∈ splitLines (utDocText hash name ts), env.nfc l = l) :
    ∃ reps warns, Parser.parseWithWarnings env (utDocText hash name ts) = .ok (utDocAt name ts, reps, warns) ∧
      reps.filter isNormalization = utReceipts hash 0 2 ts :=
  ⟨_, _, C02_ut_lenient_read_exact env hash name ts he hsec hn hne hok hm hnfc, uts_reps_norm hash ts 0 2⟩

/-! ### the canonical text -/

theorem utDocAt_canon (name : Str) (nodes : List UNode) : utDocAt name (canonTs 0 nodes) = uDoc name canonPos nodes := by
  simp only [utDocAt, uDoc]
  rw [show (2 : Nat) = 0 + 2 from rfl, utNodesAt_canon]

/-- **the canonical text of a unified document is accepted by the strict reader, which returns the same document** (every
node positioned at its first text line, column `1 + 2·depth`: `canonPos`; every list with exactly its items, every expression
as the string of its text, every section with its id string, its name, no annotation, exactly its children). -/
theorem C01_udoc_canonical_is_readable (env : Env) (name : Str) (nodes : List UNode)
    (he : unodesHasExpr nodes = true → OpEnv env) (hsec : unodesHasSect nodes = true → env.isDigit '§' = false)
    (hn : isEnvName name = true) (hne : name ≠ "END".toList) (hok : unodesOK nodes)
    (hm : firstKeyIsMetaU nodes = false) (hnfc : ∀ l ∈ splitLines (uDocText name nodes), env.nfc l = l) :
    Parser.parse env (uDocText name nodes) = .ok (uDoc name canonPos nodes) := by
  rw [← utDocAt_canon]
  exact C01_ut_text_read env false name (canonTs 0 nodes) (by rw [utHasExpr_canonTs]; exact he)
    (by rw [utHasSect_canonTs]; exact fun _ => hsec) hn hne (canonTs_ok nodes 0 hok)
    (by rw [utFirstKeyIsMeta_canon]; exact hm) hnfc

/-- the emitter on the AST `uDoc` (any positions). -/
theorem emit_udoc (env : Env) (name : Str) (pos : Nat → Nat → Nat × Nat) (nodes : List UNode) (hok : unodesOK nodes)
    (hem : unodesEmitOK nodes) : emit env (uDoc name pos nodes) = some (uDocText name nodes) :=
  emit_udoc_matches env name nodes _ (unodeNodes_matches pos nodes 0 0) hok hem

/-- **C01 on unified documents: the canonical text is a fixed point.**  Emit the document, read the text with the strict
reader, emit again: the same bytes.  For every such document, whatever positions its nodes carry. -/
theorem C01_udoc_fixed_point (env : Env) (name : Str) (pos : Nat → Nat → Nat × Nat) (nodes : List UNode)
    (he : unodesHasExpr nodes = true → OpEnv env) (hsec : unodesHasSect nodes = true → env.isDigit '§' = false)
    (hn : isEnvName name = true) (hne : name ≠ "END".toList) (hok : unodesOK nodes) (hem : unodesEmitOK nodes)
    (hm : firstKeyIsMetaU nodes = false) (hnfc : ∀ l ∈ splitLines (uDocText name nodes), env.nfc l = l) :
    ∃ text d', emit env (uDoc name pos nodes) = some text ∧ Parser.parse env text = .ok d' ∧ emit env d' = some text :=
  ⟨uDocText name nodes, uDoc name canonPos nodes, emit_udoc env name pos nodes hok hem,
   C01_udoc_canonical_is_readable env name nodes he hsec hn hne hok hm hnfc, emit_udoc env name _ nodes hok hem⟩

/-- the same for ANY AST that carries the forest (any positions at all in the nodes). -/
theorem C01_udoc_fixed_point_matches (env : Env) (name : Str) (nodes : List UNode) (sections : List Node)
    (hmt : unodesMatch nodes sections)
    (he : unodesHasExpr nodes = true → OpEnv env) (hsec : unodesHasSect nodes = true → env.isDigit '§' = false)
    (hn : isEnvName name = true) (hne : name ≠ "END".toList) (hok : unodesOK nodes) (hem : unodesEmitOK nodes)
    (hm : firstKeyIsMetaU nodes = false) (hnfc : ∀ l ∈ splitLines (uDocText name nodes), env.nfc l = l) :
    ∃ text d', emit env { name := name, sections := sections } = some text ∧ Parser.parse env text = .ok d' ∧
      emit env d' = some text :=
  ⟨uDocText name nodes, uDoc name canonPos nodes, emit_udoc_matches env name nodes sections hmt hok hem,
   C01_udoc_canonical_is_readable env name nodes he hsec hn hne hok hm hnfc, emit_udoc env name _ nodes hok hem⟩

/-- … stated with the strict canonicaliser: the canonical text is a fixed point of `canonStrict`. -/
theorem C01_udoc_canonStrict_fixed (env : Env) (name : Str) (nodes : List UNode)
    (he : unodesHasExpr nodes = true → OpEnv env) (hsec : unodesHasSect nodes = true → env.isDigit '§' = false)
    (hn : isEnvName name = true) (hne : name ≠ "END".toList) (hok : unodesOK nodes) (hem : unodesEmitOK nodes)
    (hm : firstKeyIsMetaU nodes = false) (hnfc : ∀ l ∈ splitLines (uDocText name nodes), env.nfc l = l) :
    canonStrict env (uDocText name nodes) = .ok (uDocText name nodes) := by
  unfold canonStrict
  rw [C01_udoc_canonical_is_readable env name nodes he hsec hn hne hok hm hnfc]
  simp only [bind, Except.bind, emit_udoc env name canonPos nodes hok hem]
  rfl

/-- **C02 on unified documents: reading the canonical text yields exactly the content that was written** — the name; sections
that carry the forest (`unodesMatch`: per line the same key and the same value with its type — a list with the same items in
the same order with their types, an expression as the string of its canonical text —, per block the same key and children, per
section the same id and name, no annotation, the same children in the same order; no comments); nothing else appears. -/
theorem C02_udoc_content_preserved (env : Env) (name : Str) (pos : Nat → Nat → Nat × Nat) (nodes : List UNode)
    (he : unodesHasExpr nodes = true → OpEnv env) (hsec : unodesHasSect nodes = true → env.isDigit '§' = false)
    (hn : isEnvName name = true) (hne : name ≠ "END".toList) (hok : unodesOK nodes) (hem : unodesEmitOK nodes)
    (hm : firstKeyIsMetaU nodes = false) (hnfc : ∀ l ∈ splitLines (uDocText name nodes), env.nfc l = l) :
    ∃ text d', emit env (uDoc name pos nodes) = some text ∧ Parser.parse env text = .ok d' ∧
      d'.name = name ∧ d'.metaKv = [] ∧ d'.hasSeparator = false ∧ d'.trailingComments = [] ∧ d'.grammarVersion = none ∧
      d'.rawFrontmatter = none ∧ unodesMatch nodes d'.sections :=
  ⟨uDocText name nodes, uDoc name canonPos nodes, emit_udoc env name pos nodes hok hem,
   C01_udoc_canonical_is_readable env name nodes he hsec hn hne hok hm hnfc, rfl, rfl, rfl, rfl, rfl, rfl,
   unodeNodes_matches canonPos nodes 0 0⟩

/-- the lenient entry point on the canonical text, exactly: the same document, the identifier notes of the lexer, the parser's
warnings. -/
theorem C02_udoc_lenient_read_exact (env : Env) (name : Str) (nodes : List UNode)
    (he : unodesHasExpr nodes = true → OpEnv env) (hsec : unodesHasSect nodes = true → env.isDigit '§' = false)
    (hn : isEnvName name = true) (hne : name ≠ "END".toList) (hok : unodesOK nodes)
    (hm : firstKeyIsMetaU nodes = false) (hnfc : ∀ l ∈ splitLines (uDocText name nodes), env.nfc l = l) :
    Parser.parseWithWarnings env (uDocText name nodes)
      = .ok (uDoc name canonPos nodes, utReps false 0 2 (canonTs 0 nodes), warnsList (utToQ false 0 2 (canonTs 0 nodes)) []) := by
  rw [← utDocAt_canon]
  exact C02_ut_lenient_read_exact env false name (canonTs 0 nodes) (by rw [utHasExpr_canonTs]; exact he)
    (by rw [utHasSect_canonTs]; exact fun _ => hsec) hn hne (canonTs_ok nodes 0 hok)
    (by rw [utFirstKeyIsMeta_canon]; exact hm) hnfc

/-- **the lenient entry point reads the same document from the canonical text, and the lexer issues no normalisation
receipt**: the canonical operators, markers and list layouts are not "repaired". -/
theorem C02_udoc_lenient_read (env : Env) (name : Str) (nodes : List UNode)
    (he : unodesHasExpr nodes = true → OpEnv env) (hsec : unodesHasSect nodes = true → env.isDigit '§' = false)
    (hn : isEnvName name = true) (hne : name ≠ "END".toList) (hok : unodesOK nodes)
    (hm : firstKeyIsMetaU nodes = false) (hnfc : ∀ l ∈ splitLines (uDocText name nodes), env.nfc l = l) :
    ∃ reps warns, Parser.parseWithWarnings env (uDocText name nodes) = .ok (uDoc name canonPos nodes, reps, warns)
      ∧ reps.filter isNormalization = [] := by
  refine ⟨_, _, C02_udoc_lenient_read_exact env name nodes he hsec hn hne hok hm hnfc, ?_⟩
  rw [uts_reps_norm, unodes_receipts_canon]

/-! ### C03: every spelling converges on the canonical text -/

/-- **C03 on unified documents: every spelling converges.**  Whatever layout each list is written in — on one line, or one
item per line behind any number of spaces with the closing bracket behind any number of spaces; a short list written
multi-line, a long list on one line, inside blocks and sections at any depth —, however each operator occurrence is written —
Unicode, ASCII alias (`->` `+` `~` `<->` `|` `&`), `vs`, any spaces around it — and whichever way the markers are spelled
(`§` / `#`): the reader returns the same content, and both canonicalisers return the canonical text of that content. -/
theorem C03_udoc_spellings_converge (env : Env) (hash : Bool) (name : Str) (ts : List UT)
    (he : utHasExpr ts = true → OpEnv env) (hsec : hash = false → utHasSect ts = true → env.isDigit '§' = false)
    (hn : isEnvName name = true) (hne : name ≠ "END".toList) (hok : utOK ts)
    (hem : unodesEmitOK (utContent ts)) (hm : utFirstKeyIsMeta ts = false)
    (hnfc : ∀ l ∈ splitLines (utDocText hash name ts), env.nfc l = l) :
    canonStrict env (utDocText hash name ts) = .ok (uDocText name (utContent ts)) ∧
    canonLenient env (utDocText hash name ts) = .ok (uDocText name (utContent ts)) :=
  canon_of_read' env _ _ _ _ _ (C01_ut_text_read env hash name ts he hsec hn hne hok hm hnfc)
    (C02_ut_lenient_read_exact env hash name ts he hsec hn hne hok hm hnfc)
    (emit_udoc_matches env name (utContent ts) _ (utNodesAt_match ts 0 2) (utContent_ok ts hok) hem)

/-- … the content read back from any spelling is the content written (`unodesMatch`). -/
theorem C03_udoc_spelled_content (env : Env) (hash : Bool) (name : Str) (ts : List UT)
    (he : utHasExpr ts = true → OpEnv env) (hsec : hash = false → utHasSect ts = true → env.isDigit '§' = false)
    (hn : isEnvName name = true) (hne : name ≠ "END".toList) (hok : utOK ts)
    (hm : utFirstKeyIsMeta ts = false) (hnfc : ∀ l ∈ splitLines (utDocText hash name ts), env.nfc l = l) :
    ∃ d', Parser.parse env (utDocText hash name ts) = .ok d' ∧ d'.name = name ∧ unodesMatch (utContent ts) d'.sections :=
  ⟨_, C01_ut_text_read env hash name ts he hsec hn hne hok hm hnfc, rfl, utNodesAt_match ts 0 2⟩

/-- **any two spellings of the same unified document canonicalise to identical bytes** (both canonicalisers). -/
theorem C03_udoc_spellings_agree (env : Env) (h₁ h₂ : Bool) (name : Str) (ts₁ ts₂ : List UT)
    (he₁ : utHasExpr ts₁ = true → OpEnv env) (he₂ : utHasExpr ts₂ = true → OpEnv env)
    (hsec₁ : h₁ = false → utHasSect ts₁ = true → env.isDigit '§' = false)
    (hsec₂ : h₂ = false → utHasSect ts₂ = true → env.isDigit '§' = false)
    (hsame : utContent ts₁ = utContent ts₂)
    (hn : isEnvName name = true) (hne : name ≠ "END".toList) (hok₁ : utOK ts₁) (hok₂ : utOK ts₂)
    (hem : unodesEmitOK (utContent ts₁)) (hm : utFirstKeyIsMeta ts₁ = false)
    (hnfc₁ : ∀ l ∈ splitLines (utDocText h₁ name ts₁), env.nfc l = l)
    (hnfc₂ : ∀ l ∈ splitLines (utDocText h₂ name ts₂), env.nfc l = l) :
    canonStrict env (utDocText h₁ name ts₁) = canonStrict env (utDocText h₂ name ts₂) ∧
    canonLenient env (utDocText h₁ name ts₁) = canonLenient env (utDocText h₂ name ts₂) := by
  have hm₂ : utFirstKeyIsMeta ts₂ = false := by
    rw [← utFirstKeyIsMeta_content, ← hsame, utFirstKeyIsMeta_content]; exact hm
  have c1 := C03_udoc_spellings_converge env h₁ name ts₁ he₁ hsec₁ hn hne hok₁ hem hm hnfc₁
  have c2 := C03_udoc_spellings_converge env h₂ name ts₂ he₂ hsec₂ hn hne hok₂ (by rw [← hsame]; exact hem) hm₂ hnfc₂
  rw [← hsame] at c2
  exact ⟨by rw [c1.1, c2.1], by rw [c1.2, c2.2]⟩

/-! ### the emitter is injective on unified documents (what the seal of C15 relies on) -/

/-- a line that is certainly not keyed `META`, put in front of a forest to make the reader theorem applicable. -/
def dummyLineU : UNode := .line "A".toList (.scalar .null)

theorem dummyLineU_ok : dummyLineU.OK := by
  simp only [dummyLineU, UNode.OK, UValue.OK, FScalar.OK]
  decide

/-- **The canonical text determines the document**: two unified documents with the same canonical text have the same name
and the same content (`unodesVContent`: ids, names, keys, nesting, order, values with their types, list items in order).  No
hypothesis other than the shape of names, keys, ids and values: not on `META`, not on `END`, not on the environment — the proof
reads `===D===`, a dummy first line, then the body, with the strict reader in the ASCII environment. -/
theorem udoc_text_injective (n1 n2 : Str) (t1 t2 : List UNode)
    (hn1 : isEnvName n1 = true) (hok1 : unodesOK t1) (hn2 : isEnvName n2 = true) (hok2 : unodesOK t2)
    (h : uDocText n1 t1 = uDocText n2 t2) : n1 = n2 ∧ unodesVContent t1 = unodesVContent t2 := by
  have hname : n1 = n2 := by
    have hs := congrArg splitLines h
    simp only [uDocText, utDocText] at hs
    rw [splitLines_append_nl _ _ (fun d hd => (envLine_clean n1 hn1 d hd).1),
      splitLines_append_nl _ _ (fun d hd => (envLine_clean n2 hn2 d hd).1)] at hs
    exact List.append_cancel_left (List.append_cancel_right (List.cons.inj hs).1)
  refine ⟨hname, ?_⟩
  subst hname
  have hbody : utText false 0 (canonTs 0 t1) ++ ("===END===".toList ++ ['\n']) = utText false 0 (canonTs 0 t2) ++ ("===END===".toList ++ ['\n']) := by
    unfold uDocText utDocText at h
    exact (List.cons.inj (List.append_cancel_left h)).2
  have hD : uDocText "D".toList (dummyLineU :: t1) = uDocText "D".toList (dummyLineU :: t2) := by
    simp only [uDocText, utDocText, canonTs, utText, List.append_assoc, hbody]
  have r1 := C01_udoc_canonical_is_readable Env.ascii "D".toList (dummyLineU :: t1) (fun _ => Expr.opEnv_ascii) (fun _ => rfl)
    (by decide) (by decide) ⟨dummyLineU_ok, hok1⟩ rfl (fun _ _ => rfl)
  have r2 := C01_udoc_canonical_is_readable Env.ascii "D".toList (dummyLineU :: t2) (fun _ => Expr.opEnv_ascii) (fun _ => rfl)
    (by decide) (by decide) ⟨dummyLineU_ok, hok2⟩ rfl (fun _ _ => rfl)
  rw [hD, r2] at r1
  have hd : uDoc "D".toList canonPos (dummyLineU :: t2) = uDoc "D".toList canonPos (dummyLineU :: t1) := by
    simpa using r1
  simp only [uDoc, Document.mk.injEq] at hd
  have m1 := unodeNodes_matches canonPos (dummyLineU :: t1) 0 0
  have m2 := unodeNodes_matches canonPos (dummyLineU :: t2) 0 0
  rw [hd.2.2.2.1] at m2
  have hc := unodesVContent_of_matches _ _ _ m1 m2
  simp only [unodesVContent, List.cons.injEq] at hc
  exact hc.2

/-- **Two unified documents with the same emitted text have the same content**: on this class `emit` is injective up to the
positions stored in the nodes (the hypothesis of the seal theorems of C15), for ANY two ASTs that carry the forests. -/
theorem C15_udoc_emit_injective (env : Env) (n1 n2 : Str) (s1 s2 : List Node) (t1 t2 : List UNode)
    (hmt1 : unodesMatch t1 s1) (hmt2 : unodesMatch t2 s2)
    (hn1 : isEnvName n1 = true) (hok1 : unodesOK t1) (hem1 : unodesEmitOK t1)
    (hn2 : isEnvName n2 = true) (hok2 : unodesOK t2) (hem2 : unodesEmitOK t2)
    (h : emit env { name := n1, sections := s1 } = emit env { name := n2, sections := s2 }) :
    n1 = n2 ∧ unodesVContent t1 = unodesVContent t2 := by
  rw [emit_udoc_matches env n1 t1 s1 hmt1 hok1 hem1, emit_udoc_matches env n2 t2 s2 hmt2 hok2 hem2] at h
  exact udoc_text_injective n1 n2 t1 t2 hn1 hok1 hn2 hok2 (by simpa using h)

/-! ### decidability of the hypotheses (for closed checks) -/

instance decSecIdOK (id : SecId) : Decidable id.OK := by
  cases id <;> (simp only [SecId.OK]; infer_instance)

instance decUValueOK (v : UValue) : Decidable v.OK := by
  cases v with
  | scalar s => exact inferInstanceAs (Decidable s.OK)
  | list items => exact inferInstanceAs (Decidable (∀ x ∈ items, x.OK))
  | expr e => exact inferInstanceAs (Decidable e.OK)

instance decLineEmitOK (key : Str) (v : UValue) : Decidable (lineEmitOK key v) := by
  cases v with
  | scalar s => exact inferInstanceAs (Decidable (FLine.mk key s).EmitOK)
  | list items => exact inferInstanceAs (Decidable (∀ x ∈ items, ListDoc.ItemEmitOK x))
  | expr e => exact inferInstanceAs (Decidable (alwaysQuoteKey key = false))

mutual
def decUNodeOK : (n : UNode) → Decidable n.OK
  | .line key v => decidable_of_iff (isIdentifierText key = true ∧ hasReservedPrefix key = false ∧ v.OK) (by simp only [UNode.OK])
  | .block key cs =>
    letI := decUNodesOK cs
    decidable_of_iff (isIdentifierText key = true ∧ hasReservedPrefix key = false ∧ unodesOK cs) (by simp only [UNode.OK])
  | .sect id key cs =>
    letI := decUNodesOK cs
    decidable_of_iff (id.OK ∧ isIdentifierText key = true ∧ hasReservedPrefix key = false ∧ unodesOK cs) (by simp only [UNode.OK])
def decUNodesOK : (ns : List UNode) → Decidable (unodesOK ns)
  | [] => isTrue trivial
  | n :: ns =>
    letI := decUNodeOK n
    letI := decUNodesOK ns
    decidable_of_iff (n.OK ∧ unodesOK ns) (by simp only [unodesOK])
end
instance (n : UNode) : Decidable n.OK := decUNodeOK n
instance (ns : List UNode) : Decidable (unodesOK ns) := decUNodesOK ns

mutual
def decUNodeEmitOK : (n : UNode) → Decidable n.EmitOK
  | .line key v => decidable_of_iff (lineEmitOK key v) (by simp only [UNode.EmitOK])
  | .block key cs => letI := decUNodesEmitOK cs; decidable_of_iff (unodesEmitOK cs) (by simp only [UNode.EmitOK])
  | .sect id key cs => letI := decUNodesEmitOK cs; decidable_of_iff (unodesEmitOK cs) (by simp only [UNode.EmitOK])
def decUNodesEmitOK : (ns : List UNode) → Decidable (unodesEmitOK ns)
  | [] => isTrue trivial
  | n :: ns =>
    letI := decUNodeEmitOK n
    letI := decUNodesEmitOK ns
    decidable_of_iff (n.EmitOK ∧ unodesEmitOK ns) (by simp only [unodesEmitOK])
end
instance (n : UNode) : Decidable n.EmitOK := decUNodeEmitOK n
instance (ns : List UNode) : Decidable (unodesEmitOK ns) := decUNodesEmitOK ns

mutual
def decUTOK : (n : UT) → Decidable n.OK
  | .line key v _ => decidable_of_iff (isIdentifierText key = true ∧ hasReservedPrefix key = false ∧ v.OK) (by simp only [UT.OK])
  | .block key cs =>
    letI := decUTsOK cs
    decidable_of_iff (isIdentifierText key = true ∧ hasReservedPrefix key = false ∧ utOK cs) (by simp only [UT.OK])
  | .sect id key cs =>
    letI := decUTsOK cs
    decidable_of_iff (id.OK ∧ isIdentifierText key = true ∧ hasReservedPrefix key = false ∧ utOK cs) (by simp only [UT.OK])
def decUTsOK : (ns : List UT) → Decidable (utOK ns)
  | [] => isTrue trivial
  | n :: ns =>
    letI := decUTOK n
    letI := decUTsOK ns
    decidable_of_iff (n.OK ∧ utOK ns) (by simp only [utOK])
end
instance (n : UT) : Decidable n.OK := decUTOK n
instance (ns : List UT) : Decidable (utOK ns) := decUTsOK ns

/-! ### non-vacuity -/

/-- the document of the task statement: a section containing a block containing a 4-item list, an expression line and scalar
lines (and a short list, an empty list, a line after the block, a line after the section):
```
===D===
§1::S
  B:
    L::[
      1,
      a,
      "x y",
      true
    ]
    E::A→B⊕C
    K::"v w"
    S2::[1,2]
    N::[]
  Z::null
T::5
===END===
``` -/
def exU : List UNode :=
  [.sect (.num 1) "S".toList
     [.block "B".toList
        [.line "L".toList (.list [.int 1, .bare "a".toList, .qstr "x y".toList, .bool true]),
         .line "E".toList (.expr ⟨"A".toList, [(.flow, "B".toList), (.synth, "C".toList)]⟩),
         .line "K".toList (.scalar (.qstr "v w".toList)),
         .line "S2".toList (.list [.int 1, .int 2]),
         .line "N".toList (.list [])],
      .line "Z".toList (.scalar .null)],
   .line "T".toList (.scalar (.int 5))]

def exUText : Str :=
  "===D===\n§1::S\n  B:\n    L::[\n      1,\n      a,\n      \"x y\",\n      true\n    ]\n    E::A→B⊕C\n    K::\"v w\"\n    S2::[1,2]\n    N::[]\n  Z::null\nT::5\n===END===\n".toList

example : uDocText "D".toList exU = exUText := by decide +kernel

theorem exU_ok : unodesOK exU := by decide +kernel
theorem exU_emit : unodesEmitOK exU := by decide +kernel

/-- the example read by the strict reader (the theorem applied) … -/
example : Parser.parse Env.ascii (uDocText "D".toList exU) = .ok (uDoc "D".toList canonPos exU) :=
  C01_udoc_canonical_is_readable Env.ascii "D".toList exU (fun _ => Expr.opEnv_ascii) (fun _ => rfl) (by decide) (by decide) exU_ok (by decide) (fun _ _ => rfl)

set_option maxRecDepth 100000 in
/-- … and the AST written out.  The list is read with its four items in order and with their types, the expression as the
string of its text; the lines after the multi-line list are at text lines 10 … 13 (the list occupies lines 4 … 9). -/
example : uDoc "D".toList canonPos exU
    = { name := "D".toList,
        sections :=
          [ .sect "1".toList "S".toList none
              [ .block "B".toList
                  [ .assign "L".toList (.list [.int 1, .str "a".toList, .str "x y".toList, .bool true]) 4 5 [] none,
                    .assign "E".toList (.str "A→B⊕C".toList) 10 5 [] none,
                    .assign "K".toList (.str "v w".toList) 11 5 [] none,
                    .assign "S2".toList (.list [.int 1, .int 2]) 12 5 [] none,
                    .assign "N".toList (.list []) 13 5 [] none ] 3 3 [] none,
                .assign "Z".toList .null 14 3 [] none ] 2 1 [],
            .assign "T".toList (.int 5) 15 1 [] none ] } := by
  rfl

example : ∃ text d', emit Env.ascii (uDoc "D".toList (fun _ _ => (7, 7)) exU) = some text ∧
    Parser.parse Env.ascii text = .ok d' ∧ emit Env.ascii d' = some text :=
  C01_udoc_fixed_point Env.ascii "D".toList _ exU (fun _ => Expr.opEnv_ascii) (fun _ => rfl) (by decide) (by decide) exU_ok exU_emit (by decide) (fun _ _ => rfl)

example : ∃ text d', emit Env.ascii (uDoc "D".toList (fun i d => (d, i)) exU) = some text ∧
    Parser.parse Env.ascii text = .ok d' ∧ d'.name = "D".toList ∧ d'.metaKv = [] ∧ d'.hasSeparator = false ∧
    d'.trailingComments = [] ∧ d'.grammarVersion = none ∧ d'.rawFrontmatter = none ∧ unodesMatch exU d'.sections :=
  C02_udoc_content_preserved Env.ascii "D".toList _ exU (fun _ => Expr.opEnv_ascii) (fun _ => rfl) (by decide) (by decide) exU_ok exU_emit (by decide)
    (fun _ _ => rfl)

example : ∃ reps warns, Parser.parseWithWarnings Env.ascii (uDocText "D".toList exU)
      = .ok (uDoc "D".toList canonPos exU, reps, warns) ∧ reps.filter isNormalization = [] :=
  C02_udoc_lenient_read Env.ascii "D".toList exU (fun _ => Expr.opEnv_ascii) (fun _ => rfl) (by decide) (by decide) exU_ok (by decide) (fun _ _ => rfl)

/-- whole-model runs (evaluated by the kernel, independently of the theorems): the emitter writes the text; the lexer
produces exactly `utDocToks` / `utReps`; both canonicalisers fix the canonical text. -/
example : (match emit Env.ascii (uDoc "D".toList canonPos exU) with | some t => t == exUText | none => false) = true := by
  decide +kernel
example : (match tokenize Env.ascii exUText false with
    | .ok p => p == (utDocToks false "D".toList (canonTs 0 exU), utReps false 0 2 (canonTs 0 exU)) | .error _ => false) = true := by
  decide +kernel
example : isOkStr (canonStrict Env.ascii exUText) exUText = true := by decide +kernel
example : isOkStr (canonLenient Env.ascii exUText) exUText = true := by decide +kernel

/-- the token shape of the example: the INDENT / NEWLINE tokens INSIDE the multi-line list (items at indentation 6, the closing
bracket at indentation 4) sit between LIST_START and LIST_END; the next child of the block starts with its own INDENT(4). -/
example : (utDocToks false "D".toList (canonTs 0 exU)).map Token.tv =
    [(.envelopeStart, .str "D".toList), (.newline, .str ['\n']),
     (.section, .str ['§']), (.number, .int 1), (.assign, .str "::".toList), (.identifier, .str "S".toList), (.newline, .str ['\n']),
     (.indent, .nat 2), (.identifier, .str "B".toList), (.block, .str [':']), (.newline, .str ['\n']),
     (.indent, .nat 4), (.identifier, .str "L".toList), (.assign, .str "::".toList), (.listStart, .str ['[']), (.newline, .str ['\n']),
       (.indent, .nat 6), (.number, .int 1), (.comma, .str [',']), (.newline, .str ['\n']),
       (.indent, .nat 6), (.identifier, .str "a".toList), (.comma, .str [',']), (.newline, .str ['\n']),
       (.indent, .nat 6), (.string, .str "x y".toList), (.comma, .str [',']), (.newline, .str ['\n']),
       (.indent, .nat 6), (.boolean, .bool true), (.newline, .str ['\n']),
       (.indent, .nat 4), (.listEnd, .str [']']), (.newline, .str ['\n']),
     (.indent, .nat 4), (.identifier, .str "E".toList), (.assign, .str "::".toList), (.identifier, .str "A".toList), (.flow, .str ['→']),
       (.identifier, .str "B".toList), (.synthesis, .str ['⊕']), (.identifier, .str "C".toList), (.newline, .str ['\n']),
     (.indent, .nat 4), (.identifier, .str "K".toList), (.assign, .str "::".toList), (.string, .str "v w".toList), (.newline, .str ['\n']),
     (.indent, .nat 4), (.identifier, .str "S2".toList), (.assign, .str "::".toList), (.listStart, .str ['[']), (.number, .int 1),
       (.comma, .str [',']), (.number, .int 2), (.listEnd, .str [']']), (.newline, .str ['\n']),
     (.indent, .nat 4), (.identifier, .str "N".toList), (.assign, .str "::".toList), (.listStart, .str ['[']), (.listEnd, .str [']']),
       (.newline, .str ['\n']),
     (.indent, .nat 2), (.identifier, .str "Z".toList), (.assign, .str "::".toList), (.null, .none), (.newline, .str ['\n']),
     (.identifier, .str "T".toList), (.assign, .str "::".toList), (.number, .int 5), (.newline, .str ['\n']),
     (.envelopeEnd, .str "END".toList), (.newline, .str ['\n']), (.eof, .none)] := by decide +kernel

/-- the parser's warnings on the example: one `bare_flow` for the `→` of the expression line (line 10, column 9). -/
example : warnsList (utToQ false 0 2 (canonTs 0 exU)) [] = [.bareFlow 10 9] := by decide +kernel

/-! ### C03: a spelling of the same document -/

/-- the same content spelled differently: the markers `#`; the 4-item list on ONE line; the expression with ASCII aliases
and spaces (`A -> B+C`); the 2-item list one item per line behind 1 and 12 spaces with the closing bracket behind 7 spaces; the
empty list with a line break and the closing bracket at column 1. -/
def exUSpelled : List UT :=
  [.sect (.num 1) "S".toList
     [.block "B".toList
        [.line "L".toList (.list [.int 1, .bare "a".toList, .qstr "x y".toList, .bool true]) {},
         .line "E".toList (.expr ⟨"A".toList, [(.flow, "B".toList), (.synth, "C".toList)]⟩)
           { ops := [{ pre := 1, form := .alias, post := 1 }, { form := .alias }] },
         .line "K".toList (.scalar (.qstr "v w".toList)) {},
         .line "S2".toList (.list [.int 1, .int 2]) { lay := .multi 1 7 },
         .line "N".toList (.list []) { lay := .multi 0 0 }],
      .line "Z".toList (.scalar .null) {}],
   .line "T".toList (.scalar (.int 5)) {}]

def exUSpelledText : Str :=
  "===D===\n#1::S\n  B:\n    L::[1,a,\"x y\",true]\n    E::A -> B+C\n    K::\"v w\"\n    S2::[\n 1,\n 2\n       ]\n    N::[\n]\n  Z::null\nT::5\n===END===\n".toList

example : utDocText true "D".toList exUSpelled = exUSpelledText := by decide +kernel
example : utContent exUSpelled = exU := rfl
theorem exUSpelled_ok : utOK exUSpelled := by decide +kernel

/-- the theorem applied: both canonicalisers map the spelled text to the canonical text. -/
example : canonStrict Env.ascii exUSpelledText = .ok exUText ∧ canonLenient Env.ascii exUSpelledText = .ok exUText := by
  have h := C03_udoc_spellings_converge Env.ascii true "D".toList exUSpelled (fun _ => Expr.opEnv_ascii) (fun h => by cases h) (by decide) (by decide)
    exUSpelled_ok (by decide +kernel) (by decide) (fun _ _ => rfl)
  have e1 : utDocText true "D".toList exUSpelled = exUSpelledText := by decide +kernel
  have e2 : uDocText "D".toList (utContent exUSpelled) = exUText := by decide +kernel
  rw [e1, e2] at h
  exact h

/-- … and the whole model evaluated on it. -/
example : isOkStr (canonStrict Env.ascii exUSpelledText) exUText = true := by decide +kernel
example : isOkStr (canonLenient Env.ascii exUSpelledText) exUText = true := by decide +kernel

/-- the receipts of the spelled text: exactly three — the marker `#` at (2,1), `->` at (5,10), `+` at (5,14); the list layouts
draw none.  (The real `parse_with_warnings` reports the same three records at the same positions.) -/
example : utReceipts true 0 2 exUSpelled =
    [.normalization ['#'] (.str ['§']) 2 1, .normalization "->".toList (.str ['→']) 5 10, .normalization ['+'] (.str ['⊕']) 5 14] := by
  decide +kernel

example : ∃ reps warns, Parser.parseWithWarnings Env.ascii (utDocText true "D".toList exUSpelled)
      = .ok (utDocAt "D".toList exUSpelled, reps, warns) ∧
      reps.filter isNormalization =
        [.normalization ['#'] (.str ['§']) 2 1, .normalization "->".toList (.str ['→']) 5 10, .normalization ['+'] (.str ['⊕']) 5 14] := by
  obtain ⟨reps, warns, h1, h2⟩ := C07_udoc_receipts Env.ascii true "D".toList exUSpelled
    (fun _ => Expr.opEnv_ascii) (fun h => by cases h) (by decide) (by decide) exUSpelled_ok (by decide) (fun _ _ => rfl)
  exact ⟨reps, warns, h1, by rw [h2]; decide +kernel⟩

example : (match Parser.parseWithWarnings Env.ascii exUSpelledText with
    | .ok (_, reps, _) => reps.filter isNormalization ==
        [.normalization ['#'] (.str ['§']) 2 1, .normalization "->".toList (.str ['→']) 5 10, .normalization ['+'] (.str ['⊕']) 5 14]
    | .error _ => false) = true := by decide +kernel

/-- any indentation, symbolic: a 2-item list inside a block, written one item per line behind `n` spaces with the closing
bracket behind `m` spaces, converges on `[a,b]` — for ALL `n`, `m`. -/
example (n m : Nat) :
    canonStrict Env.ascii (utDocText false "D".toList
      [.block "B".toList [.line "K".toList (.list [.bare "a".toList, .bare "b".toList]) { lay := .multi n m }]])
      = .ok "===D===\nB:\n  K::[a,b]\n===END===\n".toList :=
  (C03_udoc_spellings_converge Env.ascii false "D".toList _ (fun _ => Expr.opEnv_ascii) (fun _ _ => rfl) (by decide) (by decide)
    (by simp only [utOK, UT.OK, UValue.OK]; decide)
    (by simp only [utContent, UT.content, unodesEmitOK, UNode.EmitOK, lineEmitOK]; decide) rfl (fun _ _ => rfl)).1

/-! ### the parser half alone: symbolic positions -/

open Octave.ListDocParse (AllWs HeadToks ListToks) in
theorem allWs_pair (a b : Token) (ha : a.type = .newline) (hb : b.type = .indent) : AllWs [a, b] := by
  intro t ht
  simp only [List.mem_cons, List.mem_nil_iff, or_false] at ht
  rcases ht with rfl | rfl
  · simp [ListDocParse.isWsT, ha]
  · simp [ListDocParse.isWsT, hb]

open Octave.ListDocParse (AllWs HeadToks ListToks) in
/-- a block `B:` holding `K::[⏎␣1⏎␣]` with EVERY line / column number and both INDENT values inside the list arbitrary; the only
position read is the column of the block key (`p.c1 - 1 < 2`: left of the child's indentation). -/
example (env : Env) (f : FlatParse.Frame) (p : SectParse.SPos) (hp : p.c1 - 1 < 2)
    (il ic l1 c1 l2 c2 l3 c3 l4 c4 l5 c5 l6 c6 l7 c7 l8 c8 l9 c9 l10 c10 i1 i2 : Nat) :
    C02.parseToks env (docToks f "D".toList
      [.block p "B".toList [.line ⟨il, ic, tIdent "K".toList l1 c1, "K".toList, tAssign l2 c2, ListDoc.tLb l3 c3,
          [tNewline l4 c4, ListDoc.tIndent i1 l5 c5, tInt 1 l6 c6, tNewline l7 c7, ListDoc.tIndent i2 l8 c8, ListDoc.tRb l9 c9],
          .list [.int 1], [], tNewline l10 c10⟩]])
      = .ok { name := "D".toList, sections := [.block "B".toList [.assign "K".toList (.list [.int 1]) l1 c1 [] none] p.l p.c1 [] none] } := by
  have hl : ListToks [FlatParse.Scalar.int 1 (intStr 1)] (ListDoc.tLb l3 c3 ::
      ([tNewline l4 c4, ListDoc.tIndent i1 l5 c5] ++ (FlatParse.Scalar.int 1 (intStr 1)).tok l6 c6 ::
        ([tNewline l7 c7, ListDoc.tIndent i2 l8 c8] ++ [ListDoc.tRb l9 c9]))) :=
    ListToks.items _ _ _ rfl (HeadToks.last _ _ l6 c6 _ _ (allWs_pair _ _ rfl rfl) (allWs_pair _ _ rfl rfl) rfl)
  have hq := UParse.qline_list_ok il ic (tIdent "K".toList l1 c1) (tAssign l2 c2) (tNewline l10 c10) "K".toList _ _ _ hl rfl rfl rfl rfl
  exact C02_udoc_document_read env f "D".toList _ rfl ⟨⟨hp, hq, trivial⟩, trivial⟩

/-- a section `§1::S` holding `E::A op B` — the operator token with ANY `normFrom`, every position arbitrary except the
marker's column (`p.c0 - 1 < 2`): the value is the string `A→B`. -/
example (env : Env) (f : FlatParse.Frame) (p : SectParse.SPos) (hp : p.c0 - 1 < 2) (nf : Option Str)
    (il ic l1 c1 l2 c2 l3 c3 l4 c4 l5 c5 l6 c6 : Nat) :
    C02.parseToks env (docToks f "D".toList
      [.sect p (.num 1 "1".toList) "S".toList [.line ⟨il, ic, tIdent "E".toList l1 c1, "E".toList, tAssign l2 c2, tIdent "A".toList l3 c3,
          [Expr.tOp .flow nf l4 c4, tIdent "B".toList l5 c5], .str "A→B".toList,
          Expr.exprWarnsRev [Expr.tOp .flow nf l4 c4, tIdent "B".toList l5 c5], tNewline l6 c6⟩]])
      = .ok { name := "D".toList, sections := [.sect "1".toList "S".toList none [.assign "E".toList (.str "A→B".toList) l1 c1 [] none] p.l p.c0 []] } := by
  have hq := UParse.qline_expr_ok il ic (tIdent "E".toList l1 c1) (tAssign l2 c2) (tNewline l6 c6) "E".toList
    ⟨"A".toList, [(.flow, "B".toList)]⟩ (by simp) l3 c3 _ (Expr.TailToks.cons .flow "B".toList nf l4 c4 l5 c5 Expr.TailToks.nil) rfl rfl rfl rfl
  exact C02_udoc_document_read env f "D".toList _ rfl ⟨⟨rfl, hp, hq, trivial⟩, trivial⟩

/-! ### the hypotheses are necessary

Each excluded point evaluated on the model (`decide +kernel`), with what the REAL code (`octave_mcp.core.parser.parse_with_warnings`
and `emitter.emit` of /repo, run on the same input) does there.  The COMBINATION adds no hypothesis: every one below is inherited
from a class proved before, and canonical text of the class is never changed silently.

* `firstKeyIsMetaU`: a first top-level block keyed `META` is the META block also when its children are lists and expressions:
  `META:` + `L::[⏎ 1, ⏎ 2, ⏎ 3 ⏎ ]` + `E::A→B` → `doc.meta = {L: [1,2,3], E: "A→B"}`, no section (real: the same; the text is
  re-emitted byte for byte, so nothing is lost — the content just lives in `meta`).  As second top-level node or nested,
  `META:` is an ordinary block (real: the same): an instance of the theorem.
* `unodesOK`, operands of an expression (`Expr.wordOK`): `E::true→X` inside a block → the value is the BOOLEAN `true`, the
  rest of the line is dropped with a `bare_line_dropped` warning (real: the same, re-emitted `E::true`); `E::A→true` → the
  string `A→` (real: the same, re-emitted `E::"A→"`).  Neither text is canonical: the emitter QUOTES a string with a reserved word
  at its start or right after an operator (`needs_quotes`), so `"true→X"` / `"A→true"` are written with quotes and come back as
  those strings (class of scalar lines).  `E::A→vs_x` is inside the class (`vs_x` has no reserved PREFIX in the sense of the
  emitter's pattern: `_` is a word character) and is a fixed point (real: the same).
* `unodesEmitOK`, an expression under `PATTERN` / `REGEX`: the emitter force-quotes it — `PATTERN::"A→B"` — and the reader returns
  the same string `A→B` (same content, a different but stable text; real: the same, with one `pattern_autoquote` warning when the
  unquoted text is read).  List items under `PATTERN` are not force-quoted (`PATTERN::[a,b]` is a fixed point; real: the same).
* `QNode.wf` (parser half, token positions): a block key whose column is not left of its children's indentation loses its
  children to the enclosing level — also when the child is an expression or a list line.  The lexer's columns exclude it
  (`utWf_toQ`).
* `OpEnv`: in an environment where `→` were an identifier character, `A→B` would be ONE identifier; where it were a digit, a
  NUMBER token would appear.  (CPython's `unicodedata` classifies the operator characters as symbols.)
* parser warnings are not failures: an expression outside brackets draws `bare_flow` per `→`, `constraint_outside_brackets`
  per `∧`, `chained_tension` for two `⇌` (real: the same kinds at the same positions); they are part of `warnsList`. -/

/-- `META:` first, with a list and an expression below it: read into `doc.meta`, no section. -/
example : firstKeyIsMetaU [.block "META".toList [.line "L".toList (.list [.int 1, .int 2, .int 3]),
      .line "E".toList (.expr ⟨"A".toList, [(.flow, "B".toList)]⟩)]] = true ∧
    (match Parser.parse Env.ascii (uDocText "D".toList [.block "META".toList [.line "L".toList (.list [.int 1, .int 2, .int 3]),
        .line "E".toList (.expr ⟨"A".toList, [(.flow, "B".toList)]⟩)]]) with
      | .ok d => d.sections.isEmpty && d.metaKv.length == 2 | .error _ => false) = true := by
  constructor
  · decide
  · decide +kernel

/-- … as second top-level node it is an ordinary block (an instance of the theorem). -/
example : Parser.parse Env.ascii (uDocText "D".toList [.line "X".toList (.scalar (.int 1)),
      .block "META".toList [.line "L".toList (.list [.int 1, .int 2, .int 3])]])
    = .ok (uDoc "D".toList canonPos [.line "X".toList (.scalar (.int 1)),
      .block "META".toList [.line "L".toList (.list [.int 1, .int 2, .int 3])]]) :=
  C01_udoc_canonical_is_readable Env.ascii "D".toList _ (fun _ => Expr.opEnv_ascii) (fun _ => rfl) (by decide) (by decide) (by decide +kernel) (by decide)
    (fun _ _ => rfl)

/-- an operand that is a reserved word: `E::true→X` reads as the boolean, `E::A→true` as the string `A→` (one warning each). -/
example : (match Parser.parseWithWarnings Env.ascii "===D===\nB:\n  E::true→X\n===END===\n".toList with
    | .ok (d, _, w) => SectParse.nodesEqS d.sections [.block "B".toList [.assign "E".toList (.bool true) 3 3 [] none] 2 1 [] none] && w.length == 1
    | .error _ => false) = true := by decide +kernel
example : (match Parser.parseWithWarnings Env.ascii "===D===\nB:\n  E::A→true\n===END===\n".toList with
    | .ok (d, _, w) => SectParse.nodesEqS d.sections [.block "B".toList [.assign "E".toList (.str "A→".toList) 3 3 [] none] 2 1 [] none] && w.length == 1
    | .error _ => false) = true := by decide +kernel
/-- … and neither is what the emitter writes for the strings `true→X` / `A→true`: it quotes them. -/
example : emit Env.ascii { name := "D".toList, sections := [.block "B".toList [.assign "E".toList (.str "A→true".toList) 0 0 [] none] 0 0 [] none] }
    = some "===D===\nB:\n  E::\"A→true\"\n===END===\n".toList := by decide +kernel

/-- an expression under `PATTERN` inside a block: canonicalised to the quoted spelling, which is then stable. -/
example : isOkStr (canonLenient Env.ascii "===D===\nB:\n  PATTERN::A→B\n===END===\n".toList)
    "===D===\nB:\n  PATTERN::\"A→B\"\n===END===\n".toList = true := by decide +kernel
example : isOkStr (canonLenient Env.ascii "===D===\nB:\n  PATTERN::\"A→B\"\n===END===\n".toList)
    "===D===\nB:\n  PATTERN::\"A→B\"\n===END===\n".toList = true := by decide +kernel

/-- `wf`: the key of `B:` reported at column 5 (indentation 4), its child `E::A→B` indented by 2: the child is not "indented"
for the reader — the block is read as EMPTY and the expression line is re-parented to the top level. -/
def wfUPos : SectParse.SPos := ⟨0, 0, 2, 5, 5, 5, 6, 7, 7, none⟩
def wfUFrame : FlatParse.Frame := { envL := 1, envC := 1, nl0L := 1, nl0C := 8, endL := 4, endC := 1, nl1L := 4, nl1C := 10, eofL := 5, eofC := 1 }

example : SectParse.isOkDocS (C02.parseToks Env.ascii (docToks wfUFrame "D".toList
      [.block wfUPos "B".toList [.line (lineToQ "E".toList (.expr ⟨"A".toList, [(.flow, "B".toList)]⟩) {} 1 3)]]))
    { name := "D".toList, sections := [.block "B".toList [] 2 5 [] none, .assign "E".toList (.str "A→B".toList) 3 3 [] none] } = true := by
  decide +kernel

/-- … with the lexer's column (3) it is read as written (an instance of the token-level theorem). -/
example : C02.parseToks Env.ascii (docToks wfUFrame "D".toList
      [.block { wfUPos with c1 := 1 } "B".toList [.line (lineToQ "E".toList (.expr ⟨"A".toList, [(.flow, "B".toList)]⟩) {} 1 3)]])
    = .ok (qdoc "D".toList [.block { wfUPos with c1 := 1 } "B".toList [.line (lineToQ "E".toList (.expr ⟨"A".toList, [(.flow, "B".toList)]⟩) {} 1 3)]]) :=
  C02_udoc_document_read Env.ascii _ _ _ rfl
    ⟨⟨by decide, lineToQ_ok _ _ _ _ _ (by decide), trivial⟩, trivial⟩

/-- `OpEnv`: environments that classify `→` as an identifier character / as a digit lex `A→B` as one IDENTIFIER / with a NUMBER. -/
def envArrowId : Env := { Env.ascii with idCharU := fun c => c == '→' }
def envArrowDigit : Env := { Env.ascii with digitU := fun c => if c == '→' then some 0 else none }

example : (match tokenize envArrowId "===D===\nB:\n  K::A→B\n===END===\n".toList with
    | .ok (toks, _) => toks.map Token.type == [.envelopeStart, .newline, .identifier, .block, .newline, .indent, .identifier, .assign,
        .identifier, .newline, .envelopeEnd, .newline, .eof]
    | .error _ => false) = true := by decide +kernel
example : (match tokenize envArrowDigit "===D===\nB:\n  K::A→B\n===END===\n".toList with
    | .ok (toks, _) => toks.map Token.type == [.envelopeStart, .newline, .identifier, .block, .newline, .indent, .identifier, .assign,
        .identifier, .number, .identifier, .newline, .envelopeEnd, .newline, .eof]
    | .error _ => false) = true := by decide +kernel

/-- the warnings an expression line draws, inside a block (they are warnings, the content is kept): two `⇌` → `chained_tension`
at the first one; `∧` → `constraint_outside_brackets`. -/
example : warnsList (utToQ false 0 2 (canonTs 0 [.block "B".toList
      [.line "E".toList (.expr ⟨"A".toList, [(.tension, "B".toList), (.tension, "C".toList)]⟩),
       .line "F".toList (.expr ⟨"A".toList, [(.constr, "B".toList)]⟩)]])) []
    = [.chainedTension 3 7, .constraintOutside 4 7] := by decide +kernel

/-- a document without expressions and without sections asks nothing of the environment but `hnfc`: lists inside blocks, in
EVERY environment. -/
example (env : Env) (hnfc : ∀ l ∈ splitLines (uDocText "D".toList
      [.block "B".toList [.line "L".toList (.list [.int 1, .int 2, .int 3]), .line "K".toList (.scalar (.bool true))]]), env.nfc l = l) :
    Parser.parse env (uDocText "D".toList
      [.block "B".toList [.line "L".toList (.list [.int 1, .int 2, .int 3]), .line "K".toList (.scalar (.bool true))]])
    = .ok (uDoc "D".toList canonPos
      [.block "B".toList [.line "L".toList (.list [.int 1, .int 2, .int 3]), .line "K".toList (.scalar (.bool true))]]) :=
  C01_udoc_canonical_is_readable env "D".toList _ (fun h => by cases h) (fun h => by cases h) (by decide) (by decide)
    (by decide +kernel) (by decide) hnfc

/-- injectivity applied: a forest whose list has another item order has another text. -/
example : uDocText "D".toList exU ≠ uDocText "D".toList [.block "B".toList [.line "L".toList (.list [.int 2, .int 1])]] := by
  intro h
  have := (udoc_text_injective _ _ _ _ (by decide) exU_ok (by decide) (by decide +kernel) h).2
  simp [exU, unodesVContent, UNode.vcontent] at this

end Octave.C01
