/-
C01 / C02 on FLAT documents — the document-level statement, proved for all inputs of the class:

  a flat document = an envelope `===NAME===`, any number of lines `KEY::scalar` (scalar = a string the emitter quotes,
  a bare word, a boolean, null), `===END===`.

For every such document (any name, any number of lines, any keys, any values, whatever characters the strings contain):

  * `C01_flat_canonical_is_readable`   the strict reader accepts the canonical text and returns the same document
                                       (positions aside);
  * `C01_flat_fixed_point`             canonicalising the canonical text gives the same bytes: `emit (parse (emit d)) = emit d`;
  * `C02_flat_content_preserved`       the document read back has the same envelope name, the same keys in the same order and
                                       the same values with the same types; no META, no separator, no comments appear;
  * `C02_flat_lenient_read`            the lenient entry point reads the same document.

It composes the lexer half (`Lemmas/FlatLex`, `Props/C01flat`) with the parser half (`Lemmas/FlatParse`, `Props/C02flat`)
through `Lemmas/FlatBridge`.  Hypotheses, all decidable and all necessary:
  `isEnvName name`, `name ≠ "END"`; keys are identifier-shaped without a reserved-word prefix (`FLine.OK`); the values
  are spelled the way the emitter spells them (`FLine.EmitOK`); the first key is not `META` (a first body node keyed META
  is re-read as the META block: the class of open finding C01N3); NFC leaves every line of the text unchanged (`hnfc`:
  the documented limit of the format — open finding F16 is what happens otherwise).
The general statement (blocks, sections, lists, comments, META, zones) remains an open proof target backed by the
correspondence check and the search.
-/
import Octave.Lemmas.FlatBridge
import Octave.Props.C02flat
import Octave.Props.C01flat
namespace Octave.C01
open Octave Lexer Emitter

/-- first key is not `META`. -/
def firstNotMeta (lines : List FLine) : Bool :=
  match lines with | ln :: _ => !(ln.key == "META".toList) | [] => true

theorem metaFirst_false (lines : List FLine) (h : firstNotMeta lines = true) : FlatParse.metaFirst (toPLines 2 lines) = false := by
  rw [metaFirst_bridge]
  cases lines with
  | nil => rfl
  | cons ln r => simpa [firstNotMeta] using h

/-- **the canonical text of a flat document is accepted by the strict reader, which returns the same document**
(nodes positioned at their lines, column 1). -/
theorem C01_flat_canonical_is_readable (env : Env) (name : Str) (lines : List FLine)
    (hn : isEnvName name = true) (hne : name ≠ "END".toList) (hok : ∀ ln ∈ lines, ln.OK) (hm : firstNotMeta lines = true)
    (hnfc : ∀ l ∈ splitLines (flatText name lines), env.nfc l = l) :
    Parser.parse env (flatText name lines) = .ok (flatDoc name (fun i => (i + 2, 1)) lines) := by
  have hlex := tokenize_flat env false name lines hn hne hok hnfc
  rw [flatToks_bridge] at hlex
  have hs := stripFrontmatter_flat env name lines
  have hlex' : Lexer.tokenize env (Parser.stripFrontmatter env (flatText name lines)).1
      = .ok (FlatParse.flatToks (flatFrame name lines.length) name (toPLines 2 lines), (linesRepsRev 2 lines).reverse) := by
    rw [hs]; exact hlex
  have := C02.C02_flat_text_read env (flatText name lines) (flatFrame name lines.length) name (toPLines 2 lines) _ hlex'
    (metaFirst_false lines hm)
  rw [this, hs, flatDoc_bridge]
  rfl

/-- **C01 on flat documents: the canonical text is a fixed point.**  Emit the document, read the text with the strict
reader, emit again: the same bytes.  For every flat document, whatever positions its nodes carry. -/
theorem C01_flat_fixed_point (env : Env) (name : Str) (pos : Nat → Nat × Nat) (lines : List FLine)
    (hn : isEnvName name = true) (hne : name ≠ "END".toList) (hok : ∀ ln ∈ lines, ln.OK) (hem : ∀ ln ∈ lines, ln.EmitOK)
    (hm : firstNotMeta lines = true) (hnfc : ∀ l ∈ splitLines (flatText name lines), env.nfc l = l) :
    ∃ text d', emit env (flatDoc name pos lines) = some text ∧ Parser.parse env text = .ok d' ∧ emit env d' = some text :=
  ⟨flatText name lines, flatDoc name (fun i => (i + 2, 1)) lines, emit_flat env name pos lines hem,
   C01_flat_canonical_is_readable env name lines hn hne hok hm hnfc, emit_flat env name _ lines hem⟩

/-- **C02 on flat documents: reading the canonical text yields exactly the content that was written** — name, keys in
order, values with their types; nothing else appears. -/
theorem C02_flat_content_preserved (env : Env) (name : Str) (pos : Nat → Nat × Nat) (lines : List FLine)
    (hn : isEnvName name = true) (hne : name ≠ "END".toList) (hok : ∀ ln ∈ lines, ln.OK) (hem : ∀ ln ∈ lines, ln.EmitOK)
    (hm : firstNotMeta lines = true) (hnfc : ∀ l ∈ splitLines (flatText name lines), env.nfc l = l) :
    ∃ text d', emit env (flatDoc name pos lines) = some text ∧ Parser.parse env text = .ok d' ∧
      d'.name = name ∧ d'.metaKv = [] ∧ d'.hasSeparator = false ∧ d'.trailingComments = [] ∧ d'.grammarVersion = none ∧
      d'.rawFrontmatter = none ∧
      d'.sections.length = lines.length ∧
      ∀ i (h : i < lines.length), ∃ l c, d'.sections[i]? = some (.assign lines[i].key lines[i].v.value l c [] none) := by
  refine ⟨flatText name lines, flatDoc name (fun i => (i + 2, 1)) lines, emit_flat env name pos lines hem,
    C01_flat_canonical_is_readable env name lines hn hne hok hm hnfc, rfl, rfl, rfl, rfl, rfl, rfl, ?_, ?_⟩
  · have : ∀ (ls : List FLine) (k : Nat), (flatNodes (fun i => (i + 2, 1)) k ls).length = ls.length := by
      intro ls; induction ls with
      | nil => intro k; rfl
      | cons a r ih => intro k; simp [flatNodes, ih]
    exact this lines 0
  · have : ∀ (ls : List FLine) (k i : Nat) (h : i < ls.length),
        (flatNodes (fun i => (i + 2, 1)) k ls)[i]? = some (.assign ls[i].key ls[i].v.value (k + i + 2) 1 [] none) := by
      intro ls
      induction ls with
      | nil => intro k i h; simp at h
      | cons a r ih =>
        intro k i h
        cases i with
        | zero => simp [flatNodes, FLine.node]
        | succ j =>
          have hj : j < r.length := by simpa using h
          have := ih (k + 1) j hj
          simp only [flatNodes, List.getElem?_cons_succ, List.getElem_cons_succ]
          rw [this]
          congr 2
          omega
    intro i h
    exact ⟨_, _, this lines 0 i h⟩

/-- the lenient entry point (`parse_with_warnings`) reads the same document from the canonical text. -/
theorem C02_flat_lenient_read (env : Env) (name : Str) (lines : List FLine)
    (hn : isEnvName name = true) (hne : name ≠ "END".toList) (hok : ∀ ln ∈ lines, ln.OK) (hm : firstNotMeta lines = true)
    (hnfc : ∀ l ∈ splitLines (flatText name lines), env.nfc l = l) :
    ∃ reps warns, Parser.parseWithWarnings env (flatText name lines) = .ok (flatDoc name (fun i => (i + 2, 1)) lines, reps, warns)
      ∧ reps.filter isNormalization = [] := by
  have hlex := tokenize_flat env false name lines hn hne hok hnfc
  rw [flatToks_bridge] at hlex
  have hs := stripFrontmatter_flat env name lines
  have hlex' : Lexer.tokenize env (Parser.stripFrontmatter env (flatText name lines)).1
      = .ok (FlatParse.flatToks (flatFrame name lines.length) name (toPLines 2 lines), (linesRepsRev 2 lines).reverse) := by
    rw [hs]; exact hlex
  have := C02.C02_flat_text_read_warnings env (flatText name lines) (flatFrame name lines.length) name (toPLines 2 lines) _ hlex'
    (metaFirst_false lines hm)
  refine ⟨(linesRepsRev 2 lines).reverse, FlatParse.docWarns [] (toPLines 2 lines), ?_, ?_⟩
  · rw [this, hs, flatDoc_bridge]
    rfl
  · rw [← List.reverse_reverse ((linesRepsRev 2 lines).reverse.filter isNormalization), List.filter_reverse]
    simp [linesRepsRev_not_norm]

/-! ### the emitter is injective on flat documents (what the seal of C15 relies on) -/

theorem flatNodes_inj (p : Nat → Nat × Nat) : ∀ (l1 l2 : List FLine) (i : Nat), flatNodes p i l1 = flatNodes p i l2 →
    l1.map (fun ln => (ln.key, ln.v.value)) = l2.map (fun ln => (ln.key, ln.v.value)) := by
  intro l1
  induction l1 with
  | nil =>
    intro l2 i h
    cases l2 with
    | nil => rfl
    | cons b r => simp [flatNodes] at h
  | cons a r ih =>
    intro l2 i h
    cases l2 with
    | nil => simp [flatNodes] at h
    | cons b r2 =>
      simp only [flatNodes, List.cons.injEq, FLine.node, Node.assign.injEq] at h
      obtain ⟨⟨hk, hv, _⟩, hr⟩ := h
      simp only [List.map_cons, List.cons.injEq, Prod.mk.injEq]
      exact ⟨⟨hk, hv⟩, ih r2 (i + 1) hr⟩

/-- **Two flat documents with the same canonical text have the same content** (name, keys in order, values with
their types): on this class `emit` is injective up to the positions stored in the nodes, which is the hypothesis
`C15_emit_injective` of the seal theorems (engine `project`).  Proof: the strict reader is a left inverse. -/
theorem C15_flat_emit_injective (env : Env) (n1 n2 : Str) (p1 p2 : Nat → Nat × Nat) (l1 l2 : List FLine)
    (hn1 : isEnvName n1 = true) (hne1 : n1 ≠ "END".toList) (hok1 : ∀ ln ∈ l1, ln.OK) (hem1 : ∀ ln ∈ l1, ln.EmitOK)
    (hm1 : firstNotMeta l1 = true) (hnfc1 : ∀ l ∈ splitLines (flatText n1 l1), env.nfc l = l)
    (hn2 : isEnvName n2 = true) (hne2 : n2 ≠ "END".toList) (hok2 : ∀ ln ∈ l2, ln.OK) (hem2 : ∀ ln ∈ l2, ln.EmitOK)
    (hm2 : firstNotMeta l2 = true) (hnfc2 : ∀ l ∈ splitLines (flatText n2 l2), env.nfc l = l)
    (h : emit env (flatDoc n1 p1 l1) = emit env (flatDoc n2 p2 l2)) :
    n1 = n2 ∧ l1.map (fun ln => (ln.key, ln.v.value)) = l2.map (fun ln => (ln.key, ln.v.value)) := by
  rw [emit_flat env n1 p1 l1 hem1, emit_flat env n2 p2 l2 hem2] at h
  have ht : flatText n1 l1 = flatText n2 l2 := by simpa using h
  have r1 := C01_flat_canonical_is_readable env n1 l1 hn1 hne1 hok1 hm1 hnfc1
  have r2 := C01_flat_canonical_is_readable env n2 l2 hn2 hne2 hok2 hm2 hnfc2
  rw [ht, r2] at r1
  have hd : flatDoc n2 (fun i => (i + 2, 1)) l2 = flatDoc n1 (fun i => (i + 2, 1)) l1 := by
    simpa using r1
  simp only [flatDoc, Document.mk.injEq] at hd
  exact ⟨hd.1.symm, (flatNodes_inj _ l2 l1 0 hd.2.2.2.1).symm⟩

/-! non-vacuity: the example document of `Props/C01flat` meets every hypothesis -/

example : ∃ text d', emit Env.ascii (flatDoc "DOC".toList (fun _ => (7, 7)) exLines) = some text ∧
    Parser.parse Env.ascii text = .ok d' ∧ emit Env.ascii d' = some text :=
  C01_flat_fixed_point Env.ascii "DOC".toList _ exLines (by decide) (by decide) exLines_ok exLines_emit (by decide) (fun _ _ => rfl)

end Octave.C01
