/-
C04 (every scalar survives write-then-read with value and type intact — in every position) for the position the other C04 files
leave open: NUMBERS AS META VALUES, floats in particular.  With C01 / C15 for the same class.

  a document = an envelope `===NAME===`;
    a META block `META:` + one line `  KEY::leaf` per field, leaf (`Nest.NLeaf`) = a scalar of the flat class (`FScalar`: a string
      the emitter quotes, a bare word, a boolean, null, an INTEGER OF ANY SIGN) or `num s`: a FLOAT written with its canonical
      lexeme `s` (a full match of the NUMBER pattern that is not an int lexeme and is its own `repr`: `1.5`, `-0.5`, `2.5e-07`,
      `1e+16`, `-0.0`);
    a body forest of `KEY::scalar` lines and `KEY:` blocks, any depth and width (the flat bodies are the forests without
      blocks; the body may be empty);
    `===END===`.

`emit_meta` sends every META value through the SAME `emit_value` as the body, at indent 1 (`value_str = emit_value(value,
indent=1)`; model `emitMetaLines`), and `parse_meta_block` reads it with the SAME `parse_value`; so a float in META is written
by its `repr` text and read as ONE NUMBER token typed float.  (For LIST values the indent matters: inside META a multi-line list
has its items behind 4 spaces and its closing bracket behind 2 — not covered here.)

For every such document (`MetaNum.MField`, `metaNumDoc`, `metaNumText`):

  * `C04_metanum_canonical_is_readable`   the strict reader (`parse`) AND the lenient reader (`parse_with_warnings`) accept the
                                    canonical text and return exactly the document — the fields in `meta` in order with value
                                    and type, every body node at its text line, column `1 + 2·depth` —, the lenient one with no
                                    normalisation receipt;
  * `C04_metanum_read_general`, `C04_metanum_lenient_read_exact`   the same WITHOUT the distinct-keys hypothesis (`meta` is the
                                    dict built field by field), exact receipts and warnings;
  * `C04_metanum_fixed_point` (`…_matches`)   emit → read → emit: the same bytes, whatever positions the AST carries;
  * `C04_metanum_survives` (`…_float`, `…_int`, `…_string`)   after emit → read, `meta[K]` is `Value.float s` for a float
                                    written `s`, `Value.int i` for the integer `i` (negative ones included), `Value.str s` for a
                                    string — the type included, never a string for a number or a number for a string;
  * `metaNum_text_injective`, `C15_metanum_emit_injective`   the canonical / emitted text determines name, META fields (keys in
                                    order, values with types) and body content.

Hypotheses (all decidable except the law about NFC), each necessary — see the end of the file:
  * `isEnvName name`, `name ≠ "END"`; `MField.OK` on fields (key identifier-shaped without reserved-word prefix; `NLeaf.OK`: bare
    words identifier-shaped, integers within CPython's digit limit, a float lexeme a full NUMBER match, not an int lexeme,
    `env.floatRepr s = s`); `treeOK` on the body;
  * distinct META keys (`Nodup`): `doc.meta` is a Python dict (`…_read_general` does without);
  * for statements about `emit`: `fields ≠ []` (an empty `meta` is not emitted at all), `MField.EmitOK` (strings quoted as
    `needs_quotes` decides; NO condition on numbers: `emitOK_num`), `treeEmitOK` on the body;
  * NFC leaves every line unchanged (`hnfc`, a law about the outside world).
-/
import Octave.Lemmas.MetaNumBridge
import Octave.Props.C01meta
set_option linter.unusedVariables false
namespace Octave.C04
open Octave Lexer Emitter Octave.MetaNum
open Octave.Nest (NLeaf)

/-! ### the two halves composed -/

/-- the lexer half in the vocabulary of the parser half. -/
theorem metaNum_text_lexes (env : Env) (lenient : Bool) (name : Str) (fields : List MField) (nodes : List TNode)
    (hn : isEnvName name = true) (hne : name ≠ "END".toList) (hf : ∀ f ∈ fields, f.OK env) (hok : treeOK nodes)
    (hnfc : ∀ l ∈ splitLines (metaNumText name fields nodes), env.nfc l = l) :
    Lexer.tokenize env (Parser.stripFrontmatter env (metaNumText name fields nodes)).1 lenient
      = .ok (MetaParse.metaToks (metaNumFrame name fields nodes) name (metaNumPos fields nodes) (MetaNum.fieldsToP fields) (treeToP nodes),
             (metaNumRepsRev fields nodes).reverse) := by
  rw [stripFrontmatter_metaNum, ← metaNumToks_bridge]
  exact tokenize_metaNum env lenient name fields nodes hn hne hf hok hnfc

/-- the strict reader on the canonical text, WITHOUT any hypothesis on repeated keys. -/
theorem C04_metanum_read_general (env : Env) (name : Str) (fields : List MField) (nodes : List TNode)
    (hn : isEnvName name = true) (hne : name ≠ "END".toList) (hf : ∀ f ∈ fields, f.OK env) (hok : treeOK nodes)
    (hnfc : ∀ l ∈ splitLines (metaNumText name fields nodes), env.nfc l = l) :
    Parser.parse env (metaNumText name fields nodes) = .ok (metaNumRead name fields nodes) := by
  have hlex := metaNum_text_lexes env false name fields nodes hn hne hf hok hnfc
  rw [C02.parse_eq_parseToks env _ _ _ hlex, C01.C02_meta_document_read env _ name _ _ _ (colsOk_metaNumPos fields nodes),
    stripFrontmatter_metaNum, metaNumDoc_bridge]
  rfl

/-- the lenient entry point on the canonical text, exactly and without any hypothesis on repeated keys. -/
theorem C04_metanum_lenient_read_exact (env : Env) (name : Str) (fields : List MField) (nodes : List TNode)
    (hn : isEnvName name = true) (hne : name ≠ "END".toList) (hf : ∀ f ∈ fields, f.OK env) (hok : treeOK nodes)
    (hnfc : ∀ l ∈ splitLines (metaNumText name fields nodes), env.nfc l = l) :
    Parser.parseWithWarnings env (metaNumText name fields nodes)
      = .ok (metaNumRead name fields nodes, (metaNumRepsRev fields nodes).reverse, metaNumWarns fields nodes) := by
  have hlex := metaNum_text_lexes env false name fields nodes hn hne hf hok hnfc
  rw [C02.parseWithWarnings_eq_parseToks env _ _ _ hlex,
    C01.C02_meta_document_read_warnings env _ name _ _ _ (colsOk_metaNumPos fields nodes), stripFrontmatter_metaNum]
  simp only [Except.map, metaNumDoc_bridge, metaNumWarns, MetaNum.fieldsToP_length]
  rfl

theorem metaNum_fieldsRepsRev_not_norm : ∀ (fields : List MField) (l : Nat),
    (fieldsRepsRev l fields).filter isNormalization = []
  | [], l => rfl
  | f :: fs, l => by
    have hv : (leafReps l (3 + f.key.length + 2) f.v).reverse.filter isNormalization = [] := by
      cases f.v with
      | sc v =>
        cases v with
        | bare s => exact C01.identReps_rev_not_norm s _ _
        | _ => rfl
      | num s => rfl
    simp only [fieldsRepsRev, MField.repsRev, List.filter_append, metaNum_fieldsRepsRev_not_norm fs (l + 1), hv,
      C01.identReps_rev_not_norm, List.append_nil]

theorem metaNum_reps_not_norm (fields : List MField) (nodes : List TNode) :
    (metaNumRepsRev fields nodes).reverse.filter isNormalization = [] := by
  rw [List.filter_reverse, metaNumRepsRev]
  simp only [List.filter_append, C01.tree_repsRev_not_norm, metaNum_fieldsRepsRev_not_norm, C01.identReps_rev_not_norm,
    List.append_nil, List.reverse_nil]

/-- **C04/C01 with numbers in META: the canonical text is accepted by the strict reader AND by the lenient reader, and both
return exactly the document**: the fields in `meta` in order, each with its value and its type (a float as `Value.float`, an
integer as `Value.int`); every body node at its text line, column `1 + 2·depth`; the lenient reader issues no normalisation
receipt. -/
theorem C04_metanum_canonical_is_readable (env : Env) (name : Str) (fields : List MField) (nodes : List TNode)
    (hn : isEnvName name = true) (hne : name ≠ "END".toList) (hf : ∀ f ∈ fields, f.OK env)
    (hnd : (fields.map MField.key).Nodup) (hok : treeOK nodes)
    (hnfc : ∀ l ∈ splitLines (metaNumText name fields nodes), env.nfc l = l) :
    Parser.parse env (metaNumText name fields nodes) = .ok (metaNumDoc name canonPos fields nodes) ∧
    ∃ reps warns, Parser.parseWithWarnings env (metaNumText name fields nodes)
        = .ok (metaNumDoc name canonPos fields nodes, reps, warns) ∧ reps.filter isNormalization = [] := by
  refine ⟨?_, (metaNumRepsRev fields nodes).reverse, metaNumWarns fields nodes, ?_, metaNum_reps_not_norm fields nodes⟩
  · rw [C04_metanum_read_general env name fields nodes hn hne hf hok hnfc, metaNumRead_of_nodup name fields nodes hnd]
  · rw [C04_metanum_lenient_read_exact env name fields nodes hn hne hf hok hnfc, metaNumRead_of_nodup name fields nodes hnd]

/-- **the canonical text is a fixed point**: emit the document, read the text with the strict reader, emit again: the same
bytes.  For every non-empty list of fields with distinct keys and every forest, whatever positions the body nodes carry. -/
theorem C04_metanum_fixed_point (env : Env) (name : Str) (pos : Nat → Nat → Nat × Nat) (fields : List MField) (nodes : List TNode)
    (hn : isEnvName name = true) (hne : name ≠ "END".toList) (hfne : fields ≠ []) (hf : ∀ f ∈ fields, f.OK env)
    (hfe : ∀ f ∈ fields, f.EmitOK) (hnd : (fields.map MField.key).Nodup) (hok : treeOK nodes) (hem : treeEmitOK nodes)
    (hnfc : ∀ l ∈ splitLines (metaNumText name fields nodes), env.nfc l = l) :
    ∃ text d', emit env (metaNumDoc name pos fields nodes) = some text ∧ Parser.parse env text = .ok d' ∧ emit env d' = some text :=
  ⟨metaNumText name fields nodes, metaNumDoc name canonPos fields nodes, emit_metaNum env name pos fields nodes hfne hfe hem,
   (C04_metanum_canonical_is_readable env name fields nodes hn hne hf hnd hok hnfc).1,
   emit_metaNum env name _ fields nodes hfne hfe hem⟩

/-- the same for ANY AST that carries the forest (any positions at all in the nodes). -/
theorem C04_metanum_fixed_point_matches (env : Env) (name : Str) (fields : List MField) (nodes : List TNode) (sections : List Node)
    (hmt : treeMatches nodes sections)
    (hn : isEnvName name = true) (hne : name ≠ "END".toList) (hfne : fields ≠ []) (hf : ∀ f ∈ fields, f.OK env)
    (hfe : ∀ f ∈ fields, f.EmitOK) (hnd : (fields.map MField.key).Nodup) (hok : treeOK nodes) (hem : treeEmitOK nodes)
    (hnfc : ∀ l ∈ splitLines (metaNumText name fields nodes), env.nfc l = l) :
    ∃ text d', emit env { name := name, metaKv := metaNumKv fields, sections := sections } = some text ∧
      Parser.parse env text = .ok d' ∧ emit env d' = some text :=
  ⟨metaNumText name fields nodes, metaNumDoc name canonPos fields nodes,
   emit_metaNum_matches env name fields nodes sections hfne hmt hfe hem,
   (C04_metanum_canonical_is_readable env name fields nodes hn hne hf hnd hok hnfc).1,
   emit_metaNum env name _ fields nodes hfne hfe hem⟩

/-! ### the value read back at a key -/

theorem metaNum_lookup : ∀ (fields : List MField), (fields.map MField.key).Nodup → ∀ f ∈ fields,
    (metaNumKv fields).lookup f.key = some (MetaVal.val f.v.value)
  | [], _, f, h => by cases h
  | g :: gs, hnd, f, h => by
    simp only [List.map_cons, List.nodup_cons] at hnd
    rcases List.mem_cons.mp h with h | h
    · subst h
      simp [metaNumKv]
    · have hne : f.key ≠ g.key := by
        intro e
        exact hnd.1 (e ▸ List.mem_map_of_mem h)
      have hb : (f.key == g.key) = false := by simpa using hne
      have ih := metaNum_lookup gs hnd.2 f h
      simp only [metaNumKv, List.map_cons, List.lookup, hb] at ih ⊢
      exact ih

/-- **C04 in META: every META value survives write-then-read with value and type intact.**  Emit the document, read the text
(strict reader): `meta[K]` is exactly the value written at `K` — for EVERY field, whatever its kind. -/
theorem C04_metanum_survives (env : Env) (name : Str) (pos : Nat → Nat → Nat × Nat) (fields : List MField) (nodes : List TNode)
    (hn : isEnvName name = true) (hne : name ≠ "END".toList) (hfne : fields ≠ []) (hf : ∀ f ∈ fields, f.OK env)
    (hfe : ∀ f ∈ fields, f.EmitOK) (hnd : (fields.map MField.key).Nodup) (hok : treeOK nodes) (hem : treeEmitOK nodes)
    (hnfc : ∀ l ∈ splitLines (metaNumText name fields nodes), env.nfc l = l) :
    ∃ text d', emit env (metaNumDoc name pos fields nodes) = some text ∧ Parser.parse env text = .ok d' ∧
      d'.metaKv = fields.map (fun f => (f.key, MetaVal.val f.v.value)) ∧
      ∀ f ∈ fields, d'.metaKv.lookup f.key = some (MetaVal.val f.v.value) :=
  ⟨metaNumText name fields nodes, metaNumDoc name canonPos fields nodes, emit_metaNum env name pos fields nodes hfne hfe hem,
   (C04_metanum_canonical_is_readable env name fields nodes hn hne hf hnd hok hnfc).1, rfl, metaNum_lookup fields hnd⟩

/-- … spelled out per kind: a FLOAT written `s` is read back as `Value.float s` (typed float: not a string, not an int);
an INTEGER `i` (any sign) as `Value.int i`; a quoted string / bare word `s` as `Value.str s`; booleans and null as themselves. -/
theorem C04_metanum_survives_kinds (env : Env) (name : Str) (pos : Nat → Nat → Nat × Nat) (fields : List MField) (nodes : List TNode)
    (hn : isEnvName name = true) (hne : name ≠ "END".toList) (hfne : fields ≠ []) (hf : ∀ f ∈ fields, f.OK env)
    (hfe : ∀ f ∈ fields, f.EmitOK) (hnd : (fields.map MField.key).Nodup) (hok : treeOK nodes) (hem : treeEmitOK nodes)
    (hnfc : ∀ l ∈ splitLines (metaNumText name fields nodes), env.nfc l = l) :
    ∃ text d', emit env (metaNumDoc name pos fields nodes) = some text ∧ Parser.parse env text = .ok d' ∧
      (∀ key s, ⟨key, .num s⟩ ∈ fields → d'.metaKv.lookup key = some (.val (.float s))) ∧
      (∀ key i, ⟨key, .sc (.int i)⟩ ∈ fields → d'.metaKv.lookup key = some (.val (.int i))) ∧
      (∀ key s, ⟨key, .sc (.qstr s)⟩ ∈ fields → d'.metaKv.lookup key = some (.val (.str s))) ∧
      (∀ key s, ⟨key, .sc (.bare s)⟩ ∈ fields → d'.metaKv.lookup key = some (.val (.str s))) ∧
      (∀ key b, ⟨key, .sc (.bool b)⟩ ∈ fields → d'.metaKv.lookup key = some (.val (.bool b))) ∧
      (∀ key, ⟨key, .sc .null⟩ ∈ fields → d'.metaKv.lookup key = some (.val .null)) := by
  obtain ⟨text, d', h1, h2, _, h4⟩ := C04_metanum_survives env name pos fields nodes hn hne hfne hf hfe hnd hok hem hnfc
  exact ⟨text, d', h1, h2, fun key s h => h4 _ h, fun key i h => h4 _ h, fun key s h => h4 _ h, fun key s h => h4 _ h,
    fun key b h => h4 _ h, fun key h => h4 _ h⟩

/-! ### the canonical text determines the content (what the seal of C15 relies on) -/

theorem metaNum_ok_ascii (env : Env) (f : MField) (h : f.OK env) : f.OK Env.ascii := by
  obtain ⟨h1, h2, h3⟩ := h
  refine ⟨h1, h2, ?_⟩
  cases hv : f.v with
  | sc v => rw [hv] at h3; exact h3
  | num s => rw [hv] at h3; exact ⟨h3.1, h3.2.1, rfl⟩

/-- **The canonical text determines the document**: two documents of the class with the same canonical text and distinct META
keys have the same name, the same fields (keys in order, values with their types) and the same body content. -/
theorem metaNum_text_injective (env1 env2 : Env) (n1 n2 : Str) (f1 f2 : List MField) (t1 t2 : List TNode)
    (hn1 : isEnvName n1 = true) (hne1 : n1 ≠ "END".toList) (hf1 : ∀ f ∈ f1, f.OK env1) (hnd1 : (f1.map MField.key).Nodup)
    (hok1 : treeOK t1)
    (hn2 : isEnvName n2 = true) (hne2 : n2 ≠ "END".toList) (hf2 : ∀ f ∈ f2, f.OK env2) (hnd2 : (f2.map MField.key).Nodup)
    (hok2 : treeOK t2)
    (h : metaNumText n1 f1 t1 = metaNumText n2 f2 t2) :
    n1 = n2 ∧ metaNumKv f1 = metaNumKv f2 ∧ treeContent t1 = treeContent t2 := by
  have r1 := (C04_metanum_canonical_is_readable Env.ascii n1 f1 t1 hn1 hne1 (fun f hf => metaNum_ok_ascii env1 f (hf1 f hf)) hnd1
    hok1 (fun _ _ => rfl)).1
  have r2 := (C04_metanum_canonical_is_readable Env.ascii n2 f2 t2 hn2 hne2 (fun f hf => metaNum_ok_ascii env2 f (hf2 f hf)) hnd2
    hok2 (fun _ _ => rfl)).1
  rw [h, r2] at r1
  have hd : metaNumDoc n2 canonPos f2 t2 = metaNumDoc n1 canonPos f1 t1 := by simpa using r1
  simp only [metaNumDoc, Document.mk.injEq] at hd
  have m1 := treeNodes_matches canonPos t1 (1 + f1.length) 0
  have m2 := treeNodes_matches canonPos t2 (1 + f2.length) 0
  rw [hd.2.2.2.1] at m2
  exact ⟨hd.1.symm, hd.2.1.symm, treeContent_of_matches _ _ _ m1 m2⟩

/-- **`emit` is injective on the class**, up to the positions stored in the body nodes. -/
theorem C15_metanum_emit_injective (env : Env) (n1 n2 : Str) (p1 p2 : Nat → Nat → Nat × Nat) (f1 f2 : List MField) (t1 t2 : List TNode)
    (hn1 : isEnvName n1 = true) (hne1 : n1 ≠ "END".toList) (hfn1 : f1 ≠ []) (hf1 : ∀ f ∈ f1, f.OK env) (hfe1 : ∀ f ∈ f1, f.EmitOK)
    (hnd1 : (f1.map MField.key).Nodup) (hok1 : treeOK t1) (hem1 : treeEmitOK t1)
    (hn2 : isEnvName n2 = true) (hne2 : n2 ≠ "END".toList) (hfn2 : f2 ≠ []) (hf2 : ∀ f ∈ f2, f.OK env) (hfe2 : ∀ f ∈ f2, f.EmitOK)
    (hnd2 : (f2.map MField.key).Nodup) (hok2 : treeOK t2) (hem2 : treeEmitOK t2)
    (h : emit env (metaNumDoc n1 p1 f1 t1) = emit env (metaNumDoc n2 p2 f2 t2)) :
    n1 = n2 ∧ (metaNumDoc n1 p1 f1 t1).metaKv = (metaNumDoc n2 p2 f2 t2).metaKv ∧ treeContent t1 = treeContent t2 := by
  rw [emit_metaNum env n1 p1 f1 t1 hfn1 hfe1 hem1, emit_metaNum env n2 p2 f2 t2 hfn2 hfe2 hem2] at h
  exact metaNum_text_injective env env n1 n2 f1 f2 t1 t2 hn1 hne1 hf1 hnd1 hok1 hn2 hne2 hf2 hnd2 hok2 (by simpa using h)

/-! ### non-vacuity -/

/-- fields of every kind: floats (plain, negative, exponent forms, `-0.0`), integers of both signs, strings, a boolean, null. -/
def metaNumExFields : List MField :=
  [⟨"TYPE".toList, .sc (.bare "SPEC".toList)⟩, ⟨"VERSION".toList, .sc (.qstr "1.0".toList)⟩,
   ⟨"RATIO".toList, .num "1.5".toList⟩, ⟨"NEG".toList, .num "-0.5".toList⟩, ⟨"TINY".toList, .num "2.5e-07".toList⟩,
   ⟨"BIG".toList, .num "1e+16".toList⟩, ⟨"NZERO".toList, .num "-0.0".toList⟩,
   ⟨"N".toList, .sc (.int 3)⟩, ⟨"M".toList, .sc (.int (-7))⟩, ⟨"OK".toList, .sc (.bool true)⟩, ⟨"NIL".toList, .sc .null⟩]

theorem metaNumExFields_ok : ∀ f ∈ metaNumExFields, f.OK Env.ascii := by
  intro f h
  simp only [metaNumExFields, List.mem_cons, List.mem_nil_iff, or_false] at h
  rcases h with h | h | h | h | h | h | h | h | h | h | h <;> subst h <;>
    simp only [MField.OK, NLeaf.OK, FScalar.OK] <;> decide +kernel

theorem metaNumExFields_emit : ∀ f ∈ metaNumExFields, f.EmitOK := by decide +kernel

theorem metaNumExFields_nodup : (metaNumExFields.map MField.key).Nodup := by decide

/-- a flat body. -/
def metaNumExBody : List TNode := [.line ⟨"X".toList, .int 1⟩, .line ⟨"Z".toList, .bool true⟩]

theorem metaNumExBody_ok : treeOK metaNumExBody := by
  simp only [metaNumExBody, treeOK, TNode.OK, FLine.OK, FScalar.OK]
  decide

theorem metaNumExBody_emit : treeEmitOK metaNumExBody := by
  simp only [metaNumExBody, treeEmitOK, TNode.EmitOK, FLine.EmitOK]
  decide

example : metaNumText "D".toList metaNumExFields metaNumExBody =
    ("===D===\nMETA:\n  TYPE::SPEC\n  VERSION::\"1.0\"\n  RATIO::1.5\n  NEG::-0.5\n  TINY::2.5e-07\n  BIG::1e+16\n  NZERO::-0.0\n" ++
     "  N::3\n  M::-7\n  OK::true\n  NIL::null\nX::1\nZ::true\n===END===\n").toList := by
  decide +kernel

example : Parser.parse Env.ascii (metaNumText "D".toList metaNumExFields metaNumExBody)
      = .ok (metaNumDoc "D".toList canonPos metaNumExFields metaNumExBody) ∧
    ∃ reps warns, Parser.parseWithWarnings Env.ascii (metaNumText "D".toList metaNumExFields metaNumExBody)
        = .ok (metaNumDoc "D".toList canonPos metaNumExFields metaNumExBody, reps, warns) ∧ reps.filter isNormalization = [] :=
  C04_metanum_canonical_is_readable Env.ascii "D".toList metaNumExFields metaNumExBody (by decide) (by decide) metaNumExFields_ok
    metaNumExFields_nodup metaNumExBody_ok (fun _ _ => rfl)

example : ∃ text d', emit Env.ascii (metaNumDoc "D".toList (fun _ _ => (7, 7)) metaNumExFields metaNumExBody) = some text ∧
    Parser.parse Env.ascii text = .ok d' ∧ emit Env.ascii d' = some text :=
  C04_metanum_fixed_point Env.ascii "D".toList _ metaNumExFields metaNumExBody (by decide) (by decide) (by decide)
    metaNumExFields_ok metaNumExFields_emit metaNumExFields_nodup metaNumExBody_ok metaNumExBody_emit (fun _ _ => rfl)

example : ∃ text d', emit Env.ascii (metaNumDoc "D".toList (fun _ _ => (7, 7)) metaNumExFields metaNumExBody) = some text ∧
    Parser.parse Env.ascii text = .ok d' ∧
    d'.metaKv = metaNumExFields.map (fun f => (f.key, MetaVal.val f.v.value)) ∧
    ∀ f ∈ metaNumExFields, d'.metaKv.lookup f.key = some (MetaVal.val f.v.value) :=
  C04_metanum_survives Env.ascii "D".toList _ metaNumExFields metaNumExBody (by decide) (by decide) (by decide)
    metaNumExFields_ok metaNumExFields_emit metaNumExFields_nodup metaNumExBody_ok metaNumExBody_emit (fun _ _ => rfl)

/-- what was read, written out: floats typed float, integers typed int (the negative one too), strings typed str. -/
example : (metaNumDoc "D".toList canonPos metaNumExFields metaNumExBody).metaKv =
    [("TYPE".toList, .val (.str "SPEC".toList)), ("VERSION".toList, .val (.str "1.0".toList)),
     ("RATIO".toList, .val (.float "1.5".toList)), ("NEG".toList, .val (.float "-0.5".toList)),
     ("TINY".toList, .val (.float "2.5e-07".toList)), ("BIG".toList, .val (.float "1e+16".toList)),
     ("NZERO".toList, .val (.float "-0.0".toList)),
     ("N".toList, .val (.int 3)), ("M".toList, .val (.int (-7))), ("OK".toList, .val (.bool true)), ("NIL".toList, .val .null)] := rfl

/-- **the whole model evaluated** on the same text gives the same document, and the emitter gives back the same text
(independent of the theorems). -/
example : Parser.parse Env.ascii (metaNumText "D".toList metaNumExFields metaNumExBody)
    = .ok (metaNumDoc "D".toList canonPos metaNumExFields metaNumExBody) :=
  MetaParse.isOkDocM_sound (by decide +kernel)

example : emit Env.ascii (metaNumDoc "D".toList canonPos metaNumExFields metaNumExBody)
    = some (metaNumText "D".toList metaNumExFields metaNumExBody) := by decide +kernel

example : (match tokenize Env.ascii (metaNumText "D".toList metaNumExFields metaNumExBody) false with
    | .ok p => p == (metaNumToks "D".toList metaNumExFields metaNumExBody, []) | .error _ => false) = true := by
  decide +kernel

/-- injectivity applied: the float `1.0` and the string `"1.0"` at the same key give different texts … -/
example : metaNumText "D".toList [⟨"A".toList, .num "1.0".toList⟩] [] ≠ metaNumText "D".toList [⟨"A".toList, .sc (.qstr "1.0".toList)⟩] [] := by
  decide +kernel

/-- … and `metaNum_text_injective` instantiated: equal texts would force equal typed values. -/
example (h : metaNumText "D".toList [⟨"A".toList, .num "1.0".toList⟩] [] = metaNumText "D".toList [⟨"A".toList, .sc (.int 1)⟩] []) : False := by
  have := (metaNum_text_injective Env.ascii Env.ascii "D".toList "D".toList [⟨"A".toList, .num "1.0".toList⟩] [⟨"A".toList, .sc (.int 1)⟩] [] []
    (by decide) (by decide) (by intro f h; simp at h; subst h; simp only [MField.OK, NLeaf.OK]; decide +kernel) (by decide) trivial
    (by decide) (by decide) (by intro f h; simp at h; subst h; simp only [MField.OK, NLeaf.OK, FScalar.OK]; decide +kernel) (by decide) trivial h).2.1
  simp [metaNumKv, NLeaf.value, NLeaf.toP, FScalar.toP, FlatParse.Scalar.val] at this

/-! ### the hypotheses are necessary -/

/-- `NLeaf.OK` for floats, clause by clause (model = real lexer, see the prover's report):
`isIntLexeme s = false` — `7` is an int lexeme and is read as `Value.int` (the class has `.sc (.int 7)` for it);
`env.floatRepr s = s` — `1.50`, `1e5` are read as floats but re-emitted `1.5`, `100000.0` (same value, other bytes: the canonical
lexeme is the `repr`); `pyNumberFull s` — `.5` is not a NUMBER (an IDENTIFIER), `1e400` overflows and the lexer refuses it. -/
example : ¬ (NLeaf.num "7".toList).OK Env.ascii ∧ ¬ (NLeaf.num ".5".toList).OK Env.ascii ∧ ¬ (NLeaf.num "inf".toList).OK Env.ascii ∧
    (NLeaf.num "1.5".toList).OK Env.ascii := by
  simp only [NLeaf.OK]; decide +kernel

/-- a float lexeme that is not its own `repr` is read (typed float) but re-emitted differently: with an environment whose `repr`
normalises `1.50` to `1.5`, the value read back is `float 1.5`. -/
example : (match Parser.parse { Env.ascii with floatRepr := fun s => if s = "1.50".toList then "1.5".toList else s }
      "===D===\nMETA:\n  A::1.50\n===END===\n".toList with
    | .ok d => MetaParse.metaKvEqB d.metaKv [("A".toList, .val (.float "1.5".toList))] | .error _ => false) = true := by decide +kernel

/-- `fields ≠ []` (emitter side): an empty `meta` is not emitted at all. -/
example : emit Env.ascii (metaNumDoc "D".toList canonPos [] metaNumExBody) = some (treeDocText "D".toList metaNumExBody) := by
  decide +kernel

/-- `MField.EmitOK`: no condition on numbers; a string that looks like a number MUST be quoted to stay a string. -/
example : (MField.mk "K".toList (.num "1.5".toList)).EmitOK ∧ (MField.mk "K".toList (.sc (.qstr "1.5".toList))).EmitOK ∧
    ¬ (MField.mk "K".toList (.sc (.bare "abc def".toList))).EmitOK := by decide +kernel

end Octave.C04
