/-
C03 on NESTED BLOCKS — the INDENTATION freedom: every spelling of a block tree with freely chosen indentation widths
converges on the canonical text (two spaces per level).

A block tree is a `TNode` forest (`Lemmas/BlockLex`: `KEY::scalar` lines and `KEY:` blocks with children, ANY depth and width,
empty blocks included).  An INDENTATION SPELLING (`INode`, `Lemmas/IndentSpell`) lets EVERY BLOCK choose the number `w ≥ 1` of
spaces its children are indented by, RELATIVE to the indentation of its own header: a child of a block whose header has `p`
leading spaces is written with `p + w` leading spaces.  `w = 2` everywhere is the canonical text (`idocText_canon`), `w = 4`
everywhere the "4-space" spelling; widths may differ from block to block (4 / 1 / 3 …); all children of one block share one
indentation.  `eraseList` is the tree that is spelled.

Proved for EVERY tree and EVERY such spelling:

  * `C03_tree_indent_lexes`           the lexer reads the spelled text as exactly `idocToks`: one INDENT token per indented line
                                      carrying the line's number of leading spaces, columns shifted (no condition on the widths);
  * `C03_tree_indent_tokens`          that token list is the one of the canonical text except for the INDENT values (and positions);
  * `C03_tree_indent_colsOk`          it meets the side condition of the parser half for every choice of widths `≥ 1`
                                      (`IndentParse.PNode.colsOk`: what `parseSection`/`blockLoop` compare, stated exactly there);
  * `C03_tree_indent_read` / `…_read_lenient`   `parse` / `parse_with_warnings` return the document of the parser half
                                      (nodes positioned at their keys: text line, column `1 + leading spaces`);
  * `C03_tree_indent_same_document`   that document is the SAME document up to positions: the name, and sections that carry
                                      exactly the erased tree (`treeMatches`), nothing else;
  * `C03_tree_indent_converge`        `emit(parse(spelled))` = `emit(parse_with_warnings(spelled)[0])` = `treeDocText` (canonical);
  * `C03_tree_indent_spellings_agree` any two indentation spellings of the same tree canonicalise to identical bytes;
  * `C03_tree_indent_vs_canonical`    … the same bytes as canonicalising the canonical text.

Hypotheses: those of `C01_tree_fixed_point` (`isEnvName name`, `name ≠ "END"`, `treeOK`, `treeEmitOK`, first top-level key not
`META`, NFC leaves the lines of the SPELLED text alone) and `widthsOkList` (every `w ≥ 1`).  `w ≥ 1` is necessary: with
`w = 0` the children are written at the header's own indentation and ARE its siblings (the text is the canonical text of
another tree).

The class here is "all children of one block at one indentation, deeper than the header" (the larger class that the reader
accepts — later siblings written deeper than the first — is characterised exactly and proved in `Props/C03tree`, `forestOk` of
`Lemmas/TreeSpellParse`).  What the real reader does outside it (runs on /repo quoted in the examples at the end and in the prover's report): the child indentation of a block is
the indentation of its FIRST child; a later line that is deeper stays a child; a later line that is shallower than the
first child but deeper than the header LEAVES the block and is adopted by the nearest enclosing block whose child
indentation it reaches — or becomes a top-level node — silently.
-/
import Octave.Lemmas.IndentSpellBridge
import Octave.Props.C03flat
import Octave.Props.C01tree
namespace Octave.C03
open Octave Lexer Emitter Indent

/-! ### lexer -/

/-- **the lexer on every indentation spelling** (both modes; any widths, even 0). -/
theorem C03_tree_indent_lexes (env : Env) (lenient : Bool) (name : Str) (nodes : List INode)
    (hn : isEnvName name = true) (hne : name ≠ "END".toList) (hok : treeOK (eraseList nodes))
    (hnfc : ∀ l ∈ splitLines (idocText name nodes), env.nfc l = l) :
    tokenize env (idocText name nodes) lenient = .ok (idocToks name nodes, (itreeRepsRev 0 2 nodes).reverse) :=
  tokenize_itree env lenient name nodes hn hne (itreeOK_erase nodes hok) hnfc

/-- **same tokens as the canonical text, INDENT values (and positions) aside.** -/
theorem C03_tree_indent_tokens (name : Str) (nodes : List INode) (hw : widthsOkList nodes = true) :
    (idocToks name nodes).map tokKind = (treeDocToks name (eraseList nodes)).map tokKind :=
  idocToks_kind name nodes hw

/-- the token list in the vocabulary of the parser half, and the parser's side condition on it: **every choice of
widths `≥ 1` satisfies `colsOk`** (block key at column `p + 1`, children's INDENT value `p + w > p = block_indent`). -/
theorem C03_tree_indent_colsOk (name : Str) (nodes : List INode) (hw : widthsOkList nodes = true) :
    idocToks name nodes = IndentParse.treeToks (treeFrame name (itreeNLines nodes)) name (iposOf nodes) (itreeToP nodes) ∧
    IndentParse.colsOkList (iposOf nodes) (itreeToP nodes) 0 0 = true :=
  ⟨idocToks_bridge name nodes, colsOk_iposOf nodes hw⟩

mutual
theorem inode_repsRev_not_norm : ∀ (n : INode) (d l : Nat), (n.repsRev d l).filter isNormalization = []
  | .line ln, d, l => by simp only [INode.repsRev]; exact C01.line_repsRev_not_norm ln l _
  | .block key w cs, d, l => by
    simp only [INode.repsRev, List.filter_append, itree_repsRev_not_norm cs (d + w) (l + 1), C01.identReps_rev_not_norm,
      List.append_nil]
theorem itree_repsRev_not_norm : ∀ (ns : List INode) (d l : Nat), (itreeRepsRev d l ns).filter isNormalization = []
  | [], d, l => rfl
  | n :: ns, d, l => by
    simp only [itreeRepsRev, List.filter_append, inode_repsRev_not_norm n d l, itree_repsRev_not_norm ns d (l + n.nlines),
      List.append_nil]
end

/-! ### parser -/

/-- the parser on the token list of a spelled tree (any mode): the document and the final state. -/
theorem indent_parseDocument (env : Env) (strict : Bool) (f : FlatParse.Frame) (name : Str) (pos : Nat → BlockParse.LPos)
    (nodes : List IndentParse.PNode)
    (hm : IndentParse.metaFirstT nodes = false) (hc : IndentParse.colsOkList pos nodes 0 0 = true) :
    Parser.parseDocument.run (Parser.initState env (IndentParse.treeToks f name pos nodes) strict)
      = .ok (IndentParse.treeDoc name pos nodes,
             { Parser.initState env (IndentParse.treeToks f name pos nodes) strict with
                 rest := [f.nl1Tok, f.eofTok], prev := some f.endTok, pos := (IndentParse.toksList pos nodes 0 0).length + 3,
                 warnings := (IndentParse.warnsList pos nodes [] 0).reverse }) := by
  have h := IndentParse.parseDocument_tree f name pos nodes (Parser.initState env (IndentParse.treeToks f name pos nodes) strict) hm hc rfl
  simp only [StateT.run]
  rw [h]
  simp only [Parser.initState, List.append_nil, Nat.zero_add]

/-- the document read from a spelled text: nodes positioned at their keys (text line, column `1 + leading spaces`). -/
def indentDoc (name : Str) (nodes : List INode) : Document := IndentParse.treeDoc name (iposOf nodes) (itreeToP nodes)

theorem indent_lexes_P (env : Env) (name : Str) (nodes : List INode)
    (hn : isEnvName name = true) (hne : name ≠ "END".toList) (hok : treeOK (eraseList nodes))
    (hnfc : ∀ l ∈ splitLines (idocText name nodes), env.nfc l = l) :
    Lexer.tokenize env (Parser.stripFrontmatter env (idocText name nodes)).1 false
      = .ok (IndentParse.treeToks (treeFrame name (itreeNLines nodes)) name (iposOf nodes) (itreeToP nodes),
             (itreeRepsRev 0 2 nodes).reverse) := by
  rw [stripFrontmatter_idoc, ← idocToks_bridge]
  exact C03_tree_indent_lexes env false name nodes hn hne hok hnfc

/-- **every indentation spelling is read by the strict reader** as `indentDoc`. -/
theorem C03_tree_indent_read (env : Env) (name : Str) (nodes : List INode)
    (hn : isEnvName name = true) (hne : name ≠ "END".toList) (hok : treeOK (eraseList nodes))
    (hw : widthsOkList nodes = true) (hm : firstKeyIsMeta (eraseList nodes) = false)
    (hnfc : ∀ l ∈ splitLines (idocText name nodes), env.nfc l = l) :
    Parser.parse env (idocText name nodes) = .ok (indentDoc name nodes) := by
  have hlex := indent_lexes_P env name nodes hn hne hok hnfc
  rw [C02.parse_eq_parseToks env _ _ _ hlex, stripFrontmatter_idoc]
  unfold C02.parseToks
  rw [indent_parseDocument env true _ name _ _ (by rw [metaFirstT_ibridge]; exact hm) (colsOk_iposOf nodes hw)]
  rfl

/-- … and by the lenient one, with the lexer's receipts (identifier notes only) and the parser's warnings. -/
theorem C03_tree_indent_read_lenient (env : Env) (name : Str) (nodes : List INode)
    (hn : isEnvName name = true) (hne : name ≠ "END".toList) (hok : treeOK (eraseList nodes))
    (hw : widthsOkList nodes = true) (hm : firstKeyIsMeta (eraseList nodes) = false)
    (hnfc : ∀ l ∈ splitLines (idocText name nodes), env.nfc l = l) :
    Parser.parseWithWarnings env (idocText name nodes)
      = .ok (indentDoc name nodes, (itreeRepsRev 0 2 nodes).reverse,
             IndentParse.warnsList (iposOf nodes) (itreeToP nodes) [] 0) := by
  have hlex := indent_lexes_P env name nodes hn hne hok hnfc
  rw [C02.parseWithWarnings_eq_parseToks env _ _ _ hlex, stripFrontmatter_idoc]
  unfold C02.parseToksWithWarnings
  rw [indent_parseDocument env false _ name _ _ (by rw [metaFirstT_ibridge]; exact hm) (colsOk_iposOf nodes hw)]
  simp only [bind, Except.bind, pure, Except.pure, List.reverse_reverse, Except.map]
  rfl

/-- `indentDoc` is the same document as the canonical text's, up to positions: the name; sections that carry exactly the
erased tree (same keys, nesting, order, values with their types; no comments, no targets); nothing else. -/
theorem indentDoc_same (name : Str) (nodes : List INode) :
    (indentDoc name nodes).name = name ∧ (indentDoc name nodes).metaKv = [] ∧ (indentDoc name nodes).hasSeparator = false ∧
    (indentDoc name nodes).trailingComments = [] ∧ (indentDoc name nodes).grammarVersion = none ∧
    (indentDoc name nodes).rawFrontmatter = none ∧ treeMatches (eraseList nodes) (indentDoc name nodes).sections :=
  ⟨rfl, rfl, rfl, rfl, rfl, rfl, nodeList_matches (iposOf nodes) nodes 0⟩

/-- **every indentation spelling is read as the SAME document, up to positions** (both entry points). -/
theorem C03_tree_indent_same_document (env : Env) (name : Str) (nodes : List INode)
    (hn : isEnvName name = true) (hne : name ≠ "END".toList) (hok : treeOK (eraseList nodes))
    (hw : widthsOkList nodes = true) (hm : firstKeyIsMeta (eraseList nodes) = false)
    (hnfc : ∀ l ∈ splitLines (idocText name nodes), env.nfc l = l) :
    ∃ d' reps warns, Parser.parse env (idocText name nodes) = .ok d' ∧
      Parser.parseWithWarnings env (idocText name nodes) = .ok (d', reps, warns) ∧
      d'.name = name ∧ d'.metaKv = [] ∧ d'.hasSeparator = false ∧ d'.trailingComments = [] ∧ d'.grammarVersion = none ∧
      d'.rawFrontmatter = none ∧ treeMatches (eraseList nodes) d'.sections ∧ reps.filter isNormalization = [] := by
  refine ⟨indentDoc name nodes, _, _, C03_tree_indent_read env name nodes hn hne hok hw hm hnfc,
    C03_tree_indent_read_lenient env name nodes hn hne hok hw hm hnfc, ?_⟩
  obtain ⟨h1, h2, h3, h4, h5, h6, h7⟩ := indentDoc_same name nodes
  refine ⟨h1, h2, h3, h4, h5, h6, h7, ?_⟩
  rw [List.filter_reverse, itree_repsRev_not_norm]
  rfl

/-! ### convergence -/

/-- **C03 on nested blocks: every indentation spelling canonicalises to the canonical text** `treeDocText` (two spaces per
level) of the tree it spells, through the strict canonicaliser and through the lenient one. -/
theorem C03_tree_indent_converge (env : Env) (name : Str) (nodes : List INode)
    (hn : isEnvName name = true) (hne : name ≠ "END".toList) (hok : treeOK (eraseList nodes))
    (hem : treeEmitOK (eraseList nodes)) (hw : widthsOkList nodes = true) (hm : firstKeyIsMeta (eraseList nodes) = false)
    (hnfc : ∀ l ∈ splitLines (idocText name nodes), env.nfc l = l) :
    canonStrict env (idocText name nodes) = .ok (treeDocText name (eraseList nodes)) ∧
    canonLenient env (idocText name nodes) = .ok (treeDocText name (eraseList nodes)) :=
  canon_of_read env _ _ _ _ _ (C03_tree_indent_read env name nodes hn hne hok hw hm hnfc)
    (C03_tree_indent_read_lenient env name nodes hn hne hok hw hm hnfc)
    (emit_tree_matches env name (eraseList nodes) _ (nodeList_matches (iposOf nodes) nodes 0) hem)

/-- **any two indentation spellings of the same tree canonicalise to identical bytes** (both canonicalisers), and those
bytes are the canonical text — itself the spelling with width 2 everywhere (`idocText_canon`). -/
theorem C03_tree_indent_spellings_agree (env : Env) (name : Str) (s₁ s₂ : List INode)
    (hsame : eraseList s₁ = eraseList s₂)
    (hn : isEnvName name = true) (hne : name ≠ "END".toList) (hok : treeOK (eraseList s₁))
    (hem : treeEmitOK (eraseList s₁)) (hm : firstKeyIsMeta (eraseList s₁) = false)
    (hw₁ : widthsOkList s₁ = true) (hw₂ : widthsOkList s₂ = true)
    (hnfc₁ : ∀ l ∈ splitLines (idocText name s₁), env.nfc l = l)
    (hnfc₂ : ∀ l ∈ splitLines (idocText name s₂), env.nfc l = l) :
    canonStrict env (idocText name s₁) = canonStrict env (idocText name s₂) ∧
    canonLenient env (idocText name s₁) = canonLenient env (idocText name s₂) ∧
    canonLenient env (idocText name s₁) = .ok (treeDocText name (eraseList s₁)) := by
  have h1 := C03_tree_indent_converge env name s₁ hn hne hok hem hw₁ hm hnfc₁
  have h2 := C03_tree_indent_converge env name s₂ hn hne (hsame ▸ hok) (hsame ▸ hem) hw₂ (hsame ▸ hm) hnfc₂
  rw [← hsame] at h2
  exact ⟨by rw [h1.1, h2.1], by rw [h1.2, h2.2], h1.2⟩

/-- in particular every indentation spelling canonicalises to the same bytes as the canonical text itself. -/
theorem C03_tree_indent_vs_canonical (env : Env) (name : Str) (nodes : List INode)
    (hn : isEnvName name = true) (hne : name ≠ "END".toList) (hok : treeOK (eraseList nodes))
    (hem : treeEmitOK (eraseList nodes)) (hw : widthsOkList nodes = true) (hm : firstKeyIsMeta (eraseList nodes) = false)
    (hnfc : ∀ l ∈ splitLines (idocText name nodes), env.nfc l = l)
    (hnfc0 : ∀ l ∈ splitLines (treeDocText name (eraseList nodes)), env.nfc l = l) :
    canonLenient env (idocText name nodes) = canonLenient env (treeDocText name (eraseList nodes)) ∧
    canonStrict env (idocText name nodes) = canonStrict env (treeDocText name (eraseList nodes)) := by
  have h0 := idocText_canon name (eraseList nodes)
  have he := erase_canonList (eraseList nodes)
  have := C03_tree_indent_spellings_agree env name nodes (canonList (eraseList nodes)) he.symm hn hne hok hem hm hw
    (widthsOk_canonList _) hnfc (by rw [h0]; exact hnfc0)
  rw [h0] at this
  exact ⟨this.2.1, this.1⟩

/-! ### non-vacuity: three levels, widths 4 / 1 / 3 (and 7 on an empty block, 1 on the last), every scalar kind -/

/-- ```
===DOC===
A:
    X::"1"
    B:
     C:
        Y::"s \"t\""
        W::null
     EMPTY:
     V::word
    U::false
Z::-3
LAST:
 T::""
===END===
``` -/
def exI : List INode :=
  [ .block "A".toList 4
      [ .line ⟨"X".toList, .qstr "1".toList⟩,
        .block "B".toList 1
          [ .block "C".toList 3 [ .line ⟨"Y".toList, .qstr "s \"t\"".toList⟩, .line ⟨"W".toList, .null⟩ ],
            .block "EMPTY".toList 7 [],
            .line ⟨"V".toList, .bare "word".toList⟩ ],
        .line ⟨"U".toList, .bool false⟩ ],
    .line ⟨"Z".toList, .int (-3)⟩,
    .block "LAST".toList 1 [ .line ⟨"T".toList, .qstr []⟩ ] ]

/-- the same tree with four spaces per level everywhere. -/
def exI4 : List INode :=
  [ .block "A".toList 4
      [ .line ⟨"X".toList, .qstr "1".toList⟩,
        .block "B".toList 4
          [ .block "C".toList 4 [ .line ⟨"Y".toList, .qstr "s \"t\"".toList⟩, .line ⟨"W".toList, .null⟩ ],
            .block "EMPTY".toList 4 [],
            .line ⟨"V".toList, .bare "word".toList⟩ ],
        .line ⟨"U".toList, .bool false⟩ ],
    .line ⟨"Z".toList, .int (-3)⟩,
    .block "LAST".toList 4 [ .line ⟨"T".toList, .qstr []⟩ ] ]

example : idocText "DOC".toList exI =
    "===DOC===\nA:\n    X::\"1\"\n    B:\n     C:\n        Y::\"s \\\"t\\\"\"\n        W::null\n     EMPTY:\n     V::word\n    U::false\nZ::-3\nLAST:\n T::\"\"\n===END===\n".toList := by
  decide +kernel
example : idocText "DOC".toList exI4 =
    "===DOC===\nA:\n    X::\"1\"\n    B:\n        C:\n            Y::\"s \\\"t\\\"\"\n            W::null\n        EMPTY:\n        V::word\n    U::false\nZ::-3\nLAST:\n    T::\"\"\n===END===\n".toList := by
  decide +kernel
/-- the canonical text both converge on. -/
example : treeDocText "DOC".toList (eraseList exI) =
    "===DOC===\nA:\n  X::\"1\"\n  B:\n    C:\n      Y::\"s \\\"t\\\"\"\n      W::null\n    EMPTY:\n    V::word\n  U::false\nZ::-3\nLAST:\n  T::\"\"\n===END===\n".toList := by
  decide +kernel
example : eraseList exI = eraseList exI4 := rfl

theorem exI_ok : treeOK (eraseList exI) := by
  simp only [exI, eraseList, INode.erase, treeOK, TNode.OK, FLine.OK, FScalar.OK]
  decide
theorem exI_emit : treeEmitOK (eraseList exI) := by
  simp only [exI, eraseList, INode.erase, treeEmitOK, TNode.EmitOK, FLine.EmitOK]
  decide

/-- the theorems applied (not evaluated). -/
example : canonStrict Env.ascii (idocText "DOC".toList exI) = .ok (treeDocText "DOC".toList (eraseList exI)) ∧
    canonLenient Env.ascii (idocText "DOC".toList exI) = .ok (treeDocText "DOC".toList (eraseList exI)) :=
  C03_tree_indent_converge Env.ascii "DOC".toList exI (by decide) (by decide) exI_ok exI_emit (by decide) (by decide) (fun _ _ => rfl)

example : canonStrict Env.ascii (idocText "DOC".toList exI) = canonStrict Env.ascii (idocText "DOC".toList exI4) :=
  (C03_tree_indent_spellings_agree Env.ascii "DOC".toList exI exI4 rfl (by decide) (by decide) exI_ok exI_emit (by decide)
    (by decide) (by decide) (fun _ _ => rfl) (fun _ _ => rfl)).1

example : canonLenient Env.ascii (idocText "DOC".toList exI) = canonLenient Env.ascii (treeDocText "DOC".toList (eraseList exI)) :=
  (C03_tree_indent_vs_canonical Env.ascii "DOC".toList exI (by decide) (by decide) exI_ok exI_emit (by decide) (by decide)
    (fun _ _ => rfl) (fun _ _ => rfl)).1

example : ∃ d' reps warns, Parser.parse Env.ascii (idocText "DOC".toList exI) = .ok d' ∧
    Parser.parseWithWarnings Env.ascii (idocText "DOC".toList exI) = .ok (d', reps, warns) ∧
    d'.name = "DOC".toList ∧ d'.metaKv = [] ∧ d'.hasSeparator = false ∧ d'.trailingComments = [] ∧ d'.grammarVersion = none ∧
    d'.rawFrontmatter = none ∧ treeMatches (eraseList exI) d'.sections ∧ reps.filter isNormalization = [] :=
  C03_tree_indent_same_document Env.ascii "DOC".toList exI (by decide) (by decide) exI_ok (by decide) (by decide) (fun _ _ => rfl)

example : tokenize Env.ascii (idocText "DOC".toList exI) true = .ok (idocToks "DOC".toList exI, (itreeRepsRev 0 2 exI).reverse) :=
  C03_tree_indent_lexes Env.ascii true "DOC".toList exI (by decide) (by decide) exI_ok (fun _ _ => rfl)

/-- the INDENT tokens carry the spelled indentations (4, 4, 5, 8, 8, 5, 5, 4, 1), at column 1 of lines 3 … 11 and 14;
the canonical text has 2, 2, 4, 6, 6, 4, 4, 2, 2 there; nothing else differs but the columns. -/
example : ((idocToks "DOC".toList exI).filter (·.type == .indent)).map (fun t => (t.value, t.line, t.col)) =
    [(.nat 4, 3, 1), (.nat 4, 4, 1), (.nat 5, 5, 1), (.nat 8, 6, 1), (.nat 8, 7, 1), (.nat 5, 8, 1), (.nat 5, 9, 1), (.nat 4, 10, 1),
     (.nat 1, 13, 1)] := by decide +kernel
example : ((treeDocToks "DOC".toList (eraseList exI)).filter (·.type == .indent)).map (fun t => t.value) =
    [.nat 2, .nat 2, .nat 4, .nat 6, .nat 6, .nat 4, .nat 4, .nat 2, .nat 2] := by decide +kernel
example : (idocToks "DOC".toList exI).map tokKind = (treeDocToks "DOC".toList (eraseList exI)).map tokKind :=
  C03_tree_indent_tokens "DOC".toList exI (by decide)

/-- the side conditions, evaluated independently of `colsOk_iposOf`. -/
example : IndentParse.colsOkList (iposOf exI) (itreeToP exI) 0 0 = true := by decide +kernel
example : idocToks "DOC".toList exI
    = IndentParse.treeToks (treeFrame "DOC".toList 12) "DOC".toList (iposOf exI) (itreeToP exI) := by decide +kernel

/-- all widths symbolic: a block in a block, any two positive widths. -/
example (a b : Nat) :
    canonLenient Env.ascii (idocText "D".toList
      [.block "A".toList (a + 1) [.block "B".toList (b + 1) [.line ⟨"X".toList, .bool true⟩], .line ⟨"Y".toList, .null⟩]])
      = .ok "===D===\nA:\n  B:\n    X::true\n  Y::null\n===END===\n".toList :=
  (C03_tree_indent_converge Env.ascii "D".toList _ (by decide) (by decide)
    (by simp only [eraseList, INode.erase, treeOK, TNode.OK, FLine.OK, FScalar.OK]; decide)
    (by simp only [eraseList, INode.erase, treeEmitOK, TNode.EmitOK, FLine.EmitOK]; decide)
    (by simp [widthsOkList, INode.widthsOk]) rfl (fun _ _ => rfl)).2

/-- the whole model evaluated on the concrete texts (independent of the theorems): the same canonical output. -/
example : isOkStr (canonLenient Env.ascii (idocText "DOC".toList exI)) (treeDocText "DOC".toList (eraseList exI)) = true := by decide +kernel
example : isOkStr (canonStrict Env.ascii (idocText "DOC".toList exI)) (treeDocText "DOC".toList (eraseList exI)) = true := by decide +kernel
example : isOkStr (canonLenient Env.ascii (idocText "DOC".toList exI4)) (treeDocText "DOC".toList (eraseList exI)) = true := by decide +kernel
example : isOkStr (canonStrict Env.ascii (treeDocText "DOC".toList (eraseList exI))) (treeDocText "DOC".toList (eraseList exI)) = true := by decide +kernel
/-- the lexer model evaluated on the concrete text gives exactly `idocToks`. -/
example : (match tokenize Env.ascii (idocText "DOC".toList exI) with
    | .ok p => p == (idocToks "DOC".toList exI, (itreeRepsRev 0 2 exI).reverse) | .error _ => false) = true := by decide +kernel

/-! ### the class is exact: the model at the excluded points (the real reader returns the same, see the report) -/

/-- `w = 0`: the "children" are written at the header's indentation — the canonical text of ANOTHER tree (an empty block
and a sibling); `widthsOk` is necessary. -/
example : idocText "D".toList [.block "A".toList 0 [.line ⟨"X".toList, .bool true⟩]]
    = treeDocText "D".toList [.block "A".toList [], .line ⟨"X".toList, .bool true⟩] := by decide
/-- a line SHALLOWER than its previous sibling but deeper than the block header leaves the block: at top level it becomes a
top-level node, silently … -/
example : isOkStr (canonLenient Env.ascii "===D===\nB:\n    X::1\n  Y::2\n===END===\n".toList)
    "===D===\nB:\n  X::1\nY::2\n===END===\n".toList = true := by decide +kernel
/-- … nested, it is adopted by the enclosing block (as a sibling of the block it was written under). -/
example : isOkStr (canonLenient Env.ascii "===D===\nA:\n  B:\n      X::1\n    S::2\n===END===\n".toList)
    "===D===\nA:\n  B:\n    X::1\n  S::2\n===END===\n".toList = true := by decide +kernel
/-- a dedent to a column between two open blocks: adopted by the innermost block whose child indentation it reaches … -/
example : isOkStr (canonLenient Env.ascii "===D===\nA:\n    B:\n        X::1\n      Y::2\n===END===\n".toList)
    "===D===\nA:\n  B:\n    X::1\n  Y::2\n===END===\n".toList = true := by decide +kernel
/-- … or by none (top level) when it is shallower than every open block's children. -/
example : isOkStr (canonLenient Env.ascii "===D===\nA:\n    B:\n        X::1\n  Y::2\n===END===\n".toList)
    "===D===\nA:\n  B:\n    X::1\nY::2\n===END===\n".toList = true := by decide +kernel
/-- a line DEEPER than its previous sibling stays a child of the same block (also when it is a block with children). -/
example : isOkStr (canonLenient Env.ascii "===D===\nB:\n  X::1\n      Y::2\n  Z::3\n===END===\n".toList)
    "===D===\nB:\n  X::1\n  Y::2\n  Z::3\n===END===\n".toList = true := by decide +kernel
example : isOkStr (canonLenient Env.ascii "===D===\nB:\n  X::1\n      C:\n        Y::2\n  Z::3\n===END===\n".toList)
    "===D===\nB:\n  X::1\n  C:\n    Y::2\n  Z::3\n===END===\n".toList = true := by decide +kernel
/-- an empty block followed by a deeper line is not empty; followed by an equal or shallower line it is. -/
example : isOkStr (canonLenient Env.ascii "===D===\nA:\n  B:\n      X::1\n===END===\n".toList)
    "===D===\nA:\n  B:\n    X::1\n===END===\n".toList = true := by decide +kernel
example : isOkStr (canonLenient Env.ascii "===D===\nA:\n  B:\n  X::1\n===END===\n".toList)
    "===D===\nA:\n  B:\n  X::1\n===END===\n".toList = true := by decide +kernel
example : isOkStr (canonLenient Env.ascii "===D===\nA:\n    B:\n  X::1\n===END===\n".toList)
    "===D===\nA:\n  B:\nX::1\n===END===\n".toList = true := by decide +kernel
/-- indentation of TOP-LEVEL lines is ignored altogether (`parse_document` skips INDENT tokens). -/
example : isOkStr (canonLenient Env.ascii "===D===\n  A:\n    X::1\n  Y::2\n===END===\n".toList)
    "===D===\nA:\n  X::1\nY::2\n===END===\n".toList = true := by decide +kernel
/-- tabs are rejected by the lexer (E005), in both modes. -/
example : (match canonLenient Env.ascii "===D===\nA:\n\tX::1\n===END===\n".toList with
    | .error e => e == .lexer "E005".toList 3 1 | .ok _ => false) = true := by decide +kernel

end Octave.C03
