/-
C07 — "every lenient rewrite has a receipt; canonical input has none" — for the BRACE-FOR-ANGLE repair
(`NAME{q}` → `NAME<q>`, `_match_unicode_identifier` under `tokenize(content, lenient=True)`), lexer level, ALL INPUTS.

`Props/C07brace` proves exact receipts for a class of flat documents.  This file proves the statement for EVERY input text,
EVERY `Env` and both lexer modes (`Lemmas/BraceAll`: an invariant over every branch of `Lexer.step`, lifted over
`Lexer.loop` by induction on fuel — the technique of `Lemmas/Receipts` / `Props/C07receipts`).

The repaired IDENTIFIER token carries no marker (`normFrom` stays `none`), so the correspondence is stated as a
matching `BraceAllMatch rs ts`: the records `rs` are, IN ORDER, the receipts of the members of an order-preserving
selection of the tokens `ts` — every record is taken by exactly one token, two records by two different tokens.
`BraceAllRec r t` ("`r` is the receipt of `t`"): `t` is an IDENTIFIER token (no `normFrom`, no `raw`), its value is
`NAME<q>`, and `r = curlyBrace NAME{q} NAME<q> t.line t.col`.

  * `C07_braceall_matching`          whenever `tokenize env s lenient = ok (toks, reps)`: `BraceAllMatch (curlyBrace records
                                     of reps) toks`;
  * `C07_braceall_sublist`           the same as an explicit sub-list `sub` of `toks`, as long as the record list, paired
                                     position by position with the records;
  * `C07_braceall_record_has_token`  every `curlyBrace o p l c` in the log belongs to an IDENTIFIER token of the output with
                                     value `p`, line `l`, column `c`, and `o` is `p` with the last `<q>` respelt `{q}`;
  * `C07_braceall_only_identifier`   (the same fact read from the token side) a token that owns a record is an IDENTIFIER;
  * `C07_braceall_count_le`          no more `curlyBrace` records than IDENTIFIER tokens;
  * `C07_braceall_strict_none`, `C07_braceall_strict_no_record`, `C07_braceall_lenient_only`
                                     NON-lenient mode: the log never contains a `curlyBrace` record;
  * `C07_braceall_step`              one iteration of the main loop adds at most ONE `curlyBrace` record, only in lenient
                                     mode, and then together with exactly one pushed token, whose receipt it is;
  * `C07_braceall_step_logged`       the converse at the step: when the lexer reaches the identifier matcher and the
                                     matcher repairs (returns the pair), the step pushes the IDENTIFIER token `p` AND the
                                     record `curlyBrace o p line col` — no repair without a receipt;
  * `C07_braceall_trace`             THE BIJECTION WITH THE BRACE STEPS: the `curlyBrace` records of the log are exactly, in
                                     reading order, `braceAllTrace` — one record per iteration of the main loop that is a
                                     brace site (`braceAllSite`: the iteration reaches the identifier matcher and the
                                     matcher returns a repair pair), at that iteration's line and column;
                                     `C07_braceall_site_step` / `C07_braceall_nonsite_step` are the per-iteration halves
                                     (site ⇒ its token and its record are pushed; no site ⇒ no `curlyBrace` record);
  * `C07_braceall_never_merged`      a token that owns a receipt is never replaced by the `%` merge (its text ends in `>`,
                                     which is alphanumeric in no `Env`): this is why the value in the record stays the
                                     value of the token.

No hypothesis besides "`tokenize` succeeded".  Not proved here: that line/column identify a token uniquely among ALL
tokens of the output (the matching already pairs different records with different tokens); the converse for whole
inputs in terms of the SOURCE TEXT alone ("every `NAME{q}` spelling outside strings/comments yields a record") — that
needs a grammar of inputs and is what `Props/C07brace` does for its class; here the converse is stated over the run
(`C07_braceall_trace`: one record per brace step, `braceAllSite` being defined from the lexer's own branch conditions).
-/
import Octave.Lemmas.BraceAll
import Octave.Props.C07receipts
namespace Octave.C07
open Octave Lexer

/-- the initial state of the main loop satisfies the invariant. -/
theorem braceAll_init_inv (spans : List Span) : BraceAllInv { spans := spans } := BraceAllMatch.nil

/-- **C07, brace-for-angle repair, every input, both modes**: the `curlyBrace` records of the log are, in order, the
receipts of an order-preserving selection of the IDENTIFIER tokens of the output (one token per record, different
records ↔ different tokens; each record holds `NAME{q}`, the token's value `NAME<q>`, the token's line and column). -/
theorem C07_braceall_matching (env : Env) (content : Str) (lenient : Bool)
    (toks : List Token) (reps : List Repair)
    (h : Lexer.tokenize env content lenient = .ok (toks, reps)) :
    BraceAllMatch (reps.filter braceAllIsCurly) toks := by
  obtain ⟨norm, spans, st, hl, rfl, rfl⟩ := tokenize_ok_final h
  have hinv := braceAll_loop_inv env lenient _ _ st norm hl (braceAll_init_inv spans)
  unfold BraceAllInv at hinv
  rw [List.filter_reverse]
  exact (BraceAllMatch.skip _ hinv).reverse

/-- the matching as an explicit sub-list of the token list, paired position by position with the records. -/
theorem C07_braceall_sublist (env : Env) (content : Str) (lenient : Bool)
    (toks : List Token) (reps : List Repair)
    (h : Lexer.tokenize env content lenient = .ok (toks, reps)) :
    ∃ sub : List Token, sub.Sublist toks ∧ sub.length = (reps.filter braceAllIsCurly).length ∧
      ∀ p ∈ (reps.filter braceAllIsCurly).zip sub, BraceAllRec p.1 p.2 :=
  (C07_braceall_matching env content lenient toks reps h).sublist

/-- every receipt has its rewrite: a `curlyBrace` record of the log belongs to an IDENTIFIER token of the output with
the repaired text as value, at the record's line and column; the original is the repaired text with the final `<q>`
respelt `{q}`. -/
theorem C07_braceall_record_has_token (env : Env) (content : Str) (lenient : Bool)
    (toks : List Token) (reps : List Repair)
    (h : Lexer.tokenize env content lenient = .ok (toks, reps))
    (o p : Str) (l c : Nat) (hr : Repair.curlyBrace o p l c ∈ reps) :
    ∃ t ∈ toks, t.type = .identifier ∧ t.value = .str p ∧ t.line = l ∧ t.col = c ∧ t.normFrom = none ∧
      ∃ name q : Str, o = name ++ '{' :: (q ++ ['}']) ∧ p = name ++ '<' :: (q ++ ['>']) := by
  have hmem : Repair.curlyBrace o p l c ∈ reps.filter braceAllIsCurly := List.mem_filter.mpr ⟨hr, rfl⟩
  obtain ⟨t, ht, hty, _, hnf, name, q, hrec, hval⟩ :=
    (C07_braceall_matching env content lenient toks reps h).mem _ hmem
  simp only [Repair.curlyBrace.injEq] at hrec
  obtain ⟨rfl, rfl, rfl, rfl⟩ := hrec
  exact ⟨t, ht, hty, hval, rfl, rfl, hnf, name, q, braceAllOrig_eq name q, braceAllRep_eq name q⟩

/-- no other token kind ever comes with such a record. -/
theorem C07_braceall_only_identifier (r : Repair) (t : Token) (h : BraceAllRec r t) :
    t.type = .identifier ∧ braceAllIsCurly r = true := by
  obtain ⟨hty, _, _, name, q, rfl, _⟩ := h
  exact ⟨hty, rfl⟩

/-- no more `curlyBrace` records than IDENTIFIER tokens. -/
theorem C07_braceall_count_le (env : Env) (content : Str) (lenient : Bool)
    (toks : List Token) (reps : List Repair)
    (h : Lexer.tokenize env content lenient = .ok (toks, reps)) :
    (reps.filter braceAllIsCurly).length ≤ (toks.filter (fun t => t.type == .identifier)).length :=
  (C07_braceall_matching env content lenient toks reps h).length_le

/-- **NON-lenient mode: no `curlyBrace` record at all**, for every input. -/
theorem C07_braceall_strict_none (env : Env) (content : Str)
    (toks : List Token) (reps : List Repair)
    (h : Lexer.tokenize env content false = .ok (toks, reps)) :
    reps.filter braceAllIsCurly = [] := by
  obtain ⟨norm, spans, st, hl, rfl, rfl⟩ := tokenize_ok_final h
  have := braceAll_loop_strict env _ _ st norm hl rfl
  rw [List.filter_reverse, this]; rfl

theorem C07_braceall_strict_no_record (env : Env) (content : Str)
    (toks : List Token) (reps : List Repair)
    (h : Lexer.tokenize env content false = .ok (toks, reps)) (o p : Str) (l c : Nat) :
    Repair.curlyBrace o p l c ∉ reps := by
  intro hr
  have hmem : Repair.curlyBrace o p l c ∈ reps.filter braceAllIsCurly := List.mem_filter.mpr ⟨hr, rfl⟩
  rw [C07_braceall_strict_none env content toks reps h] at hmem
  cases hmem

/-- a `curlyBrace` record in the log ⇒ the lexer ran in lenient mode. -/
theorem C07_braceall_lenient_only (env : Env) (content : Str) (lenient : Bool)
    (toks : List Token) (reps : List Repair)
    (h : Lexer.tokenize env content lenient = .ok (toks, reps))
    (o p : Str) (l c : Nat) (hr : Repair.curlyBrace o p l c ∈ reps) : lenient = true := by
  cases lenient with
  | true => rfl
  | false => exact absurd hr (C07_braceall_strict_no_record env content toks reps h o p l c)

/-- **one iteration**: the `curlyBrace` records of the log are unchanged, or the mode is lenient and exactly one record was
added together with exactly one pushed token, whose receipt it is. -/
theorem C07_braceall_step (env : Env) (lenient : Bool) (st st' : LState) (s s' : Str)
    (h : step env lenient st s = .ok (st', s')) :
    st'.repairs.filter braceAllIsCurly = st.repairs.filter braceAllIsCurly ∨
      (lenient = true ∧ ∃ tok r, st'.toks = tok :: st.toks ∧
        st'.repairs.filter braceAllIsCurly = r :: st.repairs.filter braceAllIsCurly ∧ BraceAllRec r tok) := by
  cases braceAll_step_shape env lenient st st' s s' h with
  | push newToks d htoks hreps hcur =>
    rcases hcur with hnil | ⟨hl, tok, r, rfl, hd, hrec, _⟩
    · left; rw [hreps, List.filter_append, hnil]; rfl
    · right
      exact ⟨hl, tok, r, htoks, by rw [hreps, List.filter_append, hd]; rfl, hrec⟩
  | merge last tok before _ _ hreps _ => left; rw [hreps]

/-- **no repair without a receipt, at the step**: when an iteration reaches the identifier matcher (no fence span, not a
space, no pattern, no envelope error, not `+`) and the matcher repairs, the step succeeds, pushes the IDENTIFIER token with
the repaired text at the current position and logs `curlyBrace original repaired line col`. -/
theorem C07_braceall_step_logged (env : Env) (lenient : Bool) (st : LState) (c : Char) (r ident rest o p : Str)
    (hspan : atSpanStart st = false) (hsp : (c == ' ') = false)
    (hmp : matchPattern env st.blank st.prev (c :: r) = .ok none)
    (henv : (startsWith "===".toList (c :: r) && invalidEnvelopeError env (c :: r)) = false)
    (hplus : (c == '+') = false)
    (hmi : matchIdentifier env lenient (c :: r) = some (ident, rest, some (o, p))) :
    ∃ st', step env lenient st (c :: r) = .ok (st', rest) ∧
      st'.toks = { type := .identifier, value := .str p, line := st.line, col := st.col } :: st.toks ∧
      st'.repairs.filter braceAllIsCurly = Repair.curlyBrace o p st.line st.col :: st.repairs.filter braceAllIsCurly :=
  braceAll_step_logged env lenient st c r ident rest o p hspan hsp hmp henv hplus hmi

/-- what a successful `tokenize` returns, with the normalised text it ran on. -/
theorem braceAll_tokenize_ok_final {env : Env} {content : Str} {lenient : Bool} {toks : List Token} {reps : List Repair}
    (h : Lexer.tokenize env content lenient = .ok (toks, reps)) :
    ∃ (norm : Str) (spans : List Span) (st : LState),
      normalize env content = .ok (norm, spans)
      ∧ loop env lenient (norm.length + 1) { spans := spans } norm = .ok st
      ∧ toks = (({ type := .eof, value := .none, line := st.line, col := st.col } : Token) :: st.toks).reverse
      ∧ reps = st.repairs.reverse := by
  unfold tokenize at h
  simp only [bind, Except.bind] at h
  cases hn : normalize env content with
  | error e => simp [hn] at h
  | ok p =>
    obtain ⟨norm, spans⟩ := p
    simp only [hn] at h
    cases ht : tabCheck spans norm 0 1 1 with
    | error e => simp [ht] at h
    | ok u =>
      simp only [ht] at h
      cases hl : loop env lenient (norm.length + 1) { spans := spans } norm with
      | error e => simp [hl] at h
      | ok st =>
        simp only [hl] at h
        split at h
        · simp at h
        · simp only [Except.ok.injEq, Prod.mk.injEq] at h
          exact ⟨norm, spans, st, rfl, hl, h.1.symm, h.2.symm⟩

/-- **the bijection with the brace steps, every input**: the `curlyBrace` records of the log are EXACTLY, in reading
order, the records owed by the brace sites the main loop met on the normalised text (`braceAllTrace`: one
`curlyBrace original repaired line col` per iteration that reached the identifier matcher and got a repair pair, at that
iteration's line and column) — no repair without a receipt, no receipt without a repair. -/
theorem C07_braceall_trace (env : Env) (content : Str) (lenient : Bool)
    (toks : List Token) (reps : List Repair)
    (h : Lexer.tokenize env content lenient = .ok (toks, reps)) :
    ∃ (norm : Str) (spans : List Span), normalize env content = .ok (norm, spans) ∧
      reps.filter braceAllIsCurly = braceAllTrace env lenient (norm.length + 1) { spans := spans } norm := by
  obtain ⟨norm, spans, st, hn, hl, rfl, rfl⟩ := braceAll_tokenize_ok_final h
  refine ⟨norm, spans, hn, ?_⟩
  have := braceAll_loop_trace env lenient _ _ st norm hl
  rw [List.filter_reverse, this]
  simp

/-- the iteration at a brace site pushes exactly the repaired IDENTIFIER token, at the site's position, and exactly
its record (`braceAll_step_exact`: every other iteration adds no `curlyBrace` record). -/
theorem C07_braceall_site_step (env : Env) (lenient : Bool) (st st' : LState) (s s' : Str) (o p : Str)
    (h : step env lenient st s = .ok (st', s')) (hsite : braceAllSite env lenient st s = some (o, p)) :
    st'.toks = { type := .identifier, value := .str p, line := st.line, col := st.col } :: st.toks ∧
      st'.repairs.filter braceAllIsCurly = Repair.curlyBrace o p st.line st.col :: st.repairs.filter braceAllIsCurly := by
  refine ⟨braceAll_step_site_token env lenient st st' s s' o p h hsite, ?_⟩
  rw [braceAll_step_exact env lenient st st' s s' h]
  simp [braceAllSiteRecs, hsite]

/-- an iteration that is NOT a brace site adds no `curlyBrace` record. -/
theorem C07_braceall_nonsite_step (env : Env) (lenient : Bool) (st st' : LState) (s s' : Str)
    (h : step env lenient st s = .ok (st', s')) (hsite : braceAllSite env lenient st s = none) :
    st'.repairs.filter braceAllIsCurly = st.repairs.filter braceAllIsCurly := by
  rw [braceAll_step_exact env lenient st st' s s' h]
  simp [braceAllSiteRecs, hsite]

/-- a token that owns a receipt is never replaced by the `%` merge. -/
theorem C07_braceall_never_merged (env : Env) (r : Repair) (t : Token) (h : BraceAllRec r t) :
    ¬ ∃ lc, (braceAllPrevVal t).getLast? = some lc ∧ env.isAlnum lc = true :=
  fun hlc => braceAll_merge_keeps h hlc

/-! ### Non-vacuity and closed checks (model runs; the same texts were run on the real `tokenize`) -/

/-- what the examples look at: the `curlyBrace` records, and (value, line, column) of the IDENTIFIER tokens. -/
def braceAllErr (s : String) (lenient : Bool) : Option Exc :=
  match Lexer.tokenize Env.ascii s.toList lenient with
  | .ok _ => none
  | .error e => some e

def braceAllView (s : String) (lenient : Bool) : Option (List Repair × List (TVal × Nat × Nat)) :=
  match Lexer.tokenize Env.ascii s.toList lenient with
  | .ok (toks, reps) =>
    some (reps.filter braceAllIsCurly,
      (toks.filter (fun (t : Token) => t.type == TT.identifier)).map (fun (t : Token) => (t.value, t.line, t.col)))
  | .error _ => none

/-- 0 brace sites: lenient `tokenize` succeeds, no record. -/
example : braceAllView "===D===\nK::A\nL::\"x\"\n===END===\n" true =
    some ([], [(.str "K".toList, 2, 1), (.str "A".toList, 2, 4), (.str "L".toList, 3, 1)]) := by decide +kernel

/-- 1 brace site: one record; its repaired text / line / column are those of the IDENTIFIER token `A<b>`. -/
example : braceAllView "===D===\nK::A{b}\n===END===\n" true =
    some ([.curlyBrace "A{b}".toList "A<b>".toList 2 4],
      [(.str "K".toList, 2, 1), (.str "A<b>".toList, 2, 4)]) := by decide +kernel

/-- the same text in NON-lenient mode: E005 at the brace (no token list, no log). -/
example : braceAllErr "===D===\nK::A{b}\n===END===\n" false = some (.lexer "E005".toList 2 5) := by
  decide +kernel

/-- 3 brace sites (one after an annotated name, `Zed<q>{r}`), and a wrong-case record in between: three records, in
reading order, each at the position of its token; `K`, `L`, `M`, `True` are skipped by the matching. -/
example : braceAllView "K::A{b}\nL::[X{y},Zed<q>{r}]\nM::True\n" true =
    some ([.curlyBrace "A{b}".toList "A<b>".toList 1 4, .curlyBrace "X{y}".toList "X<y>".toList 2 5,
        .curlyBrace "Zed<q>{r}".toList "Zed<q><r>".toList 2 10],
      [(.str "K".toList, 1, 1), (.str "A<b>".toList, 1, 4), (.str "L".toList, 2, 1), (.str "X<y>".toList, 2, 5),
        (.str "Zed<q><r>".toList, 2, 10), (.str "M".toList, 3, 1), (.str "True".toList, 3, 4)]) := by decide +kernel

/-- that run has 4 records in all (3 `curlyBrace` + 1 wrong-case): the filter matters. -/
example : (match Lexer.tokenize Env.ascii "K::A{b}\nL::[X{y},Zed<q>{r}]\nM::True\n".toList true with
    | .ok (toks, reps) => (toks.length, reps.length) | .error _ => (0, 0)) = (17, 4) := by decide +kernel

/-- a brace site inside a string and inside a comment: no record, no repaired token. -/
example : braceAllView "K::\"A{b}\"\n// C{d}\nL::x\n" true =
    some ([], [(.str "K".toList, 1, 1), (.str "L".toList, 3, 1), (.str "x".toList, 3, 4)]) := by decide +kernel

/-- `NAME{}` and `NAME{q,r}`: not a repair site — E005 at the brace in lenient mode too (hence no log at all). -/
example : braceAllErr "K::A{}\n" true = some (.lexer "E005".toList 1 5) := by decide +kernel
example : braceAllErr "K::A{q,r}\n" true = some (.lexer "E005".toList 1 5) := by decide +kernel
example : braceAllErr "K::A{}\n" false = some (.lexer "E005".toList 1 5) := by decide +kernel

/-- the `%` merge cannot swallow a repaired token: `A{b}%` is E005 at the `%` (while `A5%` merges). -/
example : braceAllErr "K::A{b}%\n" true = some (.lexer "E005".toList 1 8) := by decide +kernel
example : braceAllView "K::A5%\n" true = some ([], [(.str "K".toList, 1, 1), (.str "A5%".toList, 1, 4)]) := by
  decide +kernel

/-- `BraceAllRec` / `BraceAllMatch` are inhabited non-trivially: the matching of the 1-site run, spelled out
(`K` skipped, `A<b>` taken). -/
example : BraceAllMatch [.curlyBrace "A{b}".toList "A<b>".toList 2 4]
    [{ type := .identifier, value := .str "K".toList, line := 2, col := 1 },
     { type := .identifier, value := .str "A<b>".toList, line := 2, col := 4 }] :=
  .skip _ (.take ⟨rfl, rfl, rfl, "A".toList, "b".toList, by decide, by decide⟩ .nil)

/-- hypotheses of `C07_braceall_step_logged` are satisfiable: the lenient step on `A{b}` from the state after `K::`. -/
example : (match step Env.ascii true { pos := 3, prev := some ':', line := 1, col := 4, blank := false } "A{b}\n".toList with
    | .ok (st', rest) => (st'.repairs, st'.toks.map (fun (t : Token) => (t.type, t.value, t.line, t.col)), rest)
    | .error _ => ([], [], [])) =
    ([.curlyBrace "A{b}".toList "A<b>".toList 1 4], [(.identifier, .str "A<b>".toList, 1, 4)], ['\n']) := by decide +kernel

example : atSpanStart { pos := 3, prev := some ':', line := 1, col := 4, blank := false } = false
    ∧ (match matchPattern Env.ascii false (some ':') "A{b}\n".toList with | .ok none => true | _ => false) = true
    ∧ matchIdentifier Env.ascii true "A{b}\n".toList = some ("A<b>".toList, ['\n'], some ("A{b}".toList, "A<b>".toList)) := by
  decide +kernel

/-- the trace of the 3-site run, computed from the definition (not from the log): the same three records. -/
example : (match normalize Env.ascii "K::A{b}\nL::[X{y},Zed<q>{r}]\nM::True\n".toList with
    | .ok (norm, spans) => braceAllTrace Env.ascii true (norm.length + 1) { spans := spans } norm
    | .error _ => []) =
    [.curlyBrace "A{b}".toList "A<b>".toList 1 4, .curlyBrace "X{y}".toList "X<y>".toList 2 5,
      .curlyBrace "Zed<q>{r}".toList "Zed<q><r>".toList 2 10] := by decide +kernel

/-- a brace site and a non-site, as `braceAllSite` sees them. -/
example : braceAllSite Env.ascii true { pos := 3, prev := some ':', line := 1, col := 4, blank := false } "A{b}\n".toList
    = some ("A{b}".toList, "A<b>".toList) := by decide +kernel
example : braceAllSite Env.ascii true { pos := 3, prev := some ':', line := 1, col := 4, blank := false } "\"A{b}\"\n".toList
    = none := by decide +kernel
example : braceAllSite Env.ascii false { pos := 3, prev := some ':', line := 1, col := 4, blank := false } "A{b}\n".toList
    = none := by decide +kernel

end Octave.C07
