/-
C01 / C02 / C03 / C07 on documents with nested BLOCKS — lexer half of the document-level round trip and the emitter, for
trees of ANY depth and width (`TNode`: `KEY::scalar` lines and `KEY:` blocks with children, empty blocks included):

  * the emitter writes exactly `treeDocText`: a block is the line `indent KEY:` followed by its children one level deeper,
    whatever positions the AST nodes carry (`C01_tree_emit`, `C01_tree_emit_matches`);
  * the lexer reads that text back as exactly `treeDocToks`, positions included, in both lexer modes: every line at depth
    `d > 0` starts with ONE INDENT token valued `2 * d`, a block header is IDENTIFIER BLOCK NEWLINE (`C01_tree_lexes`,
    `C01_tree_emit_then_lex`), and the canonical text yields no normalisation receipt (`C07_tree_canonical_no_normalization`);
  * every emitted line of a node at depth `d` starts with exactly `2 * d` spaces followed by a non-space
    (`C03_tree_two_spaces_per_level`).

The parser half (token list → the same Document) is a separate file; `treeDocToks_eq` / `treeDocToks_tv` / `treeDocToks_plain`
(Lemmas/BlockLex) give the token list in reading order, with and without positions, for the bridge.
Hypothesis `hnfc` (NFC leaves every line of the text unchanged) is the documented limit of the format (finding F16).
-/
import Octave.Lemmas.BlockLex
import Octave.Lemmas.Receipts
namespace Octave.C01
open Octave Lexer Emitter Scan

/-- the emitter on a document with nested blocks (positions chosen by any function of line index and depth). -/
theorem C01_tree_emit (env : Env) (name : Str) (pos : Nat → Nat → Nat × Nat) (nodes : List TNode) (h : treeEmitOK nodes) :
    emit env (treeDoc name pos nodes) = some (treeDocText name nodes) := emit_tree env name pos nodes h

/-- the same for ANY AST whose nodes carry this content (any positions at all). -/
theorem C01_tree_emit_matches (env : Env) (name : Str) (nodes : List TNode) (sections : List Node)
    (hm : treeMatches nodes sections) (h : treeEmitOK nodes) :
    emit env { name := name, sections := sections } = some (treeDocText name nodes) :=
  emit_tree_matches env name nodes sections hm h

/-- the lexer on the canonical text of a document with nested blocks. -/
theorem C01_tree_lexes (env : Env) (lenient : Bool) (name : Str) (nodes : List TNode)
    (hn : isEnvName name = true) (hne : name ≠ "END".toList) (hok : treeOK nodes)
    (hnfc : ∀ l ∈ splitLines (treeDocText name nodes), env.nfc l = l) :
    tokenize env (treeDocText name nodes) lenient = .ok (treeDocToks name nodes, (treeRepsRev 0 2 nodes).reverse) :=
  tokenize_tree env lenient name nodes hn hne hok hnfc

theorem identReps_rev_not_norm (s : Str) (a b : Nat) : (identifierRepairs s a b).reverse.filter isNormalization = [] := by
  rw [List.filter_eq_nil_iff]
  intro r hr
  have := identifierRepairs_not_norm s a b r (List.mem_reverse.mp hr)
  simpa using this

theorem line_repsRev_not_norm (ln : FLine) (l c : Nat) : (ln.repsRev l c).filter isNormalization = [] := by
  have hv : (ln.v.reps l (c + ln.key.length + 2)).reverse.filter isNormalization = [] := by
    cases ln.v with
    | bare s => exact identReps_rev_not_norm s _ _
    | _ => rfl
  simp only [FLine.repsRev, List.filter_append, hv, identReps_rev_not_norm, List.append_nil]

mutual
theorem node_repsRev_not_norm : ∀ (n : TNode) (d l : Nat), (n.repsRev d l).filter isNormalization = []
  | .line ln, d, l => by simp only [TNode.repsRev]; exact line_repsRev_not_norm ln l _
  | .block key cs, d, l => by
    simp only [TNode.repsRev, List.filter_append, tree_repsRev_not_norm cs (d + 1) (l + 1), identReps_rev_not_norm,
      List.append_nil]
theorem tree_repsRev_not_norm : ∀ (ns : List TNode) (d l : Nat), (treeRepsRev d l ns).filter isNormalization = []
  | [], d, l => rfl
  | n :: ns, d, l => by
    simp only [treeRepsRev, List.filter_append, node_repsRev_not_norm n d l, tree_repsRev_not_norm ns d (l + n.nlines),
      List.append_nil]
end

/-- **write, then lex**: whatever document with nested blocks is emitted, its text lexes to the expected tokens
(`treeDocToks`, positions included); read without positions they are the envelope, then per line an INDENT token valued
`2 * depth` (none at depth 0) followed by `IDENTIFIER ASSIGN value NEWLINE` or `IDENTIFIER BLOCK NEWLINE`, then
`ENVELOPE_END NEWLINE EOF`; no token carries `normFrom` (none was normalised), and there is no normalisation receipt. -/
theorem C01_tree_emit_then_lex (env : Env) (lenient : Bool) (name : Str) (pos : Nat → Nat → Nat × Nat) (nodes : List TNode)
    (hn : isEnvName name = true) (hne : name ≠ "END".toList) (hok : treeOK nodes) (hem : treeEmitOK nodes)
    (hnfc : ∀ l ∈ splitLines (treeDocText name nodes), env.nfc l = l) :
    ∃ text reps, emit env (treeDoc name pos nodes) = some text ∧
      tokenize env text lenient = .ok (treeDocToks name nodes, reps) ∧
      (treeDocToks name nodes).map Token.tv =
        (.envelopeStart, .str name) :: (.newline, .str ['\n']) :: (treeShape 0 nodes ++
          [(.envelopeEnd, .str "END".toList), (.newline, .str ['\n']), (.eof, .none)]) ∧
      (∀ t ∈ treeDocToks name nodes, t.Plain) ∧
      reps.filter isNormalization = [] := by
  refine ⟨treeDocText name nodes, _, emit_tree env name pos nodes hem, tokenize_tree env lenient name nodes hn hne hok hnfc,
    treeDocToks_tv name nodes, treeDocToks_plain name nodes, ?_⟩
  rw [List.filter_reverse, tree_repsRev_not_norm]
  rfl

/-- canonical input has no normalisation receipt (C07, second sentence) — on every document with nested blocks. -/
theorem C07_tree_canonical_no_normalization (env : Env) (lenient : Bool) (name : Str) (nodes : List TNode)
    (hn : isEnvName name = true) (hne : name ≠ "END".toList) (hok : treeOK nodes)
    (hnfc : ∀ l ∈ splitLines (treeDocText name nodes), env.nfc l = l) :
    ∃ toks reps, tokenize env (treeDocText name nodes) lenient = .ok (toks, reps) ∧ reps.filter isNormalization = [] := by
  refine ⟨_, _, tokenize_tree env lenient name nodes hn hne hok hnfc, ?_⟩
  rw [List.filter_reverse, tree_repsRev_not_norm]
  rfl

/-- **two spaces per level**: the emitted text consists of the envelope line, one line per row of the tree (`treeRows`
pairs every line with the depth of its node: a `KEY::value` line or a `KEY:` header at depth `d`, children at `d + 1`),
`===END===` and the final line end; and the line of a node at depth `d` starts with exactly `2 * d` spaces followed by a
character that is not a space. -/
theorem C03_tree_two_spaces_per_level (env : Env) (name : Str) (pos : Nat → Nat → Nat × Nat) (nodes : List TNode)
    (hn : isEnvName name = true) (hok : treeOK nodes) (hem : treeEmitOK nodes) :
    ∃ text, emit env (treeDoc name pos nodes) = some text ∧
      splitLines text = ("===".toList ++ name ++ "===".toList) :: ((treeRows 0 nodes).map rowText ++ ["===END===".toList, []]) ∧
      ∀ r ∈ treeRows 0 nodes,
        takeWhile (· == ' ') (rowText r) = (List.replicate (2 * r.1) ' ', r.2) ∧ ∃ c t, r.2 = c :: t ∧ c ≠ ' ' := by
  refine ⟨treeDocText name nodes, emit_tree env name pos nodes hem, splitLines_treeDocText name nodes hn hok, ?_⟩
  intro r hr
  have hb := treeRows_ok nodes 0 hok r hr
  refine ⟨rowText_spaces r hb, ?_⟩
  obtain ⟨_, c, t, h1, h2, _⟩ := hb
  exact ⟨c, t, h1, h2⟩

/-! non-vacuity -/

/-- the document of the task statement:
```
===D===
B:
  X::"1"
  C:
    Y::"s"
Z::true
===END===
``` -/
def exTree : List TNode :=
  [.block "B".toList [.line ⟨"X".toList, .qstr "1".toList⟩, .block "C".toList [.line ⟨"Y".toList, .qstr "s".toList⟩]],
   .line ⟨"Z".toList, .bool true⟩]

example : treeDocText "D".toList exTree = "===D===\nB:\n  X::\"1\"\n  C:\n    Y::\"s\"\nZ::true\n===END===\n".toList := by decide

theorem exTree_ok : treeOK exTree := by
  simp only [exTree, treeOK, TNode.OK, FLine.OK, FScalar.OK]
  decide

/-- the lexer theorem applies to it, and the model computes the same token list. -/
example : tokenize Env.ascii (treeDocText "D".toList exTree) false = .ok (treeDocToks "D".toList exTree, []) :=
  C01_tree_lexes Env.ascii false "D".toList exTree (by decide) (by decide) exTree_ok (fun _ _ => rfl)

example : (treeDocToks "D".toList exTree).map Token.tv =
    [(.envelopeStart, .str "D".toList), (.newline, .str ['\n']),
     (.identifier, .str "B".toList), (.block, .str [':']), (.newline, .str ['\n']),
     (.indent, .nat 2), (.identifier, .str "X".toList), (.assign, .str "::".toList), (.string, .str "1".toList), (.newline, .str ['\n']),
     (.indent, .nat 2), (.identifier, .str "C".toList), (.block, .str [':']), (.newline, .str ['\n']),
     (.indent, .nat 4), (.identifier, .str "Y".toList), (.assign, .str "::".toList), (.string, .str "s".toList), (.newline, .str ['\n']),
     (.identifier, .str "Z".toList), (.assign, .str "::".toList), (.boolean, .bool true), (.newline, .str ['\n']),
     (.envelopeEnd, .str "END".toList), (.newline, .str ['\n']), (.eof, .none)] := by decide

/-- a tree the emitter spells exactly so (every scalar kind, depth 3, an empty block, a block after a deeper block). -/
def exTree2 : List TNode :=
  [.block "B".toList [.line ⟨"X".toList, .qstr "1".toList⟩,
      .block "C".toList [.line ⟨"Y".toList, .qstr "s \"t\" → u".toList⟩, .block "D.e".toList [.line ⟨"W".toList, .null⟩], .line ⟨"V".toList, .bare "word".toList⟩],
      .block "EMPTY".toList [],
      .line ⟨"U".toList, .bool false⟩],
   .line ⟨"Z".toList, .bool true⟩,
   .block "LAST".toList [.line ⟨"T".toList, .qstr [] ⟩]]

theorem exTree2_ok : treeOK exTree2 := by
  simp only [exTree2, treeOK, TNode.OK, FLine.OK, FScalar.OK]
  decide

theorem exTree2_emit : treeEmitOK exTree2 := by
  simp only [exTree2, treeEmitOK, TNode.EmitOK, FLine.EmitOK]
  decide

example : ∃ text reps, emit Env.ascii (treeDoc "DOC".toList (fun i d => (i + 2, 1 + 2 * d)) exTree2) = some text ∧
    tokenize Env.ascii text true = .ok (treeDocToks "DOC".toList exTree2, reps) ∧ reps.filter isNormalization = [] := by
  obtain ⟨t, r, h1, h2, _, _, h5⟩ := C01_tree_emit_then_lex Env.ascii true "DOC".toList (fun i d => (i + 2, 1 + 2 * d)) exTree2
    (by decide) (by decide) exTree2_ok exTree2_emit (fun _ _ => rfl)
  exact ⟨t, r, h1, h2, h5⟩

example : ∃ text, emit Env.ascii (treeDoc "DOC".toList (fun _ _ => (0, 0)) exTree2) = some text ∧
    ∀ r ∈ treeRows 0 exTree2, takeWhile (· == ' ') (rowText r) = (List.replicate (2 * r.1) ' ', r.2) := by
  obtain ⟨t, h1, _, h3⟩ := C03_tree_two_spaces_per_level Env.ascii "DOC".toList (fun _ _ => (0, 0)) exTree2 (by decide)
    exTree2_ok exTree2_emit
  exact ⟨t, h1, fun r hr => (h3 r hr).1⟩

/-- the rows of the example: depths 0 1 1 2 2 3 2 1 1 0 0 1. -/
example : (treeRows 0 exTree2).map (·.1) = [0, 1, 1, 2, 2, 3, 2, 1, 1, 0, 0, 1] := by decide

end Octave.C01
