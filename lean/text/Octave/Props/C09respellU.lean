/-
C09 (reader half), continued — the families `Props/C09respell` lists under "not proved": COMMENTS, META + SECTIONS (the unified
document class D of `Props/C01document`), and the UNIFIED SPELLINGS (class U of `Props/C01unified`: list layouts, operator
aliases and `#` markers inside blocks and sections at any depth).  Same vocabulary as `Props/C09respell`: `respellContent`,
`respellContentW`, `Document.content` (`Lemmas/ContentErase`).

  family                                  texts                                   read theorem used                          here
  block trees with comments               `cDocText name nodes trailing`          `C01_ctree_canonical_is_readable`,         `C09_ctree_same_content`,
                                                                                  `C02_ctree_lenient_read_exact`             `C09_ctree_comments_same_content`
  unified documents D (META, sections,    `dDocText name fields nodes trailing`   `C01_document_canonical_read_general`,     `C09_document_same_content`,
   blocks, lines — all with comments)                                             `C02_document_lenient_read_exact`          `C09_document_comments_same_content`
  unified spellings U                     `utDocText hash name ts`                `C01_ut_text_read`,                        `C09_udoc_same_content`,
                                                                                  `C02_ut_lenient_read_exact`                `C09_udoc_vs_canonical`

COMMENTS ARE NOT CONTENT.  `C09_ctree_same_content` / `C09_document_same_content`: two documents of the class that differ ONLY
in their comments — any leading comment lines in front of any node (line, block, section) at any depth, any trailing comment
behind any line, any trailing comment lines of the document, on either side, independently (`respellUCNodes n₁ = respellUCNodes
n₂`: the forests agree once every comment is forgotten) — are read, by `parse` and by `parse_with_warnings`, as documents with
the same `Document.content`; that content is given explicitly (`respellUCContent`, `respellUDContent`: no comment occurs in it).
`…_comments_same_content` is the instance asked for: the canonical text WITH its comments against the canonical text of the
same document with EVERY comment removed (`respellUCStrip`, `respellUDStrip`, trailing comments `[]`).

What "comment" means here: comments ATTACHED to nodes — `leading_comments` of assignments / blocks / sections,
`trailing_comment` of assignments — and the document's `trailing_comments`.  These are what the classes C / D contain and what
`Node.erase` / `Document.content` erase.  ORPHAN comments — a comment line at the end of a block's body with no node behind it
— are read as `Comment` NODES among the block's children (`Props/C02orphans`, parser half only: the lexer half of this engine
has no class with orphans); `Node.erase` KEEPS a `.comment` node (mirror of the validator's `other`), so a text with an orphan
comment and the text without it do NOT have the same content in the sense of `Document.content` (evaluated below on literal
texts: `respellSameContentB … = false`).  The theorems here therefore say nothing about orphans; whether the validator ignores
`other` children is a statement about the validator, not about the reader.

The one restriction (the respeller restriction of notes/C09.md): the first top-level node keyed `META` (a line or a block) in a
document WITHOUT META fields.  A comment line above it hides it from `parse_document`'s META test; without the comment the
reader takes it for the META block (a block) or raises E001 (a line).  So removing comments there changes the content, and the
hypothesis is stated on the STRIPPED forest (`firstIsBareMeta (respellUCStrip nodes) = false`,
`(fields.isEmpty && firstIsMeta (respellUDStrip nodes)) = false`) — it implies the hypothesis of the read theorem on the
commented forest (`respellU_cmeta_of_strip`, `respellU_dmeta_of_strip`).  Evaluated at the excluded point at the end of
`Props/C09respell` (`// c` + `META:` against `META:`: different content).

UNIFIED SPELLINGS.  `C09_udoc_same_content`: any two spellings `ts₁ ts₂ : List UT` of one document of class U
(`utContent ts₁ = utContent ts₂`) under any two marker spellings (`§` / `#`) are read as documents with the same content
`respellUUContent name (utContent ts₁)`; `C09_udoc_vs_canonical`: a spelling against the canonical text `uDocText`.

THE COMPOSITION.  `SpellsU env s c` := `Spells env s c` (the families of `Props/C09respell`) or one of the three families
above (`SpellsNew`); `C09_respellU_invariant`, `C09_respellU_invariant_lenient`, `C09_respellU_invariant_map`,
`respellU_spells_unique`: the statements of `Props/C09respell` over `SpellsU` — for any validator that is a function of content
and any two texts spelling the same content (from ANY two families, old or new) both readers accept both and the verdicts are
equal.  `respellU_ccontent_eq_tree`, `respellU_dcontent_of_ctree`, `respellU_ucontent_of_tree`: the content functions agree on
the common documents (a commented tree is a tree; a tree is a D document without fields and sections; a tree is a U document of
scalar lines), so a commented text can be compared with an indentation spelling, a D text with a U spelling, and so on.

Hypotheses: exactly those of the read theorems used, for each of the two texts (`isEnvName name`, `name ≠ "END"`, `ctreeOK` /
`forestOK` / `utOK`, `CommentOK` of the trailing comments, META-first, NFC stability of each text, `hsec` / `OpEnv` where the
class asks for them).  No `Nodup` on META keys (the general read theorem is used: `meta` = `MetaParse.metaDict`, the same
function of the fields for both texts), no `EmitOK` (nothing is emitted).
-/
import Octave.Props.C09respell
import Octave.Props.C01ctree
import Octave.Props.C01document
import Octave.Props.C01unified
namespace Octave.C09
open Octave Lexer Emitter

/-! ### block trees with comments (class C of `Props/C01ctree`) -/

section ctree
open C01

mutual
/-- content of a commented tree: assignments and blocks — keys, nesting, order, values; NO comment. -/
def respellUCNode : CNode → Node
  | .line ln _ _ => .assign ln.key ln.v.value 0 0 [] none
  | .block key cs _ => .block key (respellUCNodes cs) 0 0 [] none
def respellUCNodes : List CNode → List Node
  | [] => []
  | n :: ns => respellUCNode n :: respellUCNodes ns
end

def respellUCContent (name : Str) (nodes : List CNode) : Document := { name := name, sections := respellUCNodes nodes }

mutual
/-- the same tree with every comment removed. -/
def respellUCStripNode : CNode → CNode
  | .line ln _ _ => .line ln [] none
  | .block key cs _ => .block key (respellUCStrip cs) []
def respellUCStrip : List CNode → List CNode
  | [] => []
  | n :: ns => respellUCStripNode n :: respellUCStrip ns
end

mutual
/-- the underlying block tree (`TNode` of `Props/C01tree`, the class of `C09_tree_same_content`). -/
def respellUCToTNode : CNode → TNode
  | .line ln _ _ => .line ln
  | .block key cs _ => .block key (respellUCToT cs)
def respellUCToT : List CNode → List TNode
  | [] => []
  | n :: ns => respellUCToTNode n :: respellUCToT ns
end

mutual
theorem respellU_cnode_strip : ∀ n : CNode, respellUCNode (respellUCStripNode n) = respellUCNode n
  | .line _ _ _ => rfl
  | .block key cs _ => by simp only [respellUCStripNode, respellUCNode, respellU_cnodes_strip cs]
/-- removing the comments does not change the content. -/
theorem respellU_cnodes_strip : ∀ ns : List CNode, respellUCNodes (respellUCStrip ns) = respellUCNodes ns
  | [] => rfl
  | n :: ns => by simp only [respellUCStrip, respellUCNodes, respellU_cnode_strip n, respellU_cnodes_strip ns]
end

mutual
theorem respellU_cnode_eq_tree : ∀ n : CNode, respellUCNode n = respellTreeNode (respellUCToTNode n)
  | .line _ _ _ => by simp only [respellUCNode, respellUCToTNode, respellTreeNode]
  | .block key cs _ => by simp only [respellUCNode, respellUCToTNode, respellTreeNode, respellU_cnodes_eq_tree cs]
theorem respellU_cnodes_eq_tree : ∀ ns : List CNode, respellUCNodes ns = respellTreeNodes (respellUCToT ns)
  | [] => by simp only [respellUCNodes, respellUCToT, respellTreeNodes]
  | n :: ns => by
    simp only [respellUCNodes, respellUCToT, respellTreeNodes, respellU_cnode_eq_tree n, respellU_cnodes_eq_tree ns]
end

/-- the content of a commented tree is the content of the tree (the content function of `C09_tree_same_content` /
`C09_indent_same_content`): a commented text and an indentation spelling of the same tree can be compared through `SpellsU`. -/
theorem respellU_ccontent_eq_tree (name : Str) (nodes : List CNode) :
    respellUCContent name nodes = respellTreeContent name (respellUCToT nodes) := by
  simp only [respellUCContent, respellTreeContent, respellU_cnodes_eq_tree]

mutual
/-- an AST that carries a commented tree (`ctreeMatches`: the conclusion of the C-class read theorems — every comment at its
node) has the content of the tree: erasure drops exactly the comments and the positions. -/
theorem respellU_erase_of_cmatches : ∀ (t : CNode) (n : Node), t.Matches n → n.erase = respellUCNode t
  | .line ln lead trail, n, h => by
    simp only [CNode.Matches] at h
    obtain ⟨l, c, rfl⟩ := h
    simp only [Node.erase_assign, respellUCNode]
  | .block key cs lead, n, h => by
    simp only [CNode.Matches] at h
    obtain ⟨ch, l, c, rfl, hm⟩ := h
    simp only [Node.erase, respellUCNode, respellU_eraseList_of_cmatches cs ch hm]
theorem respellU_eraseList_of_cmatches : ∀ (ts : List CNode) (ns : List Node), ctreeMatches ts ns →
    Node.eraseList ns = respellUCNodes ts
  | [], ns, h => by
    simp only [ctreeMatches] at h
    subst h; rfl
  | t :: ts, ns, h => by
    simp only [ctreeMatches] at h
    obtain ⟨n, ns', rfl, hm, hr⟩ := h
    simp only [Node.eraseList, respellUCNodes, respellU_erase_of_cmatches t n hm, respellU_eraseList_of_cmatches ts ns' hr]
end

/-- neither the positions nor the comments of the nodes nor the document's trailing comments are part of the content. -/
theorem respellU_cDoc_content (name : Str) (pos : Nat → Nat → Nat × Nat) (nodes : List CNode) (trailing : List Str) :
    (cDoc name pos nodes trailing).content = respellUCContent name nodes := by
  simp only [Document.content, cDoc, respellUCContent, MetaVal.erasePairs,
    respellU_eraseList_of_cmatches nodes _ (ctreeNodes_matches pos nodes 0 0)]

/-- **one commented text**: both entry points read a document whose content is `respellUCContent name nodes` — no trace of
any comment. -/
theorem respellU_ctree_content (env : Env) (name : Str) (nodes : List CNode) (trailing : List Str)
    (hn : isEnvName name = true) (hne : name ≠ "END".toList) (hok : ctreeOK env nodes)
    (htr : ∀ c ∈ trailing, CommentOK env c) (hm : firstIsBareMeta nodes = false)
    (hnfc : ∀ l ∈ splitLines (cDocText name nodes trailing), env.nfc l = l) :
    respellContent (Parser.parse env (cDocText name nodes trailing)) = .ok (respellUCContent name nodes) ∧
    respellContentW (Parser.parseWithWarnings env (cDocText name nodes trailing)) = .ok (respellUCContent name nodes) := by
  rw [C01_ctree_canonical_is_readable env name nodes trailing hn hne hok htr hm hnfc,
    C02_ctree_lenient_read_exact env name nodes trailing hn hne hok htr hm hnfc,
    respellContent_ok, respellContentW_ok, respellU_cDoc_content]
  exact ⟨rfl, rfl⟩

/-- **C09 on commented trees: two documents that differ only in their comments are read as documents with the same content.**
`nodes₁` and `nodes₂` are the same tree (`respellUCNodes` equal: keys, nesting, order, values) with ANY leading comments in
front of any node, ANY trailing comment behind any line and ANY document-trailing comments, chosen independently on the two
sides; by `parse` and by `parse_with_warnings`; neither read fails. -/
theorem C09_ctree_same_content (env : Env) (name : Str) (nodes₁ nodes₂ : List CNode) (tr₁ tr₂ : List Str)
    (hsame : respellUCNodes nodes₁ = respellUCNodes nodes₂)
    (hn : isEnvName name = true) (hne : name ≠ "END".toList)
    (hok₁ : ctreeOK env nodes₁) (hok₂ : ctreeOK env nodes₂)
    (htr₁ : ∀ c ∈ tr₁, CommentOK env c) (htr₂ : ∀ c ∈ tr₂, CommentOK env c)
    (hm₁ : firstIsBareMeta nodes₁ = false) (hm₂ : firstIsBareMeta nodes₂ = false)
    (hnfc₁ : ∀ l ∈ splitLines (cDocText name nodes₁ tr₁), env.nfc l = l)
    (hnfc₂ : ∀ l ∈ splitLines (cDocText name nodes₂ tr₂), env.nfc l = l) :
    respellContent (Parser.parse env (cDocText name nodes₁ tr₁)) = respellContent (Parser.parse env (cDocText name nodes₂ tr₂)) ∧
    respellContentW (Parser.parseWithWarnings env (cDocText name nodes₁ tr₁))
      = respellContentW (Parser.parseWithWarnings env (cDocText name nodes₂ tr₂)) ∧
    respellContent (Parser.parse env (cDocText name nodes₁ tr₁)) = .ok (respellUCContent name nodes₁) := by
  have h1 := respellU_ctree_content env name nodes₁ tr₁ hn hne hok₁ htr₁ hm₁ hnfc₁
  have h2 := respellU_ctree_content env name nodes₂ tr₂ hn hne hok₂ htr₂ hm₂ hnfc₂
  have e : respellUCContent name nodes₂ = respellUCContent name nodes₁ := by simp only [respellUCContent, hsame]
  rw [e] at h2
  exact ⟨by rw [h1.1, h2.1], by rw [h1.2, h2.2], h1.1⟩

mutual
theorem respellU_cnode_strip_ok (env : Env) : ∀ n : CNode, n.OK env → (respellUCStripNode n).OK env
  | .line ln lead trail, h => by
    simp only [CNode.OK] at h
    simp only [respellUCStripNode, CNode.OK]
    exact ⟨h.1, (fun _ hc => by cases hc), trivial⟩
  | .block key cs lead, h => by
    simp only [CNode.OK] at h
    simp only [respellUCStripNode, CNode.OK]
    exact ⟨h.1, h.2.1, (fun _ hc => by cases hc), respellU_ctree_strip_ok env cs h.2.2.2⟩
/-- the stripped tree is in the class whenever the commented one is. -/
theorem respellU_ctree_strip_ok (env : Env) : ∀ ns : List CNode, ctreeOK env ns → ctreeOK env (respellUCStrip ns)
  | [], _ => by simp only [respellUCStrip, ctreeOK]
  | n :: ns, h => by
    simp only [ctreeOK] at h
    simp only [respellUCStrip, ctreeOK]
    exact ⟨respellU_cnode_strip_ok env n h.1, respellU_ctree_strip_ok env ns h.2⟩
end

/-- if the stripped tree does not begin with a node keyed `META`, the commented one does not begin with a BARE such node. -/
theorem respellU_cmeta_of_strip (nodes : List CNode) (h : firstIsBareMeta (respellUCStrip nodes) = false) :
    firstIsBareMeta nodes = false := by
  cases nodes with
  | nil => rfl
  | cons n ns =>
    cases n with
    | line ln lead trail =>
      simp only [respellUCStrip, respellUCStripNode, firstIsBareMeta, CNode.lead, CNode.key, List.isEmpty_nil, Bool.true_and] at h
      simp only [firstIsBareMeta, CNode.lead, CNode.key, h, Bool.and_false]
    | block key cs lead =>
      simp only [respellUCStrip, respellUCStripNode, firstIsBareMeta, CNode.lead, CNode.key, List.isEmpty_nil, Bool.true_and] at h
      simp only [firstIsBareMeta, CNode.lead, CNode.key, h, Bool.and_false]

/-- **C09, comments are not content (commented trees): the canonical text of a document WITH its comments and the canonical
text of the same document with EVERY comment removed — leading, trailing, document-trailing — are read as documents with the
same content**, by `parse` and by `parse_with_warnings`.  `hm`: the first top-level node is not keyed `META` (with a comment
above it the reader sees an ordinary node, without it the META block: the one place where a comment is content-relevant). -/
theorem C09_ctree_comments_same_content (env : Env) (name : Str) (nodes : List CNode) (trailing : List Str)
    (hn : isEnvName name = true) (hne : name ≠ "END".toList) (hok : ctreeOK env nodes)
    (htr : ∀ c ∈ trailing, CommentOK env c) (hm : firstIsBareMeta (respellUCStrip nodes) = false)
    (hnfc : ∀ l ∈ splitLines (cDocText name nodes trailing), env.nfc l = l)
    (hnfc0 : ∀ l ∈ splitLines (cDocText name (respellUCStrip nodes) []), env.nfc l = l) :
    respellContent (Parser.parse env (cDocText name nodes trailing))
      = respellContent (Parser.parse env (cDocText name (respellUCStrip nodes) [])) ∧
    respellContentW (Parser.parseWithWarnings env (cDocText name nodes trailing))
      = respellContentW (Parser.parseWithWarnings env (cDocText name (respellUCStrip nodes) [])) ∧
    respellContent (Parser.parse env (cDocText name nodes trailing)) = .ok (respellUCContent name nodes) :=
  C09_ctree_same_content env name nodes (respellUCStrip nodes) trailing [] (respellU_cnodes_strip nodes).symm hn hne hok
    (respellU_ctree_strip_ok env nodes hok) htr (fun _ hc => by cases hc) (respellU_cmeta_of_strip nodes hm) hm hnfc hnfc0

end ctree

/-! ### unified documents D (`Props/C01document`): META, sections, blocks, lines — comments everywhere -/

section document
open C01 Octave.D

mutual
/-- content of a body forest of class D: assignments, blocks and sections — keys, ids, names, nesting, order, values; NO
comment. -/
def respellUDNode : DNode → Node
  | .line ln _ _ => .assign ln.key ln.v.value 0 0 [] none
  | .block key cs _ => .block key (respellUDNodes cs) 0 0 [] none
  | .sect id key cs _ => .sect id.text key none (respellUDNodes cs) 0 0 []
def respellUDNodes : List DNode → List Node
  | [] => []
  | n :: ns => respellUDNode n :: respellUDNodes ns
end

/-- content of a document of class D: the name, `meta` (the dict the reader builds from the fields: a function of the fields
alone), the body's content. -/
def respellUDContent (name : Str) (fields : List FLine) (nodes : List DNode) : Document :=
  { name := name, metaKv := MetaParse.metaDict [] (fieldsToP fields), sections := respellUDNodes nodes }

mutual
/-- the same forest with every comment removed. -/
def respellUDStripNode : DNode → DNode
  | .line ln _ _ => .line ln [] none
  | .block key cs _ => .block key (respellUDStrip cs) []
  | .sect id key cs _ => .sect id key (respellUDStrip cs) []
def respellUDStrip : List DNode → List DNode
  | [] => []
  | n :: ns => respellUDStripNode n :: respellUDStrip ns
end

mutual
theorem respellU_dnode_strip : ∀ n : DNode, respellUDNode (respellUDStripNode n) = respellUDNode n
  | .line _ _ _ => rfl
  | .block key cs _ => by simp only [respellUDStripNode, respellUDNode, respellU_dnodes_strip cs]
  | .sect id key cs _ => by simp only [respellUDStripNode, respellUDNode, respellU_dnodes_strip cs]
/-- removing the comments does not change the content. -/
theorem respellU_dnodes_strip : ∀ ns : List DNode, respellUDNodes (respellUDStrip ns) = respellUDNodes ns
  | [] => rfl
  | n :: ns => by simp only [respellUDStrip, respellUDNodes, respellU_dnode_strip n, respellU_dnodes_strip ns]
end

mutual
/-- an AST that carries a forest of class D (`forestMatches`: every comment at its node, sections included) has the content of
the forest. -/
theorem respellU_erase_of_dmatches : ∀ (t : DNode) (n : Node), t.Matches n → n.erase = respellUDNode t
  | .line ln lead trail, n, h => by
    simp only [DNode.Matches] at h
    obtain ⟨l, c, rfl⟩ := h
    simp only [Node.erase_assign, respellUDNode]
  | .block key cs lead, n, h => by
    simp only [DNode.Matches] at h
    obtain ⟨ch, l, c, rfl, hm⟩ := h
    simp only [Node.erase, respellUDNode, respellU_eraseList_of_dmatches cs ch hm]
  | .sect id key cs lead, n, h => by
    simp only [DNode.Matches] at h
    obtain ⟨ch, l, c, rfl, hm⟩ := h
    simp only [Node.erase, respellUDNode, respellU_eraseList_of_dmatches cs ch hm]
theorem respellU_eraseList_of_dmatches : ∀ (ts : List DNode) (ns : List Node), forestMatches ts ns →
    Node.eraseList ns = respellUDNodes ts
  | [], ns, h => by
    simp only [forestMatches] at h
    subst h; rfl
  | t :: ts, ns, h => by
    simp only [forestMatches] at h
    obtain ⟨n, ns', rfl, hm, hr⟩ := h
    simp only [Node.eraseList, respellUDNodes, respellU_erase_of_dmatches t n hm, respellU_eraseList_of_dmatches ts ns' hr]
end

/-- the document the reader returns for a text of class D has the content `respellUDContent`: positions, the comments of every
node and the document's trailing comments are gone; `meta` is untouched (it has no comment slot). -/
theorem respellU_dDocRead_content (name : Str) (fields : List FLine) (nodes : List DNode) (trailing : List Str) :
    (dDocRead name fields nodes trailing).content = respellUDContent name fields nodes := by
  simp only [Document.content, dDocRead, respellUDContent, MetaVal.erasePairs_id,
    respellU_eraseList_of_dmatches nodes _ (forestNodes_matches canonPos nodes (metaLines fields) 0)]

/-- **one text of class D**: both entry points read a document whose content is `respellUDContent name fields nodes`. -/
theorem respellU_document_content (env : Env) (name : Str) (fields : List FLine) (nodes : List DNode) (trailing : List Str)
    (hsec : env.isDigit '§' = false)
    (hn : isEnvName name = true) (hne : name ≠ "END".toList) (hf : ∀ ln ∈ fields, ln.OK) (hok : forestOK env nodes)
    (htr : ∀ c ∈ trailing, CommentOK env c) (hm : (fields.isEmpty && firstIsMeta nodes) = false)
    (hnfc : ∀ l ∈ splitLines (dDocText name fields nodes trailing), env.nfc l = l) :
    respellContent (Parser.parse env (dDocText name fields nodes trailing)) = .ok (respellUDContent name fields nodes) ∧
    respellContentW (Parser.parseWithWarnings env (dDocText name fields nodes trailing))
      = .ok (respellUDContent name fields nodes) := by
  rw [C01_document_canonical_read_general env name fields nodes trailing hsec hn hne hf hok htr hm hnfc,
    C02_document_lenient_read_exact env name fields nodes trailing hsec hn hne hf hok htr hm hnfc,
    respellContent_ok, respellContentW_ok, respellU_dDocRead_content]
  exact ⟨rfl, rfl⟩

/-- **C09 on unified documents D: two documents that differ only in their comments are read as documents with the same
content.**  The same META fields; `nodes₁` and `nodes₂` the same forest of lines, blocks and sections (`respellUDNodes` equal)
with ANY leading comments in front of any line / block / section at any depth, ANY trailing comment behind any line, ANY
document-trailing comments, independently on the two sides; by `parse` and by `parse_with_warnings`; neither read fails. -/
theorem C09_document_same_content (env : Env) (name : Str) (fields : List FLine) (nodes₁ nodes₂ : List DNode)
    (tr₁ tr₂ : List Str) (hsame : respellUDNodes nodes₁ = respellUDNodes nodes₂) (hsec : env.isDigit '§' = false)
    (hn : isEnvName name = true) (hne : name ≠ "END".toList) (hf : ∀ ln ∈ fields, ln.OK)
    (hok₁ : forestOK env nodes₁) (hok₂ : forestOK env nodes₂)
    (htr₁ : ∀ c ∈ tr₁, CommentOK env c) (htr₂ : ∀ c ∈ tr₂, CommentOK env c)
    (hm₁ : (fields.isEmpty && firstIsMeta nodes₁) = false) (hm₂ : (fields.isEmpty && firstIsMeta nodes₂) = false)
    (hnfc₁ : ∀ l ∈ splitLines (dDocText name fields nodes₁ tr₁), env.nfc l = l)
    (hnfc₂ : ∀ l ∈ splitLines (dDocText name fields nodes₂ tr₂), env.nfc l = l) :
    respellContent (Parser.parse env (dDocText name fields nodes₁ tr₁))
      = respellContent (Parser.parse env (dDocText name fields nodes₂ tr₂)) ∧
    respellContentW (Parser.parseWithWarnings env (dDocText name fields nodes₁ tr₁))
      = respellContentW (Parser.parseWithWarnings env (dDocText name fields nodes₂ tr₂)) ∧
    respellContent (Parser.parse env (dDocText name fields nodes₁ tr₁)) = .ok (respellUDContent name fields nodes₁) := by
  have h1 := respellU_document_content env name fields nodes₁ tr₁ hsec hn hne hf hok₁ htr₁ hm₁ hnfc₁
  have h2 := respellU_document_content env name fields nodes₂ tr₂ hsec hn hne hf hok₂ htr₂ hm₂ hnfc₂
  have e : respellUDContent name fields nodes₂ = respellUDContent name fields nodes₁ := by simp only [respellUDContent, hsame]
  rw [e] at h2
  exact ⟨by rw [h1.1, h2.1], by rw [h1.2, h2.2], h1.1⟩

mutual
theorem respellU_dnode_strip_ok (env : Env) : ∀ n : DNode, n.OK env → (respellUDStripNode n).OK env
  | .line ln lead trail, h => by
    simp only [DNode.OK] at h
    simp only [respellUDStripNode, DNode.OK]
    exact ⟨h.1, (fun _ hc => by cases hc), trivial⟩
  | .block key cs lead, h => by
    simp only [DNode.OK] at h
    simp only [respellUDStripNode, DNode.OK]
    exact ⟨h.1, h.2.1, (fun _ hc => by cases hc), respellU_forest_strip_ok env cs h.2.2.2⟩
  | .sect id key cs lead, h => by
    simp only [DNode.OK] at h
    simp only [respellUDStripNode, DNode.OK]
    exact ⟨h.1, h.2.1, h.2.2.1, (fun _ hc => by cases hc), respellU_forest_strip_ok env cs h.2.2.2.2⟩
/-- the stripped forest is in the class whenever the commented one is. -/
theorem respellU_forest_strip_ok (env : Env) : ∀ ns : List DNode, forestOK env ns → forestOK env (respellUDStrip ns)
  | [], _ => by simp only [respellUDStrip, forestOK]
  | n :: ns, h => by
    simp only [forestOK] at h
    simp only [respellUDStrip, forestOK]
    exact ⟨respellU_dnode_strip_ok env n h.1, respellU_forest_strip_ok env ns h.2⟩
end

/-- if the stripped body does not begin with a line / block keyed `META`, the commented one does not begin with a BARE one. -/
theorem respellU_dmeta_of_strip (nodes : List DNode) (h : firstIsMeta (respellUDStrip nodes) = false) :
    firstIsMeta nodes = false := by
  cases nodes with
  | nil => rfl
  | cons n ns =>
    cases n with
    | line ln lead trail =>
      simp only [respellUDStrip, respellUDStripNode, firstIsMeta, List.isEmpty_nil, Bool.true_and] at h
      simp only [firstIsMeta, h, Bool.and_false]
    | block key cs lead =>
      simp only [respellUDStrip, respellUDStripNode, firstIsMeta, List.isEmpty_nil, Bool.true_and] at h
      simp only [firstIsMeta, h, Bool.and_false]
    | sect id key cs lead => rfl

/-- **C09, comments are not content (unified documents D): the canonical text of a document WITH its comments — leading
comments of lines, blocks and sections at any depth, trailing comments of lines, the document's trailing comments — and the
canonical text of the same document with EVERY comment removed are read as documents with the same content**, by `parse` and
by `parse_with_warnings`.  `hm`: when there is no META field, the first body node is not a line or block keyed `META`
(commented or not: without the comment the reader would take it for the META block). -/
theorem C09_document_comments_same_content (env : Env) (name : Str) (fields : List FLine) (nodes : List DNode)
    (trailing : List Str) (hsec : env.isDigit '§' = false)
    (hn : isEnvName name = true) (hne : name ≠ "END".toList) (hf : ∀ ln ∈ fields, ln.OK) (hok : forestOK env nodes)
    (htr : ∀ c ∈ trailing, CommentOK env c) (hm : (fields.isEmpty && firstIsMeta (respellUDStrip nodes)) = false)
    (hnfc : ∀ l ∈ splitLines (dDocText name fields nodes trailing), env.nfc l = l)
    (hnfc0 : ∀ l ∈ splitLines (dDocText name fields (respellUDStrip nodes) []), env.nfc l = l) :
    respellContent (Parser.parse env (dDocText name fields nodes trailing))
      = respellContent (Parser.parse env (dDocText name fields (respellUDStrip nodes) [])) ∧
    respellContentW (Parser.parseWithWarnings env (dDocText name fields nodes trailing))
      = respellContentW (Parser.parseWithWarnings env (dDocText name fields (respellUDStrip nodes) [])) ∧
    respellContent (Parser.parse env (dDocText name fields nodes trailing)) = .ok (respellUDContent name fields nodes) := by
  have hm' : (fields.isEmpty && firstIsMeta nodes) = false := by
    cases hfe : fields.isEmpty with
    | false => rfl
    | true =>
      rw [hfe, Bool.true_and] at hm
      rw [Bool.true_and]; exact respellU_dmeta_of_strip nodes hm
  exact C09_document_same_content env name fields nodes (respellUDStrip nodes) trailing [] (respellU_dnodes_strip nodes).symm hsec
    hn hne hf hok (respellU_forest_strip_ok env nodes hok) htr (fun _ hc => by cases hc) hm' hm hnfc hnfc0

mutual
/-- a commented tree as a forest of class D (no section). -/
def respellUCToDNode : CNode → DNode
  | .line ln lead trail => .line ln lead trail
  | .block key cs lead => .block key (respellUCToD cs) lead
def respellUCToD : List CNode → List DNode
  | [] => []
  | n :: ns => respellUCToDNode n :: respellUCToD ns
end

mutual
theorem respellU_dnode_of_cnode : ∀ n : CNode, respellUDNode (respellUCToDNode n) = respellUCNode n
  | .line _ _ _ => rfl
  | .block key cs _ => by simp only [respellUCToDNode, respellUDNode, respellUCNode, respellU_dnodes_of_ctree cs]
theorem respellU_dnodes_of_ctree : ∀ ns : List CNode, respellUDNodes (respellUCToD ns) = respellUCNodes ns
  | [] => rfl
  | n :: ns => by simp only [respellUCToD, respellUDNodes, respellUCNodes, respellU_dnode_of_cnode n, respellU_dnodes_of_ctree ns]
end

/-- the content functions of the two classes agree on commented trees (a tree is a D document without fields and sections). -/
theorem respellU_dcontent_of_ctree (name : Str) (nodes : List CNode) :
    respellUDContent name [] (respellUCToD nodes) = respellUCContent name nodes := by
  simp only [respellUDContent, respellUCContent, respellU_dnodes_of_ctree]
  rfl

end document

/-! ### unified spellings U (`Props/C01unified`): list layouts, operator aliases, `#` markers — inside blocks and sections -/

section udoc
open C01 Octave.U
open Octave.Expr (OpEnv)

mutual
/-- content of a forest of class U: assignments (scalar / list of scalars / an expression as the string of its canonical text),
blocks, sections. -/
def respellUUNode : UNode → Node
  | .line key v => .assign key v.value 0 0 [] none
  | .block key cs => .block key (respellUUNodes cs) 0 0 [] none
  | .sect id key cs => .sect id.text key none (respellUUNodes cs) 0 0 []
def respellUUNodes : List UNode → List Node
  | [] => []
  | n :: ns => respellUUNode n :: respellUUNodes ns
end

def respellUUContent (name : Str) (nodes : List UNode) : Document := { name := name, sections := respellUUNodes nodes }

mutual
/-- an AST that carries a forest of class U "up to positions" (`unodesMatch`) has the forest's content. -/
theorem respellU_erase_of_umatches : ∀ (t : UNode) (n : Node), t.Matches n → n.erase = respellUUNode t
  | .line key v, n, h => by
    simp only [UNode.Matches] at h
    obtain ⟨l, c, rfl⟩ := h
    simp only [Node.erase_assign, respellUUNode]
  | .block key cs, n, h => by
    simp only [UNode.Matches] at h
    obtain ⟨ch, l, c, rfl, hm⟩ := h
    simp only [Node.erase, respellUUNode, respellU_eraseList_of_umatches cs ch hm]
  | .sect id key cs, n, h => by
    simp only [UNode.Matches] at h
    obtain ⟨ch, l, c, rfl, hm⟩ := h
    simp only [Node.erase, respellUUNode, respellU_eraseList_of_umatches cs ch hm]
theorem respellU_eraseList_of_umatches : ∀ (ts : List UNode) (ns : List Node), unodesMatch ts ns →
    Node.eraseList ns = respellUUNodes ts
  | [], ns, h => by
    simp only [unodesMatch] at h
    subst h; rfl
  | t :: ts, ns, h => by
    simp only [unodesMatch] at h
    obtain ⟨n, ns', rfl, hm, hr⟩ := h
    simp only [Node.eraseList, respellUUNodes, respellU_erase_of_umatches t n hm, respellU_eraseList_of_umatches ts ns' hr]
end

/-- the document read from a spelled text has the content of the forest it spells: neither the layout of a list, nor the
spelling of an operator, nor the marker, nor the line a node starts on is part of it. -/
theorem respellU_utDocAt_content (name : Str) (ts : List UT) :
    (utDocAt name ts).content = respellUUContent name (utContent ts) := by
  simp only [Document.content, utDocAt, respellUUContent, MetaVal.erasePairs,
    respellU_eraseList_of_umatches _ _ (utNodesAt_match ts 0 2)]

/-- **one spelling**: both entry points read a document whose content is `respellUUContent name (utContent ts)`. -/
theorem respellU_udoc_content (env : Env) (hash : Bool) (name : Str) (ts : List UT)
    (he : utHasExpr ts = true → OpEnv env) (hsec : hash = false → utHasSect ts = true → env.isDigit '§' = false)
    (hn : isEnvName name = true) (hne : name ≠ "END".toList) (hok : utOK ts)
    (hm : utFirstKeyIsMeta ts = false) (hnfc : ∀ l ∈ splitLines (utDocText hash name ts), env.nfc l = l) :
    respellContent (Parser.parse env (utDocText hash name ts)) = .ok (respellUUContent name (utContent ts)) ∧
    respellContentW (Parser.parseWithWarnings env (utDocText hash name ts)) = .ok (respellUUContent name (utContent ts)) := by
  rw [C01_ut_text_read env hash name ts he hsec hn hne hok hm hnfc,
    C02_ut_lenient_read_exact env hash name ts he hsec hn hne hok hm hnfc,
    respellContent_ok, respellContentW_ok, respellU_utDocAt_content]
  exact ⟨rfl, rfl⟩

/-- **C09 on unified documents U: any two spellings of the same document are read as documents with the same content** —
inside blocks and sections at any depth: every list on one line or one item per line behind any number of spaces with the
closing bracket behind any number of spaces, every operator occurrence in Unicode, as its ASCII alias or `vs` with any spaces
around it, the section markers `§` or `#` — chosen independently on the two sides; by `parse` and by `parse_with_warnings`;
neither read fails.  (The read theorem underneath `C03_udoc_spellings_converge`; no `EmitOK` hypothesis.) -/
theorem C09_udoc_same_content (env : Env) (h₁ h₂ : Bool) (name : Str) (ts₁ ts₂ : List UT)
    (hsame : utContent ts₁ = utContent ts₂)
    (he₁ : utHasExpr ts₁ = true → OpEnv env) (he₂ : utHasExpr ts₂ = true → OpEnv env)
    (hsec₁ : h₁ = false → utHasSect ts₁ = true → env.isDigit '§' = false)
    (hsec₂ : h₂ = false → utHasSect ts₂ = true → env.isDigit '§' = false)
    (hn : isEnvName name = true) (hne : name ≠ "END".toList) (hok₁ : utOK ts₁) (hok₂ : utOK ts₂)
    (hm : utFirstKeyIsMeta ts₁ = false)
    (hnfc₁ : ∀ l ∈ splitLines (utDocText h₁ name ts₁), env.nfc l = l)
    (hnfc₂ : ∀ l ∈ splitLines (utDocText h₂ name ts₂), env.nfc l = l) :
    respellContent (Parser.parse env (utDocText h₁ name ts₁)) = respellContent (Parser.parse env (utDocText h₂ name ts₂)) ∧
    respellContentW (Parser.parseWithWarnings env (utDocText h₁ name ts₁))
      = respellContentW (Parser.parseWithWarnings env (utDocText h₂ name ts₂)) ∧
    respellContent (Parser.parse env (utDocText h₁ name ts₁)) = .ok (respellUUContent name (utContent ts₁)) := by
  have hm₂ : utFirstKeyIsMeta ts₂ = false := by
    rw [← utFirstKeyIsMeta_content, ← hsame, utFirstKeyIsMeta_content]; exact hm
  have c1 := respellU_udoc_content env h₁ name ts₁ he₁ hsec₁ hn hne hok₁ hm hnfc₁
  have c2 := respellU_udoc_content env h₂ name ts₂ he₂ hsec₂ hn hne hok₂ hm₂ hnfc₂
  rw [← hsame] at c2
  exact ⟨by rw [c1.1, c2.1], by rw [c1.2, c2.2], c1.1⟩

mutual
theorem respellU_hasExpr_content : ∀ n : UT, n.content.hasExpr = n.hasExpr
  | .line _ _ _ => rfl
  | .block _ cs => by simp only [UT.content, UNode.hasExpr, UT.hasExpr, respellU_utHasExpr_content cs]
  | .sect _ _ cs => by simp only [UT.content, UNode.hasExpr, UT.hasExpr, respellU_utHasExpr_content cs]
theorem respellU_utHasExpr_content : ∀ ns : List UT, unodesHasExpr (utContent ns) = utHasExpr ns
  | [] => rfl
  | n :: ns => by simp only [utContent, unodesHasExpr, utHasExpr, respellU_hasExpr_content n, respellU_utHasExpr_content ns]
end

mutual
theorem respellU_hasSect_content : ∀ n : UT, n.content.hasSect = n.hasSect
  | .line _ _ _ => rfl
  | .block _ cs => by simp only [UT.content, UNode.hasSect, UT.hasSect, respellU_utHasSect_content cs]
  | .sect _ _ _ => rfl
theorem respellU_utHasSect_content : ∀ ns : List UT, unodesHasSect (utContent ns) = utHasSect ns
  | [] => rfl
  | n :: ns => by simp only [utContent, unodesHasSect, utHasSect, respellU_hasSect_content n, respellU_utHasSect_content ns]
end

/-- … in particular any spelling and the canonical text `uDocText` of the document it spells (the canonical text writes `§`:
`hsec` is asked whenever the document has a section, whatever marker the spelling uses). -/
theorem C09_udoc_vs_canonical (env : Env) (hash : Bool) (name : Str) (ts : List UT)
    (he : utHasExpr ts = true → OpEnv env) (hsec : utHasSect ts = true → env.isDigit '§' = false)
    (hn : isEnvName name = true) (hne : name ≠ "END".toList) (hok : utOK ts)
    (hm : utFirstKeyIsMeta ts = false)
    (hnfc : ∀ l ∈ splitLines (utDocText hash name ts), env.nfc l = l)
    (hnfc0 : ∀ l ∈ splitLines (uDocText name (utContent ts)), env.nfc l = l) :
    respellContent (Parser.parse env (utDocText hash name ts)) = respellContent (Parser.parse env (uDocText name (utContent ts))) ∧
    respellContentW (Parser.parseWithWarnings env (utDocText hash name ts))
      = respellContentW (Parser.parseWithWarnings env (uDocText name (utContent ts))) ∧
    respellContent (Parser.parse env (utDocText hash name ts)) = .ok (respellUUContent name (utContent ts)) :=
  C09_udoc_same_content env hash false name ts (canonTs 0 (utContent ts)) (utContent_canonTs _ 0).symm he
    (by rw [utHasExpr_canonTs, respellU_utHasExpr_content]; exact he) (fun _ => hsec)
    (by rw [utHasSect_canonTs, respellU_utHasSect_content]; exact fun _ => hsec) hn hne hok
    (canonTs_ok _ 0 (utContent_ok ts hok)) hm hnfc hnfc0

mutual
/-- a block tree as a forest of class U (scalar lines, blocks). -/
def respellUTToUNode : TNode → UNode
  | .line ln => .line ln.key (.scalar ln.v)
  | .block key cs => .block key (respellUTToU cs)
def respellUTToU : List TNode → List UNode
  | [] => []
  | n :: ns => respellUTToUNode n :: respellUTToU ns
end

mutual
theorem respellU_unode_of_tnode : ∀ n : TNode, respellUUNode (respellUTToUNode n) = respellTreeNode n
  | .line _ => rfl
  | .block key cs => by simp only [respellUTToUNode, respellUUNode, respellTreeNode, respellU_unodes_of_tree cs]
theorem respellU_unodes_of_tree : ∀ ns : List TNode, respellUUNodes (respellUTToU ns) = respellTreeNodes ns
  | [] => rfl
  | n :: ns => by
    simp only [respellUTToU, respellUUNodes, respellTreeNodes, respellU_unode_of_tnode n, respellU_unodes_of_tree ns]
end

/-- the content functions agree on block trees (a tree is a U document whose values are scalars, without sections). -/
theorem respellU_ucontent_of_tree (name : Str) (nodes : List TNode) :
    respellUUContent name (respellUTToU nodes) = respellTreeContent name nodes := by
  simp only [respellUUContent, respellTreeContent, respellU_unodes_of_tree]

mutual
/-- a forest of class D as a forest of class U, comments forgotten (scalar lines, blocks, sections). -/
def respellUDToUNode : D.DNode → UNode
  | .line ln _ _ => .line ln.key (.scalar ln.v)
  | .block key cs _ => .block key (respellUDToU cs)
  | .sect id key cs _ => .sect id key (respellUDToU cs)
def respellUDToU : List D.DNode → List UNode
  | [] => []
  | n :: ns => respellUDToUNode n :: respellUDToU ns
end

mutual
theorem respellU_unode_of_dnode : ∀ n : D.DNode, respellUUNode (respellUDToUNode n) = respellUDNode n
  | .line _ _ _ => rfl
  | .block key cs _ => by simp only [respellUDToUNode, respellUUNode, respellUDNode, respellU_unodes_of_forest cs]
  | .sect id key cs _ => by simp only [respellUDToUNode, respellUUNode, respellUDNode, respellU_unodes_of_forest cs]
theorem respellU_unodes_of_forest : ∀ ns : List D.DNode, respellUUNodes (respellUDToU ns) = respellUDNodes ns
  | [] => rfl
  | n :: ns => by
    simp only [respellUDToU, respellUUNodes, respellUDNodes, respellU_unode_of_dnode n, respellU_unodes_of_forest ns]
end

/-- the content functions of D and U agree on the documents they share (no META field; scalar values): a commented text
with `§` markers and an uncommented spelling with `#` markers spell the same content. -/
theorem respellU_ucontent_of_forest (name : Str) (nodes : List D.DNode) :
    respellUUContent name (respellUDToU nodes) = respellUDContent name [] nodes := by
  simp only [respellUUContent, respellUDContent, respellU_unodes_of_forest]
  rfl

end udoc

/-! ### the composition over all families -/

section compose
open C01 Octave.D Octave.U
open Octave.Expr (OpEnv)

/-- the three new families, one constructor each, carrying exactly the hypotheses of the family's read theorem; the content is
a function of the document without its comments / without its spelling. -/
inductive SpellsNew (env : Env) : Str → Document → Prop
  | ctree (name : Str) (nodes : List CNode) (trailing : List Str)
      (hn : isEnvName name = true) (hne : name ≠ "END".toList) (hok : ctreeOK env nodes)
      (htr : ∀ c ∈ trailing, CommentOK env c) (hm : firstIsBareMeta nodes = false)
      (hnfc : ∀ l ∈ splitLines (cDocText name nodes trailing), env.nfc l = l) :
      SpellsNew env (cDocText name nodes trailing) (respellUCContent name nodes)
  | document (name : Str) (fields : List FLine) (nodes : List DNode) (trailing : List Str)
      (hsec : env.isDigit '§' = false)
      (hn : isEnvName name = true) (hne : name ≠ "END".toList) (hf : ∀ ln ∈ fields, ln.OK) (hok : forestOK env nodes)
      (htr : ∀ c ∈ trailing, CommentOK env c) (hm : (fields.isEmpty && firstIsMeta nodes) = false)
      (hnfc : ∀ l ∈ splitLines (dDocText name fields nodes trailing), env.nfc l = l) :
      SpellsNew env (dDocText name fields nodes trailing) (respellUDContent name fields nodes)
  | udoc (hash : Bool) (name : Str) (ts : List UT)
      (he : utHasExpr ts = true → OpEnv env) (hsec : hash = false → utHasSect ts = true → env.isDigit '§' = false)
      (hn : isEnvName name = true) (hne : name ≠ "END".toList) (hok : utOK ts)
      (hm : utFirstKeyIsMeta ts = false) (hnfc : ∀ l ∈ splitLines (utDocText hash name ts), env.nfc l = l) :
      SpellsNew env (utDocText hash name ts) (respellUUContent name (utContent ts))

/-- `SpellsU env s c`: the text `s` is, within one of the families of `Props/C09respell` or one of the new families, a
spelling of the document whose content is `c`. -/
def SpellsU (env : Env) (s : Str) (c : Document) : Prop := Spells env s c ∨ SpellsNew env s c

theorem SpellsU.of_spells {env : Env} {s : Str} {c : Document} (h : Spells env s c) : SpellsU env s c := Or.inl h
theorem SpellsU.of_new {env : Env} {s : Str} {c : Document} (h : SpellsNew env s c) : SpellsU env s c := Or.inr h

/-- every spelling is read, by both entry points, as a document with the content it spells. -/
theorem respellU_spells_content (env : Env) (s : Str) (c : Document) (h : SpellsU env s c) :
    respellContent (Parser.parse env s) = .ok c ∧ respellContentW (Parser.parseWithWarnings env s) = .ok c := by
  rcases h with h | h
  · exact respell_spells_content env s c h
  · cases h with
    | ctree name nodes trailing hn hne hok htr hm hnfc => exact respellU_ctree_content env name nodes trailing hn hne hok htr hm hnfc
    | document name fields nodes trailing hsec hn hne hf hok htr hm hnfc =>
      exact respellU_document_content env name fields nodes trailing hsec hn hne hf hok htr hm hnfc
    | udoc hash name ts he hsec hn hne hok hm hnfc => exact respellU_udoc_content env hash name ts he hsec hn hne hok hm hnfc

/-- **C09, reader half composed with a validator, all families: validity is invariant under respelling.**  The statement of
`C09_respell_invariant` over `SpellsU`: for ANY `validate` that depends on content only and any two texts spelling the same
content `c` — from any two families: flat / tree / indentation / list / alias / multi-word spellings, commented trees,
commented documents with META and sections, unified spellings — the strict reader accepts both, the verdicts are equal, and the
documents read have the content `c`. -/
theorem C09_respellU_invariant {α : Type} (env : Env) (validate : Document → α)
    (hcontent : ∀ d₁ d₂ : Document, d₁.content = d₂.content → validate d₁ = validate d₂)
    (s₁ s₂ : Str) (c : Document) (h₁ : SpellsU env s₁ c) (h₂ : SpellsU env s₂ c) :
    ∃ d₁ d₂, Parser.parse env s₁ = .ok d₁ ∧ Parser.parse env s₂ = .ok d₂ ∧ validate d₁ = validate d₂ ∧
      d₁.content = c ∧ d₂.content = c := by
  obtain ⟨d₁, e₁, c₁⟩ := respell_ok_of_content (respellU_spells_content env s₁ c h₁).1
  obtain ⟨d₂, e₂, c₂⟩ := respell_ok_of_content (respellU_spells_content env s₂ c h₂).1
  exact ⟨d₁, d₂, e₁, e₂, hcontent d₁ d₂ (by rw [c₁, c₂]), c₁, c₂⟩

/-- … through the lenient entry point `parse_with_warnings`; and the lenient verdict is the strict reader's verdict. -/
theorem C09_respellU_invariant_lenient {α : Type} (env : Env) (validate : Document → α)
    (hcontent : ∀ d₁ d₂ : Document, d₁.content = d₂.content → validate d₁ = validate d₂)
    (s₁ s₂ : Str) (c : Document) (h₁ : SpellsU env s₁ c) (h₂ : SpellsU env s₂ c) :
    ∃ d₁ r₁ w₁ d₂ r₂ w₂ d₁', Parser.parseWithWarnings env s₁ = .ok (d₁, r₁, w₁) ∧ Parser.parseWithWarnings env s₂ = .ok (d₂, r₂, w₂) ∧
      Parser.parse env s₁ = .ok d₁' ∧ validate d₁ = validate d₂ ∧ validate d₁ = validate d₁' := by
  obtain ⟨d₁, r₁, w₁, e₁, c₁⟩ := respell_ok_of_contentW (respellU_spells_content env s₁ c h₁).2
  obtain ⟨d₂, r₂, w₂, e₂, c₂⟩ := respell_ok_of_contentW (respellU_spells_content env s₂ c h₂).2
  obtain ⟨d₁', e₁', c₁'⟩ := respell_ok_of_content (respellU_spells_content env s₁ c h₁).1
  exact ⟨d₁, r₁, w₁, d₂, r₂, w₂, d₁', e₁, e₂, e₁', hcontent d₁ d₂ (by rw [c₁, c₂]), hcontent d₁ d₁' (by rw [c₁, c₁'])⟩

/-- the same in `Except` form. -/
theorem C09_respellU_invariant_map {α : Type} (env : Env) (validate : Document → α)
    (hcontent : ∀ d₁ d₂ : Document, d₁.content = d₂.content → validate d₁ = validate d₂)
    (s₁ s₂ : Str) (c : Document) (h₁ : SpellsU env s₁ c) (h₂ : SpellsU env s₂ c) :
    (Parser.parse env s₁).map validate = (Parser.parse env s₂).map validate :=
  respell_validate_of_content validate hcontent _ _
    (by rw [(respellU_spells_content env s₁ c h₁).1, (respellU_spells_content env s₂ c h₂).1])

/-- the content a text spells is unique, across all families. -/
theorem respellU_spells_unique (env : Env) (s : Str) (c c' : Document) (h : SpellsU env s c) (h' : SpellsU env s c') : c = c' := by
  have a := (respellU_spells_content env s c h).1
  have b := (respellU_spells_content env s c' h').1
  rw [a] at b
  exact Except.ok.inj b

mutual
theorem respellU_tnodeOK_of_cnodeOK (env : Env) : ∀ n : CNode, n.OK env → (respellUCToTNode n).OK
  | .line ln _ _, h => by
    simp only [CNode.OK] at h
    simp only [respellUCToTNode, TNode.OK]; exact h.1
  | .block key cs _, h => by
    simp only [CNode.OK] at h
    simp only [respellUCToTNode, TNode.OK]
    exact ⟨h.1, h.2.1, respellU_treeOK_of_ctreeOK env cs h.2.2.2⟩
/-- the tree under a commented tree of the class is in the class of `Props/C01tree`. -/
theorem respellU_treeOK_of_ctreeOK (env : Env) : ∀ ns : List CNode, ctreeOK env ns → treeOK (respellUCToT ns)
  | [], _ => by simp only [respellUCToT, treeOK]
  | n :: ns, h => by
    simp only [ctreeOK] at h
    simp only [respellUCToT, treeOK]
    exact ⟨respellU_tnodeOK_of_cnodeOK env n h.1, respellU_treeOK_of_ctreeOK env ns h.2⟩
end

theorem respellU_firstKeyIsMeta_toT (nodes : List CNode) :
    firstKeyIsMeta (respellUCToT nodes) = firstIsBareMeta (respellUCStrip nodes) := by
  cases nodes with
  | nil => rfl
  | cons n ns => cases n <;> rfl

/-- ACROSS the old and the new families: the canonical text of the bare tree under a commented tree (`treeDocText`, the tree
family of `Props/C09respell`) spells the content of the commented tree — so `C09_respellU_invariant` compares a commented text
with every indentation / line spelling of its tree. -/
theorem respellU_spells_tree_of_ctree (env : Env) (name : Str) (nodes : List CNode)
    (hn : isEnvName name = true) (hne : name ≠ "END".toList) (hok : ctreeOK env nodes)
    (hm : firstIsBareMeta (respellUCStrip nodes) = false)
    (hnfc : ∀ l ∈ splitLines (treeDocText name (respellUCToT nodes)), env.nfc l = l) :
    SpellsU env (treeDocText name (respellUCToT nodes)) (respellUCContent name nodes) := by
  have h0 : C03.TreeSpell.fdocText name (C03.canonSList (respellUCToT nodes)) Spell.DSpell.canon
      = treeDocText name (respellUCToT nodes) := by
    rw [C03.fdocText_canon, C03.sdocText_canon]
  have he := C03.erase_canonSList (respellUCToT nodes)
  have := Spells.tree (env := env) name (C03.canonSList (respellUCToT nodes)) Spell.DSpell.canon hn hne
    (by rw [he]; exact respellU_treeOK_of_ctreeOK env nodes hok) (C03.topOk_canonSList _)
    (by rw [he, respellU_firstKeyIsMeta_toT]; exact hm) rfl (by rw [h0]; exact hnfc)
  rw [h0, he, ← respellU_ccontent_eq_tree] at this
  exact Or.inl this

end compose

/-! ### Boolean equality of contents with a META block (for closed `decide` checks) -/

/-- META entries that are plain values (what the classes here produce); `false` on a nested dict. -/
def respellUMetaEq : List (Str × MetaVal) → List (Str × MetaVal) → Bool
  | [], [] => true
  | (k, .val v) :: as, (k', .val v') :: bs => k == k' && respellValEq v v' && respellUMetaEq as bs
  | _, _ => false

theorem respellUMetaEq_sound : ∀ (as bs : List (Str × MetaVal)), respellUMetaEq as bs = true → as = bs
  | [], [], _ => rfl
  | [], _ :: _, h => by simp [respellUMetaEq] at h
  | (_, .val _) :: _, [], h => by simp [respellUMetaEq] at h
  | (_, .dict _) :: _, _, h => by simp [respellUMetaEq] at h
  | (_, .val _) :: _, (_, .dict _) :: _, h => by simp [respellUMetaEq] at h
  | (k, .val v) :: as, (k', .val v') :: bs, h => by
    simp only [respellUMetaEq, Bool.and_eq_true, beq_iff_eq] at h
    rw [h.1.1, respellValEq_sound v v' h.1.2, respellUMetaEq_sound as bs h.2]

def respellUDocEq (a b : Document) : Bool :=
  a.name == b.name && respellUMetaEq a.metaKv b.metaKv && a.hasSeparator == b.hasSeparator &&
  respellNodesEq a.sections b.sections && a.grammarVersion == b.grammarVersion &&
  a.rawFrontmatter == b.rawFrontmatter && a.trailingComments == b.trailingComments

theorem respellUDocEq_sound {a b : Document} (h : respellUDocEq a b = true) : a = b := by
  obtain ⟨n, m, hs, s, g, rf, tc⟩ := a
  obtain ⟨n', m', hs', s', g', rf', tc'⟩ := b
  simp only [respellUDocEq, Bool.and_eq_true, beq_iff_eq] at h
  obtain ⟨⟨⟨⟨⟨⟨h1, h2⟩, h3⟩, h4⟩, h5⟩, h6⟩, h7⟩ := h
  rw [h1, respellUMetaEq_sound m m' h2, h3, respellNodesEq_sound s s' h4, h5, h6, h7]

/-- Boolean test: both reads succeed and the documents have the same content (META included). -/
def respellUSameContentB (r₁ r₂ : Except Exc Document) : Bool :=
  match r₁, r₂ with
  | .ok a, .ok b => respellUDocEq a.content b.content
  | _, _ => false

theorem respellUSameContentB_sound {r₁ r₂ : Except Exc Document} (h : respellUSameContentB r₁ r₂ = true) :
    ∃ d₁ d₂, r₁ = .ok d₁ ∧ r₂ = .ok d₂ ∧ d₁.content = d₂.content := by
  cases r₁ with
  | error e => simp [respellUSameContentB] at h
  | ok a =>
    cases r₂ with
    | error e => simp [respellUSameContentB] at h
    | ok b => exact ⟨a, b, rfl, rfl, respellUDocEq_sound h⟩

/-! ### non-vacuity -/

section examples
open C01 Octave.D Octave.U

/-! #### commented trees: the 9-node tree of `Props/C01comments` (leading comments — an empty one, one starting with `/`,
one full of operators —, trailing comments — the empty one included —, two document-trailing comments) -/

/-- the text with every comment removed. -/
example : cDocText "D".toList (respellUCStrip exC) [] =
    "===D===\nA::1\nB:\n  X::true\n  C:\n    Y::word\n    Z::\"s t\"\n    N::null\n===END===\n".toList := by decide +kernel

/-- the theorem applied. -/
example : respellContent (Parser.parse Env.ascii (cDocText "D".toList exC exTrailing))
      = respellContent (Parser.parse Env.ascii (cDocText "D".toList (respellUCStrip exC) [])) ∧
    respellContentW (Parser.parseWithWarnings Env.ascii (cDocText "D".toList exC exTrailing))
      = respellContentW (Parser.parseWithWarnings Env.ascii (cDocText "D".toList (respellUCStrip exC) [])) ∧
    respellContent (Parser.parse Env.ascii (cDocText "D".toList exC exTrailing)) = .ok (respellUCContent "D".toList exC) :=
  C09_ctree_comments_same_content Env.ascii "D".toList exC exTrailing (by decide) (by decide) exC_ok exTrailing_ok (by decide)
    (fun _ _ => rfl) (fun _ _ => rfl)

/-- the content, written out: no comment, every position 0. -/
example : respellUCContent "D".toList exC =
    { name := "D".toList,
      sections := [ .assign "A".toList (.int 1) 0 0 [] none,
                    .block "B".toList
                      [ .assign "X".toList (.bool true) 0 0 [] none,
                        .block "C".toList [ .assign "Y".toList (.str "word".toList) 0 0 [] none,
                                            .assign "Z".toList (.str "s t".toList) 0 0 [] none,
                                            .assign "N".toList .null 0 0 [] none ] 0 0 [] none ] 0 0 [] none ] } := by
  rfl

/-- the general form: two DIFFERENT commentings of the same tree (comments moved from one node to another, a trailing comment
turned into a leading one, other document-trailing comments). -/
def respellUExC2 : List CNode :=
  [.line ⟨"A".toList, .int 1⟩ [] none,
   .block "B".toList
     [.line ⟨"X".toList, .bool true⟩ [] none,
      .block "C".toList
        [.line ⟨"Y".toList, .bare "word".toList⟩ ["w".toList, "moved".toList] none,
         .line ⟨"Z".toList, .qstr "s t".toList⟩ [] none,
         .line ⟨"N".toList, .null⟩ [[]] (some "n".toList)]
        []]
     ["now on B".toList]]

example : respellContent (Parser.parse Env.ascii (cDocText "D".toList exC exTrailing))
      = respellContent (Parser.parse Env.ascii (cDocText "D".toList respellUExC2 ["other".toList])) :=
  (C09_ctree_same_content Env.ascii "D".toList exC respellUExC2 exTrailing ["other".toList] rfl (by decide) (by decide) exC_ok
    (by simp only [respellUExC2, ctreeOK, CNode.OK, FLine.OK, FScalar.OK]; decide) exTrailing_ok (by decide) (by decide) (by decide)
    (fun _ _ => rfl) (fun _ _ => rfl)).1

/-- the whole model evaluated on the literal texts (independent of the theorems): same content, different documents. -/
example : respellSameContentB (Parser.parse Env.ascii (cDocText "D".toList exC exTrailing))
    (Parser.parse Env.ascii (cDocText "D".toList (respellUCStrip exC) [])) = true := by decide +kernel
example : respellSameContentB (Parser.parse Env.ascii (cDocText "D".toList exC exTrailing))
    (Parser.parse Env.ascii (cDocText "D".toList respellUExC2 ["other".toList])) = true := by decide +kernel
example : respellSameDocB (Parser.parse Env.ascii (cDocText "D".toList exC exTrailing))
    (Parser.parse Env.ascii (cDocText "D".toList (respellUCStrip exC) [])) = false := by decide +kernel
example : respellHasContentB (Parser.parse Env.ascii (cDocText "D".toList exC exTrailing)) (respellUCContent "D".toList exC) = true := by
  decide +kernel

/-- ACROSS old and new families: the commented text and the bare canonical tree text — one content, one verdict. -/
example : ∃ d₁ d₂, Parser.parse Env.ascii (cDocText "D".toList exC exTrailing) = .ok d₁ ∧
    Parser.parse Env.ascii (treeDocText "D".toList (respellUCToT exC)) = .ok d₂ ∧ respellExValidate d₁ = respellExValidate d₂ ∧
    d₁.content = respellUCContent "D".toList exC ∧ d₂.content = respellUCContent "D".toList exC :=
  C09_respellU_invariant Env.ascii respellExValidate respellExValidate_content _ _ _
    (.of_new (.ctree "D".toList exC exTrailing (by decide) (by decide) exC_ok exTrailing_ok (by decide) (fun _ _ => rfl)))
    (respellU_spells_tree_of_ctree Env.ascii "D".toList exC (by decide) (by decide) exC_ok (by decide) (fun _ _ => rfl))

/-! #### unified documents D: the document of `Props/C01document` — META (TYPE, VERSION), commented sections / blocks / lines,
trailing comments, three document-trailing comments -/

example : dDocText "DOC".toList dxFields (respellUDStrip dxNodes) [] =
    ("===DOC===\nMETA:\n  TYPE::SPEC\n  VERSION::\"1.0\"\n§1::OVERVIEW\n  B:\n    X::1\n    Y::true\n  Z::null\n  §2b::DEEP\n" ++
     "    K::word\n    §EMPTY::EMPTY\n    E:\nW::\"a b\"\n===END===\n").toList := by decide +kernel

/-- the theorem applied. -/
example : respellContent (Parser.parse Env.ascii (dDocText "DOC".toList dxFields dxNodes dxTrailing))
      = respellContent (Parser.parse Env.ascii (dDocText "DOC".toList dxFields (respellUDStrip dxNodes) [])) ∧
    respellContentW (Parser.parseWithWarnings Env.ascii (dDocText "DOC".toList dxFields dxNodes dxTrailing))
      = respellContentW (Parser.parseWithWarnings Env.ascii (dDocText "DOC".toList dxFields (respellUDStrip dxNodes) [])) ∧
    respellContent (Parser.parse Env.ascii (dDocText "DOC".toList dxFields dxNodes dxTrailing))
      = .ok (respellUDContent "DOC".toList dxFields dxNodes) :=
  C09_document_comments_same_content Env.ascii "DOC".toList dxFields dxNodes dxTrailing rfl (by decide) (by decide) dxFields_ok
    dxNodes_ok dxTrailing_ok (by decide) (fun _ _ => rfl) (fun _ _ => rfl)

/-- the content, written out: META as read, section ids and names, no comment. -/
example : respellUDContent "DOC".toList dxFields dxNodes =
    { name := "DOC".toList,
      metaKv := [("TYPE".toList, .val (.str "SPEC".toList)), ("VERSION".toList, .val (.str "1.0".toList))],
      sections :=
        [ .sect "1".toList "OVERVIEW".toList none
            [ .block "B".toList [ .assign "X".toList (.int 1) 0 0 [] none, .assign "Y".toList (.bool true) 0 0 [] none ] 0 0 [] none,
              .assign "Z".toList .null 0 0 [] none,
              .sect "2b".toList "DEEP".toList none
                [ .assign "K".toList (.str "word".toList) 0 0 [] none,
                  .sect "EMPTY".toList "EMPTY".toList none [] 0 0 [],
                  .block "E".toList [] 0 0 [] none ] 0 0 [] ] 0 0 [],
          .assign "W".toList (.str "a b".toList) 0 0 [] none ] } :=
  respellUDocEq_sound (by decide +kernel)

/-- the whole model evaluated on the literal texts: same content (META included). -/
example : respellUSameContentB (Parser.parse Env.ascii dxText)
    (Parser.parse Env.ascii (dDocText "DOC".toList dxFields (respellUDStrip dxNodes) [])) = true := by decide +kernel

/-! #### unified spellings U: the document of `Props/C01unified` spelled with `#`, a long list on one line, aliased operators
with spaces, short lists one item per line behind 1 / 12 / 0 spaces — against the canonical text -/

example : respellContent (Parser.parse Env.ascii (utDocText true "D".toList exUSpelled))
      = respellContent (Parser.parse Env.ascii (uDocText "D".toList (utContent exUSpelled))) ∧
    respellContentW (Parser.parseWithWarnings Env.ascii (utDocText true "D".toList exUSpelled))
      = respellContentW (Parser.parseWithWarnings Env.ascii (uDocText "D".toList (utContent exUSpelled))) ∧
    respellContent (Parser.parse Env.ascii (utDocText true "D".toList exUSpelled))
      = .ok (respellUUContent "D".toList (utContent exUSpelled)) :=
  C09_udoc_vs_canonical Env.ascii true "D".toList exUSpelled (fun _ => Expr.opEnv_ascii) (fun _ => rfl) (by decide) (by decide)
    exUSpelled_ok (by decide) (fun _ _ => rfl) (fun _ _ => rfl)

/-- two non-canonical spellings of it against each other (`#` + exotic layouts against `§` + every list one item per line). -/
def respellUExU2 : List UT :=
  [.sect (.num 1) "S".toList
     [.block "B".toList
        [.line "L".toList (.list [.int 1, .bare "a".toList, .qstr "x y".toList, .bool true]) { lay := .multi 3 0 },
         .line "E".toList (.expr ⟨"A".toList, [(.flow, "B".toList), (.synth, "C".toList)]⟩)
           { ops := [{ form := .alias }, { pre := 2, post := 0 }] },
         .line "K".toList (.scalar (.qstr "v w".toList)) {},
         .line "S2".toList (.list [.int 1, .int 2]) {},
         .line "N".toList (.list []) {}],
      .line "Z".toList (.scalar .null) {}],
   .line "T".toList (.scalar (.int 5)) {}]

theorem respellUExU2_ok : utOK respellUExU2 := by decide +kernel

example : respellContent (Parser.parse Env.ascii (utDocText true "D".toList exUSpelled))
      = respellContent (Parser.parse Env.ascii (utDocText false "D".toList respellUExU2)) :=
  (C09_udoc_same_content Env.ascii true false "D".toList exUSpelled respellUExU2 rfl (fun _ => Expr.opEnv_ascii)
    (fun _ => Expr.opEnv_ascii) (fun h => by cases h) (fun _ _ => rfl) (by decide) (by decide) exUSpelled_ok respellUExU2_ok
    (by decide) (fun _ _ => rfl) (fun _ _ => rfl)).1

/-- the whole model evaluated on the literal texts. -/
example : respellSameContentB (Parser.parse Env.ascii exUSpelledText) (Parser.parse Env.ascii exUText) = true := by decide +kernel
example : respellSameContentB (Parser.parse Env.ascii exUSpelledText)
    (Parser.parse Env.ascii (utDocText false "D".toList respellUExU2)) = true := by decide +kernel
example : respellSameDocB (Parser.parse Env.ascii exUSpelledText) (Parser.parse Env.ascii exUText) = false := by decide +kernel

/-! #### the composition ACROSS the new families: a commented text with `§` (class D) and an uncommented spelling with `#`
(class U) of the same document -/

def respellUExD : List DNode :=
  [.sect (.num 1) "S".toList
     [.line ⟨"K".toList, .int 1⟩ ["k".toList] (some "t".toList),
      .block "B".toList [.line ⟨"Y".toList, .bool true⟩ [] (some [])] ["b".toList]] ["c".toList],
   .line ⟨"T".toList, .int 5⟩ [] none]

def respellUExT : List UT :=
  [.sect (.num 1) "S".toList
     [.line "K".toList (.scalar (.int 1)) {}, .block "B".toList [.line "Y".toList (.scalar (.bool true)) {}]],
   .line "T".toList (.scalar (.int 5)) {}]

example : dDocText "D".toList [] respellUExD ["bye".toList] =
    "===D===\n// c\n§1::S\n  // k\n  K::1 // t\n  // b\n  B:\n    Y::true //\nT::5\n// bye\n===END===\n".toList := by decide +kernel
example : utDocText true "D".toList respellUExT = "===D===\n#1::S\n  K::1\n  B:\n    Y::true\nT::5\n===END===\n".toList := by
  decide +kernel

theorem respellUExD_ok : forestOK Env.ascii respellUExD := by
  simp only [respellUExD, forestOK, DNode.OK, SecId.OK, FLine.OK, FScalar.OK, TrailOK]
  decide

example : ∃ d₁ d₂, Parser.parse Env.ascii (dDocText "D".toList [] respellUExD ["bye".toList]) = .ok d₁ ∧
    Parser.parse Env.ascii (utDocText true "D".toList respellUExT) = .ok d₂ ∧ respellExValidate d₁ = respellExValidate d₂ ∧
    d₁.content = respellUDContent "D".toList [] respellUExD ∧ d₂.content = respellUDContent "D".toList [] respellUExD :=
  C09_respellU_invariant Env.ascii respellExValidate respellExValidate_content _ _ _
    (.of_new (.document "D".toList [] respellUExD ["bye".toList] rfl (by decide) (by decide) (fun _ h => by cases h) respellUExD_ok
      (by decide) (by decide) (fun _ _ => rfl)))
    (.of_new (by
      have h := SpellsNew.udoc (env := Env.ascii) true "D".toList respellUExT (fun _ => Expr.opEnv_ascii) (fun h => by cases h)
        (by decide) (by decide) (by decide +kernel) (by decide) (fun _ _ => rfl)
      rwa [show utContent respellUExT = respellUDToU respellUExD from rfl, respellU_ucontent_of_forest] at h))

/-- … through the lenient entry point. -/
example : ∃ d₁ r₁ w₁ d₂ r₂ w₂ d₁', Parser.parseWithWarnings Env.ascii (dDocText "D".toList [] respellUExD ["bye".toList]) = .ok (d₁, r₁, w₁) ∧
    Parser.parseWithWarnings Env.ascii (dDocText "D".toList [] (respellUDStrip respellUExD) []) = .ok (d₂, r₂, w₂) ∧
    Parser.parse Env.ascii (dDocText "D".toList [] respellUExD ["bye".toList]) = .ok d₁' ∧
    respellExValidate d₁ = respellExValidate d₂ ∧ respellExValidate d₁ = respellExValidate d₁' :=
  C09_respellU_invariant_lenient Env.ascii respellExValidate respellExValidate_content _ _ (respellUDContent "D".toList [] respellUExD)
    (.of_new (.document "D".toList [] respellUExD ["bye".toList] rfl (by decide) (by decide) (fun _ h => by cases h) respellUExD_ok
      (by decide) (by decide) (fun _ _ => rfl)))
    (.of_new (by
      have h := SpellsNew.document (env := Env.ascii) "D".toList [] (respellUDStrip respellUExD) [] rfl (by decide) (by decide)
        (fun _ h => by cases h) (respellU_forest_strip_ok _ _ respellUExD_ok) (fun _ h => by cases h) (by decide) (fun _ _ => rfl)
      rwa [show respellUDContent "D".toList [] (respellUDStrip respellUExD) = respellUDContent "D".toList [] respellUExD by
        simp only [respellUDContent, respellU_dnodes_strip]] at h))

example : respellSameContentB (Parser.parse Env.ascii (dDocText "D".toList [] respellUExD ["bye".toList]))
    (Parser.parse Env.ascii (utDocText true "D".toList respellUExT)) = true := by decide +kernel
/-- the position-reading "validator" of `Props/C09respell` tells the two texts apart (`hcontent` is needed). -/
example : respellVerdictIs respellExBad (Parser.parse Env.ascii (dDocText "D".toList [] respellUExD ["bye".toList])) (some 9) = true ∧
    respellVerdictIs respellExBad (Parser.parse Env.ascii (utDocText true "D".toList respellUExT)) (some 6) = true := by
  decide +kernel

/-! #### what the statements do NOT say -/

/-- ORPHAN comments are kept by `content`: a comment line at the end of a block's body (no node behind it at that depth) is a
`Comment` child of the block, which `Node.erase` keeps (mirror of the validator's `other`) — the text with it and the text
without it have DIFFERENT content.  (Real reader: `Block B [Assignment K, Comment 'orphan']` against `Block B [Assignment K]`.) -/
example : respellSameContentB (Parser.parse Env.ascii "===D===\nB:\n  K::1\n  // orphan\nA::2\n===END===\n".toList)
    (Parser.parse Env.ascii "===D===\nB:\n  K::1\nA::2\n===END===\n".toList) = false := by decide +kernel
/-- … while the same comment line one level out is the leading comment of `A` (attached: not content). -/
example : respellSameContentB (Parser.parse Env.ascii "===D===\nB:\n  K::1\n// not an orphan\nA::2\n===END===\n".toList)
    (Parser.parse Env.ascii "===D===\nB:\n  K::1\nA::2\n===END===\n".toList) = true := by decide +kernel
/-- the excluded point `hm`: a commented first LINE keyed `META` is an ordinary assignment; without the comment the reader
raises E001 — the stripped text is not even read. -/
example : respellHasContentB (Parser.parse Env.ascii "===D===\n// c\nMETA::1\nA::x\n===END===\n".toList)
    { name := "D".toList, sections := [.assign "META".toList (.int 1) 0 0 [] none, .assign "A".toList (.str "x".toList) 0 0 [] none] } = true ∧
    respellSameContentB (Parser.parse Env.ascii "===D===\n// c\nMETA::1\nA::x\n===END===\n".toList)
      (Parser.parse Env.ascii "===D===\nMETA::1\nA::x\n===END===\n".toList) = false := by decide +kernel
/-- a different comment is the same content; a different value is not. -/
example : respellSameContentB (Parser.parse Env.ascii "===D===\n§1::S\n  K::1 // one\nT::5\n===END===\n".toList)
    (Parser.parse Env.ascii "===D===\n§1::S\n  K::1 // two\nT::5\n===END===\n".toList) = true ∧
    respellSameContentB (Parser.parse Env.ascii "===D===\n§1::S\n  K::1 // one\nT::5\n===END===\n".toList)
      (Parser.parse Env.ascii "===D===\n§1::S\n  K::2 // one\nT::5\n===END===\n".toList) = false := by decide +kernel

end examples

end Octave.C09
