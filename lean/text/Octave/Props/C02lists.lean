/-
C02 — Canonicalisation preserves document content exactly (I1 fidelity): LISTS.

`Props/C02.lean` proves that a single scalar token is read back with its kind and content.  Here the same is
proved for the canonical single-line list text `[v1,v2,…,vn]` of ANY length, for lists nested to any depth
below the reader's hard limit, and for list items that are inline map entries `KEY::scalar`:
`parseValue` (through `parseList` / `listLoop` / `parseListItem`) returns exactly the list of the items'
values, consumes exactly the list's tokens, and leaves `bracket_depth` as it found it.

The token list is quantified over as "any tokens whose (type, value) signature is the canonical rendering":
lines, columns, `raw` and `normFrom` are arbitrary (`sig`, `CVal.shapes` in `Lemmas/ListParse.lean`), so the
result is independent of positions.  `listToks` gives the concrete rendering at arbitrary positions.

What follows the list is NOT constrained: `parse_value` returns straight from `parse_list` (no expression,
`::` or adjacent-bracket post-processing applies to a list value); the only requirement is that some token
follows (`next :: k`; the token stream always ends in EOF), because `advance` does not move on the last token.
A rendering never looks holographic (no CONSTRAINT token occurs in it), so the holographic re-parse is not taken.

Hypotheses and what the real reader does where they fail (`parse_with_warnings`, run on /repo):
* `st.depth + nest < 100`: `K::` + 100×`[` + `1` + 100×`]` raises `E_MAX_NESTING_EXCEEDED` (99 levels parse, one
  `deep_nesting` warning) — a refusal, no silent change;
* below the warning threshold (`quiet`): only needed for "warnings unchanged"; `…_deep` / `C02_nested_list_typed`
  give the same value without it and say exactly which state results (`walkSt`);
* `wf` (no constructor name with a quoted string): `K::[REGEX::"a"]` reads `[{REGEX: "a"}]` and adds one
  `constructor_misuse` warning — same content;
* fuel: a model artefact (`need_le`: `2·tokens + 1` suffices; `parseDocument` passes `2·(all tokens + 2) + 10`).
-/
import Octave.Model.ParserTop
import Octave.Lemmas.ListParse
set_option linter.unusedSimpArgs false
namespace Octave.C02
open Octave Parser ListParse

/-! ## Lists of scalars -/

/-- `,v` signatures for the further items. -/
def scalarTail : List Scalar → List (TT × TVal)
  | [] => []
  | s :: r => (.comma, .none) :: s.shape :: scalarTail r

/-- signatures of `LIST_START, tok v1, COMMA, tok v2, …, LIST_END`. -/
def listShapes : List Scalar → List (TT × TVal)
  | [] => [(.listStart, .none), (.listEnd, .none)]
  | s :: r => (.listStart, .none) :: s.shape :: (scalarTail r ++ [(.listEnd, .none)])

theorem scalarTail_eq (r : List Scalar) : tailShapes (r.map CVal.scalar) = scalarTail r := by
  induction r with
  | nil => rfl
  | cons s r ih => simp [tailShapes, scalarTail, CVal.shapes, ih]

theorem listShapes_eq (vs : List Scalar) : (CVal.list (vs.map CVal.scalar)).shapes = listShapes vs := by
  cases vs with
  | nil => rfl
  | cons s r => simp [CVal.shapes, listShapes, scalarTail_eq]

theorem scalars_val (vs : List Scalar) : (CVal.list (vs.map CVal.scalar)).val = .list (vs.map Scalar.val) := by
  simp [CVal.val, vals_eq_map, Function.comp_def]

theorem scalars_nest (vs : List Scalar) : (CVal.list (vs.map CVal.scalar)).nest = 1 := by
  have : nests (vs.map CVal.scalar) = 0 := by
    induction vs with
    | nil => rfl
    | cons s r ih => simp [nests, CVal.nest, ih]
  simp [CVal.nest, this]

theorem scalars_wf (vs : List Scalar) : (CVal.list (vs.map CVal.scalar)).wf = true := by
  have : wfs (vs.map CVal.scalar) = true := by
    induction vs with
    | nil => rfl
    | cons s r ih => simp [wfs, CVal.wf, ih]
  simp [CVal.wf, this]

/-- fuel for a list of `n` scalars: `n + 4` (exactly `n + 4` for `n ≥ 1`, `3` for the empty list). -/
theorem scalars_need (vs : List Scalar) : (CVal.list (vs.map CVal.scalar)).need ≤ vs.length + 4 := by
  have : needLoop (vs.map CVal.scalar) ≤ vs.length + 2 := by
    induction vs with
    | nil => simp [needLoop]
    | cons s r ih => simp only [List.map_cons, needLoop, CVal.need, List.length_cons]; omega
  simp only [CVal.need]; omega

/-- the last token of a list rendering is its LIST_END. -/
theorem list_last (xs : List CVal) (ts : List Token) (h : ts.map sig = (CVal.list xs).shapes) :
    ∃ rb, ts.getLast? = some rb ∧ rb.type = .listEnd := by
  obtain ⟨lb, body, rb, rfl, _, hrb, _⟩ := view_list xs ts h
  exact ⟨rb, by rw [← List.cons_append, List.getLast?_append]; rfl, hrb⟩

/-- state after the list when no deep-nesting warning can arise: only the cursor moved. -/
theorem adv_quiet (v : CVal) (ts r : List Token) (st : PState) (h : ts.map sig = v.shapes) (hq : quiet st v.nest) :
    adv st ts r = { st with rest := r, prev := ts.getLast?, pos := st.pos + ts.length } := by
  obtain ⟨t, tr, rfl, _⟩ := first_tok v ts h
  have hl : (t :: tr).getLast?.or st.prev = (t :: tr).getLast? := by
    cases hx : (t :: tr).getLast? with
    | none => simp at hx
    | some x => rfl
  unfold adv
  rw [(walk_ok v (t :: tr) st h).2 hq, hl]
  rfl

/-- **Lists of scalars keep every item's kind and content** (any length, the empty list included).
For ANY tokens `ts` whose signatures are `LIST_START, v1, COMMA, v2, …, LIST_END` (positions, `raw`, `normFrom`
arbitrary), in ANY parser state positioned at them with at least one token after (no condition on it),
below the nesting limit and the warning threshold, with fuel `n + 4`:
`parseValue` returns exactly `.list [v1.val, …, vn.val]`; the state is `st` with the cursor moved past LIST_END
(`rest = next :: k`, `pos` advanced by the number of tokens, `prev` = the last token, which is the LIST_END);
`depth`, `warnings`, `warned` and everything else unchanged. -/
theorem C02_list_of_scalars_typed (vs : List Scalar) (ts : List Token) (st : PState) (next : Token) (k : List Token)
    (fuel : Nat)
    (hts : ts.map sig = listShapes vs)
    (hr : st.rest = ts ++ next :: k)
    (hfuel : vs.length + 4 ≤ fuel)
    (hdepth : st.depth + 1 < 100)
    (hquiet : st.threshold = 0 ∨ st.depth + 1 < st.threshold) :
    parseValue fuel st
      = .ok (.list (vs.map Scalar.val), { st with rest := next :: k, prev := ts.getLast?, pos := st.pos + ts.length })
    ∧ ∃ rb, ts.getLast? = some rb ∧ rb.type = .listEnd := by
  rw [← listShapes_eq] at hts
  refine ⟨?_, list_last _ ts hts⟩
  have h := (parse_ok (CVal.list (vs.map CVal.scalar))).1 fuel st ts next k hr hts rfl (scalars_wf vs)
    (Nat.le_trans (scalars_need vs) hfuel) (by rw [scalars_nest]; exact hdepth) rfl
  rw [h, scalars_val, adv_quiet _ ts _ st hts (by rw [scalars_nest]; exact hquiet)]

/-- the same at or above the warning threshold (any depth below the hard limit of 100): the value is the same;
the state additionally carries what `_check_deep_nesting` records for the opening bracket
(`adv st ts _` = cursor moved, `walkSt ts st` bookkeeping: at most one `deep_nesting` warning, depth restored). -/
theorem C02_list_of_scalars_typed_deep (vs : List Scalar) (ts : List Token) (st : PState) (next : Token) (k : List Token)
    (fuel : Nat)
    (hts : ts.map sig = listShapes vs)
    (hr : st.rest = ts ++ next :: k)
    (hfuel : vs.length + 4 ≤ fuel)
    (hdepth : st.depth + 1 < 100) :
    parseValue fuel st = .ok (.list (vs.map Scalar.val), adv st ts (next :: k))
    ∧ (adv st ts (next :: k)).depth = st.depth := by
  rw [← listShapes_eq] at hts
  have h := (parse_ok (CVal.list (vs.map CVal.scalar))).1 fuel st ts next k hr hts rfl (scalars_wf vs)
    (Nat.le_trans (scalars_need vs) hfuel) (by rw [scalars_nest]; exact hdepth) rfl
  rw [h, scalars_val]
  exact ⟨rfl, (walk_ok _ ts st hts).1⟩

/-! ### the concrete rendering at arbitrary positions -/

/-- the scalar's token at a position. -/
def _root_.Octave.ListParse.Scalar.tok (s : Scalar) (p : Nat × Nat) : Token := { type := s.type, value := s.tval, line := p.1, col := p.2 }

def lbTok (p : Nat × Nat) : Token := { type := .listStart, value := .str ['['], line := p.1, col := p.2 }
def rbTok (p : Nat × Nat) : Token := { type := .listEnd, value := .str [']'], line := p.1, col := p.2 }
def commaTok (p : Nat × Nat) : Token := { type := .comma, value := .str [','], line := p.1, col := p.2 }

/-- `COMMA, tok v` for the further items; token number `i` sits at `pos i`. -/
def tailToks (pos : Nat → Nat × Nat) : Nat → List Scalar → List Token
  | _, [] => []
  | i, s :: r => commaTok (pos i) :: s.tok (pos (i + 1)) :: tailToks pos (i + 2) r

/-- `LIST_START, tok v1, COMMA, tok v2, …, LIST_END`, the `i`-th token at the arbitrary position `pos i`. -/
def listToks (pos : Nat → Nat × Nat) : List Scalar → List Token
  | [] => [lbTok (pos 0), rbTok (pos 1)]
  | s :: r => lbTok (pos 0) :: s.tok (pos 1) :: (tailToks pos 2 r ++ [rbTok (pos (2 * r.length + 2))])

theorem _root_.Octave.ListParse.Scalar.tok_sig (s : Scalar) (p : Nat × Nat) : sig (s.tok p) = s.shape := by
  cases s <;> rfl

theorem tailToks_sig (pos : Nat → Nat × Nat) (i : Nat) (r : List Scalar) : (tailToks pos i r).map sig = scalarTail r := by
  induction r generalizing i with
  | nil => rfl
  | cons s r ih =>
    simp only [tailToks, scalarTail, List.map_cons, ih, Scalar.tok_sig]
    rfl

theorem listToks_sig (pos : Nat → Nat × Nat) (vs : List Scalar) : (listToks pos vs).map sig = listShapes vs := by
  cases vs with
  | nil => rfl
  | cons s r =>
    simp only [listToks, listShapes, List.map_cons, List.map_append, tailToks_sig, Scalar.tok_sig, List.map_nil]
    rfl

theorem tailToks_length (pos : Nat → Nat × Nat) (i : Nat) (r : List Scalar) : (tailToks pos i r).length = 2 * r.length := by
  induction r generalizing i with
  | nil => rfl
  | cons s r ih => simp only [tailToks, List.length_cons, ih]; omega

/-- number of tokens of `[v1,…,vn]`: `2n + 1` (`2` for `[]`). -/
theorem listToks_length (pos : Nat → Nat × Nat) (vs : List Scalar) :
    (listToks pos vs).length = if vs = [] then 2 else 2 * vs.length + 1 := by
  cases vs with
  | nil => rfl
  | cons s r => simp only [listToks, List.length_cons, List.length_append, tailToks_length, List.length_nil]; simp; omega

theorem listToks_last (pos : Nat → Nat × Nat) (vs : List Scalar) :
    (listToks pos vs).getLast? = some (rbTok (pos (if vs = [] then 1 else 2 * vs.length))) := by
  cases vs with
  | nil => rfl
  | cons s r =>
    have : lbTok (pos 0) :: s.tok (pos 1) :: (tailToks pos 2 r ++ [rbTok (pos (2 * r.length + 2))])
        = (lbTok (pos 0) :: s.tok (pos 1) :: tailToks pos 2 r) ++ [rbTok (pos (2 * r.length + 2))] := by simp
    simp only [listToks, this, List.getLast?_append, List.getLast?_singleton, Option.some_or]
    simp
    congr 2

/-- `C02_list_of_scalars_typed` on the concrete token list: whatever the positions of the tokens. -/
theorem C02_list_of_scalars_typed_at (vs : List Scalar) (pos : Nat → Nat × Nat) (st : PState) (next : Token)
    (k : List Token) (fuel : Nat)
    (hr : st.rest = listToks pos vs ++ next :: k)
    (hfuel : vs.length + 4 ≤ fuel)
    (hdepth : st.depth + 1 < 100)
    (hquiet : st.threshold = 0 ∨ st.depth + 1 < st.threshold) :
    parseValue fuel st
      = .ok (.list (vs.map Scalar.val),
          { st with rest := next :: k, prev := some (rbTok (pos (if vs = [] then 1 else 2 * vs.length))),
                    pos := st.pos + (if vs = [] then 2 else 2 * vs.length + 1) }) := by
  have h := (C02_list_of_scalars_typed vs (listToks pos vs) st next k fuel (listToks_sig pos vs) hr hfuel hdepth hquiet).1
  rw [h, listToks_last, listToks_length]

/-! ## Nested lists and inline map entries -/

/-- **Nested lists with scalar and `KEY::scalar` items keep their content** (any length, any nesting depth below
the hard limit).  `v` is a scalar or a list (`isEntry = false`: a bare `KEY::v` is not a value at top level);
`wf`: no entry pairs a constructor name (PATTERN, REGEX, ENUM, TYPE, NEVER, ALWAYS) with a quoted string
(that adds a `constructor_misuse` warning, see the example below);
fuel: `2 · tokens + 1` suffices (`need_le`; `CVal.need` is the exact amount);
`followOK`: nothing for a list; a top-level scalar must not be followed by a value token, nor a number by `[`.
The state is `adv st ts _`: cursor moved past the value; `walkSt ts st` is the bracket bookkeeping
(`depth` restored, one `deep_nesting` warning per line whose bracket reaches the threshold). -/
theorem C02_nested_list_typed (v : CVal) (ts : List Token) (st : PState) (next : Token) (k : List Token) (fuel : Nat)
    (hts : ts.map sig = v.shapes)
    (hr : st.rest = ts ++ next :: k)
    (htop : v.isEntry = false) (hwf : v.wf = true)
    (hfuel : 2 * ts.length + 1 ≤ fuel)
    (hdepth : st.depth + v.nest < 100)
    (hnext : v.followOK next.type = true) :
    parseValue fuel st = .ok (v.val, adv st ts (next :: k))
    ∧ (adv st ts (next :: k)).depth = st.depth
    ∧ (quiet st v.nest →
        adv st ts (next :: k) = { st with rest := next :: k, prev := ts.getLast?, pos := st.pos + ts.length }) := by
  have hlen : ts.length = v.shapes.length := by rw [← hts, List.length_map]
  refine ⟨(parse_ok v).1 fuel st ts next k hr hts htop hwf ?_ hdepth hnext, (walk_ok v ts st hts).1,
    fun hq => adv_quiet v ts _ st hts hq⟩
  have := need_le v
  omega

/-- in every case the state after the value differs from the state before only in the cursor, and in `warnings` /
`warned`, where only `deep_nesting` warnings are added. -/
theorem C02_nested_list_state (v : CVal) (ts r : List Token) (st : PState) (hts : ts.map sig = v.shapes) :
    ∃ ws, adv st ts r = { st with rest := r, prev := ts.getLast?, pos := st.pos + ts.length,
                                  warnings := ws ++ st.warnings, warned := (walkSt ts st).warned }
      ∧ ∀ w ∈ ws, ∃ d th l c, w = Warning.deepNesting d th l c := by
  obtain ⟨hframe, ws, hw, hall⟩ := walkSt_frame ts st
  refine ⟨ws, ?_, hall⟩
  obtain ⟨t, tr, rfl, _⟩ := first_tok v ts hts
  have hl : (t :: tr).getLast?.or st.prev = (t :: tr).getLast? := by
    cases hx : (t :: tr).getLast? with
    | none => simp at hx
    | some x => rfl
  unfold adv
  rw [hl, hframe, (walk_ok v (t :: tr) st hts).1, hw]
  rfl

/-- **An inline map entry `KEY::scalar` as a list item** is read as the one-pair inline map `{KEY: scalar}` with the
scalar's kind and content, for every key that is not a constructor name (and for constructor names too when the
value is not a quoted string).  Special case of `C02_nested_list_typed`, spelled out. -/
theorem C02_inline_entry_typed (key : Str) (s : Scalar) (hk : s.type = .string → isCtorKey key = false)
    (lb kt a t rb next : Token) (k : List Token) (st : PState) (fuel : Nat)
    (hlb : lb.type = .listStart) (hkt : kt.type = .identifier) (hkv : kt.value = .str key) (ha : a.type = .assign)
    (ht : sig t = s.shape) (hrb : rb.type = .listEnd)
    (hr : st.rest = [lb, kt, a, t, rb] ++ next :: k)
    (hfuel : 5 ≤ fuel) (hdepth : st.depth + 1 < 100) (hquiet : st.threshold = 0 ∨ st.depth + 1 < st.threshold) :
    parseValue fuel st
      = .ok (.list [.imap [(key, s.val)]], { st with rest := next :: k, prev := some rb, pos := st.pos + 5 }) := by
  have hts : [lb, kt, a, t, rb].map sig = (CVal.list [.entry key s]).shapes := by
    simp [CVal.shapes, tailShapes, sig, hlb, hkt, hkv, ha, hrb, ht.symm]
  have hwf : (CVal.list [.entry key s]).wf = true := by
    simp only [CVal.wf, wfs, Bool.and_true, Bool.not_eq_true', Bool.and_eq_false_iff, beq_eq_false_iff_ne, ne_eq]
    by_cases h : s.type = .string
    · exact Or.inr (hk h)
    · exact Or.inl h
  have h := (parse_ok (CVal.list [.entry key s])).1 fuel st _ next k hr hts rfl hwf
    (by simp [CVal.need, needLoop]; omega) (by simp [CVal.nest, nests]; omega) rfl
  rw [h, adv_quiet _ _ _ st hts (by simpa [quiet, CVal.nest, nests] using hquiet)]
  simp [CVal.val, vals]

/-! ## Non-vacuity -/

/-- positions of the tokens of `["a",1,true,null]` on line 1 after `K::` (columns 4, 5, 8, …). -/
def posEx : Nat → Nat × Nat := fun i => (1, 4 + i)

def vsEx : List Scalar := [.str ['a'], .int 1, .bool true, .null]

def stEx : PState :=
  { rest := listToks posEx vsEx ++ [{ type := .newline, value := .str ['\n'], line := 1, col := 20 },
                                    { type := .eof, value := .none, line := 2, col := 1 }],
    last := { type := .eof, value := .none, line := 2, col := 1 }, pos := 2 }

/-- the theorem instantiated on `["a",1,true,null]`: the four items come back as str, int, bool, null. -/
example :
    parseValue 8 stEx
      = .ok (.list [.str ['a'], .int 1, .bool true, .null],
          { stEx with rest := [{ type := .newline, value := .str ['\n'], line := 1, col := 20 },
                               { type := .eof, value := .none, line := 2, col := 1 }],
                      prev := some (rbTok (1, 12)), pos := 11 }) :=
  C02_list_of_scalars_typed_at vsEx posEx stEx _ _ 8 rfl (by decide) (by decide) (by decide)

/-- the empty list. -/
example (st : PState) (lb rb nl : Token) (k : List Token) (h : st.rest = [lb, rb] ++ nl :: k)
    (h1 : sig lb = (.listStart, .none)) (h2 : sig rb = (.listEnd, .none)) (hd : st.depth = 0) (ht : st.threshold = 5) :
    parseValue 4 st = .ok (.list [], { st with rest := nl :: k, prev := some rb, pos := st.pos + 2 }) :=
  (C02_list_of_scalars_typed [] [lb, rb] st nl k 4 (by simp [listShapes, h1, h2]) h (by decide)
    (by omega) (by omega)).1

/-- a nested value with an inline map entry: `[["a",1],[],[k::"v"]]` satisfies every hypothesis. -/
example : let v : CVal := .list [.list [.scalar (.str ['a']), .scalar (.int 1)], .list [], .list [.entry ['k'] (.str ['v'])]]
    v.isEntry = false ∧ v.wf = true ∧ v.nest = 2 ∧ v.need = 11 ∧ v.followOK .newline = true
      ∧ v.shapes.length = 16 := by decide

/-- the nested theorem instantiated on concrete tokens for `[["a",1],[],[k::"v"]]`. -/
def mkTok (p : TT × TVal) : Token := { type := p.1, value := p.2, line := 1, col := 1 }
def vEx : CVal := .list [.list [.scalar (.str ['a']), .scalar (.int 1)], .list [], .list [.entry ['k'] (.str ['v'])]]
def stEx2 : PState :=
  { rest := vEx.shapes.map mkTok ++ [{ type := .newline, value := .str ['\n'], line := 1, col := 20 },
                                     { type := .eof, value := .none, line := 2, col := 1 }],
    last := { type := .eof, value := .none, line := 2, col := 1 } }

example :
    parseValue 33 stEx2
      = .ok (.list [.list [.str ['a'], .int 1], .list [], .list [.imap [(['k'], .str ['v'])]]],
          { stEx2 with rest := [{ type := .newline, value := .str ['\n'], line := 1, col := 20 },
                                { type := .eof, value := .none, line := 2, col := 1 }],
                       prev := some (mkTok (.listEnd, .none)), pos := 16 }) := by
  have h := C02_nested_list_typed vEx (vEx.shapes.map mkTok) stEx2 _ _ 33 (by decide) rfl (by decide) (by decide)
    (by decide) (by decide) (by decide)
  rw [h.1, h.2.2 (Or.inr (by decide))]
  rfl

/-- the whole model on the same text: lexer + parser give the same value, with its kinds. -/
example :
    (match Parser.parse Env.ascii "K::[\"a\",1,true,null]\n".toList with
     | .ok d => d.sections.map (fun n => match n with
        | .assign _ (.list [.str s, .int 1, .bool true, .null]) _ _ _ _ => s == ['a']
        | _ => false)
     | .error _ => []) = [true] := by decide +kernel

/-- the whole model on nested lists with inline map entries. -/
example :
    (match Parser.parse Env.ascii "K::[[\"a\",1],[],[k::\"v\",n::2.5]]\n".toList with
     | .ok d => d.sections.map (fun n => match n with
        | .assign _ (.list [.list [.str a, .int 1], .list [], .list [.imap [(k, .str v)], .imap [(n, .float f)]]]) _ _ _ _ =>
            a == ['a'] && k == ['k'] && v == ['v'] && n == ['n'] && f == "2.5".toList
        | _ => false)
     | .error _ => []) = [true] := by decide +kernel

/-- the lexer's tokens for `["a",1,true,null]` have exactly the signatures the theorem is stated for. -/
example :
    (match Lexer.tokenize Env.ascii "K::[\"a\",1,true,null]\n".toList with
     | .ok (toks, _) => ((toks.drop 2).take 9).map sig == listShapes vsEx
     | .error _ => false) = true := by decide +kernel

/-! ## The hypotheses are needed -/

/-- `hdepth`: at bracket depth 99 the reader refuses the list (`E_MAX_NESTING_EXCEEDED`) — a refusal, not a
silent change. -/
example :
    (match parseValue 8 { stEx with depth := 99 } with
     | .error (.parser code _ _) => code == "E_MAX_NESTING_EXCEEDED".toList
     | _ => false) = true := by decide +kernel

/-- `hquiet`: at the threshold the value is the same and one `deep_nesting` warning is recorded. -/
example :
    (match parseValue 8 { stEx with depth := 4 } with
     | .ok (.list [.str _, .int 1, .bool true, .null], st') =>
        st'.warnings == [Warning.deepNesting 5 5 1 4] && st'.depth == 4 && st'.warned == [1]
     | _ => false) = true := by decide +kernel

/-- `wf`: a constructor name as the key of a quoted value gives the same value plus a `constructor_misuse` warning. -/
example :
    (match Parser.parseWithWarnings Env.ascii "K::[REGEX::\"a\"]\n".toList with
     | .ok (d, _, ws) => (d.sections.map (fun n => match n with
        | .assign _ (.list [.imap [(k, .str v)]]) _ _ _ _ => k == "REGEX".toList && v == ['a']
        | _ => false), ws.length)
     | .error _ => ([], 0)) = ([true], 1) := by decide +kernel

end Octave.C02
