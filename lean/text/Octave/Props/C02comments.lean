/-
C01 / C02 — reading the canonical text of a document with nested blocks AND COMMENTS gives back exactly its content,
every comment at the node it was written for: PARSER half.

Content model (`Lemmas/CommentParse.lean`): a forest of `CNode`s —
`line key scalar lead trail` (`KEY::scalar`, leading comment lines `lead`, optional trailing comment `trail`) and
`block key children lead` (`KEY:`, leading comment lines, children one level deeper) — of ANY depth and width with ANY
number of comments, plus the document's trailing comments.  Token shape (the real one: `cExText_lexes` below evaluates the
model lexer on an example and finds exactly this):

    ENVELOPE_START(name) NEWLINE  forest(depth 0)  [COMMENT NEWLINE]*  ENVELOPE_END NEWLINE EOF                  (`cTreeToks`)
    comment line of a node at depth d:  [INDENT(2·d) if d > 0]  COMMENT(text) NEWLINE            directly before the node's own line
    line  at depth d:  comment lines,  [INDENT(2·d) if d > 0]  IDENTIFIER(key) ASSIGN scalar [COMMENT(trail)] NEWLINE
    block at depth d:  comment lines,  [INDENT(2·d) if d > 0]  IDENTIFIER(key) BLOCK NEWLINE  children at depth d+1

A COMMENT token is `{type := .comment, value := .str text}` (the text without `//` and the blank after it).  Every
line / column number is arbitrary (`pos : Nat → CPos`, one record per source line of the body in reading order, comment
lines included; the document's trailing comment lines come last); the INDENT VALUE `2·d` is content, and a comment line
carries the SAME indent value as the node it precedes — that is what the emitter writes (`leadingLines env leading ind`).

Results, for EVERY forest, trailing comments, name and positions:
* `C02_cline_read`        `parse_section` on an assignment line called with its leading comments: `Assignment(…, lead, trail)`;
* `C02_cblock_read`       `parse_section` on a block: the Block node with exactly the children, every comment at its node;
* `C02_cblock_children`   the child loop on any forest of children;
* `C02_comment_orphans`   comment lines at the CHILDREN's indentation after the last child become `Comment` children (orphans);
* `C02_ctree_document_read` / `…_warnings` / `…_silent` / `…_canon`   `parse` / `parse_with_warnings` on the whole token list
                          return exactly `cTreeDoc` (`Document.trailingComments = trailing`) and exactly the warnings `warnsList`;
* `C02_ctree_text_read`   the same from the text, given that the text lexes to `cTreeToks` (lexer half: separate).

Whose comment is it?  (`commentBelongsOuter`, `blockLoop`, `preIndentComments`.)  Inside the child loop of a block whose
children are indented by `ci = 2·(d+1)` a COMMENT token is met with the indentation `li` of its line (value of the INDENT
token in front of it, 0 if there is none):
* `li ≥ ci`: the comment is kept pending for the next child; if no child follows it becomes an orphan `Comment` child of
  THIS block (`C02_comment_orphans`).  Canonical text has `li = ci` exactly for the leading comments of a child — the
  emitter writes a node's comments at the node's OWN indentation — so a comment line right after the last child,
  indented like the children, can only be an orphan of the block, never the leading comment of the block's next sibling
  (that one is written at the block's indentation `2·d < ci`).
* `0 < li < ci`: the loop has already stopped at the INDENT token (`value < ci`), before looking at the comment.
* `li = 0` (no INDENT: a comment line at depth 0): `commentBelongsOuter` scans forward to the next non-comment line; the
  comment goes to the outer level iff that line is indented by less than `ci`.  In canonical text the comment lines of a
  depth-0 node are followed by that node's own unindented line (or by `===END===`), so the answer is "outer", all the way
  up to `parse_document`, which attaches them to the next top-level node or to `Document.trailingComments`.
What the parser needs of the context `fl` after a block is `stopsL ci fl` (decidable, stated with the model's own
look-ahead): the first token is not a NEWLINE / fence; an INDENT only with a value `< ci`; a COMMENT (an unindented comment
line) only when `scanOuter ci · 0` answers "outer" on what follows — the loop's test — and the run of comment / blank lines
ends before a line that is not deeper (`preOK`) — the test of the empty-block path: `preIndentComments` runs over the comment
lines after `KEY:`, must find no deeper INDENT, and rewinds.  The two look-aheads are independent (example below).  In
canonical text such a COMMENT starts a `cmtRun` — unindented comment lines up to the first token of an unindented line —
which implies both (`stopsL_cmt`); what follows a node in a `cTreeToks` always satisfies `stopsL` (`cont_head`, `cont_head0`),
so the document theorems carry NO hypothesis about comments.

Hypotheses of the document theorems (the same two as without comments, the first one WEAKER):
* `metaFirstC nodes = false`: not (the first top-level node has NO leading comment and its key is `META`).  A comment line
  in front hides the `META` from `parse_document`'s test (`skip_whitespace(skip_comments=False)` stops at the COMMENT), so
  `// c` + `META:` is an ordinary Block — covered by the theorem, and confirmed on the real reader.
* `colsOkList pos nodes 0 0 = true`: the column of block keys, exactly as in `Props/C02blocks.lean`; no position of a
  COMMENT token is read.

The real reader (`octave_mcp.core.parser.parse` on /repo) at the excluded points and at the edges:
* `===D===\nMETA:\n  // c\n  X::1 // t\n===END===\n` → `meta {'X': 1}`, no sections, BOTH comments dropped, re-emitted without
  them (the excluded point `metaFirstC`: the META block is a dict, comments inside it have no place in the AST; canonical
  text never has comments there, but a Block keyed `META` placed first with commented children does not survive
  emit → parse: the known `META`-first exclusion, now also losing comments);
  `===D===\n// c\nMETA:\n  X::1\n===END===\n` → `Block META lead=['c']` with child `X` (as the theorem says).
* `A:\n  X::1\n  // orphan\nZ::3` → `A = [X, Comment('orphan')]`, `Z` without comments; `A:\n  X::1\n// lz\nZ::3` → `Z.lead = ['lz']`;
  `A:\n  B:\n    X::1\n    // ob\n  // oa\n// lz\nZ::1` → `B = [X, Comment ob]`, `A = [B, Comment oa]`, `Z.lead = ['lz']`;
  `A:\n  // only\nZ::1` → `A = [Comment only]`; all re-emitted byte for byte.
* `E:\n// lz\nZ::3` (empty block, then a commented sibling) → `E = []`, `Z.lead = ['lz']`; `A:\n  // le\n  E:\n// dt\n===END===` →
  `E.lead = ['le']`, `trailing_comments = ['dt']`.
* outside the model, for the record: `A: // hdr\n  X::1` → the header's trailing comment becomes `X.lead` (re-emitted as a comment
  line above `X`); `A::1 //` → `trailing_comment = ''`, which the emitter then drops; an AST built by hand with a `Comment`
  node BETWEEN two children emits `X::1 / // mid / Y::2` and reads back as `Y.lead = ['mid']` (the parser itself only creates
  `Comment` nodes at the end of a block).
No comment is dropped or re-attached on any token list of the model: that is the theorem.
`Props/C02orphans.lean` extends the content model by the orphan comments (`Comment` children at the end of a block), so that it
covers every comment the parser can produce on such documents.
-/
import Octave.Lemmas.CommentParse
import Octave.Props.C02flat
namespace Octave.C02
open Octave Parser FlatParse CommentParse

/-- **`parse_section` on an assignment line with comments**: called with the leading comments `lead` that the loops
collected, on `KEY::scalar [COMMENT] NEWLINE`, it returns `Assignment(key, value, lead, trail)`, leaves the cursor on the
NEWLINE, and adds only the W_PATTERN_AUTOQUOTE warning (if any). -/
theorem C02_cline_read (st : PState) (key : Str) (v : Scalar) (lead : List Str) (trail : Option Str) (p : CPos)
    (k : List Token) (fuel : Nat)
    (hr : st.rest = keyTok key p :: assignTok p :: v.tok p.l p.c3 :: (trailToks trail p ++ nlTok p :: k)) :
    parseSection (fuel + 3) lead st
      = .ok (some (.assign key v.val p.l p.c1 lead trail),
             { st with rest := nlTok p :: k, prev := some (prevLine v trail p), pos := st.pos + 3 + trailLen trail,
                       warnings := lineWarns key v p ++ st.warnings }) :=
  parseSection_cline st key v lead trail p k fuel hr

/-- **`parse_section` on a block with comments** (any depth `d`, any children, any comments, any positions subject to
`colsOk`), called with the block's leading comments, followed by a context that `stopsL` the block's own indentation:
the Block node with exactly the children (each with its comments), the cursor at the context, warnings grown by exactly
`CNode.warns`; everything else unchanged.  Fuel: the number of the block's tokens. -/
theorem C02_cblock_read (pos : Nat → CPos) (key : Str) (cs : List CNode) (lead : List Str) (d j : Nat) (st : PState)
    (fl : List Token) (F : Nat) (hr : st.rest = (CNode.block key cs lead).core pos d j ++ fl) (hs : stopsL (2 * d + 1) fl = true)
    (hc : (CNode.block key cs lead).colsOk pos d j = true) (hF : ((CNode.block key cs lead).core pos d j).length ≤ F) :
    parseSection F lead st = .ok (some ((CNode.block key cs lead).node pos j),
      { st with rest := fl, prev := some ((CNode.block key cs lead).lastTok pos j),
                pos := st.pos + ((CNode.block key cs lead).core pos d j).length,
                warnings := ((CNode.block key cs lead).warns pos j).reverse ++ st.warnings }) :=
  parseSection_cblock pos key cs lead d j st fl F hr hs hc hF

/-- **the child loop of a block** at the start of a line, on any forest of children with comments at depth `d + 1`. -/
theorem C02_cblock_children (pos : Nat → CPos) (cs : List CNode) (d i : Nat) (st : PState) (fl : List Token)
    (acc : List Node) (kp : KeyPos) (F : Nat)
    (hr : st.rest = toksList pos cs (d + 1) i ++ fl) (hs : stopsL (2 * (d + 1)) fl = true)
    (hc : colsOkList pos cs (d + 1) i = true) (hF : (toksList pos cs (d + 1) i).length + 1 ≤ F) :
    blockLoop F (2 * (d + 1)) 0 [] acc kp st = .ok (acc ++ nodeList pos cs i,
      { st with rest := fl, prev := prevAfterList pos st.prev cs i,
                pos := st.pos + (toksList pos cs (d + 1) i).length,
                warnings := (warnsList pos cs kp i).reverse ++ st.warnings }) :=
  blockLoop_cforest pos cs d i st fl acc kp F hr hs hc hF

/-- **orphan comments**: comment lines indented like the children (`INDENT(2·(d+1)) COMMENT NEWLINE`) after the last child,
followed by a context that `stopsL`, become `Comment` children of the block, in order — never comments of a later node. -/
theorem C02_comment_orphans (pos : Nat → CPos) (d : Nat) (fl : List Token) (hs : stopsL (2 * (d + 1)) fl = true)
    (G : Nat) (kp : KeyPos) (orph : List Str) (i : Nat) (acc : List Node) (st : PState)
    (hr : st.rest = leadToks pos (d + 1) orph i ++ fl) :
    ∃ p' : Option Token,
      blockLoop (3 * orph.length + G + 1) (2 * (d + 1)) 0 [] acc kp st
        = .ok (acc ++ orph.map Node.comment, { st with rest := fl, prev := p', pos := st.pos + 3 * orph.length }) := by
  obtain ⟨rest, p, n, la, w, dp, wd, s, th, al⟩ := st
  simp only at hr
  subst hr
  obtain ⟨p', h⟩ := blockLoop_orphans pos d fl hs G kp la w dp wd s th al orph i [] acc p n
  exact ⟨p', by rw [h, List.nil_append]⟩

/-- **The parser on a token list with comments** (any mode): the document, and the final parser state. -/
theorem C02_ctree_parseDocument (env : Env) (strict : Bool) (f : Frame) (name : Str) (pos : Nat → CPos) (nodes : List CNode)
    (trailing : List Str) (hm : metaFirstC nodes = false) (hc : colsOkList pos nodes 0 0 = true) :
    parseDocument.run (initState env (cTreeToks f name pos nodes trailing) strict)
      = .ok (cTreeDoc name pos nodes trailing,
             { initState env (cTreeToks f name pos nodes trailing) strict with
                 rest := [f.nl1Tok, f.eofTok], prev := some f.endTok,
                 pos := (toksList pos nodes 0 0).length + 2 * trailing.length + 3,
                 warnings := (warnsList pos nodes [] 0).reverse }) := by
  have h := parseDocument_ctree f name pos nodes trailing (initState env (cTreeToks f name pos nodes trailing) strict) hm hc rfl
  simp only [StateT.run]
  rw [h]
  simp only [initState, List.append_nil, Nat.zero_add]

/-- **C02, documents with nested blocks and comments, strict entry point** (`parse`): exactly `cTreeDoc` — every leading
comment list and trailing comment at its own node, the document's trailing comments in `Document.trailingComments` — for
every name, every forest (any depth, any width, any number of comments anywhere) and all positions, provided the first
top-level node is not an uncommented `META` and the block-key columns are consistent with the indentation. -/
theorem C02_ctree_document_read (env : Env) (f : Frame) (name : Str) (pos : Nat → CPos) (nodes : List CNode) (trailing : List Str)
    (hm : metaFirstC nodes = false) (hc : colsOkList pos nodes 0 0 = true) :
    parseToks env (cTreeToks f name pos nodes trailing) = .ok (cTreeDoc name pos nodes trailing) := by
  unfold parseToks
  rw [C02_ctree_parseDocument env true f name pos nodes trailing hm hc]
  rfl

/-- the trailing comments of the document that is read are exactly `trailing`. -/
theorem C02_ctree_trailing_comments (env : Env) (f : Frame) (name : Str) (pos : Nat → CPos) (nodes : List CNode) (trailing : List Str)
    (hm : metaFirstC nodes = false) (hc : colsOkList pos nodes 0 0 = true) :
    (parseToks env (cTreeToks f name pos nodes trailing)).map Document.trailingComments = .ok trailing := by
  rw [C02_ctree_document_read env f name pos nodes trailing hm hc]
  rfl

/-- … in particular with the columns the lexer produces (every block key at column `2·d + 1`, all other positions arbitrary). -/
theorem C02_ctree_document_read_canon (env : Env) (f : Frame) (name : Str) (pos : Nat → CPos) (nodes : List CNode) (trailing : List Str)
    (hm : metaFirstC nodes = false) (hc : canonColsList pos nodes 0 0 = true) :
    parseToks env (cTreeToks f name pos nodes trailing) = .ok (cTreeDoc name pos nodes trailing) :=
  C02_ctree_document_read env f name pos nodes trailing hm (colsOkList_of_canon pos nodes 0 0 hc)

/-- **… lenient entry point** (`parse_with_warnings`): the same document and exactly the warnings `warnsList pos nodes [] 0`
(comments never warn: per line W_PATTERN_AUTOQUOTE then the duplicate-key warning of its level). -/
theorem C02_ctree_document_read_warnings (env : Env) (f : Frame) (name : Str) (pos : Nat → CPos) (nodes : List CNode)
    (trailing : List Str) (hm : metaFirstC nodes = false) (hc : colsOkList pos nodes 0 0 = true) :
    parseToksWithWarnings env (cTreeToks f name pos nodes trailing)
      = .ok (cTreeDoc name pos nodes trailing, warnsList pos nodes [] 0) := by
  unfold parseToksWithWarnings
  rw [C02_ctree_parseDocument env false f name pos nodes trailing hm hc]
  simp only [bind, Except.bind, pure, Except.pure, List.reverse_reverse]

/-- … and no warning at all when no line is a bare word under `PATTERN`/`REGEX` and no Assignment key repeats within one
level (`quietList`, top-level keys `Nodup`). -/
theorem C02_ctree_document_read_silent (env : Env) (f : Frame) (name : Str) (pos : Nat → CPos) (nodes : List CNode)
    (trailing : List Str) (hm : metaFirstC nodes = false) (hc : colsOkList pos nodes 0 0 = true)
    (hq : quietList nodes = true) (hnd : (lineKeys nodes).Nodup) :
    parseToksWithWarnings env (cTreeToks f name pos nodes trailing) = .ok (cTreeDoc name pos nodes trailing, []) := by
  rw [C02_ctree_document_read_warnings env f name pos nodes trailing hm hc,
    CommentParse.warnsList_eq_nil pos nodes [] 0 hq hnd (fun _ _ => rfl)]

/-- text level, given the lexer half: if the (frontmatter-stripped) text lexes to `cTreeToks`, `parse` returns `cTreeDoc`
(with the stripped frontmatter recorded). -/
theorem C02_ctree_text_read (env : Env) (content : Str) (f : Frame) (name : Str) (pos : Nat → CPos) (nodes : List CNode)
    (trailing : List Str) (reps : List Repair)
    (ht : Lexer.tokenize env (stripFrontmatter env content).1 = .ok (cTreeToks f name pos nodes trailing, reps))
    (hm : metaFirstC nodes = false) (hc : colsOkList pos nodes 0 0 = true) :
    Parser.parse env content
      = .ok { cTreeDoc name pos nodes trailing with rawFrontmatter := (stripFrontmatter env content).2 } := by
  rw [parse_eq_parseToks env content _ reps ht, C02_ctree_document_read env f name pos nodes trailing hm hc]
  rfl

theorem C02_ctree_text_read_warnings (env : Env) (content : Str) (f : Frame) (name : Str) (pos : Nat → CPos)
    (nodes : List CNode) (trailing : List Str) (reps : List Repair)
    (ht : Lexer.tokenize env (stripFrontmatter env content).1 = .ok (cTreeToks f name pos nodes trailing, reps))
    (hm : metaFirstC nodes = false) (hc : colsOkList pos nodes 0 0 = true) :
    Parser.parseWithWarnings env content
      = .ok ({ cTreeDoc name pos nodes trailing with rawFrontmatter := (stripFrontmatter env content).2 }, reps,
             warnsList pos nodes [] 0) := by
  rw [parseWithWarnings_eq_parseToks env content _ reps ht, C02_ctree_document_read_warnings env f name pos nodes trailing hm hc]
  rfl

/-- the first stage of the task as an instance: a FLAT document whose lines carry leading and trailing comments, followed by
document-trailing comments (any number of lines, any number of comments); no hypothesis on columns. -/
theorem C02_flat_comments (env : Env) (f : Frame) (name : Str) (pos : Nat → CPos)
    (lines : List (Str × Scalar × List Str × Option Str)) (trailing : List Str)
    (hm : metaFirstC (lines.map fun x => CNode.line x.1 x.2.1 x.2.2.1 x.2.2.2) = false) :
    parseToks env (cTreeToks f name pos (lines.map fun x => CNode.line x.1 x.2.1 x.2.2.1 x.2.2.2) trailing)
      = .ok (cTreeDoc name pos (lines.map fun x => CNode.line x.1 x.2.1 x.2.2.1 x.2.2.2) trailing) := by
  apply C02_ctree_document_read env f name pos _ trailing hm
  clear hm
  have h : ∀ d i, colsOkList pos (lines.map fun x => CNode.line x.1 x.2.1 x.2.2.1 x.2.2.2) d i = true := by
    induction lines with
    | nil => intro d i; rfl
    | cons x r ih =>
      intro d i
      simp only [List.map_cons, colsOkList, CNode.colsOk, Bool.true_and]
      exact ih _ _
  exact h 0 0


/-! ### non-vacuity -/

/-- what may follow a block: the contexts that arise in canonical text `stopsL`, the ambiguous ones do not. -/
example (p q : CPos) (key : Str) (c : Str) (f : Frame) :
    -- a sibling's / an ancestor's sibling's INDENT (also in front of its comment line), an unindented key, `===END===`:
    stopsL (2 * 2 + 1) [indTok 2 p] = true ∧ stopsL (2 * 2 + 1) [indTok 1 p, cmtTok c 0 0] = true
    ∧ stopsL (2 * 2 + 1) [keyTok key p] = true ∧ stopsL (2 * 2 + 1) [f.endTok] = true
    -- unindented comment lines up to an unindented key or `===END===` (canonical), or up to a line that is not deeper:
    ∧ stopsL (2 * 2 + 1) [cmtTok c 0 0, nlTok p, cmtTok c 0 0, nlTok q, keyTok key p] = true
    ∧ stopsL (2 * 2 + 1) [cmtTok c 0 0, nlTok p, f.endTok] = true
    ∧ stopsL (2 * 2 + 1) [cmtTok c 0 0, nlTok p, indTok 1 q, keyTok key q] = true
    -- not: a deeper INDENT, a blank line, an unindented comment followed by a deeper line ("a dedented comment that is followed
    -- by a further child keeps its lenient treatment"), a comment at the end of the tokens
    ∧ stopsL (2 * 2 + 1) [indTok 3 p] = false ∧ stopsL (2 * 2 + 1) [nlTok p] = false
    ∧ stopsL (2 * 2 + 1) [cmtTok c 0 0, nlTok p, indTok 3 q, keyTok key q] = false
    ∧ stopsL (2 * 2 + 1) [cmtTok c 0 0, nlTok p] = false := by
  simp [stopsL, scanOuter, preOK, indTok, BlockParse.indentVal, keyTok, nlTok, cmtTok, Frame.endTok]

/-- the two look-aheads are independent: an unindented comment, a DEEPER comment line, then an unindented key — the loop's
`scanOuter` says "outer" (the next non-comment line is not indented), the empty-block path (`preOK`) sees a deeper INDENT. -/
example (p q : CPos) (key : Str) (c : Str) :
    scanOuter 5 [nlTok p, indTok 3 q, cmtTok c 0 0, nlTok q, keyTok key p] 0 = true
    ∧ preOK 5 [nlTok p, indTok 3 q, cmtTok c 0 0, nlTok q, keyTok key p] = false := by
  simp [scanOuter, preOK, indTok, BlockParse.indentVal, keyTok, nlTok, cmtTok]

/-- the block-level theorem instantiated: a commented block with a commented child carrying a trailing comment, followed by
`===END===`; state and positions symbolic (12 tokens). -/
example (pos : Nat → CPos) (f : Frame) (a b t : Str) (st : PState) (k : List Token) (h1 : (pos 1).c1 = 1)
    (hr : st.rest = (CNode.block "B".toList [ .line "X".toList .null [b] (some t) ] [a]).core pos 0 1 ++ f.endTok :: k) :
    (parseSection 12 [a] st).map Prod.fst
      = .ok (some (.block "B".toList [ .assign "X".toList .null (pos 3).l (pos 3).c1 [b] (some t) ] (pos 1).l (pos 1).c1 [a] none)) := by
  rw [C02_cblock_read pos _ _ _ 0 1 st (f.endTok :: k) 12 hr (by simp [stopsL, Frame.endTok])
    (by simp [CNode.colsOk, colsOkList, h1]) (by simp [CNode.core, toksList, leadToks, indToks, trailToks, CNode.lead])]
  rfl

/-- the orphan theorem instantiated: two comment lines at indentation 2 and then `===END===`, in the child loop of a block whose
children are indented by 2. -/
example (pos : Nat → CPos) (f : Frame) (o1 o2 : Str) (st : PState) (k : List Token)
    (hr : st.rest = leadToks pos 1 [o1, o2] 5 ++ f.endTok :: k) :
    ∃ p' : Option Token, blockLoop 7 2 0 [] [] [] st
      = .ok ([.comment o1, .comment o2], { st with rest := f.endTok :: k, prev := p', pos := st.pos + 6 }) :=
  C02_comment_orphans pos 0 (f.endTok :: k) (by simp [stopsL, Frame.endTok]) 0 [] [o1, o2] 5 [] st hr

/-- the example: leading comments at depth 0, 1 (one and two lines) and 2, a trailing comment, an empty block with a leading
comment as last child, two document-trailing comments. -/
def cExText : Str :=
  "===D===\n// top\nB:\n  // one\n  X::1 // tx\n  // two a\n  // two b\n  C:\n    // deep\n    Y::\"s\"\n  // le\n  E:\nZ::true\n// dt1\n// dt2\n===END===\n".toList
def cExFrame : Frame := { envL := 1, envC := 1, nl0L := 1, nl0C := 8, endL := 16, endC := 1, nl1L := 16, nl1C := 10, eofL := 17, eofC := 1 }
/-- one record per body line, comment lines included (fields not used by a line are 0). -/
def cExPos (i : Nat) : CPos :=
  [ (⟨0, 0, 2, 1, 0, 0, 7, 0⟩ : CPos),     -- // top
    ⟨0, 0, 3, 1, 2, 0, 3, 0⟩,               -- B:
    ⟨4, 1, 4, 3, 0, 0, 9, 0⟩,               --   // one
    ⟨5, 1, 5, 3, 4, 6, 13, 8⟩,              --   X::1 // tx
    ⟨6, 1, 6, 3, 0, 0, 11, 0⟩,              --   // two a
    ⟨7, 1, 7, 3, 0, 0, 11, 0⟩,              --   // two b
    ⟨8, 1, 8, 3, 4, 0, 5, 0⟩,               --   C:
    ⟨9, 1, 9, 5, 0, 0, 12, 0⟩,              --     // deep
    ⟨10, 1, 10, 5, 6, 8, 11, 0⟩,            --     Y::"s"
    ⟨11, 1, 11, 3, 0, 0, 8, 0⟩,             --   // le
    ⟨12, 1, 12, 3, 4, 0, 5, 0⟩,             --   E:
    ⟨0, 0, 13, 1, 2, 4, 8, 0⟩,              -- Z::true
    ⟨0, 0, 14, 1, 0, 0, 7, 0⟩,              -- // dt1
    ⟨0, 0, 15, 1, 0, 0, 7, 0⟩ ].getD i default   -- // dt2
def cExNodes : List CNode :=
  [ .block "B".toList
      [ .line "X".toList (.int 1 "1".toList) ["one".toList] (some "tx".toList),
        .block "C".toList [ .line "Y".toList (.str "s".toList) ["deep".toList] none ] ["two a".toList, "two b".toList],
        .block "E".toList [] ["le".toList] ]
      ["top".toList],
    .line "Z".toList (.bool true) [] none ]
def cExTrailing : List Str := ["dt1".toList, "dt2".toList]

/-- the lexer model produces exactly `cTreeToks` on the example text, with no repairs: the token shape described at the
top is the real one (a comment: ONE token `COMMENT(text)`; a comment line of a node at depth `d > 0`: `INDENT(2·d) COMMENT
NEWLINE` before the node's own `INDENT(2·d) …` line; a trailing comment between the value and the NEWLINE). -/
theorem cExText_lexes : Lexer.tokenize Env.ascii (stripFrontmatter Env.ascii cExText).1
    = .ok (cTreeToks cExFrame "D".toList cExPos cExNodes cExTrailing, []) := by
  have h : (match Lexer.tokenize Env.ascii (stripFrontmatter Env.ascii cExText).1 with
      | .ok p => p == (cTreeToks cExFrame "D".toList cExPos cExNodes cExTrailing, []) | .error _ => false) = true := by decide +kernel
  cases hx : Lexer.tokenize Env.ascii (stripFrontmatter Env.ascii cExText).1 with
  | error e => rw [hx] at h; cases h
  | ok p => rw [hx] at h; simp only [beq_iff_eq] at h; rw [h]

/-- the document the example must be read as, written out. -/
def cExDoc : Document :=
  { name := "D".toList,
    sections :=
      [ .block "B".toList
          [ .assign "X".toList (.int 1) 5 3 ["one".toList] (some "tx".toList),
            .block "C".toList [ .assign "Y".toList (.str "s".toList) 10 5 ["deep".toList] none ] 8 3 ["two a".toList, "two b".toList] none,
            .block "E".toList [] 12 3 ["le".toList] none ] 3 1 ["top".toList] none,
        .assign "Z".toList (.bool true) 13 1 [] none ],
    trailingComments := ["dt1".toList, "dt2".toList] }

example : cTreeDoc "D".toList cExPos cExNodes cExTrailing = cExDoc := rfl

/-- the example's block keys are at the lexer's columns. -/
example : canonColsList cExPos cExNodes 0 0 = true := by decide

set_option maxRecDepth 4096 in
/-- the theorem applied (not evaluated): strict and lenient read of the example text. -/
example : Parser.parse Env.ascii cExText = .ok cExDoc :=
  C02_ctree_text_read Env.ascii cExText cExFrame _ cExPos cExNodes cExTrailing [] cExText_lexes rfl (by decide)

set_option maxRecDepth 4096 in
example : Parser.parseWithWarnings Env.ascii cExText = .ok (cExDoc, [], []) := by
  have h := C02_ctree_text_read_warnings Env.ascii cExText cExFrame _ cExPos cExNodes cExTrailing [] cExText_lexes rfl (by decide)
  rw [h, CommentParse.warnsList_eq_nil cExPos cExNodes [] 0 (by decide) (by decide) (fun _ _ => rfl)]
  rfl

/-- the whole model evaluated on the same text gives the same document (independent of the theorem; `docEqC` compares the
`leading` / `trailing` comments of every node and `trailingComments`, and is sound: `isOkDocC_sound`). -/
example : Parser.parse Env.ascii cExText = .ok cExDoc :=
  isOkDocC_sound (by decide +kernel)

/-- an instance with symbolic content and positions: comments everywhere; `META` as the FIRST node but behind a comment
(an ordinary block then); a nested empty `META` block with a leading comment as the last child of a block whose next sibling
follows; trailing comments of the document. -/
example (env : Env) (f : Frame) (pos : Nat → CPos) (a b c e g t s w : Str) (i : Int) (raw : Str)
    (h1 : (pos 1).c1 = 1) (h5 : (pos 5).c1 = 3) (h7 : (pos 7).c1 = 5) :
    parseToks env (cTreeToks f "DOC".toList pos
      [ .block "META".toList                                            -- line 0: // a     line 1: META:
          [ .line "K".toList (.str s) [b, c] (some t),                  -- lines 2, 3: // b, // c     line 4: K::"s" // t
            .block "A".toList [ .block "META".toList [] [e] ] [],       -- line 5: A:    line 6: // e    line 7: META:
            .line "K".toList (.word w) [] none ] [a],                   -- line 8: K::w
        .line "X".toList (.int i raw) [g] none ] [t, a])                -- line 9: // g   line 10: X::i   lines 11, 12: // t, // a
    = .ok { name := "DOC".toList,
            sections :=
              [ .block "META".toList
                  [ .assign "K".toList (.str s) (pos 4).l (pos 4).c1 [b, c] (some t),
                    .block "A".toList [ .block "META".toList [] (pos 7).l (pos 7).c1 [e] none ] (pos 5).l (pos 5).c1 [] none,
                    .assign "K".toList (.str w) (pos 8).l (pos 8).c1 [] none ] (pos 1).l (pos 1).c1 [a] none,
                .assign "X".toList (.int i) (pos 10).l (pos 10).c1 [g] none ],
            trailingComments := [t, a] } :=
  C02_ctree_document_read env f _ pos _ _ (by simp [metaFirstC, CNode.lead])
    (by simp [colsOkList, CNode.colsOk, CNode.lines, CNode.lead, h1, h5, h7])

/-- the warnings are those of the document without comments: a key repeated within a block is reported for that block. -/
example (pos : Nat → CPos) (x y z : Scalar) (c : Str) :
    warnsList pos
      [ .block "B".toList [ .line "X".toList x [c] none, .line "X".toList y [c, c] (some c) ] [c], .line "X".toList z [] none ] [] 0
      = [ .duplicateKey "X".toList (pos 3).l (pos 6).l [(pos 3).l, (pos 6).l] ] := by
  cases x <;> cases y <;> cases z <;>
    simp [warnsList, CNode.warns, CommentParse.trackNode, trackPure, List.lookup, lineWarns, Line.warns, CNode.lines, linesList, CNode.lead]

/-! ### orphans, and the hypotheses are necessary -/

/-- a comment line indented like the children, after the last child: an orphan `Comment` child of the block, NOT a leading
comment of the block's next sibling `Z` (the real reader: the same). -/
example : Parser.parse Env.ascii "===D===\nA:\n  X::1\n  // orphan\nZ::3\n===END===\n".toList
    = .ok { name := "D".toList,
            sections := [ .block "A".toList [ .assign "X".toList (.int 1) 3 3 [] none, .comment "orphan".toList ] 2 1 [] none,
                          .assign "Z".toList (.int 3) 5 1 [] none ] } :=
  isOkDocC_sound (by decide +kernel)

/-- the same comment written at the sibling's own indentation (what the emitter does for `Z.leading`): it is `Z`'s. -/
example : Parser.parse Env.ascii "===D===\nA:\n  X::1\n// lz\nZ::3\n===END===\n".toList
    = .ok { name := "D".toList,
            sections := [ .block "A".toList [ .assign "X".toList (.int 1) 3 3 [] none ] 2 1 [] none,
                          .assign "Z".toList (.int 3) 5 1 ["lz".toList] none ] } :=
  isOkDocC_sound (by decide +kernel)

/-- orphans at two levels, then a commented top-level node: each comment stays at its own level. -/
example : Parser.parse Env.ascii "===D===\nA:\n  B:\n    X::1\n    // ob\n  // oa\n// lz\nZ::1\n===END===\n".toList
    = .ok { name := "D".toList,
            sections := [ .block "A".toList
                            [ .block "B".toList [ .assign "X".toList (.int 1) 4 5 [] none, .comment "ob".toList ] 3 3 [] none,
                              .comment "oa".toList ] 2 1 [] none,
                          .assign "Z".toList (.int 1) 8 1 ["lz".toList] none ] } :=
  isOkDocC_sound (by decide +kernel)

/-- `metaFirstC`: an UNCOMMENTED `META:` block first is read into `doc.meta`, `sections` stays empty — and the comments inside
it are dropped (the real reader: `meta {'X': 1}`, no sections, re-emitted without the comments). -/
example : (match Parser.parse Env.ascii "===D===\nMETA:\n  // c\n  X::1 // t\n===END===\n".toList with
    | .ok d => d.sections.isEmpty && !d.metaKv.isEmpty && d.trailingComments.isEmpty | .error _ => false) = true := by
  decide +kernel

/-- … but behind a comment line `META:` is an ordinary block (covered by the theorem: `metaFirstC` is false). -/
example : Parser.parse Env.ascii "===D===\n// c\nMETA:\n  X::1\n===END===\n".toList
    = .ok { name := "D".toList,
            sections := [ .block "META".toList [ .assign "X".toList (.int 1) 4 3 [] none ] 3 1 ["c".toList] none ] } :=
  isOkDocC_sound (by decide +kernel)

/-- `colsOk` violated on an EMPTY commented block (depth 1, key column 1: `block_indent = 0 < 2`): the next sibling, WITH its
leading comment, is read as its child.  (Token level only: the lexer never produces this.) -/
example :
    parseToks Env.ascii (cTreeToks default "D".toList (fun _ => ⟨9, 1, 9, 1, 5, 7, 8, 6⟩)
        [ .block "A".toList [ .block "B".toList [] ["b".toList], .line "Z".toList .null ["z".toList] none ] [] ] [])
      = .ok { name := "D".toList,
              sections := [ .block "A".toList
                  [ .block "B".toList [ .assign "Z".toList .null 9 1 ["z".toList] none ] 9 1 ["b".toList] none ] 9 1 [] none ] } :=
  isOkDocC_sound (by decide +kernel)

end Octave.C02
