/-
C01 / C02 / C15 on documents with NESTED BLOCKS AND COMMENTS — the document-level statement, proved for all inputs of the class:

  a tree document with comments = an envelope `===NAME===`, a forest of `CNode`s — lines `KEY::scalar` (scalar = a string the
  emitter quotes, a bare word, a boolean, null, an integer) with ANY number of leading comment lines and an optional trailing
  comment (the EMPTY one included: `KEY::v //`), blocks `KEY:` with ANY number of leading comment lines and children two
  spaces deeper — ANY depth, ANY width —, then ANY number of trailing comment lines of the document, `===END===`.

For every such document (any name, any forest, any keys, any values, any comment texts that are strip-stable and free of line
breaks and tabs):

  * `C01_ctree_canonical_is_readable`  the strict reader accepts the canonical text and returns the same document: every node
                                       at the text line of its key (comment lines count), column `1 + 2·depth`, with exactly
                                       its leading comments and its trailing comment; `Document.trailingComments = trailing`;
  * `C01_ctree_fixed_point`            canonicalising the canonical text gives the same bytes: `emit (parse (emit d)) = emit d`
                                       (`…_matches`: for ANY AST that carries the tree, whatever positions its nodes hold);
  * `C02_ctree_content_preserved`      the document read back has the same envelope name, its sections carry exactly the tree
                                       (`ctreeMatches`: per node the same key, value with its type, children in order, THE SAME
                                       LEADING COMMENTS IN THE SAME ORDER, THE SAME TRAILING COMMENT), its `trailingComments` are
                                       exactly the document's trailing comments in order; no META, no separator appear;
                                       `C02_ctree_comments_in_order`: the comment texts of the AST read back, in document order,
                                       are those of the tree;
  * `C02_ctree_lenient_read`           the lenient entry point reads the same document, with no normalisation receipt
                                       (`…_exact`: the exact receipts and warnings; `…_silent`: when there is no warning);
  * `ctree_text_injective`             the canonical text determines name, content (`ctreeContent`: comments included) and the
                                       document's trailing comments;
  * `C15_ctree_emit_injective`         two such documents with the same emitted text have the same name, the same content and
                                       the same trailing comments: the reader is a left inverse of the emitter (`…_matches`:
                                       for any two ASTs carrying the trees).

It composes the lexer half (`Lemmas/CommentLex`, `Props/C01comments`) with the parser half (`Lemmas/CommentParse`,
`Props/C02comments`) through `Lemmas/CommentBridge`.  Hypotheses, all decidable and all necessary (see the `necessity` section
and the real-code runs reported with this file):
  `isEnvName name`, `name ≠ "END"`; keys (of lines and of blocks) are identifier-shaped without a reserved-word prefix, bare
  words likewise, and every comment text of the tree satisfies `CommentOK` (`ctreeOK env`); so do the document's trailing
  comments; the values are spelled the way the emitter spells them and the comments are strip-stable (`ctreeEmitOK env`); the
  first top-level node is not an UN-COMMENTED node keyed `META` (`firstIsBareMeta nodes = false`: weaker than in
  `Props/C01tree` — a comment line in front hides `META` from `parse_document`'s test, so a commented `META` first is an
  ordinary node and is covered); NFC leaves every line of the text unchanged (`hnfc`: the documented limit of the format —
  open finding F16 is what happens otherwise).
The injectivity theorems need only `isEnvName`, `ctreeOK` and `CommentOK` of the trailing comments (`ctreeEmitOK` too when
stated on `emit`): the hypotheses on `META`, `END` and NFC are discharged inside the proof (the body is re-read under the name
`D`, behind a dummy first line, in the ASCII environment; `CommentOK` transfers to that environment: `ctreeOK_ascii`).
Orphan comments (`Comment` children at the end of a block; parser half `Props/C02orphans`) are outside this class: the lexer
half has no orphans.
-/
import Octave.Lemmas.CommentBridge
import Octave.Props.C01comments
import Octave.Props.C02comments
namespace Octave.C01
open Octave Lexer Emitter

/-- the lexer half in the vocabulary of the parser half: the (frontmatter-stripped) canonical text lexes to `cTreeToks` at
the positions `cposOf` inside the frame `cFrame`. -/
theorem ctree_text_lexes (env : Env) (lenient : Bool) (name : Str) (nodes : List CNode) (trailing : List Str)
    (hn : isEnvName name = true) (hne : name ≠ "END".toList) (hok : ctreeOK env nodes)
    (htr : ∀ c ∈ trailing, CommentOK env c)
    (hnfc : ∀ l ∈ splitLines (cDocText name nodes trailing), env.nfc l = l) :
    Lexer.tokenize env (Parser.stripFrontmatter env (cDocText name nodes trailing)).1 lenient
      = .ok (CommentParse.cTreeToks (cFrame name nodes trailing) name (cposOf nodes trailing) (ctreeToP nodes) trailing,
             (ctreeRepsRev 0 2 nodes).reverse) := by
  rw [stripFrontmatter_ctree, ← cToks_bridge]
  exact tokenize_ctree env lenient name nodes trailing hn hne hok htr hnfc

theorem metaFirstC_false (nodes : List CNode) (hm : firstIsBareMeta nodes = false) :
    CommentParse.metaFirstC (ctreeToP nodes) = false := by
  rw [metaFirstC_bridge]; exact hm

/-- **the canonical text of a document with nested blocks and comments is accepted by the strict reader, which returns the
same document**: every node positioned at the text line of its key, column `1 + 2·depth` (`canonPos`), carrying exactly its
leading comments and its trailing comment; the document's trailing comments in `trailingComments`. -/
theorem C01_ctree_canonical_is_readable (env : Env) (name : Str) (nodes : List CNode) (trailing : List Str)
    (hn : isEnvName name = true) (hne : name ≠ "END".toList) (hok : ctreeOK env nodes)
    (htr : ∀ c ∈ trailing, CommentOK env c) (hm : firstIsBareMeta nodes = false)
    (hnfc : ∀ l ∈ splitLines (cDocText name nodes trailing), env.nfc l = l) :
    Parser.parse env (cDocText name nodes trailing) = .ok (cDoc name canonPos nodes trailing) := by
  have hlex := ctree_text_lexes env false name nodes trailing hn hne hok htr hnfc
  have := C02.C02_ctree_text_read env (cDocText name nodes trailing) (cFrame name nodes trailing) name
    (cposOf nodes trailing) (ctreeToP nodes) trailing _ hlex (metaFirstC_false nodes hm) (colsOk_cposOf nodes trailing)
  rw [this, stripFrontmatter_ctree, cTreeDoc_bridge]
  rfl

/-- **C01 on documents with nested blocks and comments: the canonical text is a fixed point.**  Emit the document, read the
text with the strict reader, emit again: the same bytes.  For every tree document with comments, whatever positions its
nodes carry. -/
theorem C01_ctree_fixed_point (env : Env) (name : Str) (pos : Nat → Nat → Nat × Nat) (nodes : List CNode)
    (trailing : List Str) (hn : isEnvName name = true) (hne : name ≠ "END".toList) (hok : ctreeOK env nodes)
    (hem : ctreeEmitOK env nodes) (htr : ∀ c ∈ trailing, CommentOK env c) (hm : firstIsBareMeta nodes = false)
    (hnfc : ∀ l ∈ splitLines (cDocText name nodes trailing), env.nfc l = l) :
    ∃ text d', emit env (cDoc name pos nodes trailing) = some text ∧ Parser.parse env text = .ok d' ∧
      emit env d' = some text :=
  ⟨cDocText name nodes trailing, cDoc name canonPos nodes trailing,
   emit_ctree env name pos nodes trailing hem (fun c hc => (htr c hc).1),
   C01_ctree_canonical_is_readable env name nodes trailing hn hne hok htr hm hnfc,
   emit_ctree env name _ nodes trailing hem (fun c hc => (htr c hc).1)⟩

/-- the same for ANY AST that carries the tree (any positions at all in the nodes, not only those given by a function of
line index and depth). -/
theorem C01_ctree_fixed_point_matches (env : Env) (name : Str) (nodes : List CNode) (trailing : List Str)
    (sections : List Node) (hmt : ctreeMatches nodes sections)
    (hn : isEnvName name = true) (hne : name ≠ "END".toList) (hok : ctreeOK env nodes)
    (hem : ctreeEmitOK env nodes) (htr : ∀ c ∈ trailing, CommentOK env c) (hm : firstIsBareMeta nodes = false)
    (hnfc : ∀ l ∈ splitLines (cDocText name nodes trailing), env.nfc l = l) :
    ∃ text d', emit env { name := name, sections := sections, trailingComments := trailing } = some text ∧
      Parser.parse env text = .ok d' ∧ emit env d' = some text :=
  ⟨cDocText name nodes trailing, cDoc name canonPos nodes trailing,
   emit_ctree_matches env name nodes trailing sections hmt hem (fun c hc => (htr c hc).1),
   C01_ctree_canonical_is_readable env name nodes trailing hn hne hok htr hm hnfc,
   emit_ctree env name _ nodes trailing hem (fun c hc => (htr c hc).1)⟩

/-- **C02 on documents with nested blocks and comments: reading the canonical text yields exactly the content that was
written, every comment at its node** — name; sections that carry the tree (`ctreeMatches`: per node the same key, for a line
the same value with its type, the same `leading_comments` (texts and order) and the same `trailing_comment`, for a block the
same `leading_comments` and the same children in the same order, recursively; no block target); `trailingComments` exactly
the document's trailing comments (texts and order); nothing else appears. -/
theorem C02_ctree_content_preserved (env : Env) (name : Str) (pos : Nat → Nat → Nat × Nat) (nodes : List CNode)
    (trailing : List Str) (hn : isEnvName name = true) (hne : name ≠ "END".toList) (hok : ctreeOK env nodes)
    (hem : ctreeEmitOK env nodes) (htr : ∀ c ∈ trailing, CommentOK env c) (hm : firstIsBareMeta nodes = false)
    (hnfc : ∀ l ∈ splitLines (cDocText name nodes trailing), env.nfc l = l) :
    ∃ text d', emit env (cDoc name pos nodes trailing) = some text ∧ Parser.parse env text = .ok d' ∧
      d'.name = name ∧ d'.metaKv = [] ∧ d'.hasSeparator = false ∧ d'.trailingComments = trailing ∧
      d'.grammarVersion = none ∧ d'.rawFrontmatter = none ∧ ctreeMatches nodes d'.sections :=
  ⟨cDocText name nodes trailing, cDoc name canonPos nodes trailing,
   emit_ctree env name pos nodes trailing hem (fun c hc => (htr c hc).1),
   C01_ctree_canonical_is_readable env name nodes trailing hn hne hok htr hm hnfc, rfl, rfl, rfl, rfl, rfl, rfl,
   ctreeNodes_matches canonPos nodes 0 0⟩

/-- the same for ANY AST that carries the tree. -/
theorem C02_ctree_content_preserved_matches (env : Env) (name : Str) (nodes : List CNode) (trailing : List Str)
    (sections : List Node) (hmt : ctreeMatches nodes sections)
    (hn : isEnvName name = true) (hne : name ≠ "END".toList) (hok : ctreeOK env nodes)
    (hem : ctreeEmitOK env nodes) (htr : ∀ c ∈ trailing, CommentOK env c) (hm : firstIsBareMeta nodes = false)
    (hnfc : ∀ l ∈ splitLines (cDocText name nodes trailing), env.nfc l = l) :
    ∃ text d', emit env { name := name, sections := sections, trailingComments := trailing } = some text ∧
      Parser.parse env text = .ok d' ∧
      d'.name = name ∧ d'.metaKv = [] ∧ d'.hasSeparator = false ∧ d'.trailingComments = trailing ∧
      d'.grammarVersion = none ∧ d'.rawFrontmatter = none ∧ ctreeMatches nodes d'.sections :=
  ⟨cDocText name nodes trailing, cDoc name canonPos nodes trailing,
   emit_ctree_matches env name nodes trailing sections hmt hem (fun c hc => (htr c hc).1),
   C01_ctree_canonical_is_readable env name nodes trailing hn hne hok htr hm hnfc, rfl, rfl, rfl, rfl, rfl, rfl,
   ctreeNodes_matches canonPos nodes 0 0⟩

/-! ### the comments of an AST, in document order -/

mutual
/-- the comment texts an AST node carries, in document order: its leading comments, then its trailing comment (an
assignment) or the comments of its children (a block); other node kinds do not occur in this class. -/
def nodeComments : Node → List Str
  | .assign _ _ _ _ lead trail => lead ++ trail.toList
  | .block _ children _ _ lead _ => lead ++ nodesComments children
  | _ => []
def nodesComments : List Node → List Str
  | [] => []
  | n :: ns => nodeComments n ++ nodesComments ns
end

mutual
theorem nodeComments_of_matches : ∀ (t : CNode) (n : Node), t.Matches n → nodeComments n = t.comments
  | .line ln lead trail, n, h => by
    simp only [CNode.Matches] at h
    obtain ⟨l, c, rfl⟩ := h
    simp only [nodeComments, CNode.comments]
  | .block key cs lead, n, h => by
    simp only [CNode.Matches] at h
    obtain ⟨ch, l, c, rfl, hm⟩ := h
    simp only [nodeComments, CNode.comments, nodesComments_of_matches cs ch hm]
theorem nodesComments_of_matches : ∀ (ts : List CNode) (ns : List Node), ctreeMatches ts ns →
    nodesComments ns = ctreeComments ts
  | [], ns, h => by
    simp only [ctreeMatches] at h
    subst h; rfl
  | t :: ts, ns, h => by
    simp only [ctreeMatches] at h
    obtain ⟨n, ns', rfl, h1, h2⟩ := h
    simp only [nodesComments, ctreeComments, nodeComments_of_matches t n h1, nodesComments_of_matches ts ns' h2]
end

/-- **no comment is lost, invented, moved or reordered**: all comment texts of the document read back from the canonical
text — those hanging on the nodes, in document order, then `trailingComments` — are exactly the comment texts of the
document that was written, in order (`cDocComments`; the per-node statement is `ctreeMatches` in
`C02_ctree_content_preserved`). -/
theorem C02_ctree_comments_in_order (env : Env) (name : Str) (pos : Nat → Nat → Nat × Nat) (nodes : List CNode)
    (trailing : List Str) (hn : isEnvName name = true) (hne : name ≠ "END".toList) (hok : ctreeOK env nodes)
    (hem : ctreeEmitOK env nodes) (htr : ∀ c ∈ trailing, CommentOK env c) (hm : firstIsBareMeta nodes = false)
    (hnfc : ∀ l ∈ splitLines (cDocText name nodes trailing), env.nfc l = l) :
    ∃ text d', emit env (cDoc name pos nodes trailing) = some text ∧ Parser.parse env text = .ok d' ∧
      nodesComments d'.sections ++ d'.trailingComments = cDocComments nodes trailing := by
  obtain ⟨text, d', h1, h2, _, _, _, h6, _, _, h9⟩ :=
    C02_ctree_content_preserved env name pos nodes trailing hn hne hok hem htr hm hnfc
  exact ⟨text, d', h1, h2, by rw [nodesComments_of_matches nodes _ h9, h6]; rfl⟩

/-! ### the lenient entry point -/

/-- the lenient entry point (`parse_with_warnings`) on the canonical text, exactly: the same document, the lexer's receipts
(identifier notes of keys and bare words only; comments produce none) and the parser's warnings (`CommentParse.warnsList`:
per line W_PATTERN_AUTOQUOTE for a bare word under `PATTERN`/`REGEX`, then the duplicate-key warning of its level; comments
never warn). -/
theorem C02_ctree_lenient_read_exact (env : Env) (name : Str) (nodes : List CNode) (trailing : List Str)
    (hn : isEnvName name = true) (hne : name ≠ "END".toList) (hok : ctreeOK env nodes)
    (htr : ∀ c ∈ trailing, CommentOK env c) (hm : firstIsBareMeta nodes = false)
    (hnfc : ∀ l ∈ splitLines (cDocText name nodes trailing), env.nfc l = l) :
    Parser.parseWithWarnings env (cDocText name nodes trailing)
      = .ok (cDoc name canonPos nodes trailing, (ctreeRepsRev 0 2 nodes).reverse,
             CommentParse.warnsList (cposOf nodes trailing) (ctreeToP nodes) [] 0) := by
  have hlex := ctree_text_lexes env false name nodes trailing hn hne hok htr hnfc
  have := C02.C02_ctree_text_read_warnings env (cDocText name nodes trailing) (cFrame name nodes trailing) name
    (cposOf nodes trailing) (ctreeToP nodes) trailing _ hlex (metaFirstC_false nodes hm) (colsOk_cposOf nodes trailing)
  rw [this, stripFrontmatter_ctree, cTreeDoc_bridge]
  rfl

/-- the lenient entry point (`parse_with_warnings`) reads the same document from the canonical text, and the lexer issues
no normalisation receipt. -/
theorem C02_ctree_lenient_read (env : Env) (name : Str) (nodes : List CNode) (trailing : List Str)
    (hn : isEnvName name = true) (hne : name ≠ "END".toList) (hok : ctreeOK env nodes)
    (htr : ∀ c ∈ trailing, CommentOK env c) (hm : firstIsBareMeta nodes = false)
    (hnfc : ∀ l ∈ splitLines (cDocText name nodes trailing), env.nfc l = l) :
    ∃ reps warns, Parser.parseWithWarnings env (cDocText name nodes trailing)
        = .ok (cDoc name canonPos nodes trailing, reps, warns) ∧ reps.filter isNormalization = [] := by
  refine ⟨_, _, C02_ctree_lenient_read_exact env name nodes trailing hn hne hok htr hm hnfc, ?_⟩
  rw [List.filter_reverse, ctree_repsRev_not_norm]
  rfl

/-- … and the reader is silent (no warning at all) when no line is a bare word under `PATTERN`/`REGEX` and no Assignment key
repeats within one level. -/
theorem C02_ctree_lenient_read_silent (env : Env) (name : Str) (nodes : List CNode) (trailing : List Str)
    (hn : isEnvName name = true) (hne : name ≠ "END".toList) (hok : ctreeOK env nodes)
    (htr : ∀ c ∈ trailing, CommentOK env c) (hm : firstIsBareMeta nodes = false)
    (hnfc : ∀ l ∈ splitLines (cDocText name nodes trailing), env.nfc l = l)
    (hq : CommentParse.quietList (ctreeToP nodes) = true) (hnd : (CommentParse.lineKeys (ctreeToP nodes)).Nodup) :
    Parser.parseWithWarnings env (cDocText name nodes trailing)
      = .ok (cDoc name canonPos nodes trailing, (ctreeRepsRev 0 2 nodes).reverse, []) := by
  rw [C02_ctree_lenient_read_exact env name nodes trailing hn hne hok htr hm hnfc,
    CommentParse.warnsList_eq_nil (cposOf nodes trailing) (ctreeToP nodes) [] 0 hq hnd (fun _ _ => rfl)]

/-! ### the emitter is injective on documents with nested blocks and comments (what the seal of C15 relies on) -/

/-- the text after the envelope line does not depend on the name. -/
theorem cDocText_split (name : Str) (nodes : List CNode) (trailing : List Str) :
    cDocText name nodes trailing
      = ("===".toList ++ name ++ "===".toList) ++
          '\n' :: (ctreeText 0 nodes ++ (leadText 0 trailing ++ ("===END===".toList ++ ['\n']))) := rfl

/-- a line that is certainly not keyed `META`, put in front of a tree to make the reader theorem applicable. -/
def cdummyLine : CNode := .line ⟨"A".toList, .null⟩ [] none

theorem cdummyLine_ok (env : Env) : cdummyLine.OK env := by
  simp only [cdummyLine, CNode.OK, FLine.OK, FScalar.OK, TrailOK]
  refine ⟨by decide, ?_, trivial⟩
  intro c hc
  cases hc

/-- **The canonical text determines the document, comments included**: two tree documents with comments that have the same
canonical text have the same name, the same content (`ctreeContent`: keys, nesting, order, values with their types, the
leading comments of every node and the trailing comment of every assignment) and the same trailing comments of the
document.  No hypothesis other than the shape of names, keys and comment texts (`isEnvName`, `ctreeOK`, `CommentOK`: without
them a name, a key or a comment could contain a line break and the text would be ambiguous): not on `META`, not on `END`,
not on NFC — the proof reads `===D===`, a dummy first line, then the body, with the strict reader in the ASCII environment,
and the reader is a left inverse there. -/
theorem ctree_text_injective (env1 env2 : Env) (n1 n2 : Str) (t1 t2 : List CNode) (tr1 tr2 : List Str)
    (hn1 : isEnvName n1 = true) (hok1 : ctreeOK env1 t1) (htr1 : ∀ c ∈ tr1, CommentOK env1 c)
    (hn2 : isEnvName n2 = true) (hok2 : ctreeOK env2 t2) (htr2 : ∀ c ∈ tr2, CommentOK env2 c)
    (h : cDocText n1 t1 tr1 = cDocText n2 t2 tr2) :
    n1 = n2 ∧ ctreeContent t1 = ctreeContent t2 ∧ tr1 = tr2 := by
  have hname : n1 = n2 := by
    have hs := congrArg splitLines h
    rw [splitLines_cDocText env1 n1 t1 tr1 hn1 hok1 htr1, splitLines_cDocText env2 n2 t2 tr2 hn2 hok2 htr2] at hs
    exact List.append_cancel_left (List.append_cancel_right (List.cons.inj hs).1)
  refine ⟨hname, ?_⟩
  subst hname
  rw [cDocText_split, cDocText_split] at h
  have hbody : ctreeText 0 t1 ++ (leadText 0 tr1 ++ ("===END===".toList ++ ['\n']))
      = ctreeText 0 t2 ++ (leadText 0 tr2 ++ ("===END===".toList ++ ['\n'])) :=
    (List.cons.inj (List.append_cancel_left h)).2
  have hD : cDocText "D".toList (cdummyLine :: t1) tr1 = cDocText "D".toList (cdummyLine :: t2) tr2 := by
    simp only [cDocText, ctreeText, List.append_assoc, hbody]
  have r1 := C01_ctree_canonical_is_readable Env.ascii "D".toList (cdummyLine :: t1) tr1 (by decide) (by decide)
    ⟨cdummyLine_ok _, ctreeOK_ascii env1 t1 hok1⟩ (fun c hc => (htr1 c hc).ascii) rfl (fun _ _ => rfl)
  have r2 := C01_ctree_canonical_is_readable Env.ascii "D".toList (cdummyLine :: t2) tr2 (by decide) (by decide)
    ⟨cdummyLine_ok _, ctreeOK_ascii env2 t2 hok2⟩ (fun c hc => (htr2 c hc).ascii) rfl (fun _ _ => rfl)
  rw [hD, r2] at r1
  have hd : cDoc "D".toList canonPos (cdummyLine :: t2) tr2 = cDoc "D".toList canonPos (cdummyLine :: t1) tr1 := by
    simpa using r1
  have hsec := congrArg Document.sections hd
  have htc := congrArg Document.trailingComments hd
  simp only [cDoc] at hsec htc
  have m1 := ctreeNodes_matches canonPos (cdummyLine :: t1) 0 0
  have m2 := ctreeNodes_matches canonPos (cdummyLine :: t2) 0 0
  rw [hsec] at m2
  have hc := ctreeContent_of_matches _ _ _ m1 m2
  simp only [ctreeContent, List.cons.injEq] at hc
  exact ⟨hc.2, htc.symm⟩

/-- **Two documents with nested blocks and comments that have the same emitted text have the same content** (name; keys,
nesting, order, values with their types; every leading comment, every trailing comment, the document's trailing comments —
texts and order): on this class `emit` is injective up to the positions stored in the nodes, which is the hypothesis
`C15_emit_injective` of the seal theorems (engine `project`).  Proof: the strict reader is a left inverse.  The two documents
may even be emitted in different environments. -/
theorem C15_ctree_emit_injective (env1 env2 : Env) (n1 n2 : Str) (p1 p2 : Nat → Nat → Nat × Nat) (t1 t2 : List CNode)
    (tr1 tr2 : List Str)
    (hn1 : isEnvName n1 = true) (hok1 : ctreeOK env1 t1) (hem1 : ctreeEmitOK env1 t1) (htr1 : ∀ c ∈ tr1, CommentOK env1 c)
    (hn2 : isEnvName n2 = true) (hok2 : ctreeOK env2 t2) (hem2 : ctreeEmitOK env2 t2) (htr2 : ∀ c ∈ tr2, CommentOK env2 c)
    (h : emit env1 (cDoc n1 p1 t1 tr1) = emit env2 (cDoc n2 p2 t2 tr2)) :
    n1 = n2 ∧ ctreeContent t1 = ctreeContent t2 ∧ tr1 = tr2 := by
  rw [emit_ctree env1 n1 p1 t1 tr1 hem1 (fun c hc => (htr1 c hc).1),
    emit_ctree env2 n2 p2 t2 tr2 hem2 (fun c hc => (htr2 c hc).1)] at h
  exact ctree_text_injective env1 env2 n1 n2 t1 t2 tr1 tr2 hn1 hok1 htr1 hn2 hok2 htr2 (by simpa using h)

/-- the same for ANY two ASTs that carry the trees (any positions at all in the nodes). -/
theorem C15_ctree_emit_injective_matches (env1 env2 : Env) (n1 n2 : Str) (s1 s2 : List Node) (t1 t2 : List CNode)
    (tr1 tr2 : List Str) (hmt1 : ctreeMatches t1 s1) (hmt2 : ctreeMatches t2 s2)
    (hn1 : isEnvName n1 = true) (hok1 : ctreeOK env1 t1) (hem1 : ctreeEmitOK env1 t1) (htr1 : ∀ c ∈ tr1, CommentOK env1 c)
    (hn2 : isEnvName n2 = true) (hok2 : ctreeOK env2 t2) (hem2 : ctreeEmitOK env2 t2) (htr2 : ∀ c ∈ tr2, CommentOK env2 c)
    (h : emit env1 { name := n1, sections := s1, trailingComments := tr1 }
        = emit env2 { name := n2, sections := s2, trailingComments := tr2 }) :
    n1 = n2 ∧ ctreeContent t1 = ctreeContent t2 ∧ tr1 = tr2 := by
  rw [emit_ctree_matches env1 n1 t1 tr1 s1 hmt1 hem1 (fun c hc => (htr1 c hc).1),
    emit_ctree_matches env2 n2 t2 tr2 s2 hmt2 hem2 (fun c hc => (htr2 c hc).1)] at h
  exact ctree_text_injective env1 env2 n1 n2 t1 t2 tr1 tr2 hn1 hok1 htr1 hn2 hok2 htr2 (by simpa using h)

/-! ### non-vacuity: the 13-line example `exC` / `exTrailing` of `Props/C01comments` meets every hypothesis

```
===D===
// lead one
//
A::1 // trail
B:
  // in :: -> "q" // x
  X::true // t
  // /starts with a slash
  C:
    Y::word // w
    Z::"s t" // "quoted" → -> ::
    N::null //
// end
//
===END===
``` -/

theorem exC_notMeta : firstIsBareMeta exC = false := by decide

/-- emit → strict read → emit: the same bytes, whatever positions the AST carries. -/
example : ∃ text d', emit Env.ascii (cDoc "D".toList (fun _ _ => (7, 7)) exC exTrailing) = some text ∧
    Parser.parse Env.ascii text = .ok d' ∧ emit Env.ascii d' = some text :=
  C01_ctree_fixed_point Env.ascii "D".toList _ exC exTrailing (by decide) (by decide) exC_ok exC_emit exTrailing_ok
    exC_notMeta (fun _ _ => rfl)

/-- the document the strict reader returns for the example, written out: every comment at its node — leading comments
(two above `A`, the second one empty; one above `X`; one above the block `C`), trailing comments (the empty one after
`N::null`), the document's trailing comments —, every node at the text line of its key (the real reader gives the same
lines and columns). -/
def exCDoc : Document :=
  { name := "D".toList,
    sections :=
      [ .assign "A".toList (.int 1) 4 1 ["lead one".toList, []] (some "trail".toList),
        .block "B".toList
          [ .assign "X".toList (.bool true) 7 3 ["in :: -> \"q\" // x".toList] (some "t".toList),
            .block "C".toList
              [ .assign "Y".toList (.str "word".toList) 10 5 [] (some "w".toList),
                .assign "Z".toList (.str "s t".toList) 11 5 [] (some "\"quoted\" → -> ::".toList),
                .assign "N".toList .null 12 5 [] (some []) ] 9 3 ["/starts with a slash".toList] none ] 5 1 [] none ],
    trailingComments := ["end".toList, []] }

example : cDoc "D".toList canonPos exC exTrailing = exCDoc := rfl

theorem exC_text : cDocText "D".toList exC exTrailing =
    ("===D===\n// lead one\n//\nA::1 // trail\nB:\n  // in :: -> \"q\" // x\n  X::true // t\n  // /starts with a slash\n  C:\n" ++
     "    Y::word // w\n    Z::\"s t\" // \"quoted\" → -> ::\n    N::null //\n// end\n//\n===END===\n").toList := by decide +kernel

/-- the theorem applied to the text of the example, written out. -/
example : Parser.parse Env.ascii
    ("===D===\n// lead one\n//\nA::1 // trail\nB:\n  // in :: -> \"q\" // x\n  X::true // t\n  // /starts with a slash\n  C:\n" ++
     "    Y::word // w\n    Z::\"s t\" // \"quoted\" → -> ::\n    N::null //\n// end\n//\n===END===\n").toList = .ok exCDoc := by
  rw [← exC_text]
  exact C01_ctree_canonical_is_readable Env.ascii "D".toList exC exTrailing (by decide) (by decide) exC_ok exTrailing_ok
    exC_notMeta (fun _ _ => rfl)

example : ∃ text d', emit Env.ascii (cDoc "D".toList (fun i d => (d, i)) exC exTrailing) = some text ∧
    Parser.parse Env.ascii text = .ok d' ∧ d'.name = "D".toList ∧ d'.metaKv = [] ∧ d'.hasSeparator = false ∧
    d'.trailingComments = exTrailing ∧ d'.grammarVersion = none ∧ d'.rawFrontmatter = none ∧ ctreeMatches exC d'.sections :=
  C02_ctree_content_preserved Env.ascii "D".toList _ exC exTrailing (by decide) (by decide) exC_ok exC_emit exTrailing_ok
    exC_notMeta (fun _ _ => rfl)

/-- all eleven comments come back, in order. -/
example : ∃ text d', emit Env.ascii (cDoc "D".toList (fun _ _ => (0, 0)) exC exTrailing) = some text ∧
    Parser.parse Env.ascii text = .ok d' ∧
    nodesComments d'.sections ++ d'.trailingComments =
      ["lead one".toList, [], "trail".toList, "in :: -> \"q\" // x".toList, "t".toList, "/starts with a slash".toList,
       "w".toList, "\"quoted\" → -> ::".toList, [], "end".toList, []] := by
  obtain ⟨t, d, h1, h2, h3⟩ := C02_ctree_comments_in_order Env.ascii "D".toList (fun _ _ => (0, 0)) exC exTrailing
    (by decide) (by decide) exC_ok exC_emit exTrailing_ok exC_notMeta (fun _ _ => rfl)
  exact ⟨t, d, h1, h2, by rw [h3]; rfl⟩

/-- the example is read silently: no receipt at all (its keys and its bare word need no identifier note), no warning. -/
example : Parser.parseWithWarnings Env.ascii (cDocText "D".toList exC exTrailing) = .ok (exCDoc, [], []) :=
  C02_ctree_lenient_read_silent Env.ascii "D".toList exC exTrailing (by decide) (by decide) exC_ok exTrailing_ok exC_notMeta
    (fun _ _ => rfl) (by decide) (by decide)

example : ∃ reps warns, Parser.parseWithWarnings Env.ascii (cDocText "D".toList exC exTrailing)
      = .ok (cDoc "D".toList canonPos exC exTrailing, reps, warns) ∧ reps.filter isNormalization = [] :=
  C02_ctree_lenient_read Env.ascii "D".toList exC exTrailing (by decide) (by decide) exC_ok exTrailing_ok exC_notMeta
    (fun _ _ => rfl)

/-- injectivity applied: whatever positions the two ASTs of `exC` carry, they have the same text and the same content; and
a document that differs in ONE COMMENT has another text. -/
example : ctreeContent exC = ctreeContent exC ∧ exTrailing = exTrailing :=
  (C15_ctree_emit_injective Env.ascii Env.ascii "D".toList "D".toList (fun _ _ => (0, 0)) (fun i d => (i, d)) exC exC
    exTrailing exTrailing (by decide) exC_ok exC_emit exTrailing_ok (by decide) exC_ok exC_emit exTrailing_ok
    (by rw [emit_ctree _ _ _ _ _ exC_emit (fun c hc => (exTrailing_ok c hc).1),
            emit_ctree _ _ _ _ _ exC_emit (fun c hc => (exTrailing_ok c hc).1)])).2

example : cDocText "D".toList exC exTrailing ≠ cDocText "D".toList exC ["end".toList] := by
  intro h
  have := (ctree_text_injective Env.ascii Env.ascii _ _ _ _ _ _ (by decide) exC_ok exTrailing_ok (by decide) exC_ok
    (by decide) h).2.2
  simp [exTrailing] at this

/-- a trailing comment moved from one line to the next gives another text (the content differs). -/
example : cDocText "D".toList [.line ⟨"A".toList, .null⟩ [] (some "c".toList), .line ⟨"B".toList, .null⟩ [] none] []
    ≠ cDocText "D".toList [.line ⟨"A".toList, .null⟩ [] none, .line ⟨"B".toList, .null⟩ ["c".toList] none] [] := by
  intro h
  have := (ctree_text_injective Env.ascii Env.ascii _ _ _ _ _ _ (by decide)
    (by simp only [ctreeOK, CNode.OK, FLine.OK, FScalar.OK]; decide) (by decide) (by decide)
    (by simp only [ctreeOK, CNode.OK, FLine.OK, FScalar.OK]; decide) (by decide) h).2.1
  simp [ctreeContent, CNode.content] at this

/-- the content of the example, positions forgotten. -/
example : ctreeContent exC =
    [ .line "A".toList (.int 1) ["lead one".toList, []] (some "trail".toList),
      .block "B".toList
        [ .line "X".toList (.bool true) ["in :: -> \"q\" // x".toList] (some "t".toList),
          .block "C".toList
            [ .line "Y".toList (.str "word".toList) [] (some "w".toList),
              .line "Z".toList (.str "s t".toList) [] (some "\"quoted\" → -> ::".toList),
              .line "N".toList .null [] (some []) ] ["/starts with a slash".toList] ] [] ] := rfl

/-- the bridge on the example: the token list of the lexer half IS the token list of the parser half, the block keys are at
the lexer's columns (checked by evaluation, independently of `canonCols_cposOf`), the documents coincide. -/
example : cDocToks "D".toList exC exTrailing
    = CommentParse.cTreeToks (cFrame "D".toList exC exTrailing) "D".toList (cposOf exC exTrailing) (ctreeToP exC) exTrailing := by
  decide
example : CommentParse.canonColsList (cposOf exC exTrailing) (ctreeToP exC) 0 0 = true := by decide
example : CommentParse.colsOkList (cposOf exC exTrailing) (ctreeToP exC) 0 0 = true := by decide
example : CAgree (cposOf exC exTrailing) (cposAll exC exTrailing) 0 := cagree_cposOf exC exTrailing
example : CommentParse.cTreeDoc "D".toList (cposOf exC exTrailing) (ctreeToP exC) exTrailing = exCDoc := by
  rw [cTreeDoc_bridge]; rfl
example : cFrame "D".toList exC exTrailing = ⟨1, 1, 1, 8, 15, 1, 15, 10, 16, 1⟩ := by decide

/-- the positions of the example: one record per body line, COMMENT LINES INCLUDED, the document's trailing comment lines
last — a comment line at depth `d` on text line `L`: `li = L, ci = 1, l = L, c1 = 1 + 2·d, c4 = 1 + 2·d + |// text|`; a
trailing comment: `c5 = c3 + |value| + 1`. -/
example : (List.range 13).map (cposOf exC exTrailing) =
    [⟨2, 1, 2, 1, 0, 0, 12, 0⟩,      -- // lead one
     ⟨3, 1, 3, 1, 0, 0, 3, 0⟩,       -- //
     ⟨4, 1, 4, 1, 2, 4, 14, 6⟩,      -- A::1 // trail
     ⟨5, 1, 5, 1, 2, 0, 3, 0⟩,       -- B:
     ⟨6, 1, 6, 3, 0, 0, 23, 0⟩,      --   // in :: -> "q" // x
     ⟨7, 1, 7, 3, 4, 6, 15, 11⟩,     --   X::true // t
     ⟨8, 1, 8, 3, 0, 0, 26, 0⟩,      --   // /starts with a slash
     ⟨9, 1, 9, 3, 4, 0, 5, 0⟩,       --   C:
     ⟨10, 1, 10, 5, 6, 8, 17, 13⟩,   --     Y::word // w
     ⟨11, 1, 11, 5, 6, 8, 33, 14⟩,   --     Z::"s t" // "quoted" → -> ::
     ⟨12, 1, 12, 5, 6, 8, 15, 13⟩,   --     N::null //
     ⟨13, 1, 13, 1, 0, 0, 7, 0⟩,     -- // end
     ⟨14, 1, 14, 1, 0, 0, 3, 0⟩] := by  -- //
  decide

/-- a tree without comments: the class of `Props/C01tree` is the sub-class `lead = []`, `trail = none`, `trailing = []`. -/
example : firstIsBareMeta (ctreeOfT exTree) = false := by decide

/-! ### necessity of the hypotheses (on the model; the same inputs were run on the real code, with the same results) -/

/-- emit, read strictly, emit again (in the ASCII environment). -/
def reEmit (d : Document) : Option Str :=
  match emit Env.ascii d with
  | some t =>
    match Parser.parse Env.ascii t with
    | .ok d' => emit Env.ascii d'
    | .error _ => none
  | none => none

/-- what the strict reader makes of the emitted text. -/
def reRead (d : Document) : Option (Except Exc Document) := (emit Env.ascii d).map (Parser.parse Env.ascii)

/-- `firstIsBareMeta` is necessary: an UN-COMMENTED first top-level block keyed `META` is read into `doc.meta`, and the
comments inside it are DROPPED — `emit ∘ parse ∘ emit ≠ emit` (the real code: the same two texts). -/
def dBareMeta : Document :=
  { name := "D".toList,
    sections := [.block "META".toList [.assign "X".toList (.str "1".toList) 0 0 ["c".toList] (some "t".toList)] 0 0 [] none] }

example : firstIsBareMeta [.block "META".toList [.line ⟨"X".toList, .qstr "1".toList⟩ ["c".toList] (some "t".toList)] []] = true := by
  decide
example : emit Env.ascii dBareMeta = some "===D===\nMETA:\n  // c\n  X::\"1\" // t\n===END===\n".toList := by decide +kernel
example : reEmit dBareMeta = some "===D===\nMETA:\n  X::\"1\"\n===END===\n".toList := by decide +kernel

/-- … an un-commented first `META::v` is rejected by the reader (E001; the real code: the same). -/
example : (match reRead { name := "D".toList, sections := [.assign "META".toList (.int 1) 0 0 [] (some "t".toList)] } with
    | some (.error (.parser c _ _)) => c == "E001".toList | _ => false) = true := by decide +kernel

/-- … but a COMMENTED `META` first is inside the class: an ordinary block, its comments kept (the theorem applied). -/
example : ∃ text d', emit Env.ascii (cDoc "D".toList (fun _ _ => (0, 0))
      [.block "META".toList [.line ⟨"X".toList, .int 1⟩ ["c".toList] (some "t".toList)] ["hide".toList]] []) = some text ∧
    Parser.parse Env.ascii text = .ok d' ∧ emit Env.ascii d' = some text :=
  C01_ctree_fixed_point Env.ascii "D".toList _ _ [] (by decide) (by decide)
    (by simp only [ctreeOK, CNode.OK, FLine.OK, FScalar.OK]; decide)
    (by simp only [ctreeEmitOK, CNode.EmitOK, CNode.LineEmitOK, FLine.EmitOK]; decide) (by decide) (by decide) (fun _ _ => rfl)

/-- `name ≠ "END"` is necessary: `===END===` as first line is not an envelope start; the reader returns an empty document
named `INFERRED` — all content and all comments lost (the real code: the same). -/
example : reEmit { name := "END".toList, sections := [.assign "A".toList (.int 1) 0 0 ["c".toList] none],
                   trailingComments := ["t".toList] } = some "===INFERRED===\n===END===\n".toList := by decide +kernel

/-- `CommentOK` (strip-stable) is necessary, for a leading and for a trailing comment: the text is read back stripped, and
the second emission differs from the first (`//  x` → `// x`). -/
example : emit Env.ascii (docOf [" x".toList] (some " y".toList)) = some "===D===\n//  x\nA::1 //  y\n===END===\n".toList := by
  decide +kernel
example : reEmit (docOf [" x".toList] (some " y".toList)) = some "===D===\n// x\nA::1 // y\n===END===\n".toList := by
  decide +kernel

/-- `CommentOK` (no line break) is necessary: the rest of the comment is read as a node the document never contained. -/
example : (match reRead (docOf [] (some "a\nB::2".toList)) with
    | some (.ok d) => d.sections.length == 2 | _ => false) = true := by decide +kernel

/-- … and in a trailing comment of the DOCUMENT the rest of the comment can even end the document: `// a` and everything
after it is lost. -/
example : (match reRead { name := "D".toList, sections := [.assign "A".toList (.int 1) 0 0 [] none],
                          trailingComments := ["a\n===X===".toList] } with
    | some (.ok d) => d.trailingComments.isEmpty | _ => false) = true := by decide +kernel

/-- `CommentOK` (no tab) is necessary: the emitted text is refused by the lexer (E005 at the tab). -/
example : (match reRead (docOf ["a\tb".toList] none) with
    | some (.error (.lexer c 2 5)) => c == "E005".toList | _ => false) = true := by decide +kernel

/-- `ctreeOK` (keys identifier-shaped) is necessary: a key with a blank is written as it is, and the line — with its leading
comment — disappears on reading. -/
example : reEmit { name := "D".toList, sections := [.assign "A B".toList (.int 1) 0 0 ["c".toList] none] }
    = some "===D===\n===END===\n".toList := by decide +kernel

/-- `ctreeEmitOK` delimits the class, it does not exclude documents: a string the emitter writes bare (`s`) is the tree
`.bare "s"`, not `.qstr "s"` — `cDocText` of the latter is a text the emitter never produces for that AST. -/
example : emit Env.ascii (docOf ["c".toList] (some "t".toList)) = some (cDocText "D".toList [.line ⟨"A".toList, .int 1⟩ ["c".toList] (some "t".toList)] []) := by
  decide +kernel
example : emit Env.ascii { name := "D".toList, sections := [.assign "A".toList (.str "s".toList) 0 0 [] none] }
    = some (cDocText "D".toList [.line ⟨"A".toList, .bare "s".toList⟩ [] none] []) := by decide +kernel
example : cDocText "D".toList [.line ⟨"A".toList, .bare "s".toList⟩ [] none] []
    ≠ cDocText "D".toList [.line ⟨"A".toList, .qstr "s".toList⟩ [] none] [] := by decide +kernel

end Octave.C01
