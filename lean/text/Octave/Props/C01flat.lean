/-
C01 / C04 / C07 on FLAT documents (an envelope, any number of `KEY::scalar` lines, `===END===`), lexer half of the
document-level round trip — proved for every name, every number of lines, every key and every scalar value the
emitter spells as a quoted string, a bare word, a boolean or null:

  * the emitter writes exactly `flatText` (`C01_flat_emit`);
  * the lexer reads that text back as exactly the expected token list, positions included, in both lexer modes
    (`C01_flat_lexes`, `C01_flat_emit_then_lex`) — in particular every string value comes back as ONE token carrying
    exactly the string, every integer as ONE NUMBER token carrying exactly the integer, whatever characters it contains (C04 at document level);
  * the canonical text yields no normalisation receipt (`C07_flat_canonical_no_normalization`).

The parser half (token list → the same Document) is `Props/C02flat.lean`.
Hypothesis `hnfc` (NFC leaves every line of the text unchanged) is the documented limit of the format: see finding F16
for what happens when it fails.
-/
import Octave.Lemmas.FlatEmit
import Octave.Lemmas.Receipts
namespace Octave.C01
open Octave Lexer Emitter

/-- the emitter on a flat document (any positions stored in the nodes). -/
theorem C01_flat_emit (env : Env) (name : Str) (pos : Nat → Nat × Nat) (lines : List FLine) (h : ∀ ln ∈ lines, ln.EmitOK) :
    emit env (flatDoc name pos lines) = some (flatText name lines) := emit_flat env name pos lines h

/-- the lexer on the canonical text of a flat document. -/
theorem C01_flat_lexes (env : Env) (lenient : Bool) (name : Str) (lines : List FLine)
    (hn : isEnvName name = true) (hne : name ≠ "END".toList) (hok : ∀ ln ∈ lines, ln.OK)
    (hnfc : ∀ l ∈ splitLines (flatText name lines), env.nfc l = l) :
    tokenize env (flatText name lines) lenient = .ok (flatToks name lines, (linesRepsRev 2 lines).reverse) :=
  tokenize_flat env lenient name lines hn hne hok hnfc

/-- write, then lex: whatever flat document is emitted, its text lexes to the expected tokens. -/
theorem C01_flat_emit_then_lex (env : Env) (lenient : Bool) (name : Str) (pos : Nat → Nat × Nat) (lines : List FLine)
    (hn : isEnvName name = true) (hne : name ≠ "END".toList) (hok : ∀ ln ∈ lines, ln.OK) (hem : ∀ ln ∈ lines, ln.EmitOK)
    (hnfc : ∀ l ∈ splitLines (flatText name lines), env.nfc l = l) :
    ∃ text, emit env (flatDoc name pos lines) = some text ∧
      tokenize env text lenient = .ok (flatToks name lines, (linesRepsRev 2 lines).reverse) :=
  ⟨flatText name lines, emit_flat env name pos lines hem, tokenize_flat env lenient name lines hn hne hok hnfc⟩

theorem linesRepsRev_not_norm : ∀ (lines : List FLine) (l : Nat), (linesRepsRev l lines).filter isNormalization = [] := by
  intro lines
  induction lines with
  | nil => intro l; rfl
  | cons ln ls ih =>
    intro l
    have hid : ∀ (s : Str) (a b : Nat), (identifierRepairs s a b).reverse.filter isNormalization = [] := by
      intro s a b
      rw [List.filter_eq_nil_iff]
      intro r hr
      have := identifierRepairs_not_norm s a b r (List.mem_reverse.mp hr)
      simpa using this
    have hv : (ln.v.reps l (1 + ln.key.length + 2)).reverse.filter isNormalization = [] := by
      cases ln.v with
      | bare s => exact hid s _ _
      | _ => rfl
    simp only [linesRepsRev, FLine.repsRev, List.filter_append, ih, hv, hid, List.append_nil]

/-- canonical input has no normalisation receipt (C07, second sentence) — on every flat document. -/
theorem C07_flat_canonical_no_normalization (env : Env) (lenient : Bool) (name : Str) (lines : List FLine)
    (hn : isEnvName name = true) (hne : name ≠ "END".toList) (hok : ∀ ln ∈ lines, ln.OK)
    (hnfc : ∀ l ∈ splitLines (flatText name lines), env.nfc l = l) :
    ∃ toks reps, tokenize env (flatText name lines) lenient = .ok (toks, reps) ∧ reps.filter isNormalization = [] := by
  refine ⟨_, _, tokenize_flat env lenient name lines hn hne hok hnfc, ?_⟩
  rw [← List.reverse_reverse ((linesRepsRev 2 lines).reverse.filter isNormalization)]
  rw [List.filter_reverse] 
  simp [linesRepsRev_not_norm]

/-! non-vacuity: a document with every scalar kind, strings with quotes, backslashes, operators, a reserved word -/

def exLines : List FLine :=
  [⟨"A".toList, .qstr "x \"y\" \\n → z".toList⟩, ⟨"B_1".toList, .bare "word".toList⟩, ⟨"C.d".toList, .bool true⟩,
   ⟨"E".toList, .null⟩, ⟨"F".toList, .qstr "true".toList⟩, ⟨"G".toList, .qstr [] ⟩, ⟨"H".toList, .bool false⟩,
   ⟨"N".toList, .int (-42)⟩, ⟨"BIG".toList, .int (10 ^ 30)⟩]

theorem exLines_ok : ∀ ln ∈ exLines, ln.OK := by
  intro ln h
  simp only [exLines, List.mem_cons, List.mem_nil_iff, or_false] at h
  rcases h with rfl | rfl | rfl | rfl | rfl | rfl | rfl | rfl | rfl <;> (unfold FLine.OK FScalar.OK; simp <;> decide)

theorem exLines_emit : ∀ ln ∈ exLines, ln.EmitOK := by
  intro ln h
  simp only [exLines, List.mem_cons, List.mem_nil_iff, or_false] at h
  rcases h with rfl | rfl | rfl | rfl | rfl | rfl | rfl | rfl | rfl <;> (unfold FLine.EmitOK; simp <;> decide)

example : ∃ text, emit Env.ascii (flatDoc "DOC".toList (fun _ => (0, 0)) exLines) = some text ∧
    tokenize Env.ascii text false = .ok (flatToks "DOC".toList exLines, (linesRepsRev 2 exLines).reverse) :=
  C01_flat_emit_then_lex Env.ascii false "DOC".toList _ exLines (by decide) (by decide) exLines_ok exLines_emit
    (fun _ _ => rfl)

end Octave.C01
