/-
C03 on NESTED BLOCKS — `===END===` INDENTED by any number of spaces: the last spelling freedom of the frame.

`C03_tree_framed_read` / `…_converge` (`Props/C03tree`) cover every frame spelling of a block tree under `ds.endIndent = 0`.  Here
the hypothesis is removed: `===END===` may be preceded by ANY number of spaces, behind a flat line, behind a (nested) block, behind
an empty block, whatever the relation of that number to the indentation of the children that are open.

What the reader does with it (real code and model agree; see `Lemmas/EndIndentParse`): the lexer emits `INDENT(n)` in front of
`ENVELOPE_END` like in front of a key.  A child loop whose children sit at `≤ n` swallows the INDENT token and then stops at
ENVELOPE_END (which ends every child loop, whatever the indentation); a child loop whose children sit deeper stops in front of the
INDENT token and leaves it to the enclosing loop; an EMPTY block whose header is shallower than `n` takes the INDENT for its first
child's, enters the child loop and finds nothing; the body loop of `parse_document` skips INDENT tokens.  The document is the
same in every case — no finding: there is no indentation of `===END===` that changes content, positions or receipts.

  * `C03_tree_endindent_read`       `parse` / `parse_with_warnings` return `sdoc name (firstLine ds) nodes` — the value that
                                    `C03_tree_framed_read` gives for `endIndent = 0`: same nodes, same positions, same receipts;
  * `C03_tree_endindent_same_read`  … stated as an equation between the two reads;
  * `C03_tree_endindent_converge`   both canonicalisers return the canonical text `treeDocText name (eraseList nodes)`;
  * `C03_tree_endindent_agree`      any two spellings of the same tree (every freedom of `C03_tree_spelled_converge`) in any two
                                    frames (any two values of `endIndent` included) give identical bytes;
  * `C03_tree_endindent_lexes`      the token list: that of `endIndent = 0` with one `INDENT(endIndent)` in front of ENVELOPE_END.
Hypotheses: those of `C03_tree_framed_converge` minus `hds` (the class `topOk` is the one for an unindented `===END===`).
-/
import Octave.Lemmas.EndIndentLex
import Octave.Props.C03tree
namespace Octave.C03
open Octave Lexer Emitter Spell SpellParse TreeSpell

/-- **the lexer**: the tokens of the frame with an unindented `===END===`, plus ONE INDENT token (value `endIndent`, column 1 of
the `===END===` line) in front of ENVELOPE_END exactly when `endIndent > 0` and `===END===` is there. -/
theorem C03_tree_endindent_lexes (env : Env) (lenient : Bool) (name : Str) (nodes : List SNode) (ds : DSpell)
    (hn : isEnvName name = true) (hne : name ≠ "END".toList) (hok : treeOK (TreeSpell.eraseList nodes))
    (hnfc : ∀ l ∈ splitLines (fdocText name nodes ds), env.nfc l = l) :
    ∃ e tail il R, (e.type = .envelopeEnd ∨ e.type = .eof) ∧
      ((R = e :: tail ∧ (ds.endIndent = 0 ∨ ds.endOmitted = true)) ∨
       (R = indAt (ds.endIndent, il, 1) :: e :: tail ∧ 0 < ds.endIndent ∧ ds.endOmitted = false)) ∧
      tokenize env (fdocText name nodes ds) lenient
        = .ok (envTokAt name 1 1 :: nlAt (1, 1 + (name.length + 6) + ds.envTrail) ::
                ((blankPos 2 ds.envBlank).map nlAt ++ (stoks 0 (firstLine ds) nodes ++ R)),
               (srepsRev 0 (firstLine ds) nodes).reverse) := by
  obtain ⟨e, tail, il, e0, k0, he, hR, hlex⟩ := endInd_tokenize_framed env lenient name nodes ds hn hne hok hnfc
  exact ⟨e, tail, il, e0 :: k0, he, hR, hlex⟩

/-- **every spelling of the tree in every spelling of the frame, `===END===` indented by any number of spaces, is read as
`sdoc name (firstLine ds) nodes`** by both entry points: the document (nodes, their lines and columns) and the receipts that
`C03_tree_framed_read` gives for an unindented `===END===`. -/
theorem C03_tree_endindent_read (env : Env) (name : Str) (nodes : List SNode) (ds : DSpell)
    (hn : isEnvName name = true) (hne : name ≠ "END".toList) (hok : treeOK (TreeSpell.eraseList nodes))
    (hw : TreeSpell.topOk nodes = true) (hm : firstKeyIsMeta (TreeSpell.eraseList nodes) = false)
    (hnfc : ∀ l ∈ splitLines (fdocText name nodes ds), env.nfc l = l) :
    Parser.parse env (fdocText name nodes ds) = .ok (sdoc name (firstLine ds) nodes) ∧
    ∃ ws, Parser.parseWithWarnings env (fdocText name nodes ds)
      = .ok (sdoc name (firstLine ds) nodes, (srepsRev 0 (firstLine ds) nodes).reverse, ws) := by
  have hs := stripFrontmatter_fdoc env name nodes ds
  obtain ⟨e, tail, il, e0, k0, he, hSh, hlex0⟩ := endInd_tokenize_framed env false name nodes ds hn hne hok hnfc
  have hR := hSh.toR
  have hlex : Lexer.tokenize env (Parser.stripFrontmatter env (fdocText name nodes ds)).1 false
      = .ok (endIndDocToks name 1 1 (1, 1 + (name.length + 6) + ds.envTrail) (blankPos 2 ds.envBlank) (firstLine ds) nodes (e0 :: k0),
             (srepsRev 0 (firstLine ds) nodes).reverse) := by
    rw [hs]; exact hlex0
  constructor
  · obtain ⟨st', h1⟩ := endInd_parseDocument_framed name 1 1 _ _ (firstLine ds) nodes ds.endIndent il 1 e tail he e0 k0 hR
      (Parser.initState env (endIndDocToks name 1 1 (1, 1 + (name.length + 6) + ds.envTrail) (blankPos 2 ds.envBlank) (firstLine ds) nodes (e0 :: k0)) true)
      hm hw rfl
    rw [C02.parse_eq_parseToks env _ _ _ hlex, hs]
    unfold C02.parseToks
    simp only [StateT.run, h1, bind, Except.bind, pure, Except.pure, Except.map]
    rfl
  · obtain ⟨st', h1⟩ := endInd_parseDocument_framed name 1 1 _ _ (firstLine ds) nodes ds.endIndent il 1 e tail he e0 k0 hR
      (Parser.initState env (endIndDocToks name 1 1 (1, 1 + (name.length + 6) + ds.envTrail) (blankPos 2 ds.envBlank) (firstLine ds) nodes (e0 :: k0)) false)
      hm hw rfl
    refine ⟨st'.warnings.reverse, ?_⟩
    rw [C02.parseWithWarnings_eq_parseToks env _ _ _ hlex, hs]
    unfold C02.parseToksWithWarnings
    simp only [StateT.run, h1, bind, Except.bind, pure, Except.pure, Except.map]
    rfl

/-- the frame with the indentation of `===END===` removed, everything else kept. -/
def endIndZero (ds : DSpell) : DSpell := { ds with endIndent := 0 }

/-- **the read does not depend on the indentation of `===END===`**: the strict read of the text is THE SAME VALUE (document with
every node at the same line and column) as the read of the text with `===END===` unindented; the lenient read returns the same
document and the same receipts. -/
theorem C03_tree_endindent_same_read (env : Env) (name : Str) (nodes : List SNode) (ds : DSpell)
    (hn : isEnvName name = true) (hne : name ≠ "END".toList) (hok : treeOK (TreeSpell.eraseList nodes))
    (hw : TreeSpell.topOk nodes = true) (hm : firstKeyIsMeta (TreeSpell.eraseList nodes) = false)
    (hnfc : ∀ l ∈ splitLines (fdocText name nodes ds), env.nfc l = l)
    (hnfc0 : ∀ l ∈ splitLines (fdocText name nodes (endIndZero ds)), env.nfc l = l) :
    Parser.parse env (fdocText name nodes ds) = Parser.parse env (fdocText name nodes (endIndZero ds)) ∧
    ∃ d reps ws ws0, Parser.parseWithWarnings env (fdocText name nodes ds) = .ok (d, reps, ws) ∧
      Parser.parseWithWarnings env (fdocText name nodes (endIndZero ds)) = .ok (d, reps, ws0) := by
  obtain ⟨h1, ws, h2⟩ := C03_tree_endindent_read env name nodes ds hn hne hok hw hm hnfc
  obtain ⟨h3, ws0, h4⟩ := C03_tree_framed_read env name nodes (endIndZero ds) hn hne hok hw hm rfl hnfc0
  exact ⟨by rw [h1, h3]; rfl, _, _, ws, ws0, h2, h4⟩

/-- **C03 on nested blocks, `===END===` indented by any number of spaces: every spelling canonicalises to the canonical text.** -/
theorem C03_tree_endindent_converge (env : Env) (name : Str) (nodes : List SNode) (ds : DSpell)
    (hn : isEnvName name = true) (hne : name ≠ "END".toList) (hok : treeOK (TreeSpell.eraseList nodes))
    (hem : treeEmitOK (TreeSpell.eraseList nodes)) (hw : TreeSpell.topOk nodes = true)
    (hm : firstKeyIsMeta (TreeSpell.eraseList nodes) = false)
    (hnfc : ∀ l ∈ splitLines (fdocText name nodes ds), env.nfc l = l) :
    canonStrict env (fdocText name nodes ds) = .ok (treeDocText name (TreeSpell.eraseList nodes)) ∧
    canonLenient env (fdocText name nodes ds) = .ok (treeDocText name (TreeSpell.eraseList nodes)) := by
  obtain ⟨h1, ws, h2⟩ := C03_tree_endindent_read env name nodes ds hn hne hok hw hm hnfc
  exact canon_of_read env _ _ _ _ _ h1 h2
    (emit_tree_matches env name (TreeSpell.eraseList nodes) _ (snodes_matches nodes 0 (firstLine ds)) hem)

/-- **any two spellings of the same tree in any two frames — any two indentations of `===END===` included, combined with every
other freedom (`SNode`: widths, over-indented siblings, blank lines, spaces around `::`, quote styles; `DSpell`: trailing spaces,
blank lines, final newline, `===END===` omitted) — canonicalise to identical bytes**, the canonical text. -/
theorem C03_tree_endindent_agree (env : Env) (name : Str) (s₁ s₂ : List SNode) (ds₁ ds₂ : DSpell)
    (hsame : TreeSpell.eraseList s₁ = TreeSpell.eraseList s₂)
    (hn : isEnvName name = true) (hne : name ≠ "END".toList) (hok : treeOK (TreeSpell.eraseList s₁))
    (hem : treeEmitOK (TreeSpell.eraseList s₁)) (hm : firstKeyIsMeta (TreeSpell.eraseList s₁) = false)
    (hw₁ : TreeSpell.topOk s₁ = true) (hw₂ : TreeSpell.topOk s₂ = true)
    (hnfc₁ : ∀ l ∈ splitLines (fdocText name s₁ ds₁), env.nfc l = l)
    (hnfc₂ : ∀ l ∈ splitLines (fdocText name s₂ ds₂), env.nfc l = l) :
    canonStrict env (fdocText name s₁ ds₁) = canonStrict env (fdocText name s₂ ds₂) ∧
    canonLenient env (fdocText name s₁ ds₁) = canonLenient env (fdocText name s₂ ds₂) ∧
    canonLenient env (fdocText name s₁ ds₁) = .ok (treeDocText name (TreeSpell.eraseList s₁)) := by
  have h1 := C03_tree_endindent_converge env name s₁ ds₁ hn hne hok hem hw₁ hm hnfc₁
  have h2 := C03_tree_endindent_converge env name s₂ ds₂ hn hne (hsame ▸ hok) (hsame ▸ hem) hw₂ (hsame ▸ hm) hnfc₂
  rw [← hsame] at h2
  exact ⟨by rw [h1.1, h2.1], by rw [h1.2, h2.2], h1.2⟩

/-- the same tree spelling, the same frame, two indentations `a`, `b` of `===END===`: identical bytes. -/
theorem C03_tree_endindent_any_two (env : Env) (name : Str) (nodes : List SNode) (ds : DSpell) (a b : Nat)
    (hn : isEnvName name = true) (hne : name ≠ "END".toList) (hok : treeOK (TreeSpell.eraseList nodes))
    (hem : treeEmitOK (TreeSpell.eraseList nodes)) (hm : firstKeyIsMeta (TreeSpell.eraseList nodes) = false)
    (hw : TreeSpell.topOk nodes = true)
    (hnfc₁ : ∀ l ∈ splitLines (fdocText name nodes { ds with endIndent := a }), env.nfc l = l)
    (hnfc₂ : ∀ l ∈ splitLines (fdocText name nodes { ds with endIndent := b }), env.nfc l = l) :
    canonStrict env (fdocText name nodes { ds with endIndent := a }) = canonStrict env (fdocText name nodes { ds with endIndent := b }) ∧
    canonLenient env (fdocText name nodes { ds with endIndent := a }) = canonLenient env (fdocText name nodes { ds with endIndent := b }) :=
  let h := C03_tree_endindent_agree env name nodes nodes _ _ rfl hn hne hok hem hm hw hw hnfc₁ hnfc₂
  ⟨h.1, h.2.1⟩

/-! ### non-vacuity -/

/-- the frame of `Props/C03tree` with `===END===` behind 5 spaces: deeper than the last open block's children (`T` sits at 1). -/
def exFrameInd : DSpell := { envTrail := 2, envBlank := [3, 0], endIndent := 5, endTrail := 1, endNl := true, endBlank := [0, 1] }

example : fdocText "D".toList [.block 0 "B".toList 2 0 [] [.line 0 ⟨"K".toList, .int 1⟩ {}]] { endIndent := 4 }
    = "===D===\nB:\n  K::1\n    ===END===\n".toList := by decide +kernel

example : canonStrict Env.ascii (fdocText "DOC".toList exS exFrameInd) = .ok (treeDocText "DOC".toList (TreeSpell.eraseList exS)) ∧
    canonLenient Env.ascii (fdocText "DOC".toList exS exFrameInd) = .ok (treeDocText "DOC".toList (TreeSpell.eraseList exS)) :=
  C03_tree_endindent_converge Env.ascii "DOC".toList exS exFrameInd (by decide) (by decide) exS_ok exS_emit (by decide) (by decide)
    (fun _ _ => rfl)

example : Parser.parse Env.ascii (fdocText "DOC".toList exS exFrameInd)
    = Parser.parse Env.ascii (fdocText "DOC".toList exS (endIndZero exFrameInd)) :=
  (C03_tree_endindent_same_read Env.ascii "DOC".toList exS exFrameInd (by decide) (by decide) exS_ok (by decide) (by decide)
    (fun _ _ => rfl) (fun _ _ => rfl)).1

/-- EVERY indentation `n` of `===END===`, every other frame freedom, every width and line spelling — behind a block in a block
(children at `a + 1` and `a + b + 2`: `n` may be smaller than, between, equal to or larger than them). -/
example (ds : DSpell) (a b : Nat) (sp1 sp2 : LSpell) :
    canonLenient Env.ascii (fdocText "D".toList
      [.line 0 ⟨"Y".toList, .null⟩ sp2, .block 0 "A".toList (a + 1) 0 [] [.block 0 "B".toList (b + 1) 0 [] [.line 0 ⟨"X".toList, .bool true⟩ sp1]]] ds)
      = .ok "===D===\nY::null\nA:\n  B:\n    X::true\n===END===\n".toList :=
  (C03_tree_endindent_converge Env.ascii "D".toList _ ds (by decide) (by decide)
    (by simp only [TreeSpell.eraseList, SNode.erase, treeOK, TNode.OK, FLine.OK, FScalar.OK]; decide)
    (by simp only [TreeSpell.eraseList, SNode.erase, treeEmitOK, TNode.EmitOK, FLine.EmitOK]; decide)
    (by simp [TreeSpell.topOk, allX0, forestOk, SNode.ok, SNode.x, nextInd, headX0]; omega) rfl (fun _ _ => rfl)).2

/-- … behind an EMPTY block (an indentation deeper than its header is taken for a first child's and leads nowhere), and behind a
flat line. -/
example (ds : DSpell) (w : Nat) :
    canonStrict Env.ascii (fdocText "D".toList [.line 0 ⟨"Y".toList, .null⟩ {}, .block 0 "E".toList w 0 [] []] ds)
      = .ok "===D===\nY::null\nE:\n===END===\n".toList :=
  (C03_tree_endindent_converge Env.ascii "D".toList _ ds (by decide) (by decide)
    (by simp only [TreeSpell.eraseList, SNode.erase, treeOK, TNode.OK, FLine.OK, FScalar.OK]; decide)
    (by simp only [TreeSpell.eraseList, SNode.erase, treeEmitOK, TNode.EmitOK, FLine.EmitOK]; decide)
    (by simp [TreeSpell.topOk, allX0, forestOk, SNode.ok, SNode.x, nextInd]) rfl (fun _ _ => rfl)).1

example (ds : DSpell) (sp : LSpell) :
    canonStrict Env.ascii (fdocText "D".toList [.line 0 ⟨"K".toList, .int 1⟩ sp] ds) = .ok "===D===\nK::1\n===END===\n".toList :=
  (C03_tree_endindent_converge Env.ascii "D".toList _ ds (by decide) (by decide)
    (by simp only [TreeSpell.eraseList, SNode.erase, treeOK, TNode.OK, FLine.OK, FScalar.OK]; decide)
    (by simp only [TreeSpell.eraseList, SNode.erase, treeEmitOK, TNode.EmitOK, FLine.EmitOK]; decide)
    (by simp [TreeSpell.topOk, allX0, forestOk, SNode.ok, SNode.x]) rfl (fun _ _ => rfl)).1

/-- two indentations, two tree spellings, `===END===` once with and once without its newline: identical bytes. -/
example (a b : Nat) : canonStrict Env.ascii (fdocText "DOC".toList exS { endIndent := a, endNl := false })
    = canonStrict Env.ascii (fdocText "DOC".toList (canonSList (TreeSpell.eraseList exS)) { endIndent := b, endTrail := 3 }) :=
  (C03_tree_endindent_agree Env.ascii "DOC".toList exS (canonSList (TreeSpell.eraseList exS)) _ _ (erase_canonSList _).symm
    (by decide) (by decide) exS_ok exS_emit (by decide) (by decide) (topOk_canonSList _) (fun _ _ => rfl) (fun _ _ => rfl)).1

/-- the whole model evaluated on concrete texts (independent of the theorems), the probes run on the real reader: `===END===`
deeper than / level with / shallower than the children, between the levels of two open blocks, behind an empty block, behind a
flat line, without final newline, with a blank line in front. -/
example : isOkStr (canonLenient Env.ascii (fdocText "DOC".toList exS exFrameInd)) (treeDocText "DOC".toList (TreeSpell.eraseList exS)) = true := by
  decide +kernel
example : isOkStr (canonStrict Env.ascii "===D===\nB:\n  K::1\n    ===END===\n".toList) "===D===\nB:\n  K::1\n===END===\n".toList = true := by
  decide +kernel
example : isOkStr (canonStrict Env.ascii "===D===\nB:\n  K::1\n  ===END===\n".toList) "===D===\nB:\n  K::1\n===END===\n".toList = true := by
  decide +kernel
example : isOkStr (canonStrict Env.ascii "===D===\nB:\n  K::1\n ===END===\n".toList) "===D===\nB:\n  K::1\n===END===\n".toList = true := by
  decide +kernel
example : isOkStr (canonStrict Env.ascii "===D===\nB:\n  C:\n    K::1\n   ===END===".toList) "===D===\nB:\n  C:\n    K::1\n===END===\n".toList = true := by
  decide +kernel
example : isOkStr (canonStrict Env.ascii "===D===\nB:\n  ===END===\n".toList) "===D===\nB:\n===END===\n".toList = true := by
  decide +kernel
example : isOkStr (canonStrict Env.ascii "===D===\nK::1\n  ===END===\n".toList) "===D===\nK::1\n===END===\n".toList = true := by
  decide +kernel
example : isOkStr (canonStrict Env.ascii "===D===\nB:\n  K::1\n\n    ===END===\n".toList) "===D===\nB:\n  K::1\n===END===\n".toList = true := by
  decide +kernel

end Octave.C03
