/-
C05 — literal zones ANYWHERE in a document, keyed AND BARE: the document-level statement for forests of lines, blocks, zone
assignments and bare zones, lexer ∘ parser ∘ emitter, proved for every content.

  "Literal zones pass through byte-for-byte … zones as assignment values and as bare block children at every indent depth;
   several zones per document, adjacent to every other node kind."

`Props/C05tree.lean` proves the round trip for forests with zone ASSIGNMENTS (`KEY::` + fence) anywhere.  Here the class adds
the BARE zone — a fence that is itself a block child, AST `Assignment(key = "", value = LiteralZoneValue)`:

  a document = an envelope `===NAME===`, a FOREST of `KEY::scalar` lines, `KEY:` blocks with children two spaces deeper,
  zone assignments, and — as children of blocks, at ANY depth ≥ 1, ANY number, in ANY position among their siblings —
  BARE zones, each with its own marker, tag and content —, `===END===`                               (`BNode`, `bdocText`).

A bare zone at depth `d` is written the way the emitter writes it: `indent marker tag`, the content lines VERBATIM (NOT
indented), `indent marker`.  Contents are given as LINES `C` (`C = []` the empty zone, `C = [""]` one empty line) or as a
content STRING (`BNode.bareOfContent`, `BNode.keyedOfContent`).

Machinery: `Lemmas/BareZoneLex.lean` (one fence-span step per bare zone: FENCE_OPEN at the column of the first backtick, NO
INDENT token before it; everything else through the frame lemma and the segment lemmas of `ZoneTreeLex`),
`Lemmas/BareZoneParse.lean` (`blockLoop`'s FENCE_OPEN branch and the block-header fence paths of `parse_section`, at
arbitrary token positions; follower predicate `stopsB` allows a FENCE_OPEN left of the child indentation),
`Lemmas/BareZoneBridge.lean` (the two halves composed; the emitter).

Results, for EVERY such forest, every name, every content (tabs, NFD, `===END===`, `KEY::v` look-alikes, shorter backtick
runs, empty lines …), every environment whose NFC leaves the lines OUTSIDE the zone contents alone:

  * `C05_btree_lexes_verbatim`        the lexer: for each zone FENCE_OPEN / LITERAL_CONTENT (exactly) / FENCE_CLOSE / NEWLINE;
  * `C05_btree_zone_read_verbatim`    the strict reader returns exactly the document: every zone — keyed or bare — at its
                                      place with exactly its content, tag and marker; `C05_btree_zones_in_order`;
                                      `C05_btree_read_lenient` (exact receipts and warnings);
                                      `C05_block_with_bare_zones_read` (token level, arbitrary positions);
  * `C05_btree_fixed_point_partial`   emit → strict read → emit gives the same bytes; the text is a fixed point of `canonStrict`
                                      and `canonLenient`.  Guards: `bforestNoEmptyLine` (finding C05N1) — and the ATTACHMENT
                                      RULE, which is a condition of the READ theorem already;
  * `C05_btree_emit`, `C05_btree_doc_fixed_point`, `C05N1_btree_image`   document side, no guard on contents;
  * `C05_btree_neighbours_untouched`  deleting every zone (keyed and bare) from the text deletes exactly the zones from the
                                      document read back.

THE ATTACHMENT RULE (Issue #259: a fence whose `column - 1 >= block_indent` directly after a block header with no indented
child is that block's child).  `bforestAttachOk`: in no sibling list is an EMPTY block immediately followed by a bare zone.
It is NECESSARY and exact: `C05_bare_attach_general` proves, for EVERY empty block followed by a bare zone at the same depth
(any key, marker, tag, content, depth, what follows), that `parse_section` returns the block WITH the zone as its child; the
witness `B: [A: [], zone, Y::1]` is evaluated end to end (`C05_bare_attach_witness`: read back as `B: [A: [zone], Y::1]`,
canonicalised to a different text).  This is the repository's documented rule — recorded as an observation, not a violation
of C05 (the zone's content, tag and marker still come back byte-for-byte; its PARENT changes).

`bnoBareTop`: no bare zone directly under the envelope.  NECESSARY: `docLoop` has no fence branch; `C05_bare_top_dropped`
proves for EVERY bare zone in front of the closing `===END===` … that the three fence tokens are skipped — the zone is
silently DROPPED; and `emit` writes a top-level `Assignment("", zone)` with a `::` line (`C05_bare_top_witness`).

Other hypotheses as in `Props/C05tree.lean` (`isEnvName`, `name ≠ "END"`, `bforestOK`, `bfirstKeyIsMeta`, `hnfc`,
`bforestEmitOK`).
-/
import Octave.Lemmas.BareZoneBridge
import Octave.Props.C05tree
namespace Octave.C05
open Octave Lexer Scan Emitter

/-! ### 0. zones given by a content string -/

/-- the BARE zone with info tag `tag` and content STRING `content` (`content = ""` is ONE EMPTY content line). -/
def _root_.Octave.BNode.bareOfContent (marker : Str) (tag : Option Str) (content : Str) : BNode :=
  .bare marker (tag.getD []) (splitLines content)

/-- the zone assignment `KEY::` + zone with content STRING `content`. -/
def _root_.Octave.BNode.keyedOfContent (key marker : Str) (tag : Option Str) (content : Str) : BNode :=
  .zone key marker (tag.getD []) (splitLines content)

/-- the node the reader must produce for a bare zone: EMPTY key, `content` itself, the tag, the marker. -/
theorem BNode.node_bareOfContent (env : Env) (pos : BPosFn) (d l : Nat) (marker : Str) (tag : Option Str)
    (content : Str) (htag : TagOK env tag) :
    (BNode.bareOfContent marker tag content).node env pos d l
      = .assign [] (.zone content tag marker) (pos.bare l d (splitLines content).length marker.length).1
          (pos.bare l d (splitLines content).length marker.length).2 [] none := by
  simp only [BNode.bareOfContent, BNode.node, joinWith_splitLines, tagOf_of_TagOK env tag htag]

theorem BNode.node_keyedOfContent (env : Env) (pos : BPosFn) (d l : Nat) (key marker : Str) (tag : Option Str)
    (content : Str) (htag : TagOK env tag) :
    (BNode.keyedOfContent key marker tag content).node env pos d l
      = .assign key (.zone content tag marker) (pos.key l d).1 (pos.key l d).2 [] none := by
  simp only [BNode.keyedOfContent, BNode.node, joinWith_splitLines, tagOf_of_TagOK env tag htag]

/-- well-formedness in the vocabulary of `Props/C05zones.lean`: the only condition on the content is `zoneContentOK` (no
content line closes the fence). -/
theorem BNode.bareOfContent_ok (env : Env) (marker : Str) (tag : Option Str) (content : Str)
    (hm : isMarker marker = true) (htag : TagOK env tag) (hc : zoneContentOK marker content = true) :
    (BNode.bareOfContent marker tag content).OK :=
  ⟨hm, tagTextOK_of_TagOK env tag htag, contentLines_ok marker content hc⟩

theorem BNode.keyedOfContent_ok (env : Env) (key marker : Str) (tag : Option Str) (content : Str)
    (hk : isIdentifierText key = true) (hkr : hasReservedPrefix key = false) (hm : isMarker marker = true) (htag : TagOK env tag)
    (hc : zoneContentOK marker content = true) : (BNode.keyedOfContent key marker tag content).OK :=
  ⟨hk, hkr, hm, tagTextOK_of_TagOK env tag htag, contentLines_ok marker content hc⟩

theorem BNode.bareOfContent_emitOK (env : Env) (marker : Str) (tag : Option Str) (content : Str) (htag : TagOK env tag) :
    (BNode.bareOfContent marker tag content).EmitOK env := strip_of_TagOK env tag htag

/-- the C05N1 guard for a content string: `content ≠ ""`. -/
theorem BNode.bareOfContent_noEmptyLine (marker : Str) (tag : Option Str) (content : Str) (hg : content ≠ []) :
    (BNode.bareOfContent marker tag content).NoEmptyLine := by
  intro h
  have := joinWith_splitLines content
  rw [h] at this
  exact hg this.symm

/-- the text of a bare zone at depth `d`: `indent marker tag`, the content VERBATIM, `indent marker`. -/
theorem BNode.text_bareOfContent (d : Nat) (marker : Str) (tag : Option Str) (content : Str) :
    (BNode.bareOfContent marker tag content).text d =
      indentStr d ++ marker ++ tag.getD [] ++ "\n".toList ++ content ++ "\n".toList ++ indentStr d ++ marker ++ "\n".toList := by
  simp [BNode.bareOfContent, BNode.text, zoneSpanText, lineBlock_splitLines, fenceOpenLine, fenceCloseLine, spaces_eq_indentStr]

/-! ### 1. the lexer -/

/-- the four tokens of a BARE zone at depth `d` whose open line is line `l` (newest first): FENCE_OPEN at the column of the
first backtick with the marker and the tag, LITERAL_CONTENT with the content lines joined by line breaks, FENCE_CLOSE,
NEWLINE — and NO INDENT token in front. -/
theorem C05_btree_bare_tokens (env : Env) (marker trailing : Str) (C : List Str) (d l : Nat) :
    (BNode.bare marker trailing C).toksRev env d l =
      [tNewline (l + C.length + 1) (2 * d + marker.length + 1), tFenceClose marker (l + C.length + 1) 1,
       tLiteral (joinWith ['\n'] C) (l + 1) 1, tFenceOpen marker (tagOf env trailing) l (1 + 2 * d)] := rfl

/-- **C05 at the lexer, zones anywhere, keyed or bare.**  `tokenize` succeeds on the text of every forest with exactly
`bdocToks`, in both lexer modes; the receipts are the identifier notes of keys and bare words OUTSIDE the zones.  (No
restriction on where bare zones stand — top level included: the restrictions are the parser's.) -/
theorem C05_btree_lexes_verbatim (env : Env) (lenient : Bool) (name : Str) (nodes : List BNode)
    (hn : isEnvName name = true) (hne : name ≠ "END".toList) (hok : bforestOK nodes)
    (hnfc : ∀ l ∈ bdocNfcLines name nodes, env.nfc l = l) :
    tokenize env (bdocText name nodes) lenient = .ok (bdocToks env name nodes, (bforestRepsRev 0 2 nodes).reverse) :=
  tokenize_btree env lenient name nodes hn hne hok hnfc

/-- **`normalize` finds one span per zone** (keyed or bare) and returns the text unchanged (no NFC on any content line). -/
theorem C05_btree_normalize (env : Env) (name : Str) (nodes : List BNode)
    (hn : isEnvName name = true) (hok : bforestOK nodes)
    (hnfc : ∀ l ∈ bdocNfcLines name nodes, env.nfc l = l) :
    normalize env (bdocText name nodes) = .ok (bdocText name nodes, segSpans env 0 (bdocSegs name nodes)) := by
  have hwf := bdocSegs_wf name nodes hn hok
  rw [bdocText_segs]
  exact normalize_segs env _ (fun s hs => (Seg.ok_of_wf env s (hwf s hs) (fun l hl => hnfc l (by
    simp only [bdocNfcLines, List.mem_append]; exact Or.inl (mem_segsNfcLines hs l hl)))).1) (hnfc [] (by simp [bdocNfcLines]))

/-! ### 2. the reader -/

mutual
/-- the zones of a forest in reading order: (key, content, tag, marker); a bare zone has the EMPTY key. -/
def _root_.Octave.BNode.zones (env : Env) : BNode → List (Str × Str × Option Str × Str)
  | .line _ => []
  | .zone key marker trailing C => [(key, joinWith ['\n'] C, tagOf env trailing, marker)]
  | .bare marker trailing C => [([], joinWith ['\n'] C, tagOf env trailing, marker)]
  | .block _ cs => bforestZones env cs
def bforestZones (env : Env) : List BNode → List (Str × Str × Option Str × Str)
  | [] => []
  | n :: ns => n.zones env ++ bforestZones env ns
end

mutual
theorem nodeZones_bnode (env : Env) (pos : BPosFn) : ∀ (n : BNode) (d l : Nat),
    nodeZones (n.node env pos d l) = n.zones env
  | .line ln, d, l => by
    simp only [BNode.node, nodeZones, BNode.zones]
    cases ln.v <;> rfl
  | .zone key marker trailing C, d, l => rfl
  | .bare marker trailing C, d, l => rfl
  | .block key cs, d, l => by simp only [BNode.node, nodeZones, BNode.zones, nodesZones_bforest env pos cs (d + 1) (l + 1)]
theorem nodesZones_bforest (env : Env) (pos : BPosFn) : ∀ (ns : List BNode) (d l : Nat),
    nodesZones (bforestNodes env pos d l ns) = bforestZones env ns
  | [], d, l => rfl
  | n :: ns, d, l => by
    simp only [bforestNodes, nodesZones, bforestZones, nodeZones_bnode env pos n d l, nodesZones_bforest env pos ns d (l + n.nlines)]
end

/-- **C05, read side, zones anywhere, keyed or BARE: every zone comes out of the reader exactly as it went in, at its
place.**  The strict reader accepts the text of every forest and returns exactly `bdoc`: the sections are the forest node
for node — a line is its Assignment, a block is its Block with exactly its children, a zone assignment is the Assignment
whose value is a literal zone with THIS content, THIS tag and THIS marker, and a BARE zone (child of any block at any depth,
first, between or last among its siblings, after a line, a zone assignment, another bare zone or a non-empty block) is the
Assignment with the EMPTY key whose value is a literal zone with THIS content (the content lines joined by line breaks),
THIS tag and THIS marker, positioned at the token after its close fence; nothing else.
Beyond the hypotheses of `C05_ztree_zone_read_verbatim`: `bforestAttachOk` (the ATTACHMENT RULE: no bare zone directly after
an EMPTY sibling block — necessary: `C05_bare_attach_general`) and `bnoBareTop` (no bare zone directly under the envelope —
necessary: `C05_bare_top_dropped`). -/
theorem C05_btree_zone_read_verbatim (env : Env) (name : Str) (nodes : List BNode)
    (hn : isEnvName name = true) (hne : name ≠ "END".toList) (hok : bforestOK nodes)
    (hmeta : bfirstKeyIsMeta nodes = false) (hatt : bforestAttachOk nodes = true) (htop : bnoBareTop nodes = true)
    (hnfc : ∀ l ∈ bdocNfcLines name nodes, env.nfc l = l) :
    ∃ d, Parser.parse env (bdocText name nodes) = .ok d ∧
      d.sections = bforestNodes env bcanonPos 0 2 nodes ∧
      d.name = name ∧ d.metaKv = [] ∧ d.hasSeparator = false ∧ d.trailingComments = [] ∧ d.grammarVersion = none ∧
      d.rawFrontmatter = none :=
  ⟨_, parse_bdoc env name nodes hn hne hok hmeta hatt htop hnfc, rfl, rfl, rfl, rfl, rfl, rfl, rfl⟩

/-- the projection the property speaks about: **the zones of the document read back, in document order, are the zones
written** — as many, same keys (empty for a bare zone), same contents, same tags, same markers. -/
theorem C05_btree_zones_in_order (env : Env) (name : Str) (nodes : List BNode)
    (hn : isEnvName name = true) (hne : name ≠ "END".toList) (hok : bforestOK nodes)
    (hmeta : bfirstKeyIsMeta nodes = false) (hatt : bforestAttachOk nodes = true) (htop : bnoBareTop nodes = true)
    (hnfc : ∀ l ∈ bdocNfcLines name nodes, env.nfc l = l) :
    ∃ d, Parser.parse env (bdocText name nodes) = .ok d ∧ nodesZones d.sections = bforestZones env nodes :=
  ⟨_, parse_bdoc env name nodes hn hne hok hmeta hatt htop hnfc, nodesZones_bforest env bcanonPos nodes 0 2⟩

/-- **lenient entry point**: the same document; the receipts are the identifier notes of keys and bare words outside the
zones; the parser warnings are `bdocWarns` (duplicate keys per level — a BARE zone is never entered in the duplicate-key
table —, bare words under `PATTERN` / `REGEX`; a zone never gives one by itself). -/
theorem C05_btree_read_lenient (env : Env) (name : Str) (nodes : List BNode)
    (hn : isEnvName name = true) (hne : name ≠ "END".toList) (hok : bforestOK nodes)
    (hmeta : bfirstKeyIsMeta nodes = false) (hatt : bforestAttachOk nodes = true) (htop : bnoBareTop nodes = true)
    (hnfc : ∀ l ∈ bdocNfcLines name nodes, env.nfc l = l) :
    Parser.parseWithWarnings env (bdocText name nodes) =
      .ok (bdoc env name bcanonPos nodes, (bforestRepsRev 0 2 nodes).reverse, bdocWarns env nodes) :=
  parseWithWarnings_bdoc env name nodes hn hne hok hmeta hatt htop hnfc

/-- the parser half alone, at ARBITRARY token positions: `parse_section` on a block whose descendants mix lines, zone
assignments, blocks and bare zones. -/
theorem C05_block_with_bare_zones_read (p : BlockParse.LPos) (key : Str) (cs : List BareZoneParse.BT) (d : Nat) (st : Parser.PState)
    (e : Token) (k : List Token) (F : Nat) (hr : st.rest = (BareZoneParse.BT.block p key cs).body d ++ e :: k)
    (hs : BareZoneParse.stopsB (2 * d + 1) e = true)
    (hemp : cs.isEmpty = true → e.type = TT.fenceOpen → e.col - 1 < 2 * d)
    (hc : (BareZoneParse.BT.block p key cs).colsOk d = true) (ha : BareZoneParse.attachOkList cs = true)
    (hF : ((BareZoneParse.BT.block p key cs).body d).length ≤ F) :
    Parser.parseSection F [] st = .ok (some (BareZoneParse.BT.block p key cs).node,
      { st with rest := e :: k, prev := some (BareZoneParse.BT.block p key cs).lastTok,
                pos := st.pos + ((BareZoneParse.BT.block p key cs).body d).length,
                warnings := (BareZoneParse.BT.block p key cs).warns.reverse ++ st.warnings }) :=
  BareZoneParse.parseSection_bblock p key cs d st e k F hr hs hemp hc ha hF

/-! ### 3. fixed point -/

/-- **C05, zones anywhere, keyed or bare: the canonical text is a fixed point** — emit (from ANY node positions), read with
the strict reader, emit again: the same bytes; and the text is a fixed point of `canonStrict` (CLI `normalize`) and of
`canonLenient` (`octave_write`, `octave_validate`).
PARTIAL: (1) the guard `bforestNoEmptyLine` (`C ≠ [""]` for every zone, keyed or bare: a content of ONE EMPTY LINE is read
as content `""` and written back as the EMPTY zone) is open finding C05N1 (`C05N1_btree_witness`: the negation on a BARE
zone; `C05N1_btree_image` for every forest).  (2) `bforestAttachOk` — the attachment rule (a bare zone directly after an
EMPTY sibling block is read as that block's child): the repository's documented behaviour (Issue #259), an observation;
negation: `C05_bare_attach_witness`, for every instance `C05_bare_attach_general`.  (3) `bnoBareTop`: a bare zone directly
under the envelope is outside what `emit`/`parse` support (`C05_bare_top_witness`).  `bforestEmitOK` is not a defect.
Nothing else is missing: lexer, parser and emitter halves are all proved. -/
theorem C05_btree_fixed_point_partial (env : Env) (name : Str) (pos : BPosFn) (nodes : List BNode)
    (hn : isEnvName name = true) (hne : name ≠ "END".toList) (hok : bforestOK nodes)
    (hmeta : bfirstKeyIsMeta nodes = false) (hatt : bforestAttachOk nodes = true) (htop : bnoBareTop nodes = true)
    (hnfc : ∀ l ∈ bdocNfcLines name nodes, env.nfc l = l)
    (hem : bforestEmitOK env nodes) (hguard : bforestNoEmptyLine nodes) :
    (∃ text d', emit env (bdoc env name pos nodes) = some text ∧ Parser.parse env text = .ok d' ∧
        emit env d' = some text ∧ text = bdocText name nodes) ∧
    canonStrict env (bdocText name nodes) = .ok (bdocText name nodes) ∧
    canonLenient env (bdocText name nodes) = .ok (bdocText name nodes) := by
  have hr := parse_bdoc env name nodes hn hne hok hmeta hatt htop hnfc
  have he := fun pos => emit_bdoc env name pos nodes hok hem htop hguard
  exact ⟨⟨_, _, he pos, hr, he bcanonPos, rfl⟩, canonStrict_of env _ _ _ hr (he bcanonPos),
    canonLenient_of env _ _ _ _ _ (parseWithWarnings_bdoc env name nodes hn hne hok hmeta hatt htop hnfc) (he bcanonPos)⟩

mutual
/-- the forest as the emitter writes it: a zone whose content is the single empty line becomes the EMPTY zone; everything
else unchanged. -/
def _root_.Octave.BNode.norm : BNode → BNode
  | .line ln => .line ln
  | .zone key marker trailing C => .zone key marker trailing (if C = [[]] then [] else C)
  | .bare marker trailing C => .bare marker trailing (if C = [[]] then [] else C)
  | .block key cs => .block key (bnorm cs)
def bnorm : List BNode → List BNode
  | [] => []
  | n :: ns => n.norm :: bnorm ns
end
mutual
theorem bnorm1_ok : ∀ (n : BNode), n.OK → n.norm.OK
  | .line ln, h => h
  | .zone key marker trailing C, h => by
    obtain ⟨h1, h2, h3, h4, h5⟩ := h
    refine ⟨h1, h2, h3, h4, ?_⟩
    by_cases hc : C = [[]]
    · rw [if_pos hc]; simp
    · rw [if_neg hc]; exact h5
  | .bare marker trailing C, h => by
    obtain ⟨h3, h4, h5⟩ := h
    refine ⟨h3, h4, ?_⟩
    by_cases hc : C = [[]]
    · rw [if_pos hc]; simp
    · rw [if_neg hc]; exact h5
  | .block key cs, h => by
    simp only [BNode.OK, BNode.norm] at h ⊢
    exact ⟨h.1, h.2.1, bnorm_ok cs h.2.2⟩
theorem bnorm_ok : ∀ (ns : List BNode), bforestOK ns → bforestOK (bnorm ns)
  | [], _ => trivial
  | n :: ns, h => by
    simp only [bforestOK, bnorm] at h ⊢
    exact ⟨bnorm1_ok n h.1, bnorm_ok ns h.2⟩
end

mutual
theorem bnorm1_emitOK (env : Env) : ∀ (n : BNode), n.EmitOK env → n.norm.EmitOK env
  | .line ln, h => h
  | .zone key marker trailing C, h => h
  | .bare marker trailing C, h => h
  | .block key cs, h => by
    simp only [BNode.EmitOK, BNode.norm] at h ⊢
    exact bnorm_emitOK env cs h
theorem bnorm_emitOK (env : Env) : ∀ (ns : List BNode), bforestEmitOK env ns → bforestEmitOK env (bnorm ns)
  | [], _ => trivial
  | n :: ns, h => by
    simp only [bforestEmitOK, bnorm] at h ⊢
    exact ⟨bnorm1_emitOK env n h.1, bnorm_emitOK env ns h.2⟩
end

mutual
theorem bnorm1_noEmptyLine : ∀ (n : BNode), n.norm.NoEmptyLine
  | .line ln => trivial
  | .zone key marker trailing C => by
    simp only [BNode.norm, BNode.NoEmptyLine]
    by_cases hc : C = [[]]
    · rw [if_pos hc]; simp
    · rw [if_neg hc]; exact hc
  | .bare marker trailing C => by
    simp only [BNode.norm, BNode.NoEmptyLine]
    by_cases hc : C = [[]]
    · rw [if_pos hc]; simp
    · rw [if_neg hc]; exact hc
  | .block key cs => by
    simp only [BNode.norm, BNode.NoEmptyLine]
    exact bnorm_noEmptyLine cs
theorem bnorm_noEmptyLine : ∀ (ns : List BNode), bforestNoEmptyLine (bnorm ns)
  | [] => trivial
  | n :: ns => by
    simp only [bnorm, bforestNoEmptyLine]
    exact ⟨bnorm1_noEmptyLine n, bnorm_noEmptyLine ns⟩
end

mutual
theorem bnorm1_emitLines : ∀ (n : BNode) (d : Nat), n.norm.emitLines d = n.emitLines d
  | .line ln, d => rfl
  | .zone key marker trailing C, d => by simp only [BNode.norm, BNode.emitLines, contentPart_norm]
  | .bare marker trailing C, d => by simp only [BNode.norm, BNode.emitLines, contentPart_norm]
  | .block key cs, d => by simp only [BNode.norm, BNode.emitLines, bnorm_emitLines cs (d + 1)]
theorem bnorm_emitLines : ∀ (ns : List BNode) (d : Nat), bforestEmitLines d (bnorm ns) = bforestEmitLines d ns
  | [], d => rfl
  | n :: ns, d => by simp only [bnorm, bforestEmitLines, bnorm1_emitLines n d, bnorm_emitLines ns d]
end

mutual
theorem bnorm1_nfcLines : ∀ (n : BNode) (d : Nat), segsNfcLines (n.norm.segs d) = segsNfcLines (n.segs d)
  | .line ln, d => rfl
  | .zone key marker trailing C, d => rfl
  | .bare marker trailing C, d => rfl
  | .block key cs, d => by simp only [BNode.norm, BNode.segs, segsNfcLines, bnorm_nfcLines cs (d + 1)]
theorem bnorm_nfcLines : ∀ (ns : List BNode) (d : Nat), segsNfcLines (bforestSegs d (bnorm ns)) = segsNfcLines (bforestSegs d ns)
  | [], d => rfl
  | n :: ns, d => by simp only [bnorm, bforestSegs, segsNfcLines_append, bnorm1_nfcLines n d, bnorm_nfcLines ns d]
end

mutual
theorem bnorm1_zones (env : Env) : ∀ (n : BNode), n.norm.zones env = n.zones env
  | .line ln => rfl
  | .zone key marker trailing C => by simp only [BNode.norm, BNode.zones, joinWith_norm]
  | .bare marker trailing C => by simp only [BNode.norm, BNode.zones, joinWith_norm]
  | .block key cs => by simp only [BNode.norm, BNode.zones, bnorm_zones env cs]
theorem bnorm_zones (env : Env) : ∀ (ns : List BNode), bforestZones env (bnorm ns) = bforestZones env ns
  | [] => rfl
  | n :: ns => by simp only [bnorm, bforestZones, bnorm1_zones env n, bnorm_zones env ns]
end

theorem bnorm_firstKey (nodes : List BNode) : bfirstKeyIsMeta (bnorm nodes) = bfirstKeyIsMeta nodes := by
  cases nodes with
  | nil => rfl
  | cons n ns => cases n <;> rfl

theorem bnorm_headBare (ns : List BNode) : bheadBare (bnorm ns) = bheadBare ns := by
  cases ns with
  | nil => rfl
  | cons n r => cases n <;> rfl

theorem bnorm1_isEmptyBlock (n : BNode) : n.norm.isEmptyBlock = n.isEmptyBlock := by
  cases n with
  | block key cs => cases cs <;> rfl
  | _ => rfl

mutual
theorem bnorm1_attachOk : ∀ (n : BNode), n.norm.attachOk = n.attachOk
  | .line _ => rfl
  | .zone .. => rfl
  | .bare .. => rfl
  | .block key cs => by simp only [BNode.norm, BNode.attachOk, bnorm_attachOk cs]
theorem bnorm_attachOk : ∀ (ns : List BNode), bforestAttachOk (bnorm ns) = bforestAttachOk ns
  | [] => rfl
  | n :: ns => by
    simp only [bnorm, bforestAttachOk, bnorm1_attachOk n, bnorm1_isEmptyBlock, bnorm_headBare, bnorm_attachOk ns]
end

theorem bnorm_noBareTop : ∀ (ns : List BNode), bnoBareTop (bnorm ns) = bnoBareTop ns
  | [] => rfl
  | n :: ns => by
    have : n.norm.isBare = n.isBare := by cases n <;> rfl
    simp only [bnorm, bnoBareTop, this, bnorm_noBareTop ns]

/-- **what the emitter writes for ANY document of the class** (no guard): the text of the normalised forest — every zone
with content `""` as the EMPTY zone. -/
theorem C05_btree_emit (env : Env) (name : Str) (pos : BPosFn) (nodes : List BNode)
    (hok : bforestOK nodes) (hem : bforestEmitOK env nodes) (htop : bnoBareTop nodes = true) :
    emit env (bdoc env name pos nodes) = some (bdocText name (bnorm nodes)) := by
  rw [emit_bdoc_lines env name pos nodes hok hem htop, ← bnorm_emitLines nodes 0,
    bforest_unlines_emitLines (bnorm nodes) 0 (bnorm_noEmptyLine nodes)]
  rfl

/-- **C05 from the document side, NO guard on the contents**: for every document of the class — zones with content `""`
included — emit, strict read, emit gives the same bytes, and the document read back has the same zones (same keys, same
content STRINGS, tags, markers, in order).  (Content `""` is written as the empty zone and the empty zone is read back as
content `""`: C05N1 is invisible from this side; it concerns the TEXT with one empty content line, which no document is
written as.) -/
theorem C05_btree_doc_fixed_point (env : Env) (name : Str) (pos : BPosFn) (nodes : List BNode)
    (hn : isEnvName name = true) (hne : name ≠ "END".toList) (hok : bforestOK nodes)
    (hmeta : bfirstKeyIsMeta nodes = false) (hatt : bforestAttachOk nodes = true) (htop : bnoBareTop nodes = true)
    (hnfc : ∀ l ∈ bdocNfcLines name nodes, env.nfc l = l)
    (hem : bforestEmitOK env nodes) :
    ∃ text d', emit env (bdoc env name pos nodes) = some text ∧ Parser.parse env text = .ok d' ∧ emit env d' = some text ∧
      nodesZones d'.sections = nodesZones (bdoc env name pos nodes).sections := by
  have hnfc' : ∀ l ∈ bdocNfcLines name (bnorm nodes), env.nfc l = l := by
    intro l hl
    apply hnfc
    simpa only [bdocNfcLines, bdocSegs, segsNfcLines, segsNfcLines_append, bnorm_nfcLines] using hl
  have hr := parse_bdoc env name (bnorm nodes) hn hne (bnorm_ok nodes hok) (by rw [bnorm_firstKey]; exact hmeta)
    (by rw [bnorm_attachOk]; exact hatt) (by rw [bnorm_noBareTop]; exact htop) hnfc'
  refine ⟨_, _, C05_btree_emit env name pos nodes hok hem htop, hr, ?_, ?_⟩
  · exact emit_bdoc env name bcanonPos (bnorm nodes) (bnorm_ok nodes hok) (bnorm_emitOK env nodes hem)
      (by rw [bnorm_noBareTop]; exact htop) (bnorm_noEmptyLine nodes)
  · show nodesZones (bforestNodes env bcanonPos 0 2 (bnorm nodes)) = nodesZones (bforestNodes env pos 0 2 nodes)
    rw [nodesZones_bforest, nodesZones_bforest, bnorm_zones]

/-- **finding C05N1 for every forest**: the strict canonicaliser maps the text to the text of the normalised forest — every
zone whose content is ONE EMPTY LINE loses that line — and that is a different text as soon as one such zone exists. -/
theorem C05N1_btree_image (env : Env) (name : Str) (nodes : List BNode)
    (hn : isEnvName name = true) (hne : name ≠ "END".toList) (hok : bforestOK nodes)
    (hmeta : bfirstKeyIsMeta nodes = false) (hatt : bforestAttachOk nodes = true) (htop : bnoBareTop nodes = true)
    (hnfc : ∀ l ∈ bdocNfcLines name nodes, env.nfc l = l)
    (hem : bforestEmitOK env nodes) :
    canonStrict env (bdocText name nodes) = .ok (bdocText name (bnorm nodes)) :=
  canonStrict_of env _ _ _ (parse_bdoc env name nodes hn hne hok hmeta hatt htop hnfc) (C05_btree_emit env name bcanonPos nodes hok hem htop)

/-! ### 4. neighbours -/

mutual
/-- the forest with every zone — zone assignments AND bare zones — deleted (at every depth). -/
def _root_.Octave.BNode.strip : BNode → Option BNode
  | .line ln => some (.line ln)
  | .zone _ _ _ _ => none
  | .bare _ _ _ => none
  | .block key cs => some (.block key (bstrip cs))
def bstrip : List BNode → List BNode
  | [] => []
  | n :: ns => (match n.strip with | some m => [m] | none => []) ++ bstrip ns
end
mutual
theorem bstrip1_ok : ∀ (n m : BNode), n.OK → n.strip = some m → m.OK
  | .line ln, m, h, e => by simp only [BNode.strip, Option.some.injEq] at e; subst e; exact h
  | .zone .., m, _, e => by simp [BNode.strip] at e
  | .bare .., m, _, e => by simp [BNode.strip] at e
  | .block key cs, m, h, e => by
    simp only [BNode.strip, Option.some.injEq] at e; subst e
    simp only [BNode.OK] at h ⊢
    exact ⟨h.1, h.2.1, bstrip_ok cs h.2.2⟩
theorem bstrip_ok : ∀ (ns : List BNode), bforestOK ns → bforestOK (bstrip ns)
  | [], _ => trivial
  | n :: ns, h => by
    simp only [bforestOK] at h
    simp only [bstrip]
    cases e : n.strip with
    | none => simpa using bstrip_ok ns h.2
    | some m => simpa [bforestOK] using ⟨bstrip1_ok n m h.1 e, bstrip_ok ns h.2⟩
end

mutual
/-- the NFC-relevant lines of the zone-free forest are among those of the forest. -/
theorem bstrip1_nfcLines : ∀ (n m : BNode) (d : Nat), n.strip = some m →
    ∀ l ∈ segsNfcLines (m.segs d), l ∈ segsNfcLines (n.segs d)
  | .line ln, m, d, e, l, hl => by simp only [BNode.strip, Option.some.injEq] at e; subst e; exact hl
  | .zone .., m, d, e, l, hl => by simp [BNode.strip] at e
  | .bare .., m, d, e, l, hl => by simp [BNode.strip] at e
  | .block key cs, m, d, e, l, hl => by
    simp only [BNode.strip, Option.some.injEq] at e; subst e
    simp only [BNode.segs, segsNfcLines, List.mem_append] at hl ⊢
    rcases hl with h | h
    · exact Or.inl h
    · exact Or.inr (bstrip_nfcLines cs (d + 1) l h)
theorem bstrip_nfcLines : ∀ (ns : List BNode) (d : Nat), ∀ l ∈ segsNfcLines (bforestSegs d (bstrip ns)), l ∈ segsNfcLines (bforestSegs d ns)
  | [], d, l, hl => hl
  | n :: ns, d, l, hl => by
    simp only [bstrip] at hl
    simp only [bforestSegs, segsNfcLines_append, List.mem_append]
    cases e : n.strip with
    | none =>
      rw [e] at hl
      exact Or.inr (bstrip_nfcLines ns d l (by simpa using hl))
    | some m =>
      rw [e] at hl
      simp only [List.singleton_append, bforestSegs, segsNfcLines_append, List.mem_append] at hl
      rcases hl with h | h
      · exact Or.inl (bstrip1_nfcLines n m d e l h)
      · exact Or.inr (bstrip_nfcLines ns d l h)
end

theorem bdocNfcLines_strip (name : Str) (nodes : List BNode) : ∀ l ∈ bdocNfcLines name (bstrip nodes), l ∈ bdocNfcLines name nodes := by
  intro l hl
  simp only [bdocNfcLines, bdocSegs, segsNfcLines, segsNfcLines_append, List.mem_append, List.append_assoc] at hl ⊢
  rcases hl with h | h | h
  · exact Or.inl h
  · exact Or.inr (Or.inl (bstrip_nfcLines nodes 0 l h))
  · exact Or.inr (Or.inr h)

/-- all positions 0. -/
def bzeroPos : BPosFn := { key := fun _ _ => (0, 0), bare := fun _ _ _ _ => (0, 0) }

theorem bstrip1_notBare (n m : BNode) (e : n.strip = some m) : m.isBare = false := by
  cases n with
  | line ln => simp only [BNode.strip, Option.some.injEq] at e; subst e; rfl
  | zone _ _ _ _ => simp [BNode.strip] at e
  | bare _ _ _ => simp [BNode.strip] at e
  | block key cs => simp only [BNode.strip, Option.some.injEq] at e; subst e; rfl

/-- the zone-free forest has no bare zone: both guards hold for it trivially. -/
theorem bstrip_headBare : ∀ (ns : List BNode), bheadBare (bstrip ns) = false
  | [] => rfl
  | n :: ns => by
    simp only [bstrip]
    cases e : n.strip with
    | none => simpa using bstrip_headBare ns
    | some m =>
      have := bstrip1_notBare n m e
      cases m <;> simp_all [bheadBare, BNode.isBare]

theorem bstrip_noBareTop : ∀ (ns : List BNode), bnoBareTop (bstrip ns) = true
  | [] => rfl
  | n :: ns => by
    simp only [bstrip]
    cases e : n.strip with
    | none => simpa using bstrip_noBareTop ns
    | some m => simp [bnoBareTop, bstrip1_notBare n m e, bstrip_noBareTop ns]

mutual
theorem bstrip1_attachOk : ∀ (n m : BNode), n.strip = some m → m.attachOk = true
  | .line ln, m, e => by simp only [BNode.strip, Option.some.injEq] at e; subst e; rfl
  | .zone .., m, e => by simp [BNode.strip] at e
  | .bare .., m, e => by simp [BNode.strip] at e
  | .block key cs, m, e => by
    simp only [BNode.strip, Option.some.injEq] at e; subst e
    simp only [BNode.attachOk, bstrip_attachOk cs]
theorem bstrip_attachOk : ∀ (ns : List BNode), bforestAttachOk (bstrip ns) = true
  | [] => rfl
  | n :: ns => by
    simp only [bstrip]
    cases e : n.strip with
    | none => simpa using bstrip_attachOk ns
    | some m => simp [bforestAttachOk, bstrip1_attachOk n m e, bstrip_headBare ns, bstrip_attachOk ns]
end

mutual
/-- with constant positions the starting line does not matter. -/
theorem bnode_shift (env : Env) : ∀ (n : BNode) (d l l' : Nat),
    n.node env bzeroPos d l = n.node env bzeroPos d l'
  | .line ln, d, l, l' => rfl
  | .zone .., d, l, l' => rfl
  | .bare .., d, l, l' => rfl
  | .block key cs, d, l, l' => by
    simp only [BNode.node, bforest_shift env cs (d + 1) (l + 1) (l' + 1)]
    rfl
theorem bforest_shift (env : Env) : ∀ (ns : List BNode) (d l l' : Nat),
    bforestNodes env bzeroPos d l ns = bforestNodes env bzeroPos d l' ns
  | [], d, l, l' => rfl
  | n :: ns, d, l, l' => by
    simp only [bforestNodes]
    rw [bforest_shift env ns d (l + n.nlines) (l' + n.nlines), bnode_shift env n d l l']
end

mutual
/-- a zone-free node at positions 0 is its own erasure. -/
theorem eraseZ_bstrip_fix (env : Env) : ∀ (n m : BNode) (d l : Nat), n.strip = some m →
    eraseZ (m.node env bzeroPos d l) = some (m.node env bzeroPos d l)
  | .line ln, m, d, l, e => by
    simp only [BNode.strip, Option.some.injEq] at e; subst e
    simp only [BNode.node, eraseZ]
    cases ln.v <;> rfl
  | .zone .., m, d, l, e => by simp [BNode.strip] at e
  | .bare .., m, d, l, e => by simp [BNode.strip] at e
  | .block key cs, m, d, l, e => by
    simp only [BNode.strip, Option.some.injEq] at e; subst e
    simp only [BNode.node, eraseZ, erasesZ_bstripped env cs (d + 1) (l + 1)]
    rfl
/-- a zone-free forest at positions 0 is its own erasure. -/
theorem erasesZ_bstripped (env : Env) : ∀ (ns : List BNode) (d l : Nat),
    erasesZ (bforestNodes env bzeroPos d l (bstrip ns)) = bforestNodes env bzeroPos d l (bstrip ns)
  | [], d, l => rfl
  | n :: ns, d, l => by
    simp only [bstrip]
    cases e : n.strip with
    | none => simpa using erasesZ_bstripped env ns d l
    | some m =>
      simp only [List.singleton_append, bforestNodes, erasesZ, eraseZ_bstrip_fix env n m d l e, List.cons.injEq, true_and]
      exact erasesZ_bstripped env ns d _
end

mutual
theorem eraseZ_bnode (env : Env) (pos : BPosFn) : ∀ (n : BNode) (d l : Nat),
    eraseZ (n.node env pos d l) = (n.strip).map (fun m => (m.node env bzeroPos d 0))
  | .line ln, d, l => by
    simp only [BNode.node, BNode.strip, Option.map_some, eraseZ]
    cases ln.v <;> rfl
  | .zone .., d, l => rfl
  | .bare .., d, l => rfl
  | .block key cs, d, l => by
    simp only [BNode.node, BNode.strip, Option.map_some, eraseZ, erasesZ_bforest env pos cs (d + 1) (l + 1)]
    rw [bforest_shift env (bstrip cs) (d + 1) 0 (0 + 1)]
    rfl
/-- **erasing the zones of the document = the document of the zone-free forest** (at positions 0). -/
theorem erasesZ_bforest (env : Env) (pos : BPosFn) : ∀ (ns : List BNode) (d l : Nat),
    erasesZ (bforestNodes env pos d l ns) = bforestNodes env bzeroPos d 0 (bstrip ns)
  | [], d, l => rfl
  | n :: ns, d, l => by
    simp only [bforestNodes, erasesZ, bstrip, eraseZ_bnode env pos n d l, erasesZ_bforest env pos ns d (l + n.nlines)]
    cases e : n.strip with
    | none => simp
    | some m =>
      simp only [Option.map_some, List.singleton_append, bforestNodes, List.cons.injEq, true_and]
      exact bforest_shift env (bstrip ns) d _ _
end

mutual
theorem bstrip1_idem : ∀ (n m : BNode), n.strip = some m → m.strip = some m
  | .line ln, m, e => by simp only [BNode.strip, Option.some.injEq] at e; subst e; rfl
  | .zone .., m, e => by simp [BNode.strip] at e
  | .bare .., m, e => by simp [BNode.strip] at e
  | .block key cs, m, e => by
    simp only [BNode.strip, Option.some.injEq] at e; subst e
    simp only [BNode.strip, bstrip_idem cs]
theorem bstrip_idem : ∀ (ns : List BNode), bstrip (bstrip ns) = bstrip ns
  | [] => rfl
  | n :: ns => by
    simp only [bstrip]
    cases e : n.strip with
    | none => simpa using bstrip_idem ns
    | some m => simp only [List.singleton_append, bstrip, bstrip1_idem n m e, bstrip_idem ns]
end

mutual
theorem bzones_strip (env : Env) : ∀ (n m : BNode), n.strip = some m → m.zones env = []
  | .line ln, m, e => by simp only [BNode.strip, Option.some.injEq] at e; subst e; rfl
  | .zone .., m, e => by simp [BNode.strip] at e
  | .bare .., m, e => by simp [BNode.strip] at e
  | .block key cs, m, e => by
    simp only [BNode.strip, Option.some.injEq] at e; subst e
    simp only [BNode.zones, bforestZones_strip env cs]
theorem bforestZones_strip (env : Env) : ∀ (ns : List BNode), bforestZones env (bstrip ns) = []
  | [] => rfl
  | n :: ns => by
    simp only [bstrip]
    cases e : n.strip with
    | none => simpa using bforestZones_strip env ns
    | some m => simp only [List.singleton_append, bforestZones, bzones_strip env n m e, bforestZones_strip env ns, List.append_nil]
end

/-- **C05, zones anywhere, keyed or bare: a fence never swallows or releases neighbouring fields.**  Delete every zone — zone
assignments and bare zones — from the forest (at every depth).  The document read from the text WITH the zones, with its
zones (every Assignment whose value is a literal zone, whatever its key) deleted, is the
document read from the text WITHOUT them, positions aside: every line and every block — keys, values with their types,
nesting, order — is exactly what the reader returns when the zones are not there, whatever the zones contain (`===END===`,
`KEY::value` look-alikes, deeper or shallower indentation, …).  (`bfirstKeyIsMeta (bstrip nodes) = false` is only needed
for the zone-free text to be readable at all; the zone-free forest satisfies the attachment guard by itself.) -/
theorem C05_btree_neighbours_untouched (env : Env) (name : Str) (nodes : List BNode)
    (hn : isEnvName name = true) (hne : name ≠ "END".toList) (hok : bforestOK nodes)
    (hmeta : bfirstKeyIsMeta nodes = false) (hmeta' : bfirstKeyIsMeta (bstrip nodes) = false)
    (hatt : bforestAttachOk nodes = true) (htop : bnoBareTop nodes = true)
    (hnfc : ∀ l ∈ bdocNfcLines name nodes, env.nfc l = l) :
    ∃ dz df, Parser.parse env (bdocText name nodes) = .ok dz ∧ Parser.parse env (bdocText name (bstrip nodes)) = .ok df ∧
      erasesZ dz.sections = erasesZ df.sections ∧ nodesZones df.sections = [] ∧
      df.name = dz.name ∧ df.metaKv = dz.metaKv ∧ df.trailingComments = dz.trailingComments := by
  have h1 := parse_bdoc env name nodes hn hne hok hmeta hatt htop hnfc
  have h2 := parse_bdoc env name (bstrip nodes) hn hne (bstrip_ok nodes hok) hmeta' (bstrip_attachOk nodes) (bstrip_noBareTop nodes)
    (fun l hl => hnfc l (bdocNfcLines_strip name nodes l hl))
  refine ⟨_, _, h1, h2, ?_, ?_, rfl, rfl, rfl⟩
  · show erasesZ (bforestNodes env bcanonPos 0 2 nodes) = erasesZ (bforestNodes env bcanonPos 0 2 (bstrip nodes))
    rw [erasesZ_bforest env bcanonPos nodes 0 2, erasesZ_bforest env bcanonPos (bstrip nodes) 0 2, bstrip_idem]
  · show nodesZones (bforestNodes env bcanonPos 0 2 (bstrip nodes)) = []
    rw [nodesZones_bforest]
    exact bforestZones_strip env nodes



/-! ### 5. the two excluded points, for EVERY instance (the guards are necessary) -/

/-- **the attachment rule, for every instance**: an EMPTY block header `KEY:` directly followed by a bare zone whose open
fence stands at the column of the key (what the emitter writes for `[KEY: [], zone]` among the same siblings — both at
`2·d` spaces): `parse_section` returns the block WITH THE ZONE AS ITS ONLY CHILD — any key, marker, tag, content, positions,
continuation.  The zone's content, tag and marker are still exactly those of its tokens; its PARENT is not the one written. -/
theorem C05_bare_attach_general (p : BlockParse.LPos) (key : Str) (z : BareZoneParse.BZone) (st : Parser.PState) (k : List Token)
    (F : Nat)
    (hr : st.rest = BlockParse.hdrKeyTok key p :: BlockParse.hdrBlockTok p :: BlockParse.hdrNlTok p :: (z.toks ++ k))
    (hcol : z.oc - 1 = p.c1 - 1) :
    Parser.parseSection (F + 1) [] st = .ok (some (.block key [z.node] p.l p.c1 [] none),
      { st with rest := z.nlTok :: k, prev := some z.closeTok, pos := st.pos + 6 }) :=
  BareZoneParse.parseSection_attach p key z st k F hr hcol

/-- **a bare zone directly under the envelope is dropped, for every instance**: four iterations of the body loop of
`parse_document` later the loop stands behind the zone with the same sections — no node, no warning, no error. -/
theorem C05_bare_top_dropped (vf fuel : Nat) (z : BareZoneParse.BZone) (u : Token) (k : List Token) (secs : List Node)
    (kp : Parser.KeyPos) (p : Option Token) (n : Nat) (la : Token) (w : List Parser.Warning) (d : Nat) (wd : List Nat) (s : Bool)
    (th : Nat) (al : Char → Bool) :
    Parser.docLoop (vf + 1) (fuel + 4) [] secs kp { rest := z.toks ++ u :: k, prev := p, pos := n, last := la, warnings := w, depth := d, warned := wd, strict := s, threshold := th, alpha := al }
      = Parser.docLoop (vf + 1) fuel [] secs kp { rest := u :: k, prev := some z.nlTok, pos := n + 1 + 1 + 1 + 1, last := la, warnings := w, depth := d, warned := wd, strict := s, threshold := th, alpha := al } :=
  BareZoneParse.docLoop_bare_dropped vf fuel z u k secs kp p n la w d wd s th al

/-- the witness of the attachment rule: `B: [A: [], bare zone, Y::1]`. -/
def exAttach : List BNode :=
  [ .block "B".toList [ .block "A".toList [], .bare "```".toList [] ["x".toList], .line ⟨"Y".toList, .int 1⟩ ] ]

open ZoneTreeParse in
/-- **negation of the attachment guard on the witness** (whole model evaluated): the forest violates `bforestAttachOk` and
nothing else; the emitter writes it as `bdocText`; the strict reader returns `B: [A: [zone], Y::1]` — the zone, content
intact, has become the child of the EMPTY block `A` —; that is NOT the document written; and the canonicaliser moves the
zone one level deeper, so the text is not a fixed point. -/
theorem C05_bare_attach_witness :
    bforestAttachOk exAttach = false ∧ bnoBareTop exAttach = true ∧ bfirstKeyIsMeta exAttach = false ∧
    emit Env.ascii (bdoc Env.ascii "D".toList bcanonPos exAttach) = some (bdocText "D".toList exAttach) ∧
    bdocText "D".toList exAttach = "===D===\nB:\n  A:\n  ```\nx\n  ```\n  Y::1\n===END===\n".toList ∧
    Parser.parse Env.ascii (bdocText "D".toList exAttach) = .ok
      { name := "D".toList,
        sections := [.block "B".toList
          [.block "A".toList [.assign [] (.zone "x".toList none "```".toList) 6 6 [] none] 3 3 [] none,
           .assign "Y".toList (.int 1) 7 3 [] none] 2 1 [] none] } ∧
    Parser.parse Env.ascii (bdocText "D".toList exAttach) ≠ .ok (bdoc Env.ascii "D".toList bcanonPos exAttach) ∧
    isOkStr (canonStrict Env.ascii (bdocText "D".toList exAttach))
      "===D===\nB:\n  A:\n    ```\nx\n    ```\n  Y::1\n===END===\n".toList = true := by
  have hparse : Parser.parse Env.ascii (bdocText "D".toList exAttach) = .ok
      { name := "D".toList,
        sections := [.block "B".toList
          [.block "A".toList [.assign [] (.zone "x".toList none "```".toList) 6 6 [] none] 3 3 [] none,
           .assign "Y".toList (.int 1) 7 3 [] none] 2 1 [] none] } := by
    apply isOkDocZT_sound
    decide +kernel
  refine ⟨by decide, by decide, by decide, by decide +kernel, by decide +kernel, hparse, ?_, by decide +kernel⟩
  rw [hparse]
  intro h
  have h2 := congrArg (fun r => match r with | Except.ok (d : Document) => d.sections.length + (match d.sections with | [.block _ ch _ _ _ _] => ch.length | _ => 0) | .error _ => 0) h
  revert h2
  decide +kernel

/-- a bare zone directly under the envelope: `[bare zone, X::1]`. -/
def exTop : List BNode := [ .bare "```".toList [] ["abc".toList], .line ⟨"X".toList, .int 1⟩ ]

open ZoneTreeParse in
/-- **negation of `bnoBareTop` on a witness**: the lexer theorem still applies to the text (no restriction on where bare
zones stand); the strict reader DROPS the zone silently (document `[X::1]`); and `emit` writes the top-level
`Assignment("", zone)` with a `::` line — its own output is then an `E005`-free but different text (`::` at column 1 is
skipped as well). -/
theorem C05_bare_top_witness :
    bnoBareTop exTop = false ∧
    bdocText "D".toList exTop = "===D===\n```\nabc\n```\nX::1\n===END===\n".toList ∧
    tokenize Env.ascii (bdocText "D".toList exTop) false = .ok (bdocToks Env.ascii "D".toList exTop, []) ∧
    Parser.parse Env.ascii (bdocText "D".toList exTop) = .ok { name := "D".toList, sections := [.assign "X".toList (.int 1) 5 1 [] none] } ∧
    emit Env.ascii (bdoc Env.ascii "D".toList bcanonPos exTop) = some "===D===\n::\n```\nabc\n```\nX::1\n===END===\n".toList := by
  refine ⟨by decide, by decide +kernel, ?_, ?_, by decide +kernel⟩
  · have h := C05_btree_lexes_verbatim Env.ascii false "D".toList exTop (by decide) (by decide)
      (by simp only [exTop, bforestOK, BNode.OK, FLine.OK, FScalar.OK, and_true]; decide) (by decide +kernel)
    have r : (bforestRepsRev 0 2 exTop).reverse = [] := by decide +kernel
    rw [r] at h
    exact h
  · apply isOkDocZT_sound
    decide +kernel

/-! ### 6. non-vacuity: the theorems applied (not evaluated) -/

/-- bare zones everywhere a block child can stand, with nasty contents: as the FIRST child (tab inside); after a LINE inside
a NESTED block and last there, a dedent following (5-backtick marker, tag `py`, `nastyContent`: tab, NFD pair, `===END===`,
shorter backtick runs, …); after a NON-EMPTY nested block (`===END===`, a `K::1` look-alike, tab + shorter run); after a
KEYED zone (whose own content starts with a 3-backtick run under a 4-backtick marker); an EMPTY bare zone; a bare zone after
a bare zone (content an indented `Y::2` look-alike); a bare zone after a block whose last descendant is an EMPTY block ONE
LEVEL DEEPER (harmless for the attachment rule); then a line. -/
def exB : List BNode :=
  [ .line ⟨"A".toList, .int 1⟩,
    .block "B".toList
      [ BNode.bareOfContent "```".toList none "first\tchild".toList,
        .line ⟨"X".toList, .qstr "s t".toList⟩,
        .block "C".toList
          [ .line ⟨"W".toList, .bool true⟩,
            BNode.bareOfContent "`````".toList (some "py".toList) nastyContent ],
        BNode.bareOfContent "```".toList none "===END===\nK::1\n\t`` x".toList,
        BNode.keyedOfContent "Z".toList "````".toList (some "t".toList) "```\nq".toList,
        .bare "```".toList [] [],
        BNode.bareOfContent "```".toList none "  Y::2".toList,
        .block "E".toList [ .block "F".toList [] ],
        BNode.bareOfContent "```".toList none "x".toList,
        .line ⟨"Y".toList, .bare "w".toList⟩ ],
    .line ⟨"E".toList, .null⟩ ]

def exBText : Str :=
  ("===D===\nA::1\nB:\n  ```\nfirst\tchild\n  ```\n  X::\"s t\"\n  C:\n    W::true\n    `````py\n".toList ++ nastyContent ++
   "\n    `````\n  ```\n===END===\nK::1\n\t`` x\n  ```\n  Z::\n  ````t\n```\nq\n  ````\n  ```\n  ```\n  ```\n  Y::2\n  ```\n  E:\n    F:\n  ```\nx\n  ```\n  Y::w\nE::null\n===END===\n".toList)

theorem exB_text : bdocText "D".toList exB = exBText := by decide +kernel

theorem exB_ok : bforestOK exB := by
  simp only [exB, bforestOK, BNode.OK, BNode.bareOfContent, BNode.keyedOfContent, FLine.OK, FScalar.OK, and_true]
  decide

theorem exB_emitOK : bforestEmitOK envDrop exB ∧ bforestNoEmptyLine exB := by
  simp only [exB, bforestEmitOK, BNode.EmitOK, bforestNoEmptyLine, BNode.NoEmptyLine, BNode.bareOfContent, BNode.keyedOfContent,
    FLine.EmitOK, and_true]
  decide

theorem exB_nfc : ∀ l ∈ bdocNfcLines "D".toList exB, envDrop.nfc l = l := by decide +kernel

theorem exB_guards : bfirstKeyIsMeta exB = false ∧ bforestAttachOk exB = true ∧ bnoBareTop exB = true := by decide

/-- the document the reader must return (the positions are those the REAL reader reports for `exBText`: a bare zone sits at
the line of its close fence, column `2·d + |marker| + 1`). -/
def exBDoc : Document :=
  { name := "D".toList,
    sections :=
      [ .assign "A".toList (.int 1) 2 1 [] none,
        .block "B".toList
          [ .assign [] (.zone "first\tchild".toList none "```".toList) 6 6 [] none,
            .assign "X".toList (.str "s t".toList) 7 3 [] none,
            .block "C".toList
              [ .assign "W".toList (.bool true) 9 5 [] none,
                .assign [] (.zone nastyContent (some "py".toList) "`````".toList) 18 10 [] none ] 8 3 [] none,
            .assign [] (.zone "===END===\nK::1\n\t`` x".toList none "```".toList) 23 6 [] none,
            .assign "Z".toList (.zone "```\nq".toList (some "t".toList) "````".toList) 24 3 [] none,
            .assign [] (.zone [] none "```".toList) 30 6 [] none,
            .assign [] (.zone "  Y::2".toList none "```".toList) 33 6 [] none,
            .block "E".toList [ .block "F".toList [] 35 5 [] none ] 34 3 [] none,
            .assign [] (.zone "x".toList none "```".toList) 38 6 [] none,
            .assign "Y".toList (.str "w".toList) 39 3 [] none ] 3 1 [] none,
        .assign "E".toList .null 40 1 [] none ] }

theorem exB_doc : bdoc envDrop "D".toList bcanonPos exB = exBDoc := by
  apply ZoneTreeParse.docEqZT_sound
  decide +kernel

/-- the lexer theorem applies (lenient mode, an environment whose NFC is NOT the identity on the nasty content). -/
example : tokenize envDrop exBText true = .ok (bdocToks envDrop "D".toList exB, []) := by
  have h := C05_btree_lexes_verbatim envDrop true "D".toList exB (by decide) (by decide) exB_ok exB_nfc
  have r : (bforestRepsRev 0 2 exB).reverse = [] := by decide +kernel
  rw [exB_text, r] at h
  exact h

/-- the read theorem applies: all seven zones (six bare, one keyed) come back verbatim, each at its place. -/
example : ∃ d, Parser.parse envDrop exBText = .ok d ∧ d.sections = exBDoc.sections ∧
    d.name = "D".toList ∧ d.metaKv = [] ∧ d.hasSeparator = false ∧ d.trailingComments = [] ∧ d.grammarVersion = none ∧
    d.rawFrontmatter = none := by
  obtain ⟨d, h1, h2, h3⟩ := C05_btree_zone_read_verbatim envDrop "D".toList exB (by decide) (by decide) exB_ok exB_guards.1
    exB_guards.2.1 exB_guards.2.2 exB_nfc
  rw [exB_text] at h1
  refine ⟨d, h1, ?_, h3⟩
  rw [h2]
  exact congrArg Document.sections exB_doc

example : ∃ d, Parser.parse envDrop (bdocText "D".toList exB) = .ok d ∧
    nodesZones d.sections =
      [([], "first\tchild".toList, none, "```".toList),
       ([], nastyContent, some "py".toList, "`````".toList),
       ([], "===END===\nK::1\n\t`` x".toList, none, "```".toList),
       ("Z".toList, "```\nq".toList, some "t".toList, "````".toList),
       ([], [], none, "```".toList),
       ([], "  Y::2".toList, none, "```".toList),
       ([], "x".toList, none, "```".toList)] := by
  obtain ⟨d, h1, h2⟩ := C05_btree_zones_in_order envDrop "D".toList exB (by decide) (by decide) exB_ok exB_guards.1
    exB_guards.2.1 exB_guards.2.2 exB_nfc
  refine ⟨d, h1, ?_⟩
  rw [h2]
  decide +kernel

/-- the fixed-point theorem applies (from arbitrary node positions). -/
example := C05_btree_fixed_point_partial envDrop "D".toList { key := fun _ _ => (7, 7), bare := fun _ _ _ _ => (1, 2) } exB
  (by decide) (by decide) exB_ok exB_guards.1 exB_guards.2.1 exB_guards.2.2 exB_nfc exB_emitOK.1 exB_emitOK.2

example : canonStrict envDrop exBText = .ok exBText ∧ canonLenient envDrop exBText = .ok exBText := by
  have h := (C05_btree_fixed_point_partial envDrop "D".toList bcanonPos exB (by decide) (by decide) exB_ok exB_guards.1
    exB_guards.2.1 exB_guards.2.2 exB_nfc exB_emitOK.1 exB_emitOK.2).2
  rw [exB_text] at h
  exact h

/-- `normalize`: one span per zone, keyed or bare (seven spans), the text unchanged. -/
example : ∃ spans, normalize envDrop exBText = .ok (exBText, spans) ∧ spans.length = 7 ∧
    spans.map (·.marker.length) = [3, 5, 3, 4, 3, 3, 3] ∧ spans.head? = some { start := 16, stop := 39, marker := "```".toList, tag := none } := by
  have h := C05_btree_normalize envDrop "D".toList exB (by decide) exB_ok exB_nfc
  rw [exB_text] at h
  exact ⟨_, h, by decide +kernel, by decide +kernel, by decide +kernel⟩

/-- the lenient read: the same document, no receipt, no warning (five bare zones with the same EMPTY key in one block give
NO duplicate-key warning: a bare zone is not entered in the table). -/
example : Parser.parseWithWarnings envDrop exBText = .ok (exBDoc, [], []) := by
  have h := C05_btree_read_lenient envDrop "D".toList exB (by decide) (by decide) exB_ok exB_guards.1 exB_guards.2.1
    exB_guards.2.2 exB_nfc
  have r : (bforestRepsRev 0 2 exB).reverse = [] := by decide +kernel
  have w : bdocWarns envDrop exB = [] := by decide +kernel
  rw [exB_text, r, w, exB_doc] at h
  exact h

/-- the emitter, from arbitrary positions. -/
example : emit envDrop (bdoc envDrop "D".toList { key := fun l d => (d, l), bare := fun _ _ n m => (n, m) } exB)
    = some (bdocText "D".toList (bnorm exB)) :=
  C05_btree_emit envDrop "D".toList _ exB exB_ok exB_emitOK.1 exB_guards.2.2

/-- the neighbours theorem applies: without the seven zones the text is `A / B: / X / C: / W / E: / F: / Y / E`. -/
example : bdocText "D".toList (bstrip exB) = "===D===\nA::1\nB:\n  X::\"s t\"\n  C:\n    W::true\n  E:\n    F:\n  Y::w\nE::null\n===END===\n".toList := by
  decide +kernel

example := C05_btree_neighbours_untouched envDrop "D".toList exB (by decide) (by decide) exB_ok exB_guards.1 (by decide)
  exB_guards.2.1 exB_guards.2.2 exB_nfc

/-- document side, with a one-empty-line BARE zone inside a nested block (no guard on contents). -/
def exBN1 : List BNode :=
  [ .block "A".toList [ .block "B".toList [ .line ⟨"Q".toList, .int 0⟩, BNode.bareOfContent "```".toList none [] ], .line ⟨"X".toList, .int 1⟩ ] ]

theorem exBN1_ok : bforestOK exBN1 := by
  simp only [exBN1, bforestOK, BNode.OK, BNode.bareOfContent, FLine.OK, FScalar.OK, and_true]
  decide

theorem exBN1_emitOK : bforestEmitOK Env.ascii exBN1 := by
  simp only [exBN1, bforestEmitOK, BNode.EmitOK, BNode.bareOfContent, FLine.EmitOK, and_true]; decide

example := C05_btree_doc_fixed_point Env.ascii "D".toList bzeroPos exBN1 (by decide) (by decide) exBN1_ok
  (by decide) (by decide) (by decide) (by decide +kernel) exBN1_emitOK

/-- **negation of the C05N1 guard on a BARE zone inside a nested block**, obtained from the theorems: the text whose bare
zone (depth 2) holds ONE EMPTY LINE is canonicalised to the text with the EMPTY bare zone — a different text. -/
theorem C05N1_btree_witness :
    canonStrict Env.ascii "===D===\nA:\n  B:\n    Q::0\n    ```\n\n    ```\n  X::1\n===END===\n".toList
      = .ok "===D===\nA:\n  B:\n    Q::0\n    ```\n    ```\n  X::1\n===END===\n".toList ∧
    "===D===\nA:\n  B:\n    Q::0\n    ```\n    ```\n  X::1\n===END===\n".toList
      ≠ "===D===\nA:\n  B:\n    Q::0\n    ```\n\n    ```\n  X::1\n===END===\n".toList := by
  have h := C05N1_btree_image Env.ascii "D".toList exBN1 (by decide) (by decide) exBN1_ok (by decide) (by decide) (by decide)
    (by decide +kernel) exBN1_emitOK
  have e1 : bdocText "D".toList exBN1 = "===D===\nA:\n  B:\n    Q::0\n    ```\n\n    ```\n  X::1\n===END===\n".toList := by decide +kernel
  have e2 : bdocText "D".toList (bnorm exBN1) = "===D===\nA:\n  B:\n    Q::0\n    ```\n    ```\n  X::1\n===END===\n".toList := by decide +kernel
  rw [e1, e2] at h
  exact ⟨h, by decide⟩

/-- token level, ALL positions and strings symbolic: a block holding a bare zone FIRST, a line, a bare zone, a zone
assignment, a bare zone LAST — the open-fence columns are the only position data used. -/
example (p q r : BlockParse.LPos) (b1 b2 b3 : BareZoneParse.BZone) (z : ZoneParse.Zone) (ln : FlatParse.Line) (st : Parser.PState)
    (e : Token) (k : List Token)
    (hs : BareZoneParse.stopsB 1 e = true) (hc : p.c1 - 1 < 2) (h1 : b1.oc = 3) (h2 : b2.oc = 3) (h3 : b3.oc = 3)
    (hr : st.rest = (BareZoneParse.BT.block p "B".toList [.bare b1, .leaf r (.line ln), .bare b2, .leaf q (.zone z), .bare b3]).body 0 ++ e :: k) :
    ∃ st', Parser.parseSection 40 [] st = .ok (some (.block "B".toList [b1.node, ln.node, b2.node, z.node, b3.node] p.l p.c1 [] none), st') ∧
      st'.rest = e :: k := by
  have h := C05_block_with_bare_zones_read p "B".toList [.bare b1, .leaf r (.line ln), .bare b2, .leaf q (.zone z), .bare b3] 0 st e k 40 hr hs
    (by simp) (by simp [BareZoneParse.BT.colsOk, BareZoneParse.colsOkList, hc, h1, h2, h3])
    (by simp [BareZoneParse.attachOkList, BareZoneParse.BT.attachOk, BareZoneParse.BT.isEmptyBlock])
    (by simp [BareZoneParse.BT.body, BareZoneParse.toksList, BareZoneParse.BT.lead, BlockParse.indentToks, ZoneParse.Item.toks,
      ZoneParse.Zone.toks, ZoneParse.Zone.head, FlatParse.Line.toks, BareZoneParse.BZone.toks])
  exact ⟨_, h, rfl⟩

/-- the general attachment theorem applies: any empty block at column 3 followed by any bare zone at column 3. -/
example (p : BlockParse.LPos) (z : BareZoneParse.BZone) (st : Parser.PState) (k : List Token) (hp : p.c1 = 3) (hz : z.oc = 3)
    (hr : st.rest = BlockParse.hdrKeyTok "A".toList p :: BlockParse.hdrBlockTok p :: BlockParse.hdrNlTok p :: (z.toks ++ k)) :
    Parser.parseSection 1 [] st = .ok (some (.block "A".toList [z.node] p.l 3 [] none),
      { st with rest := z.nlTok :: k, prev := some z.closeTok, pos := st.pos + 6 }) := by
  have h := C05_bare_attach_general p "A".toList z st k 0 hr (by omega)
  rw [hp] at h
  exact h

/-! ### 7. the whole model EVALUATED (`decide +kernel`), independently of the proofs -/

open ZoneTreeParse in
/-- strict read of the seven-zone text: the document the theorem predicts — which is the document the REAL reader returns
(positions included) —, under both environments. -/
example : isOkDocZT (Parser.parse Env.ascii exBText) exBDoc = true := by decide +kernel

open ZoneTreeParse in
example : isOkDocZT (Parser.parse envDrop exBText) exBDoc = true := by decide +kernel

/-- both canonicalisers on it. -/
example : isOkStr (canonStrict envDrop exBText) exBText = true := by decide +kernel
example : isOkStr (canonLenient Env.ascii exBText) exBText = true := by decide +kernel

/-- the lexer's tokens are the theorem's. -/
example : (match tokenize envDrop exBText false with
    | .ok (toks, reps) => toks == bdocToks envDrop "D".toList exB && reps.isEmpty
    | .error _ => false) = true := by decide +kernel

/-- the emitter on the document: the text. -/
example : emit Env.ascii exBDoc = some exBText := by decide +kernel

open ZoneTreeParse in
/-- a bare zone as the ONLY child, at depth 3, and two levels of dedent directly after it. -/
example : isOkDocZT (Parser.parse Env.ascii "===D===\nA:\n  B:\n    C:\n      ```\n===END===\n      ```\nX::1\n===END===\n".toList)
    { name := "D".toList,
      sections :=
        [ .block "A".toList [ .block "B".toList [ .block "C".toList
            [ .assign [] (.zone "===END===".toList none "```".toList) 7 10 [] none ] 4 5 [] none ] 3 3 [] none ] 2 1 [] none,
          .assign "X".toList (.int 1) 8 1 [] none ] } = true := by decide +kernel

/-! ### 8. the remaining hypotheses at their excluded points (model; the real reader does the same, see the report) -/

/-- `contentLineOK`: a content line of a BARE zone that is a fence line of EQUAL length closes it early (the real close line
then opens a zone that is never closed: E006); a LONGER run is E007. -/
example : lexErr (tokenize Env.ascii "===D===\nA:\n  ```\n  a\n      ```\n  b\n  ```\n===END===\n".toList) = some ("E006".toList, 7, 1) := by
  decide +kernel
example : lexErr (tokenize Env.ascii "===D===\nA:\n  ```\n````\n  ```\n===END===\n".toList) = some ("E007".toList, 4, 1) := by
  decide +kernel

open ZoneTreeParse in
/-- `bforestEmitOK` (`strip trailing = trailing`): `` ``` py `` is read as tag `py` and written back as `` ```py ``. -/
example : isOkStr (canonStrict Env.ascii "===D===\nA:\n  ``` py \n  x\n  ```\n===END===\n".toList)
    "===D===\nA:\n  ```py\n  x\n  ```\n===END===\n".toList = true := by decide +kernel

open ZoneTreeParse in
/-- the open fence of a bare zone NOT at its block's child indentation (outside the emitter's image, `colsOk`): one space
short, the fence is still the child (`column - 1 = 1 ≥ block_indent = 0`, the attachment rule again); written back at the
canonical two spaces. -/
example : isOkStr (canonStrict Env.ascii "===D===\nA:\n ```\nx\n ```\n===END===\n".toList)
    "===D===\nA:\n  ```\nx\n  ```\n===END===\n".toList = true := by decide +kernel

end Octave.C05
