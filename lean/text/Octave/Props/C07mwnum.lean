/-
C07 / C03 on flat documents whose values may be MULTI-WORD VALUES WITH A NUMBER OR A STRING HEAD — the PARSER-level
rewrites `K::3 blind mice` → the single string `3 blind mice` and `K::"a b" c d` → the single string `"a b" c d`, with
their receipts (sibling contexts `number_identifier` and `string_multiword` of the `multi_word_coalesce` warning; extends
`C07multiword`, whose class it contains).

A document of the class is an envelope `===NAME===`, any number of lines `KEY::value` and `===END===`; a value is a scalar
(`FScalar`), or a multi-word value `NWords`: a HEAD followed by `n ≥ 1` identifier-shaped words (`Expr.wordOK`), each
preceded by ANY POSITIVE number of spaces (`gap + 1`).  The head (`NHead`) is
  * `.word w`  an identifier-shaped word (the class of `C07multiword`; receipt without context),
  * `.int i`   an INTEGER lexeme, written `intStr i` (optional `-`, digits, no leading zero, at most 4300 digits), or
  * `.str s`   a QUOTED STRING with ANY content `s`, written `quoted s` (`"`, the escaped content, `"`).
Decidable: `NWLine.OK`.

What the real reader does (and the model, proved here for EVERY document of the class):
  * NUMBER head: the lexer emits one NUMBER token (raw lexeme kept) and one IDENTIFIER per word; `parse_value`'s NUMBER
    branch joins the number's RAW LEXEME and the words by exactly ONE space each, whatever the spacing was; the value is that
    STRING (the integer is gone: `K::3 blind mice` is the string `3 blind mice`); ONE `lenient_parse` /
    `multi_word_coalesce` warning with `context = number_identifier` is pushed, holding the parts, the result, line and
    column of the NUMBER token.
  * STRING head: one STRING token (value = the unescaped content); the STRING branch joins `"` + CONTENT + `"` — the quotes
    become PART OF THE VALUE, escapes are resolved: `K::"q\"r" x` is the 7-character string `"q"r" x` — and the words by one
    space each; ONE warning with `context = string_multiword`, at the STRING token.  Under the keys `PATTERN` / `REGEX` no
    `pattern_autoquote` warning is added (the value started quoted), unlike for the other two heads.
The emitter quotes every result (`needsQuotes_nw`), so the canonical text of the line is `KEY::"3 blind mice"`, resp.
`KEY::"\"a b\" c d"` (`NWLine.canon`).  The STRICT entry point `parse` accepts these values too and builds the same
document; it returns no warning list.

Proved for EVERY document of the class (any number of lines, words, spaces, any integer within the digit limit, any
string content):

  * `C07_mwnum_lexes`             `tokenize` (both modes) yields exactly `mwndocToks` (`C07_mwnum_word_tokens`: head token,
                                  then one IDENTIFIER per word) and no normalisation receipt (`mwndocReps_norm`);
  * `C07_mwnum_read` / `…_read_lenient`   `parse` / `parse_with_warnings` return the flat document of the CANONICAL lines
                                  (`mwnDoc`: value `.str "3 blind mice"`), positions included, with the exact lexer repairs
                                  and the exact parser warnings `mwnWarns`;
  * `C07_mwnum_receipts`          the `multi_word_coalesce` records among the warnings are, in reading order, exactly
                                  `mwnReceipts`: ONE per multi-word line (`mwnReceipts_length`) — parts, result, context
                                  (none / `number_identifier` / `string_multiword`), line, column of the head;
  * `C07_mwnum_receipts_exact`    with pairwise different keys, none `PATTERN` / `REGEX` (`mwnQuietKeys`), the warning
                                  list IS `mwnReceipts`;
  * `C07_mwnum_canonical_none` / `…_canonical_silent`   the canonical text reads as the same document with no
                                  `multi_word_coalesce` record (quiet keys: no warning at all);
  * `C03_mwnum_converge`          `emit(parse(x))` = `emit(parse_with_warnings(x)[0])` = the canonical text;
                                  `C03_mwnum_spacings_agree`; `C03_mwnum_canonical_fixed` (fixed point).

C07 FINDING (new, id to be assigned by the lead; proved below, `C07_mwnum_adjacent_bracket_silent` and
`C07_mwstr_adjacent_bracket_silent`): an ADJACENT bracket group behind the last word of a NUMBER-headed or STRING-headed
(likewise BOOLEAN / NULL / VERSION-headed) multi-word value — `K::3 mice[x]` — is consumed and DISCARDED
(`_consume_bracket_annotation(capture=False)`): the value is `3 mice`, the only record pushed is the
`multi_word_coalesce` receipt whose `original` is `["3","mice"]`; nothing mentions `[x]`.  (Behind a WORD-headed value the
same bracket is kept as `words<x>`; behind a space it is kept as ` [x]`.)  The real code does the same (see the report).

Hypotheses: `isEnvName name`, `name ≠ "END"`, `NWLine.OK`, `NWLine.EmitOK` (scalar lines only), first key not `META`,
`hnfc` (NFC leaves every line unchanged; trivial for `Env.ascii`).

Not covered: float / exponent / leading-zero / `+`-signed number lexemes as head (the real code keeps the raw lexeme:
`K::007 a` → `007 a`, `K::1e3 a` → `1e3 a`; `K::+3 a` is NOT a number head: `+` is the synthesis operator),
BOOLEAN / NULL / VERSION heads (same `multiWordSimple` path as STRING — `takeValueToks_words` covers their loop — but the
lexer lemmas for `true` / `null` / versions followed by a space are missing; model evaluated on them at the end of this
file), numbers or reserved words among the FURTHER words, operators behind the words (`number_identifier_expression`),
values inside lists / blocks / META.
-/
import Octave.Lemmas.MwNumBridge
import Octave.Model.Canon
import Octave.Props.C03expr
import Octave.Props.C07multiword
namespace Octave.C07
open Octave Lexer Emitter Parser FlatParse Spell Expr MW MWN

/-! ### lexer -/

theorem mwn_head_reps_norm (h : NHead) (l c : Nat) : (h.reps l c).reverse.filter isNormalization = [] := by
  cases h with
  | word w => exact filter_idReps w l c
  | int i => rfl
  | str sv => rfl

theorem mwnLineReps_norm (x : NWLine) (l : Nat) : (x.repsRev l 1).filter isNormalization = [] := by
  obtain ⟨key, v⟩ := x
  cases v with
  | sc v => simp only [NWLine.repsRev, NVal.repsRev, List.filter_append, filter_idReps, scalar_reps_norm, List.append_nil]
  | nw m => simp only [NWLine.repsRev, NVal.repsRev, List.filter_append, filter_idReps, mwn_head_reps_norm, mwTailReps_norm, List.append_nil]

/-- the lexer log of a document of the class holds NO normalisation record (the rewrite is made by the parser). -/
theorem mwndocReps_norm (sl : List NWLine) : (mwndocReps sl).filter isNormalization = [] := by
  have h : ∀ (sl : List NWLine) (l : Nat), (mwnLinesRepsRev l sl).filter isNormalization = [] := by
    intro sl
    induction sl with
    | nil => intro l; rfl
    | cons x r ih => intro l; simp only [mwnLinesRepsRev, List.filter_append, mwnLineReps_norm, ih, List.append_nil]
  rw [mwndocReps, List.filter_reverse, h]; rfl

/-- **(a) the lexer** (both modes): exactly `mwndocToks` and `mwndocReps`. -/
theorem C07_mwnum_lexes (env : Env) (lenient : Bool) (name : Str) (sl : List NWLine)
    (hn : isEnvName name = true) (hne : name ≠ "END".toList) (hok : ∀ x ∈ sl, x.OK)
    (hnfc : ∀ l ∈ splitLines (mwndocText name sl), env.nfc l = l) :
    tokenize env (mwndocText name sl) lenient = .ok (mwndocToks name sl, mwndocReps sl) :=
  tokenize_mwndoc env lenient name sl hn hne hok hnfc

/-- … in which the tokens of a multi-word value written at line `l`, column `c` are ONE IDENTIFIER token per word, in
order: the head at `(l, c)`, every further word at its own column. -/
theorem C07_mwnum_word_tokens (m : NWords) (l c : Nat) :
    ∃ ts, ((NVal.nw m).toksRev l c).reverse = m.head.tok l c :: ts ∧ MWToks (m.tail.map Prod.snd) ts :=
  ⟨(mwTailToksRev l (c + m.head.text.length) m.tail).reverse, by simp [NVal.toksRev], mwTailToks_bridge l m.tail _⟩

/-! ### parser -/

/-- text level, given the lexer half: both entry points on a text that lexes to `mwnToks`. -/
theorem mwn_read_of_toks (env : Env) (text : Str) (reps : List Repair) (f : Frame) (name : Str) (lines : List NQLine)
    (hs : Parser.stripFrontmatter env text = (text, none))
    (hlex : Lexer.tokenize env text = .ok (mwnToks f name lines, reps))
    (hwf : ∀ ln ∈ lines, ln.WF) (hm : mwnMetaFirst lines = false) :
    Parser.parse env text = .ok { name := name, sections := lines.map NQLine.node } ∧
    Parser.parseWithWarnings env text
      = .ok ({ name := name, sections := lines.map NQLine.node }, reps, mwnWarns [] lines) := by
  have hlex' : Lexer.tokenize env (Parser.stripFrontmatter env text).1 = .ok (mwnToks f name lines, reps) := by
    rw [hs]; exact hlex
  constructor
  · obtain ⟨st', h1, _⟩ := parseDocument_mwn f name lines hwf hm (Parser.initState env (mwnToks f name lines) true) rfl rfl
    rw [C02.parse_eq_parseToks env _ _ _ hlex', hs]
    unfold C02.parseToks
    simp only [StateT.run, h1, bind, Except.bind, pure, Except.pure, Except.map]
  · obtain ⟨st', h1, h2⟩ := parseDocument_mwn f name lines hwf hm (Parser.initState env (mwnToks f name lines) false) rfl rfl
    have h2' : st'.warnings = (mwnWarns [] lines).reverse := by
      rw [h2]; simp [Parser.initState]
    rw [C02.parseWithWarnings_eq_parseToks env _ _ _ hlex', hs]
    unfold C02.parseToksWithWarnings
    simp only [StateT.run, h1, h2', bind, Except.bind, pure, Except.pure, Except.map, List.reverse_reverse]

/-- the document every text of the class is read as: the flat document of the canonical lines, nodes positioned at their
keys (line `i + 2`, column 1). -/
abbrev mwnDoc (name : Str) (sl : List NWLine) : Document := flatDoc name (fun i => (i + 2, 1)) (mwnCanonLines sl)

/-- **the STRICT entry point `parse` accepts multi-word values** and returns the document whose values are the joined
strings — the same document, positions included, as for the canonical text. -/
theorem C07_mwnum_read (env : Env) (name : Str) (sl : List NWLine)
    (hn : isEnvName name = true) (hne : name ≠ "END".toList) (hok : ∀ x ∈ sl, x.OK)
    (hm : mwnFirstNotMeta sl = true)
    (hnfc : ∀ l ∈ splitLines (mwndocText name sl), env.nfc l = l) :
    Parser.parse env (mwndocText name sl) = .ok (mwnDoc name sl) := by
  have hlex := tokenize_mwndoc env false name sl hn hne hok hnfc
  rw [mwndocToks_bridge] at hlex
  have h := (mwn_read_of_toks env (mwndocText name sl) _ _ name _ (stripFrontmatter_mwndoc env name sl) hlex
    (toNQLines_wf sl hok 2) (mwnMetaFirst_bridge sl 2 hm)).1
  rw [h, mwn_qnodes_bridge sl 0]
  rfl

/-- **(b) the lenient entry point** (`parse_with_warnings`): the same document, exactly the lexer repairs `mwndocReps` and
exactly the parser warnings `mwnWarns` of the lines. -/
theorem C07_mwnum_read_lenient (env : Env) (name : Str) (sl : List NWLine)
    (hn : isEnvName name = true) (hne : name ≠ "END".toList) (hok : ∀ x ∈ sl, x.OK)
    (hm : mwnFirstNotMeta sl = true)
    (hnfc : ∀ l ∈ splitLines (mwndocText name sl), env.nfc l = l) :
    Parser.parseWithWarnings env (mwndocText name sl)
      = .ok (mwnDoc name sl, mwndocReps sl, mwnWarns [] (toNQLines 2 sl)) := by
  have hlex := tokenize_mwndoc env false name sl hn hne hok hnfc
  rw [mwndocToks_bridge] at hlex
  have h := (mwn_read_of_toks env (mwndocText name sl) _ _ name _ (stripFrontmatter_mwndoc env name sl) hlex
    (toNQLines_wf sl hok 2) (mwnMetaFirst_bridge sl 2 hm)).2
  rw [h, mwn_qnodes_bridge sl 0]
  rfl

/-! ### C07: receipts -/

/-- **C07 for multi-word bare values**: reading a document of the class (lenient entry point) yields the document of the
canonical lines, a lexer log without normalisation record, and a warning list whose `multi_word_coalesce` records are, in
reading order, exactly `mwnReceipts`: ONE per multi-word line — the words as written, the string they became (joined by
one space), the line and the column of the first word — and none for a scalar line. -/
theorem C07_mwnum_receipts (env : Env) (name : Str) (sl : List NWLine)
    (hn : isEnvName name = true) (hne : name ≠ "END".toList) (hok : ∀ x ∈ sl, x.OK)
    (hm : mwnFirstNotMeta sl = true)
    (hnfc : ∀ l ∈ splitLines (mwndocText name sl), env.nfc l = l) :
    ∃ reps warns, Parser.parseWithWarnings env (mwndocText name sl) = .ok (mwnDoc name sl, reps, warns) ∧
      warns.filter isMultiWord = mwnReceipts 2 sl ∧ reps.filter isNormalization = [] :=
  ⟨_, _, C07_mwnum_read_lenient env name sl hn hne hok hm hnfc, mwnWarns_filter sl 2 [], mwndocReps_norm sl⟩

/-- keys pairwise different, none of them `PATTERN` / `REGEX` (decidable): no duplicate-key and no auto-quote warning. -/
def mwnQuietKeys (sl : List NWLine) : Prop :=
  (sl.map NWLine.key).Nodup ∧ ∀ x ∈ sl, x.key ≠ "PATTERN".toList ∧ x.key ≠ "REGEX".toList

instance (sl : List NWLine) : Decidable (mwnQuietKeys sl) := by unfold mwnQuietKeys; infer_instance

theorem mwn_qline_warns_quiet (x : NWLine) (l : Nat) (hk : x.key ≠ "PATTERN".toList ∧ x.key ≠ "REGEX".toList) :
    (toNQLine x l).warns = mwnLineReceipt l x := by
  obtain ⟨key, v⟩ := x
  cases v with
  | sc v =>
    have hp : ((FLine.mk key v).toP l).plain = true := by
      simp only [Line.plain, FLine.toP, beq_eq_false_iff_ne.2 hk.1, beq_eq_false_iff_ne.2 hk.2, Bool.or_self, Bool.and_false,
        Bool.not_false]
    exact (Line.warns_eq_nil_iff _).2 hp
  | nw m =>
    have ha : ∀ (val : Str) (a b : Nat), autoquote key val a b = [] := by
      intro val a b
      simp only [autoquote, beq_eq_false_iff_ne.2 hk.1, beq_eq_false_iff_ne.2 hk.2, Bool.or_self, Bool.false_eq_true, if_false]
    simp only [toNQLine, NQLine.warns, NTLine.warnsRev, ha, ite_self, List.nil_append, List.reverse_cons, List.reverse_nil]
    rfl

theorem mwnWarns_quiet (sl : List NWLine) : ∀ (l : Nat) (kp : KeyPos), (sl.map NWLine.key).Nodup →
    (∀ x ∈ sl, x.key ≠ "PATTERN".toList ∧ x.key ≠ "REGEX".toList) → (∀ x ∈ sl, kp.lookup x.key = none) →
    mwnWarns kp (toNQLines l sl) = mwnReceipts l sl := by
  induction sl with
  | nil => intro l kp _ _ _; rfl
  | cons x r ih =>
    intro l kp hnd hk hkp
    have h0 : kp.lookup x.key = none := hkp x (List.mem_cons_self ..)
    have htp : trackPure kp x.key l = (kp ++ [(x.key, [l])], []) := by
      unfold trackPure; rw [h0]
    rw [List.map_cons, List.nodup_cons] at hnd
    simp only [toNQLines, mwnWarns, mwn_qkey_bridge, mwn_ql_bridge, htp, mwn_qline_warns_quiet x l (hk x (List.mem_cons_self ..)),
      List.append_nil, mwnReceipts]
    rw [ih (l + 1) _ hnd.2 (fun y hy => hk y (List.mem_cons_of_mem _ hy))]
    intro y hy
    apply lookup_append_none _ _ _ (hkp y (List.mem_cons_of_mem _ hy))
    have hne : y.key ≠ x.key := fun h => hnd.1 (h ▸ List.mem_map_of_mem hy)
    simp only [List.lookup_cons, List.lookup_nil]
    rw [beq_eq_false_iff_ne.2 hne]

/-- **… and nothing else**: with pairwise different keys, none of them `PATTERN` / `REGEX`, the warning list of
`parse_with_warnings` IS `mwnReceipts` — exactly one `multi_word_coalesce` record per multi-word line, in order. -/
theorem C07_mwnum_receipts_exact (env : Env) (name : Str) (sl : List NWLine)
    (hn : isEnvName name = true) (hne : name ≠ "END".toList) (hok : ∀ x ∈ sl, x.OK)
    (hm : mwnFirstNotMeta sl = true) (hq : mwnQuietKeys sl)
    (hnfc : ∀ l ∈ splitLines (mwndocText name sl), env.nfc l = l) :
    Parser.parseWithWarnings env (mwndocText name sl) = .ok (mwnDoc name sl, mwndocReps sl, mwnReceipts 2 sl) := by
  rw [C07_mwnum_read_lenient env name sl hn hne hok hm hnfc, mwnWarns_quiet sl 2 [] hq.1 hq.2 (fun _ _ => rfl)]

/-! ### the canonical text -/

/-- a flat document seen as a document of the class (every value a scalar). -/
def mwnOfFlat (ls : List FLine) : List NWLine := ls.map fun ln => ⟨ln.key, .sc ln.v⟩

/-- the canonical form of a document of the class, as a document of the class: `KEY::"w0 w1 … wn"`. -/
def mwnCanon (sl : List NWLine) : List NWLine := mwnOfFlat (mwnCanonLines sl)

theorem mwnLinesText_ofFlat (ls : List FLine) : mwnLinesText (mwnOfFlat ls) = linesText ls := by
  induction ls with
  | nil => rfl
  | cons ln r ih =>
    simp only [mwnOfFlat, List.map_cons, mwnLinesText, linesText] at ih ⊢
    rw [ih]; rfl

/-- the text of the canonical form is the canonical text of the flat document. -/
theorem mwndocText_ofFlat (name : Str) (ls : List FLine) : mwndocText name (mwnOfFlat ls) = flatText name ls := by
  simp only [mwndocText, flatText, mwnLinesText_ofFlat]

theorem mwnCanonLines_ofFlat (ls : List FLine) : mwnCanonLines (mwnOfFlat ls) = ls := by
  induction ls with
  | nil => rfl
  | cons ln r ih =>
    simp only [mwnCanonLines, mwnOfFlat, List.map_cons, List.map_map] at ih ⊢
    rw [ih]; rfl

theorem mwnReceipts_ofFlat (ls : List FLine) : ∀ l, mwnReceipts l (mwnOfFlat ls) = [] := by
  induction ls with
  | nil => intro l; rfl
  | cons ln r ih =>
    intro l
    have := ih (l + 1)
    simp only [mwnOfFlat, List.map_cons, mwnReceipts, mwnLineReceipt, List.nil_append] at this ⊢
    exact this

theorem mwnCanon_ok (sl : List NWLine) (hok : ∀ x ∈ sl, x.OK) : ∀ x ∈ mwnCanon sl, x.OK := by
  intro x hx
  simp only [mwnCanon, mwnOfFlat, mwnCanonLines, List.map_map, List.mem_map, Function.comp] at hx
  obtain ⟨y, hy, rfl⟩ := hx
  obtain ⟨key, v⟩ := y
  have := hok _ hy
  cases v with
  | sc v => exact this
  | nw m => exact ⟨this.1, this.2.1, trivial⟩

theorem mwnCanon_keys (sl : List NWLine) : (mwnCanon sl).map NWLine.key = sl.map NWLine.key := by
  simp only [mwnCanon, mwnOfFlat, mwnCanonLines, List.map_map]
  rfl

theorem mwnCanon_firstNotMeta (sl : List NWLine) : mwnFirstNotMeta (mwnCanon sl) = mwnFirstNotMeta sl := by
  cases sl <;> rfl

theorem mwnCanon_quiet (sl : List NWLine) (h : mwnQuietKeys sl) : mwnQuietKeys (mwnCanon sl) := by
  refine ⟨by rw [mwnCanon_keys]; exact h.1, ?_⟩
  intro x hx
  simp only [mwnCanon, mwnOfFlat, mwnCanonLines, List.map_map, List.mem_map, Function.comp] at hx
  obtain ⟨y, hy, rfl⟩ := hx
  exact h.2 y hy

theorem mwnCanonLines_mwCanon (sl : List NWLine) : mwnCanonLines (mwnCanon sl) = mwnCanonLines sl := mwnCanonLines_ofFlat _

/-- **(c) canonical input yields none**: the canonical text `KEY::"w0 w1 … wn"` of a document of the class reads (lenient
entry point) as the SAME document, with no `multi_word_coalesce` record and no lexer normalisation record. -/
theorem C07_mwnum_canonical_none (env : Env) (name : Str) (sl : List NWLine)
    (hn : isEnvName name = true) (hne : name ≠ "END".toList) (hok : ∀ x ∈ sl, x.OK)
    (hm : mwnFirstNotMeta sl = true)
    (hnfc : ∀ l ∈ splitLines (flatText name (mwnCanonLines sl)), env.nfc l = l) :
    ∃ reps warns, Parser.parseWithWarnings env (flatText name (mwnCanonLines sl)) = .ok (mwnDoc name sl, reps, warns) ∧
      warns.filter isMultiWord = [] ∧ reps.filter isNormalization = [] := by
  have hnfc' : ∀ l ∈ splitLines (mwndocText name (mwnCanon sl)), env.nfc l = l := by
    rw [mwnCanon, mwndocText_ofFlat]; exact hnfc
  obtain ⟨reps, warns, h1, h2, h3⟩ := C07_mwnum_receipts env name (mwnCanon sl) hn hne (mwnCanon_ok sl hok)
    (by rw [mwnCanon_firstNotMeta]; exact hm) hnfc'
  rw [mwnCanon, mwndocText_ofFlat] at h1
  refine ⟨reps, warns, ?_, ?_, h3⟩
  · rw [h1]; simp only [mwnDoc, mwnCanonLines_ofFlat]
  · rw [h2, mwnCanon, mwnReceipts_ofFlat]

/-- … and, with quiet keys, no warning at all. -/
theorem C07_mwnum_canonical_silent (env : Env) (name : Str) (sl : List NWLine)
    (hn : isEnvName name = true) (hne : name ≠ "END".toList) (hok : ∀ x ∈ sl, x.OK)
    (hm : mwnFirstNotMeta sl = true) (hq : mwnQuietKeys sl)
    (hnfc : ∀ l ∈ splitLines (flatText name (mwnCanonLines sl)), env.nfc l = l) :
    ∃ reps, Parser.parseWithWarnings env (flatText name (mwnCanonLines sl)) = .ok (mwnDoc name sl, reps, []) ∧
      reps.filter isNormalization = [] := by
  have hnfc' : ∀ l ∈ splitLines (mwndocText name (mwnCanon sl)), env.nfc l = l := by
    rw [mwnCanon, mwndocText_ofFlat]; exact hnfc
  have h1 := C07_mwnum_receipts_exact env name (mwnCanon sl) hn hne (mwnCanon_ok sl hok)
    (by rw [mwnCanon_firstNotMeta]; exact hm) (mwnCanon_quiet sl hq) hnfc'
  rw [mwnCanon, mwndocText_ofFlat, mwnReceipts_ofFlat] at h1
  refine ⟨_, ?_, mwndocReps_norm (mwnOfFlat (mwnCanonLines sl))⟩
  rw [h1]; simp only [mwnDoc, mwnCanonLines_ofFlat]

/-! ### C03: convergence -/

theorem mwnCanonLines_emitOK (sl : List NWLine) (hok : ∀ x ∈ sl, x.OK) (hem : ∀ x ∈ sl, x.EmitOK) :
    ∀ ln ∈ mwnCanonLines sl, ln.EmitOK := by
  intro ln hl
  obtain ⟨x, hx, rfl⟩ := List.mem_map.mp hl
  exact mwncanon_emitOK x (hok x hx) (hem x hx)

/-- **(d) C03 for multi-word bare values: both canonicalisers map the multi-word spelling to the canonical text**
`KEY::"w0 w1 … wn"` — the strict one (`emit(parse(x))`: the strict reader accepts multi-word values) and the lenient one
(`emit(parse_with_warnings(x)[0])`). -/
theorem C03_mwnum_converge (env : Env) (name : Str) (sl : List NWLine)
    (hn : isEnvName name = true) (hne : name ≠ "END".toList) (hok : ∀ x ∈ sl, x.OK) (hem : ∀ x ∈ sl, x.EmitOK)
    (hm : mwnFirstNotMeta sl = true)
    (hnfc : ∀ l ∈ splitLines (mwndocText name sl), env.nfc l = l) :
    canonStrict env (mwndocText name sl) = .ok (flatText name (mwnCanonLines sl)) ∧
    canonLenient env (mwndocText name sl) = .ok (flatText name (mwnCanonLines sl)) :=
  C03.canon_of_read env _ _ _ _ _ (C07_mwnum_read env name sl hn hne hok hm hnfc)
    (C07_mwnum_read_lenient env name sl hn hne hok hm hnfc)
    (emit_flat env name _ (mwnCanonLines sl) (mwnCanonLines_emitOK sl hok hem))

/-- **any two spacings of the same words (more generally: any two documents of the class with the same canonical lines)
canonicalise to identical bytes**, through both canonicalisers. -/
theorem C03_mwnum_spacings_agree (env : Env) (name : Str) (sl₁ sl₂ : List NWLine)
    (hsame : mwnCanonLines sl₁ = mwnCanonLines sl₂)
    (hn : isEnvName name = true) (hne : name ≠ "END".toList)
    (hok₁ : ∀ x ∈ sl₁, x.OK) (hem₁ : ∀ x ∈ sl₁, x.EmitOK) (hm₁ : mwnFirstNotMeta sl₁ = true)
    (hok₂ : ∀ x ∈ sl₂, x.OK) (hem₂ : ∀ x ∈ sl₂, x.EmitOK) (hm₂ : mwnFirstNotMeta sl₂ = true)
    (hnfc₁ : ∀ l ∈ splitLines (mwndocText name sl₁), env.nfc l = l)
    (hnfc₂ : ∀ l ∈ splitLines (mwndocText name sl₂), env.nfc l = l) :
    canonStrict env (mwndocText name sl₁) = canonStrict env (mwndocText name sl₂) ∧
    canonLenient env (mwndocText name sl₁) = canonLenient env (mwndocText name sl₂) := by
  have h1 := C03_mwnum_converge env name sl₁ hn hne hok₁ hem₁ hm₁ hnfc₁
  have h2 := C03_mwnum_converge env name sl₂ hn hne hok₂ hem₂ hm₂ hnfc₂
  rw [← hsame] at h2
  exact ⟨by rw [h1.1, h2.1], by rw [h1.2, h2.2]⟩

/-- the canonical text is a fixed point of both canonicalisers. -/
theorem C03_mwnum_canonical_fixed (env : Env) (name : Str) (sl : List NWLine)
    (hn : isEnvName name = true) (hne : name ≠ "END".toList) (hok : ∀ x ∈ sl, x.OK) (hem : ∀ x ∈ sl, x.EmitOK)
    (hm : mwnFirstNotMeta sl = true)
    (hnfc : ∀ l ∈ splitLines (flatText name (mwnCanonLines sl)), env.nfc l = l) :
    canonStrict env (flatText name (mwnCanonLines sl)) = .ok (flatText name (mwnCanonLines sl)) ∧
    canonLenient env (flatText name (mwnCanonLines sl)) = .ok (flatText name (mwnCanonLines sl)) := by
  have hnfc' : ∀ l ∈ splitLines (mwndocText name (mwnCanon sl)), env.nfc l = l := by
    rw [mwnCanon, mwndocText_ofFlat]; exact hnfc
  have hem' : ∀ x ∈ mwnCanon sl, x.EmitOK := by
    intro x hx
    simp only [mwnCanon, mwnOfFlat, List.mem_map] at hx
    obtain ⟨ln, hln, rfl⟩ := hx
    exact mwnCanonLines_emitOK sl hok hem ln hln
  have h := C03_mwnum_converge env name (mwnCanon sl) hn hne (mwnCanon_ok sl hok) hem'
    (by rw [mwnCanon_firstNotMeta]; exact hm) hnfc'
  rw [mwnCanonLines_mwCanon, mwnCanon, mwndocText_ofFlat] at h
  exact h


/-! ### non-vacuity -/

/-- `3 blind mice`, a negative number with uneven spacing, a word-headed value (the class of `C07multiword`), a plain
integer, two STRING-headed values (one whose content holds an escaped quote). -/
def mwnEx : List NWLine :=
  [ ⟨"K".toList, .nw ⟨.int 3, [(0, "blind".toList), (0, "mice".toList)]⟩⟩,
    ⟨"L".toList, .nw ⟨.int (-12), [(2, "c.d".toList), (1, "f-g".toList)]⟩⟩,
    ⟨"M".toList, .nw ⟨.word "two".toList, [(0, "words".toList)]⟩⟩,
    ⟨"N".toList, .sc (.int 7)⟩,
    ⟨"S".toList, .nw ⟨.str "a b".toList, [(1, "c".toList), (0, "d".toList)]⟩⟩,
    ⟨"T".toList, .nw ⟨.str "q\"r".toList, [(0, "x".toList)]⟩⟩ ]

def mwnExText : Str := "===D===\nK::3 blind mice\nL::-12   c.d  f-g\nM::two words\nN::7\nS::\"a b\"  c d\nT::\"q\\\"r\" x\n===END===\n".toList
def mwnExCanon : Str :=
  "===D===\nK::\"3 blind mice\"\nL::\"-12 c.d f-g\"\nM::\"two words\"\nN::7\nS::\"\\\"a b\\\" c d\"\nT::\"\\\"q\\\"r\\\" x\"\n===END===\n".toList

theorem mwnEx_ok : ∀ x ∈ mwnEx, x.OK := by
  intro x h
  simp only [mwnEx, List.mem_cons, List.mem_nil_iff, or_false] at h
  rcases h with rfl | rfl | rfl | rfl | rfl | rfl
  · exact ⟨by decide, by decide, by decide, by decide, by decide⟩
  · exact ⟨by decide, by decide, by decide, by decide, by decide⟩
  · exact ⟨by decide, by decide, by decide, by decide, by decide⟩
  · exact ⟨by decide, by decide, by unfold NVal.OK FScalar.OK; decide⟩
  · exact ⟨by decide, by decide, trivial, by decide, by decide⟩
  · exact ⟨by decide, by decide, trivial, by decide, by decide⟩

theorem mwnEx_emit : ∀ x ∈ mwnEx, x.EmitOK := by
  intro x h
  simp only [mwnEx, List.mem_cons, List.mem_nil_iff, or_false] at h
  rcases h with rfl | rfl | rfl | rfl | rfl | rfl
  · trivial
  · trivial
  · trivial
  · unfold NWLine.EmitOK FLine.EmitOK; decide
  · trivial
  · trivial

example : mwndocText "D".toList mwnEx = mwnExText := by decide +kernel
example : flatText "D".toList (mwnCanonLines mwnEx) = mwnExCanon := by decide +kernel
example : mwnQuietKeys mwnEx := by decide

/-- (a) the lexer, by the theorem; the tokens as literals: a NUMBER token for the head, one IDENTIFIER per word. -/
example : tokenize Env.ascii mwnExText false = .ok (mwndocToks "D".toList mwnEx, mwndocReps mwnEx) := by
  have h := C07_mwnum_lexes Env.ascii false "D".toList mwnEx (by decide) (by decide) mwnEx_ok (fun _ _ => rfl)
  have e : mwndocText "D".toList mwnEx = mwnExText := by decide +kernel
  rw [e] at h; exact h
example : mwndocToks "D".toList mwnEx =
    [ tEnvStart "D".toList 1 1, tNewline 1 8,
      tIdent "K".toList 2 1, tAssign 2 2, tInt 3 2 4, tIdent "blind".toList 2 6, tIdent "mice".toList 2 12, tNewline 2 16,
      tIdent "L".toList 3 1, tAssign 3 2, tInt (-12) 3 4, tIdent "c.d".toList 3 10, tIdent "f-g".toList 3 15, tNewline 3 18,
      tIdent "M".toList 4 1, tAssign 4 2, tIdent "two".toList 4 4, tIdent "words".toList 4 8, tNewline 4 13,
      tIdent "N".toList 5 1, tAssign 5 2, tInt 7 5 4, tNewline 5 5,
      tIdent "S".toList 6 1, tAssign 6 2, tString "a b".toList 6 4, tIdent "c".toList 6 11, tIdent "d".toList 6 13, tNewline 6 14,
      tIdent "T".toList 7 1, tAssign 7 2, tString "q\"r".toList 7 4, tIdent "x".toList 7 11, tNewline 7 12,
      tEnvEnd 8 1, tNewline 8 10, tEof 9 1 ] := by decide +kernel

/-- (b) the receipts owed, as literals: one per multi-word line, at the head; context `number_identifier` for a NUMBER
head, `string_multiword` for a STRING head (whose part is `"` + content + `"`), none for a word head; the parts joined by
ONE space. -/
example : mwnReceipts 2 mwnEx =
    [ .multiWord ["3".toList, "blind".toList, "mice".toList] "3 blind mice".toList "number_identifier".toList 2 4,
      .multiWord ["-12".toList, "c.d".toList, "f-g".toList] "-12 c.d f-g".toList "number_identifier".toList 3 4,
      .multiWord ["two".toList, "words".toList] "two words".toList [] 4 4,
      .multiWord ["\"a b\"".toList, "c".toList, "d".toList] "\"a b\" c d".toList "string_multiword".toList 6 4,
      .multiWord ["\"q\"r\"".toList, "x".toList] "\"q\"r\" x".toList "string_multiword".toList 7 4 ] := by decide +kernel
example : (mwnReceipts 2 mwnEx).length = 5 := by rw [mwnReceipts_length]; rfl

/-- the theorems applied (not evaluated). -/
example : Parser.parseWithWarnings Env.ascii mwnExText = .ok (mwnDoc "D".toList mwnEx, mwndocReps mwnEx, mwnReceipts 2 mwnEx) := by
  have h := C07_mwnum_receipts_exact Env.ascii "D".toList mwnEx (by decide) (by decide) mwnEx_ok (by decide) (by decide) (fun _ _ => rfl)
  have e : mwndocText "D".toList mwnEx = mwnExText := by decide +kernel
  rw [e] at h; exact h

example : ∃ reps warns, Parser.parseWithWarnings Env.ascii (mwndocText "D".toList mwnEx) = .ok (mwnDoc "D".toList mwnEx, reps, warns) ∧
    warns.filter isMultiWord = mwnReceipts 2 mwnEx ∧ reps.filter isNormalization = [] :=
  C07_mwnum_receipts Env.ascii "D".toList mwnEx (by decide) (by decide) mwnEx_ok (by decide) (fun _ _ => rfl)

example : Parser.parse Env.ascii (mwndocText "D".toList mwnEx) = .ok (mwnDoc "D".toList mwnEx) :=
  C07_mwnum_read Env.ascii "D".toList mwnEx (by decide) (by decide) mwnEx_ok (by decide) (fun _ _ => rfl)

example : Parser.parseWithWarnings Env.ascii (mwndocText "D".toList mwnEx)
    = .ok (mwnDoc "D".toList mwnEx, mwndocReps mwnEx, mwnWarns [] (toNQLines 2 mwnEx)) :=
  C07_mwnum_read_lenient Env.ascii "D".toList mwnEx (by decide) (by decide) mwnEx_ok (by decide) (fun _ _ => rfl)

example : ∃ reps, Parser.parseWithWarnings Env.ascii (flatText "D".toList (mwnCanonLines mwnEx)) = .ok (mwnDoc "D".toList mwnEx, reps, []) ∧
    reps.filter isNormalization = [] :=
  C07_mwnum_canonical_silent Env.ascii "D".toList mwnEx (by decide) (by decide) mwnEx_ok (by decide) (by decide) (fun _ _ => rfl)

example : ∃ reps warns, Parser.parseWithWarnings Env.ascii (flatText "D".toList (mwnCanonLines mwnEx)) = .ok (mwnDoc "D".toList mwnEx, reps, warns) ∧
    warns.filter isMultiWord = [] ∧ reps.filter isNormalization = [] :=
  C07_mwnum_canonical_none Env.ascii "D".toList mwnEx (by decide) (by decide) mwnEx_ok (by decide) (fun _ _ => rfl)

example : canonStrict Env.ascii mwnExText = .ok mwnExCanon ∧ canonLenient Env.ascii mwnExText = .ok mwnExCanon := by
  have h := C03_mwnum_converge Env.ascii "D".toList mwnEx (by decide) (by decide) mwnEx_ok mwnEx_emit (by decide) (fun _ _ => rfl)
  have e1 : mwndocText "D".toList mwnEx = mwnExText := by decide +kernel
  have e2 : flatText "D".toList (mwnCanonLines mwnEx) = mwnExCanon := by decide +kernel
  rw [e1, e2] at h; exact h

example : canonStrict Env.ascii (flatText "D".toList (mwnCanonLines mwnEx)) = .ok (flatText "D".toList (mwnCanonLines mwnEx)) ∧
    canonLenient Env.ascii (flatText "D".toList (mwnCanonLines mwnEx)) = .ok (flatText "D".toList (mwnCanonLines mwnEx)) :=
  C03_mwnum_canonical_fixed Env.ascii "D".toList mwnEx (by decide) (by decide) mwnEx_ok mwnEx_emit (by decide) (fun _ _ => rfl)

example : canonStrict Env.ascii (mwndocText "D".toList mwnEx) = canonStrict Env.ascii (mwndocText "D".toList mwnEx) ∧
    canonLenient Env.ascii (mwndocText "D".toList mwnEx) = canonLenient Env.ascii (mwndocText "D".toList mwnEx) :=
  C03_mwnum_spacings_agree Env.ascii "D".toList mwnEx mwnEx rfl (by decide) (by decide) mwnEx_ok mwnEx_emit (by decide)
    mwnEx_ok mwnEx_emit (by decide) (fun _ _ => rfl) (fun _ _ => rfl)

/-- all spacings symbolic: `K::3 blind mice` with ANY positive number of spaces in either gap canonicalises to
`K::"3 blind mice"`. -/
example (g1 g2 : Nat) :
    canonLenient Env.ascii (mwndocText "D".toList [⟨"K".toList, .nw ⟨.int 3, [(g1, "blind".toList), (g2, "mice".toList)]⟩⟩])
      = .ok "===D===\nK::\"3 blind mice\"\n===END===\n".toList :=
  (C03_mwnum_converge Env.ascii "D".toList _ (by decide) (by decide)
    (by
      intro x hx; simp only [List.mem_singleton] at hx; subst hx
      refine ⟨(by decide : isIdentifierText "K".toList = true), (by decide : hasReservedPrefix "K".toList = false),
        (by decide : (NHead.int 3).OK), ?_, by simp⟩
      intro p hp
      simp only [List.mem_cons, List.mem_nil_iff, or_false] at hp
      rcases hp with rfl | rfl
      · exact (by decide : wordOK "blind".toList)
      · exact (by decide : wordOK "mice".toList))
    (by intro x hx; simp only [List.mem_singleton] at hx; subst hx; trivial)
    rfl (fun _ _ => rfl)).2

/-- … and its receipt, whatever the spacing: the parts, `3 blind mice`, `number_identifier`, line 2, column 4. -/
example (g1 g2 : Nat) :
    mwnReceipts 2 [⟨"K".toList, .nw ⟨.int 3, [(g1, "blind".toList), (g2, "mice".toList)]⟩⟩]
      = [.multiWord ["3".toList, "blind".toList, "mice".toList] "3 blind mice".toList "number_identifier".toList 2 4] := rfl

/-- string content and spacing symbolic: `K::"s" c d` with ANY content `s` and ANY positive spacing reads (strict entry
point) as the document whose value is the string `"` ++ s ++ `" c d`. -/
example (sv : Str) (g1 g2 : Nat) :
    Parser.parse Env.ascii (mwndocText "D".toList [⟨"K".toList, .nw ⟨.str sv, [(g1, "c".toList), (g2, "d".toList)]⟩⟩])
      = .ok (flatDoc "D".toList (fun i => (i + 2, 1)) [⟨"K".toList, .qstr ('"' :: sv ++ "\" c d".toList)⟩]) := by
  have h := C07_mwnum_read Env.ascii "D".toList [⟨"K".toList, .nw ⟨.str sv, [(g1, "c".toList), (g2, "d".toList)]⟩⟩]
    (by decide) (by decide)
    (by
      intro x hx; simp only [List.mem_singleton] at hx; subst hx
      refine ⟨(by decide : isIdentifierText "K".toList = true), (by decide : hasReservedPrefix "K".toList = false),
        trivial, ?_, by simp⟩
      intro p hp
      simp only [List.mem_cons, List.mem_nil_iff, or_false] at hp
      rcases hp with rfl | rfl
      · exact (by decide : wordOK "c".toList)
      · exact (by decide : wordOK "d".toList))
    rfl (fun _ _ => rfl)
  rw [h]
  simp [mwnDoc, mwnCanonLines, NWLine.canon, NVal.canon, NWords.result, NWords.words, NHead.part, spaceJoin, joinWith]

/-- … and its receipt, whatever the spacing and the content. -/
example (sv : Str) (g1 g2 : Nat) :
    mwnReceipts 2 [⟨"K".toList, .nw ⟨.str sv, [(g1, "c".toList), (g2, "d".toList)]⟩⟩]
      = [.multiWord [('"' :: sv ++ ['"']), "c".toList, "d".toList] (spaceJoin [('"' :: sv ++ ['"']), "c".toList, "d".toList])
          "string_multiword".toList 2 4] := rfl

/-! ### the whole model evaluated on the concrete texts (independent of the theorems) -/

example : (match Parser.parseWithWarnings Env.ascii mwnExText with
    | .ok (d, reps, ws) => docEqB d (mwnDoc "D".toList mwnEx) && reps == [] && ws == mwnReceipts 2 mwnEx
    | .error _ => false) = true := by decide +kernel
example : (match Parser.parseWithWarnings Env.ascii mwnExCanon with
    | .ok (d, reps, ws) => docEqB d (mwnDoc "D".toList mwnEx) && reps == [] && ws == []
    | .error _ => false) = true := by decide +kernel
example : isOkDoc (Parser.parse Env.ascii mwnExText) (mwnDoc "D".toList mwnEx) = true := by decide +kernel
example : isOkStr (canonLenient Env.ascii mwnExText) mwnExCanon = true := by decide +kernel
example : isOkStr (canonStrict Env.ascii mwnExText) mwnExCanon = true := by decide +kernel
example : isOkStr (canonLenient Env.ascii mwnExCanon) mwnExCanon = true := by decide +kernel
example : (match tokenize Env.ascii mwnExText with
    | .ok p => p == (mwndocToks "D".toList mwnEx, mwndocReps mwnEx) | .error _ => false) = true := by decide +kernel

/-! ### C07 finding: an ADJACENT bracket group behind a NUMBER-headed multi-word value is discarded without receipt -/

local macro "step_simp" "[" ts:Lean.Parser.Tactic.simpLemma,* "]" : tactic =>
  `(tactic| simp only [bind, StateT.bind, Except.bind, pure, StateT.pure, Except.pure, current_mk, peek_mk, advance_mk,
      curType_mk, isAdjacentBracket_mk, budget_mk, warn_mk, get, getThe, MonadStateOf.get, StateT.get,
      Bool.false_eq_true, if_false, if_true, Bool.false_and, Bool.and_false, Bool.or_false, Bool.false_or,
      List.length_cons, List.length_nil, beq_iff_eq, bne_iff_ne, ne_eq, reduceCtorEq, not_true_eq_false, not_false_eq_true,
      Bool.and_eq_true, Bool.or_eq_true, Bool.not_eq_true', beq_eq_false_iff_ne, false_and, and_false, true_and, and_true,
      false_or, or_false, true_or, or_true, decide_eq_true_eq,
      beq_self_eq_true, Bool.true_or, Bool.or_true, Bool.true_and, Bool.and_true, Bool.not_true, Bool.not_false, $ts,*])

/-- **`K::3 mice[y]` — the bracket group is consumed and DISCARDED, and no record says so.**  For EVERY integer `i`,
every word `x`, every bracket content word `y`, all positions (the `[` right behind `x`: same line, column
`c1 + |x|`), every parser state: `parse_value` on `NUMBER(i) IDENT(x) [ IDENT(y) ]` returns the string `"i x"` — `y`
occurs nowhere in it — the cursor has moved past the `]` (5 tokens consumed), and the ONLY record pushed is the
`multi_word_coalesce` receipt, whose `original` is `[i, x]` and whose `result` is `"i x"`: nothing mentions `[y]`.
(`_consume_bracket_annotation(capture=False)` in the `number_identifier` context; the same code sits in the STRING /
BOOLEAN / NULL / VERSION contexts.  Behind a WORD-headed value the same bracket becomes `x<y>`; behind a space, ` [y]`.) -/
theorem C07_mwnum_adjacent_bracket_silent (i : Int) (x y : Str) (l c c1 ly cy : Nat) (lb rb next : Token) (k : List Token)
    (hlb : lb.type = .listStart) (hl : lb.line = l) (hc : lb.col = c1 + x.length) (hrb : rb.type = .listEnd)
    (p : Option Token) (n : Nat) (la : Token) (w : List Warning) (d : Nat) (wd : List Nat) (s : Bool) (th : Nat) (al : Char → Bool) :
    parseValue 3
        { rest := tInt i l c :: tIdent x l c1 :: lb :: tIdent y ly cy :: rb :: next :: k, prev := p, pos := n, last := la, warnings := w, depth := d, warned := wd, strict := s, threshold := th, alpha := al }
      = .ok (.str (spaceJoin [intStr i, x]),
             { rest := next :: k, prev := some rb, pos := n + 5, last := la,
               warnings := .multiWord [intStr i, x] (spaceJoin [intStr i, x]) "number_identifier".toList l c :: w, depth := d,
               warned := wd, strict := s, threshold := th, alpha := al }) := by
  have ht1 : (tInt i l c).type = TT.number := rfl
  have ht2 : (tIdent x l c1).type = TT.identifier := rfl
  have ht3 : (tIdent y ly cy).type = TT.identifier := rfl
  have hv2 : isValueTok TT.identifier = true := rfl
  have hvl : isValueTok TT.listStart = false := rfl
  have hpl : prevLen (tIdent x l c1) = x.length := rfl
  have hli : (tIdent x l c1).line = l := rfl
  have hci : (tIdent x l c1).col = c1 := rfl
  rw [parseValue]
  step_simp [ht1, ht2, hv2, tokStr_tInt]
  rw [numberWords_ident (hu1 := by rw [hlb]; rfl), numberWords]
  step_simp [hlb, hvl, trailingBracket, hpl, hli, hci, hl, hc, consumeBracketAnnotation]
  rw [bracketLoop]
  step_simp [ht3]
  rw [bracketLoop]
  step_simp [hrb]
  rw [bracketLoop]
  step_simp []
  rfl

/-- **`K::"s" mice[y]` — the same silent discard in the `string_multiword` context**, for every string content, word,
bracket content word, all positions (the `[` right behind `x`), every parser state. -/
theorem C07_mwstr_adjacent_bracket_silent (sv x y : Str) (l c c1 ly cy : Nat) (lb rb next : Token) (k : List Token)
    (hlb : lb.type = .listStart) (hl : lb.line = l) (hc : lb.col = c1 + x.length) (hrb : rb.type = .listEnd)
    (p : Option Token) (n : Nat) (la : Token) (w : List Warning) (d : Nat) (wd : List Nat) (s : Bool) (th : Nat) (al : Char → Bool) :
    parseValue 1
        { rest := tString sv l c :: tIdent x l c1 :: lb :: tIdent y ly cy :: rb :: next :: k, prev := p, pos := n, last := la, warnings := w, depth := d, warned := wd, strict := s, threshold := th, alpha := al }
      = .ok (.str (spaceJoin [('"' :: sv ++ ['"']), x]),
             { rest := next :: k, prev := some rb, pos := n + 5, last := la,
               warnings := .multiWord [('"' :: sv ++ ['"']), x] (spaceJoin [('"' :: sv ++ ['"']), x]) "string_multiword".toList l c :: w, depth := d,
               warned := wd, strict := s, threshold := th, alpha := al }) := by
  have ht1 : (tString sv l c).type = TT.string := rfl
  have ht2 : (tIdent x l c1).type = TT.identifier := rfl
  have ht3 : (tIdent y ly cy).type = TT.identifier := rfl
  have hv2 : isValueTok TT.identifier = true := rfl
  have hvl : isValueTok TT.listStart = false := rfl
  have hpl : prevLen (tIdent x l c1) = x.length := rfl
  have hli : (tIdent x l c1).line = l := rfl
  have hci : (tIdent x l c1).col = c1 := rfl
  have hls : (tString sv l c).line = l := rfl
  have hcs : (tString sv l c).col = c := rfl
  rw [parseValue]
  step_simp [ht1, ht2, hv2, multiWordSimple, tokStr_tString]
  rw [takeValueToks]
  step_simp [ht2, hv2, tokStr_tIdent]
  rw [takeValueToks]
  step_simp [hlb, hvl, trailingBracket, hpl, hli, hci, hl, hc, hls, hcs, consumeBracketAnnotation]
  rw [bracketLoop]
  step_simp [ht3]
  rw [bracketLoop]
  step_simp [hrb]
  rw [bracketLoop]
  step_simp []
  rfl

/-- the warnings of `parse_with_warnings` on a text (model), `[]` on error. -/
def mwnWarnsOf (t : String) : List Warning :=
  match Parser.parseWithWarnings Env.ascii t.toList with | .ok (_, _, ws) => ws | .error _ => []

/-- non-vacuity of the finding, through the WHOLE model on the concrete witness `K::3 mice[x]`: the document is
`K::"3 mice"`, the only warning is the coalescing receipt of `3` and `mice`. -/
example : isOkStr (canonLenient Env.ascii "===D===\nK::3 mice[x]\n===END===\n".toList) "===D===\nK::\"3 mice\"\n===END===\n".toList = true := by
  decide +kernel
example : mwnWarnsOf "===D===\nK::3 mice[x]\n===END===\n"
    = [.multiWord ["3".toList, "mice".toList] "3 mice".toList "number_identifier".toList 2 4] := by decide +kernel
/-- the theorem instantiated on the tokens of that witness. -/
example (k : List Token) (p : Option Token) (n : Nat) (la : Token) (w : List Warning) (d : Nat) (wd : List Nat) (s : Bool) (th : Nat) (al : Char → Bool) :
    parseValue 3
        { rest := tInt 3 2 4 :: tIdent "mice".toList 2 6 :: { type := .listStart, value := .str "[".toList, line := 2, col := 10 } ::
            tIdent "x".toList 2 11 :: { type := .listEnd, value := .str "]".toList, line := 2, col := 12 } :: tNewline 2 13 :: k,
          prev := p, pos := n, last := la, warnings := w, depth := d, warned := wd, strict := s, threshold := th, alpha := al }
      = .ok (.str "3 mice".toList,
             { rest := tNewline 2 13 :: k, prev := some { type := .listEnd, value := .str "]".toList, line := 2, col := 12 }, pos := n + 5, last := la,
               warnings := .multiWord ["3".toList, "mice".toList] "3 mice".toList "number_identifier".toList 2 4 :: w, depth := d,
               warned := wd, strict := s, threshold := th, alpha := al }) :=
  C07_mwnum_adjacent_bracket_silent 3 "mice".toList "x".toList 2 4 6 2 11 _ _ (tNewline 2 13) k rfl rfl rfl rfl p n la w d wd s th al
/-- the STRING-context theorem instantiated on the tokens of `K::"s" mice[x]`. -/
example (k : List Token) (p : Option Token) (n : Nat) (la : Token) (w : List Warning) (d : Nat) (wd : List Nat) (s : Bool) (th : Nat) (al : Char → Bool) :
    parseValue 1
        { rest := tString "s".toList 2 4 :: tIdent "mice".toList 2 8 :: { type := .listStart, value := .str "[".toList, line := 2, col := 12 } ::
            tIdent "x".toList 2 13 :: { type := .listEnd, value := .str "]".toList, line := 2, col := 14 } :: tNewline 2 15 :: k,
          prev := p, pos := n, last := la, warnings := w, depth := d, warned := wd, strict := s, threshold := th, alpha := al }
      = .ok (.str "\"s\" mice".toList,
             { rest := tNewline 2 15 :: k, prev := some { type := .listEnd, value := .str "]".toList, line := 2, col := 14 }, pos := n + 5, last := la,
               warnings := .multiWord ["\"s\"".toList, "mice".toList] "\"s\" mice".toList "string_multiword".toList 2 4 :: w, depth := d,
               warned := wd, strict := s, threshold := th, alpha := al }) :=
  C07_mwstr_adjacent_bracket_silent "s".toList "mice".toList "x".toList 2 4 8 2 13 _ _ (tNewline 2 15) k rfl rfl rfl rfl p n la w d wd s th al
/-- the contrast: behind a space the bracket is KEPT (` [x]`); behind a word-headed value it is kept as an annotation. -/
example : isOkStr (canonLenient Env.ascii "===D===\nK::3 mice [x]\n===END===\n".toList) "===D===\nK::\"3 mice [x]\"\n===END===\n".toList = true := by
  decide +kernel
example : isOkStr (canonLenient Env.ascii "===D===\nK::two mice[x]\n===END===\n".toList) "===D===\nK::\"two mice<x>\"\n===END===\n".toList = true := by
  decide +kernel
/-- the same silent drop in the STRING / BOOLEAN / VERSION contexts. -/
example : mwnWarnsOf "===D===\nK::true mice[x]\n===END===\n"
    = [.multiWord ["true".toList, "mice".toList] "true mice".toList "boolean_multiword".toList 2 4] := by decide +kernel
example : mwnWarnsOf "===D===\nK::\"s\" mice[x]\n===END===\n"
    = [.multiWord ["\"s\"".toList, "mice".toList] "\"s\" mice".toList "string_multiword".toList 2 4] := by decide +kernel
example : mwnWarnsOf "===D===\nK::1.2.3 mice[x]\n===END===\n"
    = [.multiWord ["1.2.3".toList, "mice".toList] "1.2.3 mice".toList "version_multiword".toList 2 4] := by decide +kernel

/-! ### the hypotheses are necessary: the model at the excluded points (the real reader does the same, see the report) -/

/-- a non-canonical NUMBER lexeme as head (leading zeros, exponent, trailing zero): same rewrite, the RAW lexeme is kept. -/
example : mwnWarnsOf "===D===\nK::007 a\n===END===\n" = [.multiWord ["007".toList, "a".toList] "007 a".toList "number_identifier".toList 2 4] := by
  decide +kernel
example : mwnWarnsOf "===D===\nK::1e3 a\n===END===\n" = [.multiWord ["1e3".toList, "a".toList] "1e3 a".toList "number_identifier".toList 2 4] := by
  decide +kernel
example : isOkStr (canonLenient Env.ascii "===D===\nK::1.50 a\n===END===\n".toList) "===D===\nK::\"1.50 a\"\n===END===\n".toList = true := by
  decide +kernel
/-- `+3` is NOT a number head: `+` is the synthesis operator; the value is `⊕`, the `a` is dropped WITH a receipt
(`bare_line_dropped`) and the `3` is dropped WITHOUT any (a second silent loss, outside this class). -/
example : isOkStr (canonLenient Env.ascii "===D===\nK::+3 a\n===END===\n".toList) "===D===\nK::\"⊕\"\n===END===\n".toList = true := by
  decide +kernel
example : mwnWarnsOf "===D===\nK::+3 a\n===END===\n" = [.bareLineDropped "a".toList 2 7] := by decide +kernel
/-- a reserved word or a number among the FURTHER words (`wordOK` fails): still coalesced, one receipt. -/
example : mwnWarnsOf "===D===\nK::3 true\n===END===\n" = [.multiWord ["3".toList, "true".toList] "3 true".toList "number_identifier".toList 2 4] := by
  decide +kernel
example : mwnWarnsOf "===D===\nK::3 4 a\n===END===\n"
    = [.multiWord ["3".toList, "4".toList, "a".toList] "3 4 a".toList "number_identifier".toList 2 4] := by decide +kernel
/-- an operator behind the words: context `number_identifier_expression`, the receipt covers `3 a` only, the value is `3 a→b`. -/
example : mwnWarnsOf "===D===\nK::3 a->b\n===END===\n"
    = [.multiWord ["3".toList, "a".toList] "3 a".toList "number_identifier_expression".toList 2 4] := by decide +kernel
example : isOkStr (canonLenient Env.ascii "===D===\nK::3 a->b\n===END===\n".toList) "===D===\nK::\"3 a→b\"\n===END===\n".toList = true := by
  decide +kernel
/-- a word with an `<annotation>` behind a NUMBER head is just another part (no list, unlike the word-headed case). -/
example : mwnWarnsOf "===D===\nK::3 blind<x> mice\n===END===\n"
    = [.multiWord ["3".toList, "blind<x>".toList, "mice".toList] "3 blind<x> mice".toList "number_identifier".toList 2 4] := by decide +kernel
/-- the sibling heads: STRING (the part keeps its QUOTES: the value is `"a b" c d`, quotes included), BOOLEAN, NULL, VERSION. -/
example : mwnWarnsOf "===D===\nK::\"a b\" c d\n===END===\n"
    = [.multiWord ["\"a b\"".toList, "c".toList, "d".toList] "\"a b\" c d".toList "string_multiword".toList 2 4] := by decide +kernel
example : isOkStr (canonLenient Env.ascii "===D===\nK::\"a b\" c d\n===END===\n".toList) "===D===\nK::\"\\\"a b\\\" c d\"\n===END===\n".toList = true := by
  decide +kernel
example : mwnWarnsOf "===D===\nK::null words\n===END===\n"
    = [.multiWord ["null".toList, "words".toList] "null words".toList "null_multiword".toList 2 4] := by decide +kernel
example : mwnWarnsOf "===D===\nK::1.2.3 words\n===END===\n"
    = [.multiWord ["1.2.3".toList, "words".toList] "1.2.3 words".toList "version_multiword".toList 2 4] := by decide +kernel
/-- a trailing comment is harmless (outside the class). -/
example : isOkStr (canonLenient Env.ascii "===D===\nK::3 a // c\n===END===\n".toList) "===D===\nK::\"3 a\" // c\n===END===\n".toList = true := by
  decide +kernel
/-- first key `META`: rejected with E001 at the `::`. -/
example : (match canonLenient Env.ascii "===D===\nMETA::3 a\n===END===\n".toList with
    | .error e => e == .parser "E001".toList 2 5 | .ok _ => false) = true := by decide +kernel

end Octave.C07
