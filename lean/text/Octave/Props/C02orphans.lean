/-
C01 / C02 — documents with nested blocks and comments INCLUDING ORPHAN COMMENTS: PARSER half (extension of
`Props/C02comments.lean`).

An orphan comment is a comment line at the children's indentation after the last child of a block:

    A:
      X::1
      // orphan          ← `INDENT(2) COMMENT NEWLINE`, then a line that is not deeper than `A`
    Z::3

The parser keeps it as a `Comment` child of the block (`Node.comment`, behind the other children), the emitter writes a
`Comment` child at the children's indentation; a block whose only children are orphans is written `KEY:` + comment lines.
Content model `ONode` (`Lemmas/CommentOrphans.lean`): `line key scalar lead trail` | `block key children orph lead`; tokens as in
`C02comments` plus, behind a block's children, its orphan lines `INDENT(2·(d+1)) COMMENT NEWLINE`.  With `lead`, `trail`, `orph`
and the document's trailing comments the model covers every comment the parser can produce on documents made of
`KEY::scalar` lines and `KEY:` blocks (it creates `Comment` nodes only at the end of a block, never between two children and
never at top level, where leftover comments go to `Document.trailingComments`).

Results (every forest, every number of comments, all positions): `C02_oblock_read`, `C02_oblock_children`,
`C02_otree_document_read` / `…_warnings` / `…_canon`, `C02_otree_text_read`: `parse` returns exactly `oTreeDoc`.
Hypotheses: `metaFirstO` and `colsOkList` exactly as in `C02comments` — where a block with orphans only counts as NON-empty
(`block_indent < 2·(d+1)`: its orphan lines are the indented lines that make the parser enter the child loop).

The real reader: `A:\n  X::1\n  // orphan\nZ::3` → `A = [X, Comment('orphan')]`; `A:\n  // only\nZ::1` → `A = [Comment('only')]`;
`A:\n  B:\n    X::1\n    // ob\n  // oa\n// lz\nZ::1` → `B = [X, Comment ob]`, `A = [B, Comment oa]`, `Z.lead = ['lz']`; each
re-emitted byte for byte.
-/
import Octave.Lemmas.CommentOrphans
import Octave.Props.C02flat
namespace Octave.C02
open Octave Parser FlatParse CommentParse CommentOrphans

/-- **`parse_section` on a block with comments and orphans**: the Block node with exactly the children followed by the
orphans as `Comment` nodes, every comment at its node; cursor at the context; warnings grown by exactly `ONode.warns`. -/
theorem C02_oblock_read (pos : Nat → CPos) (key : Str) (cs : List ONode) (orph lead : List Str) (d j : Nat) (st : PState)
    (fl : List Token) (F : Nat) (hr : st.rest = (ONode.block key cs orph lead).core pos d j ++ fl) (hs : stopsL (2 * d + 1) fl = true)
    (hc : (ONode.block key cs orph lead).colsOk pos d j = true) (hF : ((ONode.block key cs orph lead).core pos d j).length ≤ F) :
    ∃ p' : Option Token, parseSection F lead st = .ok (some ((ONode.block key cs orph lead).node pos j),
      { st with rest := fl, prev := p',
                pos := st.pos + ((ONode.block key cs orph lead).core pos d j).length,
                warnings := ((ONode.block key cs orph lead).warns pos j).reverse ++ st.warnings }) :=
  parseSection_oblock pos key cs orph lead d j st fl F hr hs hc hF

/-- **the child loop of a block**: children with comments at depth `d + 1`, then the orphan lines. -/
theorem C02_oblock_children (pos : Nat → CPos) (cs : List ONode) (orph : List Str) (d i : Nat) (st : PState) (fl : List Token)
    (acc : List Node) (kp : KeyPos) (F : Nat)
    (hr : st.rest = CommentOrphans.toksList pos cs (d + 1) i ++ (leadToks pos (d + 1) orph (i + CommentOrphans.linesList cs) ++ fl))
    (hs : stopsL (2 * (d + 1)) fl = true)
    (hc : CommentOrphans.colsOkList pos cs (d + 1) i = true)
    (hF : (CommentOrphans.toksList pos cs (d + 1) i).length + 3 * orph.length + 1 ≤ F) :
    ∃ p' : Option Token, blockLoop F (2 * (d + 1)) 0 [] acc kp st
      = .ok (acc ++ (CommentOrphans.nodeList pos cs i ++ orph.map Node.comment),
      { st with rest := fl, prev := p',
                pos := st.pos + ((CommentOrphans.toksList pos cs (d + 1) i).length + 3 * orph.length),
                warnings := (CommentOrphans.warnsList pos cs kp i).reverse ++ st.warnings }) :=
  blockLoop_oforest pos cs orph d i st fl acc kp F hr hs hc hF

/-- **The parser on a token list with comments and orphans** (any mode): the document, and the final parser state. -/
theorem C02_otree_parseDocument (env : Env) (strict : Bool) (f : Frame) (name : Str) (pos : Nat → CPos) (nodes : List ONode)
    (trailing : List Str) (hm : metaFirstO nodes = false) (hc : CommentOrphans.colsOkList pos nodes 0 0 = true) :
    parseDocument.run (initState env (oTreeToks f name pos nodes trailing) strict)
      = .ok (oTreeDoc name pos nodes trailing,
             { initState env (oTreeToks f name pos nodes trailing) strict with
                 rest := [f.nl1Tok, f.eofTok], prev := some f.endTok,
                 pos := (CommentOrphans.toksList pos nodes 0 0).length + 2 * trailing.length + 3,
                 warnings := (CommentOrphans.warnsList pos nodes [] 0).reverse }) := by
  have h := parseDocument_otree f name pos nodes trailing (initState env (oTreeToks f name pos nodes trailing) strict) hm hc rfl
  simp only [StateT.run]
  rw [h]
  simp only [initState, List.append_nil, Nat.zero_add]

/-- **C02 with orphan comments, strict entry point** (`parse`): exactly `oTreeDoc`. -/
theorem C02_otree_document_read (env : Env) (f : Frame) (name : Str) (pos : Nat → CPos) (nodes : List ONode) (trailing : List Str)
    (hm : metaFirstO nodes = false) (hc : CommentOrphans.colsOkList pos nodes 0 0 = true) :
    parseToks env (oTreeToks f name pos nodes trailing) = .ok (oTreeDoc name pos nodes trailing) := by
  unfold parseToks
  rw [C02_otree_parseDocument env true f name pos nodes trailing hm hc]
  rfl

/-- … with the columns the lexer produces. -/
theorem C02_otree_document_read_canon (env : Env) (f : Frame) (name : Str) (pos : Nat → CPos) (nodes : List ONode) (trailing : List Str)
    (hm : metaFirstO nodes = false) (hc : CommentOrphans.canonColsList pos nodes 0 0 = true) :
    parseToks env (oTreeToks f name pos nodes trailing) = .ok (oTreeDoc name pos nodes trailing) :=
  C02_otree_document_read env f name pos nodes trailing hm (CommentOrphans.colsOkList_of_canon pos nodes 0 0 hc)

/-- **… lenient entry point** (`parse_with_warnings`): the same document and exactly the warnings `warnsList`. -/
theorem C02_otree_document_read_warnings (env : Env) (f : Frame) (name : Str) (pos : Nat → CPos) (nodes : List ONode)
    (trailing : List Str) (hm : metaFirstO nodes = false) (hc : CommentOrphans.colsOkList pos nodes 0 0 = true) :
    parseToksWithWarnings env (oTreeToks f name pos nodes trailing)
      = .ok (oTreeDoc name pos nodes trailing, CommentOrphans.warnsList pos nodes [] 0) := by
  unfold parseToksWithWarnings
  rw [C02_otree_parseDocument env false f name pos nodes trailing hm hc]
  simp only [bind, Except.bind, pure, Except.pure, List.reverse_reverse]

/-- text level, given the lexer half. -/
theorem C02_otree_text_read (env : Env) (content : Str) (f : Frame) (name : Str) (pos : Nat → CPos) (nodes : List ONode)
    (trailing : List Str) (reps : List Repair)
    (ht : Lexer.tokenize env (stripFrontmatter env content).1 = .ok (oTreeToks f name pos nodes trailing, reps))
    (hm : metaFirstO nodes = false) (hc : CommentOrphans.colsOkList pos nodes 0 0 = true) :
    Parser.parse env content
      = .ok { oTreeDoc name pos nodes trailing with rawFrontmatter := (stripFrontmatter env content).2 } := by
  rw [parse_eq_parseToks env content _ reps ht, C02_otree_document_read env f name pos nodes trailing hm hc]
  rfl

/-! ### non-vacuity -/

/-- orphans at two levels (two lines, one line), a block with an orphan only, then a commented top-level line and a
document-trailing comment. -/
def oExText : Str :=
  "===D===\nA:\n  // la\n  B:\n    X::1 // tx\n    // ob1\n    // ob2\n  // oa\nE:\n  // only\n// lz\nZ::true\n// dt\n===END===\n".toList
def oExFrame : Frame := { envL := 1, envC := 1, nl0L := 1, nl0C := 8, endL := 14, endC := 1, nl1L := 14, nl1C := 10, eofL := 15, eofC := 1 }
def oExPos (i : Nat) : CPos :=
  [ (⟨0, 0, 2, 1, 2, 0, 3, 0⟩ : CPos),     -- A:
    ⟨3, 1, 3, 3, 0, 0, 8, 0⟩,               --   // la
    ⟨4, 1, 4, 3, 4, 0, 5, 0⟩,               --   B:
    ⟨5, 1, 5, 5, 6, 8, 15, 10⟩,             --     X::1 // tx
    ⟨6, 1, 6, 5, 0, 0, 11, 0⟩,              --     // ob1
    ⟨7, 1, 7, 5, 0, 0, 11, 0⟩,              --     // ob2
    ⟨8, 1, 8, 3, 0, 0, 8, 0⟩,               --   // oa
    ⟨0, 0, 9, 1, 2, 0, 3, 0⟩,               -- E:
    ⟨10, 1, 10, 3, 0, 0, 10, 0⟩,            --   // only
    ⟨0, 0, 11, 1, 0, 0, 6, 0⟩,              -- // lz
    ⟨0, 0, 12, 1, 2, 4, 8, 0⟩,              -- Z::true
    ⟨0, 0, 13, 1, 0, 0, 6, 0⟩ ].getD i default   -- // dt
def oExNodes : List ONode :=
  [ .block "A".toList
      [ .block "B".toList [ .line "X".toList (.int 1 "1".toList) [] (some "tx".toList) ] ["ob1".toList, "ob2".toList] ["la".toList] ]
      ["oa".toList] [],
    .block "E".toList [] ["only".toList] [],
    .line "Z".toList (.bool true) ["lz".toList] none ]
def oExTrailing : List Str := ["dt".toList]

/-- the lexer model produces exactly `oTreeToks` on the example text, with no repairs. -/
theorem oExText_lexes : Lexer.tokenize Env.ascii (stripFrontmatter Env.ascii oExText).1
    = .ok (oTreeToks oExFrame "D".toList oExPos oExNodes oExTrailing, []) := by
  have h : (match Lexer.tokenize Env.ascii (stripFrontmatter Env.ascii oExText).1 with
      | .ok p => p == (oTreeToks oExFrame "D".toList oExPos oExNodes oExTrailing, []) | .error _ => false) = true := by decide +kernel
  cases hx : Lexer.tokenize Env.ascii (stripFrontmatter Env.ascii oExText).1 with
  | error e => rw [hx] at h; cases h
  | ok p => rw [hx] at h; simp only [beq_iff_eq] at h; rw [h]

def oExDoc : Document :=
  { name := "D".toList,
    sections :=
      [ .block "A".toList
          [ .block "B".toList [ .assign "X".toList (.int 1) 5 5 [] (some "tx".toList), .comment "ob1".toList, .comment "ob2".toList ]
              4 3 ["la".toList] none,
            .comment "oa".toList ] 2 1 [] none,
        .block "E".toList [ .comment "only".toList ] 9 1 [] none,
        .assign "Z".toList (.bool true) 12 1 ["lz".toList] none ],
    trailingComments := ["dt".toList] }

example : oTreeDoc "D".toList oExPos oExNodes oExTrailing = oExDoc := rfl

example : CommentOrphans.canonColsList oExPos oExNodes 0 0 = true := by decide

set_option maxRecDepth 4096 in
/-- the theorem applied (not evaluated). -/
example : Parser.parse Env.ascii oExText = .ok oExDoc :=
  C02_otree_text_read Env.ascii oExText oExFrame _ oExPos oExNodes oExTrailing [] oExText_lexes rfl (by decide)

/-- the whole model evaluated on the same text gives the same document (independent of the theorem). -/
example : Parser.parse Env.ascii oExText = .ok oExDoc :=
  isOkDocC_sound (by decide +kernel)

/-- a symbolic instance: orphans after a nested block, a block with orphans only as the last child, all positions and texts
arbitrary (columns of the block keys as the lexer gives them). -/
example (env : Env) (f : Frame) (pos : Nat → CPos) (a b c e : Str) (v : Scalar)
    (h0 : (pos 0).c1 = 1) (h1 : (pos 1).c1 = 3) (h5 : (pos 5).c1 = 3) :
    parseToks env (oTreeToks f "DOC".toList pos
      [ .block "A".toList                                              -- line 0: A:
          [ .block "B".toList [ .line "X".toList v [a] none ] [b] [],  -- line 1: B:   2: // a   3: X::v   4: // b (orphan of B)
            .block "C".toList [] [c, e] [] ]                            -- line 5: C:   6, 7: // c, // e (orphans of C)
          [a] [] ] [])                                                  -- line 8: // a (orphan of A)
    = .ok { name := "DOC".toList,
            sections :=
              [ .block "A".toList
                  [ .block "B".toList [ .assign "X".toList v.val (pos 3).l (pos 3).c1 [a] none, .comment b ] (pos 1).l (pos 1).c1 [] none,
                    .block "C".toList [ .comment c, .comment e ] (pos 5).l (pos 5).c1 [] none,
                    .comment a ] (pos 0).l (pos 0).c1 [] none ] } :=
  C02_otree_document_read env f _ pos _ _ (by simp [metaFirstO, ONode.lead, ONode.key])
    (by simp [CommentOrphans.colsOkList, ONode.colsOk, ONode.lines, CommentOrphans.linesList, ONode.lead, h0, h1, h5])

end Octave.C02
